"""T1: process-wide mutable state of the library and how every access to it is protected.

From the (comment-stripped, unpreprocessed) library sources named in Makefile.am:
  * every `static` variable at file scope or inside a function that is neither const nor a function (the library's
    process-wide state), and every `struct` type that lives behind such a variable (list elements);
  * every access site (variable name, or dereference of a pointer to such a struct) with its enclosing function and
    its protection:
      init       - the declaration's initialiser, or inside a function that only runs from library constructors
      atomic     - the operand of an __atomic_* builtin
      lock:<L>   - between ut_mutex_lock(&L) / ut_mutex_unlock(&L) (or the file's lock/unlock helpers) in the same
                   function, or in a function all of whose call sites are lock-covered by the same lock
      fresh      - a dereference of an object that this function has just allocated and not yet published
      none       - anything else
  * non-atomic read-modify-write through separate atomic operations: an __atomic_store_n to a variable whose stored
    expression depends on a local assigned from an __atomic_load_n of the same variable, outside any lock.
"""
import os, re
import importlib.util

HERE = os.path.dirname(os.path.abspath(__file__))
spec = importlib.util.spec_from_file_location("ext_sites", os.path.join(HERE, "ext_sites.py"))
es = importlib.util.module_from_spec(spec)
spec.loader.exec_module(es)

LOCK_CALLS = re.compile(r"\b(ut_mutex_lock|pthread_mutex_lock)\s*\(\s*&\s*([A-Za-z_][\w\.\->]*)\s*\)")
UNLOCK_CALLS = re.compile(r"\b(ut_mutex_unlock|pthread_mutex_unlock)\s*\(\s*&\s*([A-Za-z_][\w\.\->]*)\s*\)")


def decls(src):
    """(name, pos, is_mutex, type text) of static mutable variables at file scope or in functions"""
    out = []
    for m in re.finditer(r"(?m)^[ \t]*static\s+([^;=\[\(\{]+?)\s*(\[[^\]]*\])?\s*(=[^;]*)?;", src):
        decl = m.group(1).strip()
        mm = re.match(r"^(.*?)(\**)\s*([A-Za-z_]\w*)$", decl, re.S)
        if not mm:
            continue
        ty, stars, name = mm.group(1).strip(), mm.group(2), mm.group(3)
        if not ty or re.search(r"\bconst\b", ty) or "__thread" in ty:
            continue                      # constants; thread-local storage is not shared
        if "xcm_tp_ops" in ty:
            continue                      # operation tables: written by nobody after static initialisation
        out.append((name, m.start(1) + decl.rfind(name), "pthread_mutex_t" in ty, (ty + " " + stars).strip()))
    return out


def lock_helpers(funcs):
    """functions of this file that only take / release a mutex: name -> ('lock'|'unlock', mutex expr)"""
    h = {}
    for name, _, _, body in funcs:
        ls, us = LOCK_CALLS.findall(body), UNLOCK_CALLS.findall(body)
        if len(ls) == 1 and not us and body.count(";") <= 2:
            h[name] = ("lock", ls[0][1])
        if len(us) == 1 and not ls and body.count(";") <= 2:
            h[name] = ("unlock", us[0][1])
    return h


def norm_lock(expr):
    return re.sub(r"^\w+->", "", expr).replace("cache->", "")


def locked_spans(body, helpers):
    """[(start, end, lock)] regions of a function body in which a lock is held (linear scan)"""
    events = []
    for m in LOCK_CALLS.finditer(body):
        events.append((m.end(), "lock", norm_lock(m.group(2))))
    for m in UNLOCK_CALLS.finditer(body):
        events.append((m.start(), "unlock", norm_lock(m.group(2))))
    for h, (kind, lk) in helpers.items():
        for m in re.finditer(r"\b%s\s*\(" % re.escape(h), body):
            events.append((m.end() if kind == "lock" else m.start(), kind, norm_lock(lk)))
    events.sort()
    spans, held = [], {}
    for pos, kind, lk in events:
        if kind == "lock":
            held.setdefault(lk, pos)
        elif lk in held:
            spans.append((held.pop(lk), pos, lk))
    for lk, pos in held.items():
        spans.append((pos, len(body), lk))
    return spans


def generate(repo):
    files = es.lib_sources(repo) + ["common/util.c", "common/slist.c", "common/common_ctl.c"]
    files = [f for i, f in enumerate(files) if f not in files[:i] and os.path.exists(os.path.join(repo, f))]
    srcs = {f: es.strip_comments(open(os.path.join(repo, f)).read()) for f in files}
    funcs = {f: es.functions(s) for f, s in srcs.items()}
    # functions that only run from library constructors
    ctor = set()
    for f, s in srcs.items():
        for m in re.finditer(r"static\s+void\s+(\w+)\s*\(\s*void\s*\)\s*__attribute__\s*\(\(\s*constructor", s):
            ctor.add(m.group(1))
        for m in re.finditer(r"__attribute__\s*\(\(\s*constructor[^)]*\)\)\s*(?:static\s+)?void\s+(\w+)", s):
            ctor.add(m.group(1))
    allfuncs = [(f, n, a, b, body) for f in files for (n, a, b, body) in funcs[f]]
    callers = {}
    for f, n, a, b, body in allfuncs:
        for m in re.finditer(r"\b([A-Za-z_]\w*)\s*\(", body):
            callers.setdefault(m.group(1), set()).add((f, n))
    init_only = set(ctor)
    changed = True
    while changed:
        changed = False
        for f, n, a, b, body in allfuncs:
            if n in init_only or n not in callers:
                continue
            if all(cn in init_only for (_, cn) in callers[n]):
                init_only.add(n)
                changed = True
    rows, structs_behind, rmw = [], {}, []
    for f in files:
        src = srcs[f]
        ds = decls(src)
        helpers = lock_helpers(funcs[f])
        # struct types that live behind a static global of this file: closure through members and LIST_HEADs
        heads = dict(re.findall(r"LIST_HEAD\s*\(\s*(\w+)\s*,\s*(\w+)\s*\)", src))
        bodies = dict(re.findall(r"struct\s+(\w+)\s*\{([^}]*)\}", src))
        guarded_types, work = set(), []
        for name, pos, is_mutex, ty in ds:
            m = re.search(r"struct\s+(\w+)", ty)
            if m and not is_mutex and "*" not in ty:
                work.append(m.group(1))
        while work:
            t = work.pop()
            if t in heads:
                t2 = heads[t]
                if t2 not in guarded_types:
                    guarded_types.add(t2); work.append(t2)
            for mem in re.findall(r"struct\s+(\w+)\s+\w+\s*;", bodies.get(t, "")):
                if mem not in guarded_types and (mem in heads or mem in bodies):
                    if mem in bodies:
                        guarded_types.add(mem)
                    work.append(mem)
        guarded_types -= {"xcm_tp_proto", "xcm_tp_ops", "cache"}
        # lock-covered functions of this file (fixpoint over call sites)
        spans = {n: locked_spans(body, helpers) for (n, a, b, body) in funcs[f]}
        covered = {}
        changed = True
        while changed:
            changed = False
            for (n, a, b, body) in funcs[f]:
                if n in covered or n in helpers:
                    continue
                sites = []
                for (cn, ca, cb, cbody) in funcs[f]:
                    for m in re.finditer(r"\b%s\s*\(" % re.escape(n), cbody):
                        lk = [l for (s0, s1, l) in spans[cn] if s0 <= m.start() < s1]
                        sites.append(lk[0] if lk else covered.get(cn))
                ext = [x for x in callers.get(n, ()) if x[0] != f]
                if sites and not ext and all(s is not None for s in sites) and len(set(sites)) == 1:
                    covered[n] = sites[0]
                    changed = True

        def protection(fn, body, pos, what):
            if fn in init_only:
                return "init"
            if fn in helpers:
                return "lockop"
            call = re.search(r"\b(\w+)\s*\(\s*&?\s*$", body[max(0, pos - 60):pos])
            if call and (call.group(1) in helpers or call.group(1) in ("ut_mutex_lock", "ut_mutex_unlock", "ut_mutex_init")):
                return "lockop"
            # address handed to a helper of this file whose parameter is only used inside __atomic_* builtins
            am = re.search(r"\b(\w+)\s*\(([^()]*)&\s*$", body[max(0, pos - 120):pos])
            if am:
                g = [x for x in funcs[f] if x[0] == am.group(1)]
                if g:
                    argi = am.group(2).count(",")
                    hdr = src[max(0, g[0][1] - 300):g[0][1]]
                    hdr = hdr[hdr.rfind(g[0][0]):]
                    params = re.findall(r"(\w+)\s*(?:,|\))", hdr)
                    if argi < len(params):
                        pn = params[argi]
                        uses = [m2.start() for m2 in re.finditer(r"(?<![\w\.>])%s\b" % re.escape(pn), g[0][3])]
                        if uses and all(re.search(r"__atomic_\w+\s*\(\s*$", g[0][3][max(0, u - 40):u]) for u in uses):
                            return "atomic"
            pre = body[max(0, pos - 60):pos]
            if re.search(r"__atomic_\w+\s*\(\s*&?\s*$", pre) or re.search(r"__atomic_\w+\s*\(\s*&?\s*\(?\s*$", pre):
                return "atomic"
            lk = [l for (s0, s1, l) in spans[fn] if s0 <= pos < s1]
            if lk:
                return "lock:" + lk[0]
            if fn in covered:
                return "lock:" + covered[fn]
            return "none"
        for name, dpos, is_mutex, ty in ds:
            if is_mutex:
                continue
            for (fn, a, b, body) in funcs[f]:
                for m in re.finditer(r"(?<![\w\.>])%s\b" % re.escape(name), body):
                    if a + m.start() == dpos:
                        continue          # the declaration itself (function-level static): its initialiser
                    p = protection(fn, body, m.start(), name)
                    # a function-level static declared in this function: skip the declaration text
                    if re.search(r"static[^;]*$", body[max(0, m.start() - 80):m.start()].split(";")[-1]):
                        p = "init"
                    after = body[m.end():m.end() + 80]
                    before = body[max(0, m.start() - 40):m.start()]
                    is_write = bool(re.match(r"(\s*\[[^\]]*\])*(\s*(\.|->)\s*\w+)*\s*(=(?!=)|\+\+|--|\+=|-=|\|=|&=)", after)) or \
                        bool(re.search(r"(\+\+|--)\s*$", before)) or \
                        bool(re.search(r"\b(strcpy|strncpy|memcpy|memset|snprintf|LIST_INIT|LIST_INSERT_HEAD|LIST_REMOVE)\s*\(\s*&?\s*$", before)) or \
                        (bool(re.search(r"&\s*$", before)) and p == "none")
                    rows.append((f, name, fn, src.count("\n", 0, a + m.start()) + 1, p, is_write))
                # non-atomic read-modify-write through separate atomic operations
                loads = [(m2.group(1), m2.end()) for m2 in re.finditer(r"(\w+)\s*=\s*__atomic_load_n\s*\(\s*&\s*%s\b" % re.escape(name), body)]
                for st in re.finditer(r"__atomic_store_n\s*\(\s*&\s*%s\s*,\s*([^,]*)," % re.escape(name), body):
                    for v, pl in loads:
                        if pl < st.start() and re.search(r"\b%s\b" % re.escape(v), st.group(1)) and \
                                not re.search(r"\b%s\s*=(?!=)" % re.escape(v), body[pl:st.start()]):
                            if not [1 for (s0, s1, l) in spans[fn] if s0 <= st.start() < s1] and fn not in covered:
                                rmw.append((f, name, fn))
        # dereferences of pointers to guarded element types
        for t in sorted(guarded_types):
            for (fn, a, b, body) in funcs[f]:
                # pointer variables of that type in this function (parameters and locals)
                hdr = src[max(0, a - 300):a]
                hdr = hdr[hdr.rfind(fn):]
                ptrs = set(re.findall(r"struct\s+%s\s*\*\s*(\w+)" % t, hdr + body))
                fresh = set(re.findall(r"struct\s+%s\s*\*\s*(\w+)\s*=\s*ut_(?:malloc|calloc)" % t, body))
                for pv in sorted(ptrs):
                    for m in re.finditer(r"(?<![\w\.>])%s\s*->\s*(\w+)" % re.escape(pv), body):
                        p = "fresh" if pv in fresh else protection(fn, body, m.start(), pv)
                        rows.append((f, "%s.%s" % (t, m.group(1)), fn, src.count("\n", 0, a + m.start()) + 1, p, True))
    # a variable written only during library initialisation may be read without protection afterwards
    final = []
    for (f, v, fn, ln, p, w) in rows:
        if p == "none" and not w and "." not in v:
            ws = [r for r in rows if r[0] == f and r[1] == v and r[5]]
            if all(r[4] == "init" for r in ws):
                p = "ro-after-init"
        final.append((f, v, fn, ln, p))
    rows = final
    L = ["/- GENERATED by extract/ext_globals.py from the library sources - do not edit. -/",
         "namespace XcmModel.Generated", "",
         "/-- (file, variable or guarded-struct field, function, line, protection kind, lock name)",
         "kinds: 0 none, 1 init, 2 atomic, 3 lock, 4 ro-after-init, 5 fresh, 6 lockop -/",
         "def globalSites : List (String × String × String × Nat × Nat × String) := ["]
    KIND = {"none": 0, "init": 1, "atomic": 2, "ro-after-init": 4, "fresh": 5, "lockop": 6}
    L.append(",\n".join("  (%s, %s, %s, %d, %d, %s)" % (es.lean_str(f), es.lean_str(v), es.lean_str(fn), ln,
                                                         3 if p.startswith("lock:") else KIND[p], es.lean_str(p[5:] if p.startswith("lock:") else ""))
                        for f, v, fn, ln, p in rows))
    L += ["]", "", "/-- read-modify-write of a shared variable through separate atomic load and store, outside any lock -/",
          "def nonAtomicRmw : List (String × String × String) := ["]
    L.append(",\n".join("  (%s, %s, %s)" % (es.lean_str(f), es.lean_str(v), es.lean_str(fn)) for f, v, fn in rmw))
    L += ["]", "", "end XcmModel.Generated", ""]
    return [("Globals", "\n".join(L))]


if __name__ == "__main__":
    import sys
    for name, text in generate(sys.argv[1] if len(sys.argv) > 1 else "/repo"):
        print(text)
