"""T1: waiting primitives, descriptor-creation sites and calls of the blocking helpers, per function.

From the (comment-stripped, unpreprocessed) library sources named in Makefile.am:
  waitSites   : every call of poll/ppoll/select/pselect/epoll_wait/epoll_pwait/nanosleep/usleep/sleep with
                the enclosing function and the text of its timeout argument
  sockSites   : every socket()/accept4()/ut_accept() call with its flags argument (SOCK_NONBLOCK present?)
  helperCalls : every call of the blocking helpers (socket_wait, socket_finish, msg_bsend, bytestream_bsend,
                xcm_dns_resolve_sync) with the enclosing function and whether an enclosing `if`/`&&`
                condition mentions is_blocking (and with which polarity)
"""
import os, re

WAITS = ["poll", "ppoll", "select", "pselect", "epoll_wait", "epoll_pwait", "nanosleep", "usleep", "sleep"]
TIMEOUT_ARG = {"poll": 2, "ppoll": 2, "select": 4, "pselect": 4, "epoll_wait": 3, "epoll_pwait": 3,
               "nanosleep": 0, "usleep": 0, "sleep": 0}
HELPERS = ["socket_wait", "socket_finish", "msg_bsend", "bytestream_bsend", "xcm_dns_resolve_sync"]


def strip_comments(src):
    src = re.sub(r"/\*.*?\*/", lambda m: " " * len(m.group(0)), src, flags=re.S)
    src = re.sub(r"//[^\n]*", "", src)
    src = re.sub(r'"(\\.|[^"\\])*"', '""', src)
    return src


def lib_sources(repo):
    am = open(os.path.join(repo, "Makefile.am")).read().replace("\\\n", " ")
    srcs = []
    for m in re.finditer(r"libxcm_la_SOURCES\s*\+?=\s*(.*)", am):
        srcs += [s for s in m.group(1).split() if s.endswith(".c")]
    out = []
    for s in sorted(set(srcs)):
        if "sctp" in s or "lttng" in s or "xcm_dns_glibc" in s:
            continue           # not configured in this build (SCTP, LTTng off; c-ares resolver on)
        if os.path.exists(os.path.join(repo, s)):
            out.append(s)
    return out


def functions(src):
    out = []
    for m in re.finditer(r"\b([A-Za-z_]\w*)\s*\(([^;{}()]|\([^()]*\))*\)\s*\{", src):
        name = m.group(1)
        if name in ("if", "for", "while", "switch", "sizeof", "return", "do", "else"):
            continue
        i = m.end()
        depth = 1
        while i < len(src) and depth:
            depth += (src[i] == "{") - (src[i] == "}")
            i += 1
        out.append((name, m.end(), i, src[m.end():i]))
    return out


def call_args(body, pos):
    """arguments of the call whose '(' is at body[pos]"""
    i = pos + 1
    depth = 1
    cur, args = "", []
    while i < len(body) and depth:
        c = body[i]
        if c == "(":
            depth += 1
        elif c == ")":
            depth -= 1
            if depth == 0:
                break
        if c == "," and depth == 1:
            args.append(cur.strip())
            cur = ""
        else:
            cur += c
        i += 1
    args.append(cur.strip())
    return [re.sub(r"\s+", " ", a) for a in args]


def guard_of(body, pos):
    """'blocking' / 'notblocking' / 'none': does an enclosing if-condition, or the && chain the call sits
    in, mention is_blocking?"""
    # the statement the call is in, up to the call
    st = body.rfind(";", 0, pos)
    st2 = max(body.rfind("{", 0, pos), body.rfind("}", 0, pos), st)
    here = body[st2 + 1:pos]
    conds = [here]
    # enclosing blocks: walk back matching braces, collect the header text before each enclosing '{'
    depth = 0
    i = pos
    while i > 0:
        i -= 1
        c = body[i]
        if c == "}":
            depth += 1
        elif c == "{":
            if depth == 0:
                j = max(body.rfind(";", 0, i), body.rfind("}", 0, i), body.rfind("{", 0, i))
                conds.append(body[j + 1:i])
            else:
                depth -= 1
    for c in conds:
        c = re.sub(r"\s+", " ", c)
        if "is_blocking" in c:
            if re.search(r"!\s*[\w>.\-]*is_blocking", c):
                return "notblocking"
            return "blocking"
    return "none"


def lean_str(s):
    return '"' + s.replace("\\", "\\\\").replace('"', '\\"') + '"'


def generate(repo):
    waits, socks, helpers = [], [], []
    for rel in sorted(set(lib_sources(repo) + ["common/util.c"])):
        p = os.path.join(repo, rel)
        if not os.path.exists(p):
            continue
        src = strip_comments(open(p, errors="replace").read())
        base = os.path.basename(rel)
        for fname, b0, b1, body in functions(src):
            for m in re.finditer(r"(?<![\w.>])(%s)\s*\(" % "|".join(WAITS), body):
                args = call_args(body, m.end() - 1)
                k = TIMEOUT_ARG[m.group(1)]
                waits.append((base, fname, m.group(1), args[k] if k < len(args) else "?"))
            for m in re.finditer(r"(?<![\w.>])(socket|accept4|ut_accept)\s*\(", body):
                args = call_args(body, m.end() - 1)
                flags = args[1] if m.group(1) == "socket" else args[3] if len(args) > 3 else "?"
                socks.append((base, fname, m.group(1), flags))
            for m in re.finditer(r"(?<![\w.>])(%s)\s*\(" % "|".join(HELPERS), body):
                helpers.append((base, fname, m.group(1), guard_of(body, m.start())))
    L = ["/- GENERATED by extract/ext_sites.py from /repo - do not edit. -/", "namespace XcmModel.Generated", "",
         "structure WaitSite where", "  file : String", "  func : String", "  callee : String", "  timeout : String",
         "  zeroTimeout : Bool",
         "  deriving DecidableEq, Repr", "",
         "structure SockSite where", "  file : String", "  func : String", "  callee : String", "  flags : String",
         "  nonblock : Bool",
         "  deriving DecidableEq, Repr", "",
         "structure HelperCall where", "  file : String", "  func : String", "  callee : String", "  guard : String",
         "  deriving DecidableEq, Repr", ""]
    L.append("def waitSites : List WaitSite := [\n" + ",\n".join(
        "  { file := %s, func := %s, callee := %s, timeout := %s, zeroTimeout := %s }" % (tuple(map(lean_str, w)) + ("true" if w[3].strip() == "0" else "false",)) for w in waits) + "\n]\n")
    L.append("def sockSites : List SockSite := [\n" + ",\n".join(
        "  { file := %s, func := %s, callee := %s, flags := %s, nonblock := %s }" % (tuple(map(lean_str, w)) + ("true" if "SOCK_NONBLOCK" in w[3] else "false",)) for w in socks) + "\n]\n")
    L.append("def helperCalls : List HelperCall := [\n" + ",\n".join(
        "  { file := %s, func := %s, callee := %s, guard := %s }" % tuple(map(lean_str, w)) for w in helpers) + "\n]\n")
    L += ["end XcmModel.Generated", ""]
    return [("Sites", "\n".join(L))]
