#!/usr/bin/env python3
"""T1 extractor: regenerates lean/XcmModel/Generated/*.lean from /repo's working tree.

Only *declarative* facts are extracted (numeric limits, enum orders, tables);
behaviour is tied by the correspondence harnesses (T2).  The values are obtained
by compiling and running a tiny C program against the repository's own headers /
#define lines, so that the C preprocessor and compiler - not a regex - decide what
a macro evaluates to.
"""
import os, re, subprocess, sys, hashlib, tempfile

REPO = os.environ.get("XCM_REPO", "/repo")
HERE = os.path.dirname(os.path.abspath(__file__))
OUT = os.path.join(os.path.dirname(HERE), "lean", "XcmModel", "Generated")

INCS = ["include", "common", "libxcm/core", "libxcm/tp/common", "libxcm/tp/ux",
        "libxcm/tp/tcp", "libxcm/tp/dns", "libxcm/tp/tls", "libxcm/ctl"]

# (lean name, file the #define lives in (a .c file => the line is copied), C expression)
CONSTS = [
    ("MBUF_MSG_MAX", "libxcm/tp/common/mbuf.h", None),
    ("MBUF_HDR_LEN", "libxcm/tp/common/mbuf.h", None),
    ("MBUF_WIRE_MAX", "libxcm/tp/common/mbuf.h", None),
    ("UX_MAX_MSG", "libxcm/tp/ux/xcm_tp_ux.c", None),
    ("XCM_ADDR_MAX_PROTO_LEN", "common/xcm_addr_limits.h", None),
    ("XCM_ADDR_MAX_HOST_LEN", "common/xcm_addr_limits.h", None),
    ("XCM_ADDR_MAX_PORT_LEN", "common/xcm_addr_limits.h", None),
    ("XCM_ADDR_MAX_TOTAL_SEP_LEN", "common/xcm_addr_limits.h", None),
    ("XCM_ADDR_MAX", "common/xcm_addr_limits.h", None),
    ("UX_NAME_MAX", "common/xcm_addr_limits.h", None),
    ("UNIX_PATH_MAX", "<linux/un.h>", None),
    ("DNS_MAX_LEN", "libxcm/tp/dns/xcm_dns.c", None),
    ("ATTR_PATH_NAME_MAX", "libxcm/core/attr_path.h", None),
    ("ATTR_PATH_COMP_MAX", "libxcm/core/attr_path.h", None),
    ("XCM_ATTR_NAME_MAX", "common/xcm_attr_limits.h", None),
    ("CTL_ATTR_VALUE_MAX", "common/ctl_proto.h", None),
    ("CTL_PROTO_MAX_ATTRS", "common/ctl_proto.h", None),
    ("CTL_MAX_CLIENTS", "libxcm/ctl/ctl.c", "MAX_CLIENTS"),
    ("MAX_USERS_PER_FD", "libxcm/tp/common/active_fd.c", None),
    ("XCM_DNS_MAX_RESULT_SIZE", "libxcm/tp/dns/xcm_dns.h", None),
    ("XCM_SO_RECEIVABLE", "include/xcm.h", None),
    ("XCM_SO_SENDABLE", "include/xcm.h", None),
    ("XCM_SO_ACCEPTABLE", "include/xcm.h", None),
    ("XCM_TCP_KEEPALIVE", "libxcm/tp/tcp/tcp_attr.h", None),
    ("XCM_TCP_KEEPALIVE_TIME", "libxcm/tp/tcp/tcp_attr.h", None),
    ("XCM_TCP_KEEPALIVE_INTERVAL", "libxcm/tp/tcp/tcp_attr.h", None),
    ("XCM_TCP_KEEPALIVE_COUNT", "libxcm/tp/tcp/tcp_attr.h", None),
    ("XCM_TCP_USER_TIMEOUT", "libxcm/tp/tcp/tcp_attr.h", None),
    ("XCM_TCP_MAX_SYN_RETRANSMITS", "libxcm/tp/tcp/tcp_attr.h", None),
    ("MAX_NUM_TRACKS", "libxcm/tp/tcp/tconnect.c", None),
    ("XCM_TP_NUM_BYTESTREAM_CNTS", "libxcm/tp/common/xcm_tp.h", None),
    ("XCM_TP_NUM_MESSAGING_CNTS", "libxcm/tp/common/xcm_tp.h", None),
    ("MAX_SKIPPED_CTL_CALLS", "libxcm/tp/common/xcm_tp.c", None),
    ("MAX_WAKEUPS_PER_CTL_CHECK", "libxcm/tp/common/xcm_tp.c", None),
    ("MAX_PENDING_WRITE", "libxcm/tp/tls/xcm_tp_btls.c", None),
    ("DNS_DEFAULT_OVERALL_TIMEOUT", "libxcm/tp/dns/xcm_dns_cares.c", "DEFAULT_OVERALL_TIMEOUT"),
]

# (lean name, header to #include, C expression)
EXPRS = [
    ("CTL_PROTO_MSG_SIZE", "ctl_proto.h", "sizeof(struct ctl_proto_msg)"),
]

ERRNOS = ["EPERM", "ENOENT", "EINTR", "EIO", "EBADF", "EAGAIN", "ENOMEM", "EACCES", "EFAULT",
          "EBUSY", "EEXIST", "EINVAL", "ENFILE", "EMFILE", "ENOSPC", "EPIPE", "ERANGE",
          "ENAMETOOLONG", "ENOSYS", "EOVERFLOW", "EPROTO", "EMSGSIZE", "ENOPROTOOPT",
          "EPROTONOSUPPORT", "EAFNOSUPPORT", "EADDRINUSE", "EADDRNOTAVAIL", "ENETDOWN",
          "ENETUNREACH", "ECONNABORTED", "ECONNRESET", "ENOBUFS", "EISCONN", "ENOTCONN",
          "ETIMEDOUT", "ECONNREFUSED", "EHOSTUNREACH", "EALREADY", "EINPROGRESS", "ENOTSUP"]

# enums: (lean name, file, C enum tag)
ENUMS = [
    ("XcmAttrType", "include/xcm_attr_types.h", "xcm_attr_type"),
    ("XcmTpCnt", "libxcm/tp/common/xcm_tp.h", "xcm_tp_cnt"),
    ("BtcpConnState", "libxcm/tp/tcp/xcm_tp_btcp.c", "conn_state"),
    ("BtlsConnState", "libxcm/tp/tls/xcm_tp_btls.c", "conn_state"),
    ("CtlProtoType", "common/ctl_proto.h", "ctl_proto_type"),
]


def read(rel):
    with open(os.path.join(REPO, rel), errors="replace") as f:
        return f.read()


def define_text(rel, name):
    """Return the full text of `#define name ...` (with continuation lines)."""
    src = read(rel)
    m = re.search(r"^[ \t]*#[ \t]*define[ \t]+" + re.escape(name) + r"\b((?:.*\\\n)*.*)$", src, re.M)
    if not m:
        return None
    return "#define " + name + m.group(1)


def strip_comments(src):
    src = re.sub(r"/\*.*?\*/", " ", src, flags=re.S)
    src = re.sub(r"//[^\n]*", " ", src)
    return src


def enum_members(rel, tag):
    src = strip_comments(read(rel))
    m = re.search(r"enum\s+" + re.escape(tag) + r"\s*\{([^}]*)\}", src, re.S)
    if not m:
        return None
    names = []
    for part in m.group(1).split(","):
        part = part.strip()
        if not part:
            continue
        names.append(part.split("=")[0].strip())
    return names


def gen_consts():
    prog = ["#define _GNU_SOURCE", "#include <stdio.h>", "#include <stdint.h>", "#include <stdbool.h>",
            "#include <errno.h>", "#include <linux/un.h>", "#include <stddef.h>"]
    body = []
    missing = []
    for lean, rel, cname in CONSTS:
        cname = cname or lean
        if rel.startswith("<"):
            pass
        else:
            # the #define line itself is copied (with continuation lines), in table order, so
            # that macros defined in .c files and in headers with inline code are both reachable
            d = define_text(rel, cname)
            if d is None:
                missing.append(lean)
                continue
            prog.append("#undef " + cname)
            prog.append(d)
        body.append('  printf("%s %%lld\\n", (long long)(%s));' % (lean, cname))
    for e in ERRNOS:
        body.append('  printf("%s %%lld\\n", (long long)(%s));' % (e, e))
    for lean, hdr, expr in EXPRS:
        prog.append('#include "%s"' % hdr)
        body.append('  printf("%s %%lld\\n", (long long)(%s));' % (lean, expr))
    prog.append("int main(void) {")
    prog += body
    prog.append("  return 0; }")
    with tempfile.TemporaryDirectory(prefix="xcmverif-ext-") as td:
        c = os.path.join(td, "c.c")
        with open(c, "w") as f:
            f.write("\n".join(prog) + "\n")
        exe = os.path.join(td, "c")
        cmd = ["gcc", "-w", "-o", exe, c] + ["-I" + os.path.join(REPO, i) for i in INCS]
        r = subprocess.run(cmd, capture_output=True, text=True)
        if r.returncode != 0:
            sys.stderr.write(r.stderr)
            raise SystemExit("extract: constant dump program does not compile")
        out = subprocess.run([exe], capture_output=True, text=True, check=True).stdout
    vals = {}
    for line in out.splitlines():
        k, v = line.split()
        vals[k] = int(v)
    lines = ["/- GENERATED by extract/extract.py from /repo - do not edit. -/",
             "namespace XcmModel.Generated", ""]
    for lean, _, _ in CONSTS:
        if lean in vals:
            lines.append("def %s : Nat := %d" % (lean, vals[lean]))
        else:
            # a constant that vanished from the source: keep the name defined so that the
            # *theorems* (not the import) are what fails
            lines.append("def %s : Nat := 0 -- MISSING in source" % lean)
    for lean, _, _ in EXPRS:
        lines.append("def %s : Nat := %d" % (lean, vals.get(lean, 0)))
    lines.append("")
    for e in ERRNOS:
        lines.append("def %s : Nat := %d" % (e, vals[e]))
    lines.append("")
    lines.append("def errnoTable : List (String × Nat) := [%s]" % ", ".join('("%s", %d)' % (e, vals[e]) for e in ERRNOS))
    lines += ["", "end XcmModel.Generated", ""]
    return "\n".join(lines), missing


def gen_enums():
    lines = ["/- GENERATED by extract/extract.py from /repo - do not edit. -/",
             "namespace XcmModel.Generated", ""]
    for lean, rel, tag in ENUMS:
        names = enum_members(rel, tag) or []
        lines.append("def %s : List String := [%s]" % (lean, ", ".join('"%s"' % n for n in names)))
    lines += ["", "end XcmModel.Generated", ""]
    return "\n".join(lines)


def write_if_changed(path, text):
    old = None
    if os.path.exists(path):
        with open(path) as f:
            old = f.read()
    if old != text:
        tmp = path + ".tmp%d" % os.getpid()
        with open(tmp, "w") as f:
            f.write(text)
        os.replace(tmp, path)
        return True
    return False


def main():
    os.makedirs(OUT, exist_ok=True)
    changed = []
    consts, missing = gen_consts()
    if write_if_changed(os.path.join(OUT, "Consts.lean"), consts):
        changed.append("Consts")
    if write_if_changed(os.path.join(OUT, "Enums.lean"), gen_enums()):
        changed.append("Enums")
    # further generated tables are produced by the modules below (kept separate so that a
    # failure to extract one table does not hide the others)
    for modname in ("ext_attrs", "ext_sites", "ext_globals", "ext_funcs", "ext_owner"):
        p = os.path.join(HERE, modname + ".py")
        if os.path.exists(p):
            import importlib.util
            spec = importlib.util.spec_from_file_location(modname, p)
            mod = importlib.util.module_from_spec(spec)
            spec.loader.exec_module(mod)
            for name, text in mod.generate(REPO):
                if write_if_changed(os.path.join(OUT, name + ".lean"), text):
                    changed.append(name)
    print("extract: changed=%s missing=%s" % (changed, missing))


if __name__ == "__main__":
    main()
