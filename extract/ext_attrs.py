"""T1: the attribute table.  Every `attr_tree_add_value_node(...)` site of the library (after macro
expansion by the C preprocessor, so ATTR_TREE_ADD_RW/RO, XCM_ATTR_* names and the GEN_* getter
generators are all resolved by gcc, not by this script) becomes one row
    (file, name, value type, writable, setter, getter, getter kind)
The *getter kind* is a classification of the (preprocessed) getter body by the bounded-copy idiom
it uses; a getter that matches no known idiom is `unknown`, and the C10 table theorem then fails."""
import json, os, re, subprocess

INCS = ["include", "common", "libxcm/core", "libxcm/tp/common", "libxcm/tp/ux",
        "libxcm/tp/tcp", "libxcm/tp/dns", "libxcm/tp/tls", "libxcm/ctl"]
FILES = ["libxcm/tp/common/xcm_tp.c", "libxcm/tp/ux/xcm_tp_ux.c", "libxcm/tp/tcp/xcm_tp_btcp.c",
         "libxcm/tp/tcp/xcm_tp_tcp.c", "libxcm/tp/tls/xcm_tp_btls.c", "libxcm/tp/tls/xcm_tp_tls.c",
         "libxcm/tp/tls/xcm_tp_utls.c", "libxcm/tp/tcp/tcp_attr.c", "libxcm/tp/common/dns_attr.c"]
TYPES = {"xcm_attr_type_bool": "bool", "xcm_attr_type_int64": "int64", "xcm_attr_type_double": "double",
         "xcm_attr_type_str": "str", "xcm_attr_type_bin": "bin"}


def preprocess(repo, rel):
    cmd = ["gcc", "-E", "-P", "-D_GNU_SOURCE", "-DXCM_VERIF"] + ["-I" + os.path.join(repo, i) for i in INCS] + \
          [os.path.join(repo, rel)]
    r = subprocess.run(cmd, capture_output=True, text=True)
    return r.stdout if r.returncode == 0 else ""


def functions(src):
    """name -> body text of every function *definition* in preprocessed C (brace matching)."""
    out = {}
    for m in re.finditer(r"\b([A-Za-z_]\w*)\s*\(([^;{}()]|\([^()]*\))*\)\s*\{", src):
        name = m.group(1)
        if name in ("if", "for", "while", "switch", "sizeof", "return"):
            continue
        i = m.end()
        depth = 1
        while i < len(src) and depth:
            c = src[i]
            depth += (c == "{") - (c == "}")
            i += 1
        out.setdefault(name, src[m.start():i])
    return out


def split_args(s):
    args, depth, cur = [], 0, ""
    for c in s:
        if c == "," and depth == 0:
            args.append(cur.strip())
            cur = ""
            continue
        depth += (c in "([") - (c in ")]")
        cur += c
    args.append(cur.strip())
    return args


NULLS = ("((void *)0)", "((void*)0)", "NULL", "0")


def buf_param(body):
    """name of the `void *X` parameter that precedes `size_t capacity` (or the last pointer parameter)"""
    head = body[:body.index("{")]
    m = re.search(r"\*\s*(\w+)\s*,\s*size_t\s+capacity", head)
    if m:
        return m.group(1)
    m = re.findall(r"\*\s*(\w+)\s*[,)]", head)
    return m[-1] if m else "value"


KNOWN_SINKS = {"xcm_tp_get_str_attr": "strChecked", "xcm_tp_get_bin_attr": "binChecked",
               "xcm_tp_get_bool_attr": "fixedUnchecked 1", "xcm_tp_get_double_attr": "fixedUnchecked 8"}


def classify(name, funs, depth=0):
    """getter kind from its (preprocessed) body"""
    body = funs.get(name)
    if body is None or depth > 4:
        return "unknown"
    b = re.sub(r"\s+", " ", body)
    b = re.sub(r"\(\{ struct xcm_socket \*_s = .*?; \}\)", "PRIV", b)
    buf = buf_param(b)
    has_cap = bool(re.search(r"\bcapacity\b", b[b.index("{"):]))
    kinds = set()
    B = re.escape(buf)
    for m in re.finditer(r"memcpy\s*\(\s*" + B + r"\s*,(.*?)\)\s*;", b):
        rest = m.group(1)
        ms = re.search(r",\s*sizeof\s*\(\s*([\w ]+?)\s*\)\s*$", rest)
        if ms:
            ty = ms.group(1)
            n = {"int64_t": 8, "_Bool": 1, "bool": 1, "double": 8}.get(ty)
            if n is None:
                kinds.add("unknown")
            elif re.search(r"capacity\s*<\s*sizeof\s*\(\s*" + re.escape(ty) + r"\s*\)", b):
                kinds.add("fixedChecked %d" % n)
            else:
                kinds.add("fixedUnchecked %d" % n)
        else:
            ml = re.search(r",\s*(\w+)\s*$", rest)
            ok = ml and re.search(r"\b" + re.escape(ml.group(1)) + r"\s*>\s*capacity", b)
            kinds.add("binChecked" if ok else "unknown")
    if re.search(r"strcpy\s*\(\s*" + B + r"\s*,", b):
        guarded = re.search(r">=\s*capacity", b) or re.search(r"capacity\s*<=", b)
        kinds.add("strChecked" if guarded else "unknown")
    if re.search(r"->\s*get\s*\(", b):
        kinds.add("delegate")
    # calls that receive the buffer
    for m in re.finditer(r"\b([A-Za-z_]\w*)\s*\(([^;{}]*)\)", b[b.index("{"):]):
        callee, args = m.group(1), m.group(2)
        if callee in (name, "memcpy", "strcpy", "strlen", "sizeof", "if", "while", "for", "switch", "return") or callee.startswith("log_"):
            continue
        if not re.search(r"(^|[,(\s])" + B + r"\s*(,|$)", args):
            continue
        if callee in KNOWN_SINKS:
            kinds.add(KNOWN_SINKS[callee] if re.search(r"\bcapacity\b", args) else "unknown")
        elif callee in funs:
            kinds.add(classify(callee, funs, depth + 1))
        else:
            # the buffer is handed to a function outside the library sources (OpenSSL wrapper, ...):
            # acceptable only under an explicit `len > capacity` guard
            kinds.add("binChecked" if re.search(r"\w+\s*>\s*capacity", b) else "unknown")
    if not kinds or "unknown" in kinds:
        return "unknown"
    if len(kinds) > 1:
        kinds.discard("delegate")
    if len(kinds) == 1:
        return kinds.pop()
    return "unknown"


def rows(repo):
    out = []
    srcs = {rel: preprocess(repo, rel) for rel in FILES}
    allfuns = {}
    for rel in FILES:
        for k, v in functions(srcs[rel]).items():
            allfuns.setdefault(k, v)
    for rel in FILES:
        src = srcs[rel]
        if not src:
            continue
        funs = dict(allfuns)
        funs.update(functions(src))
        for m in re.finditer(r"attr_tree_add_value_node\s*\(", src):
            i = m.end()
            depth = 1
            while i < len(src) and depth:
                depth += (src[i] == "(") - (src[i] == ")")
                i += 1
            args = split_args(src[m.end():i - 1])
            if len(args) != 7 or not args[1].startswith('"'):
                continue           # the definition/prototype itself
            name = "".join(re.findall(r'"([^"]*)"', args[1]))
            ty = TYPES.get(args[4], "unknown")
            setter = None if args[5] in NULLS else args[5]
            getter = None if args[6] in NULLS else args[6]
            kind = classify(getter, funs) if getter else "none"
            out.append(dict(file=os.path.basename(rel), name=name, type=ty, writable=setter is not None,
                            setter=setter or "-", getter=getter or "-", kind=kind))
        # list-element value nodes created directly (tls.peer.cert.san.*): attr_node_value(s, ctx, type, NULL, get)
        if rel.endswith("xcm_tp_btls.c"):
            for m in re.finditer(r"populate_conn_san\s*\(", src):
                i = m.end()
                depth = 1
                while i < len(src) and depth:
                    depth += (src[i] == "(") - (src[i] == ")")
                    i += 1
                args = split_args(src[m.end():i - 1])
                if len(args) != 6 or not args[2].startswith('"'):
                    continue
                path = "".join(re.findall(r'"([^"]*)"', args[2]))
                key = "".join(re.findall(r'"([^"]*)"', args[3])) if args[3] not in NULLS else None
                name = path + "[]" + ("." + key if key else "")
                out.append(dict(file="xcm_tp_btls.c", name=name, type="str", writable=False, setter="-",
                                getter=args[5], kind=classify(args[5], funs)))
    return out


def lean_str(s):
    return '"' + s.replace("\\", "\\\\").replace('"', '\\"') + '"'


def generate(repo):
    rs = rows(repo)
    L = ["/- GENERATED by extract/ext_attrs.py from /repo (preprocessed sources) - do not edit. -/",
         "namespace XcmModel.Generated", "",
         "inductive AType where | bool | int64 | double | str | bin | unknown",
         "  deriving DecidableEq, Repr", "",
         "inductive GKind where",
         "  | strChecked | binChecked | fixedChecked (n : Nat) | fixedUnchecked (n : Nat) | delegate | none | unknown",
         "  deriving DecidableEq, Repr", "",
         "structure AttrRow where",
         "  file : String", "  name : String", "  type : AType", "  writable : Bool",
         "  setter : String", "  getter : String", "  kind : GKind",
         "  deriving DecidableEq, Repr", "",
         "def attrTable : List AttrRow := ["]
    items = []
    for r in rs:
        k = r["kind"]
        kk = ("." + k.split()[0] + " " + k.split()[1]) if " " in k else "." + k
        items.append("  { file := %s, name := %s, type := .%s, writable := %s, setter := %s, getter := %s, kind := %s }" % (
            lean_str(r["file"]), lean_str(r["name"]), r["type"], "true" if r["writable"] else "false",
            lean_str(r["setter"]), lean_str(r["getter"]), kk if " " not in k else "(" + kk + ")"))
    L.append(",\n".join(items))
    L += ["]", "", "end XcmModel.Generated", ""]
    # machine-readable copy for the Python side of the checks
    try:
        with open(os.path.join(os.path.dirname(os.path.abspath(__file__)), "..", "lean", "XcmModel", "Generated", "attrs.json"), "w") as f:
            json.dump(rs, f, indent=1)
    except OSError:
        pass
    return [("Attrs", "\n".join(L))]
