"""T1b - a translator for small side-effect-free C functions: clang's typed AST (-ast-dump=json) of each listed function of
/repo's working tree is translated to a Lean definition in XcmModel/Generated/Funcs.lean on every run.  Props/Funcs.lean
proves each generated definition equal to the hand-written model function for all arguments, so for these functions the tie
between model and code is a theorem about what the source says now, not a sampled comparison.

Subset: parameters and locals of integer / bool type, `return`, `if` (with / without else), `switch` whose cases return,
local variable declarations and (compound) assignments, ?:, the operators && || ! == != < <= > >= + - * & | << , integer
literals, enum constants (value taken from clang), sizeof of bool / int64_t / double, field reads `p->f` of struct-pointer
parameters (the struct becomes one Lean parameter per field read), and calls to functions outside the list with plain
parameters as arguments (each becomes an extra Lean parameter: the callee's result).  Integers are translated to Nat
(every listed function only sees non-negative values: flag words, sizes, enum codes, option values validated positive);
anything outside the subset yields `unsupported`, which breaks the tie theorem instead of being guessed.
"""
import hashlib, json, os, subprocess

INCS = ["include", "common", "libxcm/core", "libxcm/tp/common", "libxcm/tp/ux", "libxcm/tp/tcp", "libxcm/tp/dns", "libxcm/tp/tls", "libxcm/ctl"]

# (C function, source file)
FUNCS = [
    ("conn_event", "libxcm/tp/ux/xcm_tp_ux.c"),
    ("server_event", "libxcm/tp/ux/xcm_tp_ux.c"),
    ("valid_set_attr_len", "libxcm/core/attr_tree.c"),
    ("tcp_opts_equal", "libxcm/tp/tcp/tcp_attr.c"),
    ("mbuf_is_hdr_valid", "libxcm/tp/tcp/xcm_tp_tcp.c"),
    ("next_capacity", "libxcm/core/xpoll.c"),
    ("is_special", "libxcm/core/attr_path.c"),
    ("is_key_char", "libxcm/core/attr_path.c"),
]

SIZEOF = {"bool": 1, "_Bool": 1, "int64_t": 8, "double": 8, "uint32_t": 4, "int": 4}


class Unsupported(Exception):
    pass


def clang_ast(repo, rel, filt):
    cmd = ["clang-14", "-std=gnu99", "-D_GNU_SOURCE", '-DSYSCONFDIR="/etc"', "-fsyntax-only", "-Xclang", "-ast-dump=json",
           "-Xclang", "-ast-dump-filter=" + filt] + ["-I" + os.path.join(repo, i) for i in INCS] + [os.path.join(repo, rel)]
    r = subprocess.run(cmd, capture_output=True, text=True)
    objs, dec, i, txt = [], json.JSONDecoder(), 0, r.stdout
    while i < len(txt):
        while i < len(txt) and txt[i].isspace():
            i += 1
        if i >= len(txt):
            break
        o, i = dec.raw_decode(txt, i)
        objs.append(o)
    return objs


def find_kind(n, kind):
    if n.get("kind") == kind:
        return n
    for c in n.get("inner", []):
        r = find_kind(c, kind)
        if r is not None:
            return r
    return None


class Tr:
    def __init__(self, repo, rel, name, enum_cache):
        self.repo, self.rel, self.name, self.enum_cache = repo, rel, name, enum_cache
        self.params = []          # (lean name, lean type) in order of first use / declaration
        self.ptr_params = set()

    def enum_value(self, name):
        """the compiler decides what an enum constant is worth: a snippet with the source file's own #include lines is
        compiled and run"""
        if name not in self.enum_cache:
            import re, tempfile
            src = open(os.path.join(self.repo, self.rel)).read()
            incs = re.findall(r'^[ \t]*#[ \t]*include[ \t]+[<"][^>"]+[>"]', src, re.M)
            prog = "#define _GNU_SOURCE\n" + "\n".join(incs) + "\n#include <stdio.h>\nint main(void) { printf(\"%lld\\n\", (long long)(" + name + ")); return 0; }\n"
            with tempfile.TemporaryDirectory() as d:
                c = os.path.join(d, "e.c")
                open(c, "w").write(prog)
                cmd = ["gcc", "-std=gnu99", '-DSYSCONFDIR="/etc"', "-o", os.path.join(d, "e"), c] + ["-I" + os.path.join(self.repo, i) for i in INCS] + ["-I" + os.path.dirname(os.path.join(self.repo, self.rel))]
                r = subprocess.run(cmd, capture_output=True, text=True)
                if r.returncode != 0:
                    raise Unsupported("enum constant %s: %s" % (name, r.stderr[-200:]))
                val = int(subprocess.run([os.path.join(d, "e")], capture_output=True, text=True).stdout.strip())
            if val < 0:
                raise Unsupported("negative enum constant %s" % name)
            self.enum_cache[name] = val
        return self.enum_cache[name]

    def add_param(self, lname, ltype):
        if (lname, ltype) not in self.params:
            self.params.append((lname, ltype))

    @staticmethod
    def is_bool_type(n):
        return n.get("type", {}).get("qualType", "").replace("const ", "").strip() in ("bool", "_Bool")

    # expressions: returns (lean text, 'b' | 'n')
    def as_bool(self, e):
        t, k = e
        return t if k == "b" else "(decide (%s ≠ 0))" % t

    def as_nat(self, e):
        t, k = e
        return t if k == "n" else "(if %s then 1 else 0)" % t

    def expr(self, n, env):
        k = n.get("kind")
        inner = n.get("inner", [])
        if k in ("ImplicitCastExpr", "ParenExpr", "ConstantExpr", "CStyleCastExpr"):
            return self.expr(inner[0], env)
        if k == "IntegerLiteral":
            return (str(int(n["value"])), "n")
        if k == "CharacterLiteral":
            return (str(int(n["value"])), "n")
        if k == "DeclRefExpr":
            rd = n["referencedDecl"]
            if rd["kind"] == "EnumConstantDecl":
                return (str(self.enum_value(rd["name"])), "n")
            if rd["kind"] in ("ParmVarDecl", "VarDecl"):
                if rd["name"] in env:
                    return env[rd["name"]]
                raise Unsupported("variable %s read before assignment" % rd["name"])
            raise Unsupported("reference to " + rd["kind"])
        if k == "MemberExpr":
            base = inner[0]
            while base.get("kind") in ("ImplicitCastExpr", "ParenExpr"):
                base = base["inner"][0]
            if base.get("kind") == "DeclRefExpr" and base["referencedDecl"]["name"] in self.ptr_params:
                lname = "c_%s_%s" % (base["referencedDecl"]["name"], n["name"])
                isb = self.is_bool_type(n)
                self.add_param(lname, "Bool" if isb else "Nat")
                return (lname, "b" if isb else "n")
            raise Unsupported("member access on something that is not a struct-pointer parameter")
        if k == "UnaryExprOrTypeTraitExpr" and n.get("name") == "sizeof":
            t = n.get("argType", {}).get("qualType")
            if t in SIZEOF:
                return (str(SIZEOF[t]), "n")
            raise Unsupported("sizeof(%s)" % t)
        if k == "UnaryOperator":
            op = n["opcode"]
            a = self.expr(inner[0], env)
            if op == "!":
                return ("(!%s)" % self.as_bool(a), "b")
            raise Unsupported("unary " + op)
        if k == "ConditionalOperator":
            c, a, b = (self.expr(x, env) for x in inner)
            if a[1] == "b" and b[1] == "b":
                return ("(if %s then %s else %s)" % (self.as_bool(c), a[0], b[0]), "b")
            return ("(if %s then %s else %s)" % (self.as_bool(c), self.as_nat(a), self.as_nat(b)), "n")
        if k == "BinaryOperator":
            op = n["opcode"]
            a, b = self.expr(inner[0], env), self.expr(inner[1], env)
            if op == "&&":
                return ("(%s && %s)" % (self.as_bool(a), self.as_bool(b)), "b")
            if op == "||":
                return ("(%s || %s)" % (self.as_bool(a), self.as_bool(b)), "b")
            if op in ("==", "!="):
                if a[1] == "b" and b[1] == "b":
                    return ("(%s %s %s)" % (a[0], op, b[0]), "b")
                return ("(decide (%s %s %s))" % (self.as_nat(a), "=" if op == "==" else "≠", self.as_nat(b)), "b")
            if op in ("<", "<=", ">", ">="):
                lop = {"<": "<", "<=": "≤", ">": ">", ">=": "≥"}[op]
                return ("(decide (%s %s %s))" % (self.as_nat(a), lop, self.as_nat(b)), "b")
            if op in ("+", "*"):
                return ("(%s %s %s)" % (self.as_nat(a), op, self.as_nat(b)), "n")
            if op == "&":
                return ("(%s &&& %s)" % (self.as_nat(a), self.as_nat(b)), "n")
            if op == "|":
                return ("(%s ||| %s)" % (self.as_nat(a), self.as_nat(b)), "n")
            if op == "<<":
                return ("(%s <<< %s)" % (self.as_nat(a), self.as_nat(b)), "n")
            raise Unsupported("binary " + op)
        if k == "CallExpr":
            callee = inner[0]
            while callee.get("kind") in ("ImplicitCastExpr", "ParenExpr"):
                callee = callee["inner"][0]
            if callee.get("kind") != "DeclRefExpr":
                raise Unsupported("indirect call")
            cname = callee["referencedDecl"]["name"]
            for a in inner[1:]:
                while a.get("kind") in ("ImplicitCastExpr", "ParenExpr"):
                    a = a["inner"][0]
                if a.get("kind") != "DeclRefExpr" or a["referencedDecl"]["kind"] != "ParmVarDecl":
                    raise Unsupported("call %s with a computed argument" % cname)
            isb = self.is_bool_type(n)
            self.add_param("r_" + cname, "Bool" if isb else "Nat")
            return ("r_" + cname, "b" if isb else "n")
        raise Unsupported("expression kind %s" % k)

    # statements: env maps variable -> expr; returns ('ret', expr) | ('env', env)
    def block(self, stmts, env, ret_bool):
        for idx, s in enumerate(stmts):
            k = s.get("kind")
            inner = s.get("inner", [])
            if k == "CompoundStmt":
                r = self.block(inner, env, ret_bool)
                if r[0] == "ret":
                    return r
                env = r[1]
            elif k == "DeclStmt":
                for v in inner:
                    if v.get("kind") != "VarDecl":
                        raise Unsupported("declaration of " + str(v.get("kind")))
                    if v.get("inner"):
                        env = dict(env); env[v["name"]] = self.expr(v["inner"][0], env)
            elif k == "ReturnStmt":
                e = self.expr(inner[0], env)
                return ("ret", (self.as_bool(e), "b") if ret_bool else (self.as_nat(e), "n"))
            elif k in ("CompoundAssignOperator", "BinaryOperator") and s.get("opcode") in ("=", "|=", "&=", "+="):
                lhs = inner[0]
                if lhs.get("kind") != "DeclRefExpr" or lhs["referencedDecl"]["kind"] != "VarDecl":
                    raise Unsupported("assignment to something that is not a local variable")
                v = lhs["referencedDecl"]["name"]
                rhs = self.expr(inner[1], env)
                op = s["opcode"]
                env = dict(env)
                if op == "=":
                    env[v] = rhs
                else:
                    lop = {"|=": "|||", "&=": "&&&", "+=": "+"}[op]
                    env[v] = ("(%s %s %s)" % (self.as_nat(env[v]), lop, self.as_nat(rhs)), "n")
            elif k == "IfStmt":
                c = self.as_bool(self.expr(inner[0], env))
                rest = stmts[idx + 1:]
                rt = self.block([inner[1]], env, ret_bool)
                re_ = self.block([inner[2]], env, ret_bool) if len(inner) > 2 else ("env", env)
                # continue each branch that did not return with the rest of the block
                if rt[0] == "env":
                    rt = self.block(rest, rt[1], ret_bool)
                if re_[0] == "env":
                    re_ = self.block(rest, re_[1], ret_bool)
                if rt[0] == "ret" and re_[0] == "ret":
                    return ("ret", ("(if %s then %s else %s)" % (c, rt[1][0], re_[1][0]), rt[1][1]))
                raise Unsupported("a path through an if statement does not return")
            elif k == "SwitchStmt":
                scrut = self.as_nat(self.expr(inner[0], env))
                body = inner[1].get("inner", [])
                arms, default, pending = [], None, []
                for cs in body:
                    node = cs
                    labels = []
                    while node.get("kind") in ("CaseStmt", "DefaultStmt"):
                        if node["kind"] == "CaseStmt":
                            ce = node["inner"][0]
                            lab = self.expr(ce, env)
                            if lab[1] != "n" or not lab[0].isdigit():
                                raise Unsupported("case label that is not a constant")
                            labels.append(int(lab[0]))
                            node = node["inner"][-1]
                        else:
                            labels.append(None)
                            node = node["inner"][-1]
                    r = self.block([node], env, ret_bool)
                    if r[0] != "ret":
                        raise Unsupported("a switch case that does not return")
                    for lb in labels:
                        if lb is None:
                            default = r[1]
                        else:
                            arms.append((lb, r[1]))
                if default is None:
                    r = self.block(stmts[idx + 1:], env, ret_bool)
                    if r[0] != "ret":
                        raise Unsupported("switch without default and nothing after it")
                    default = r[1]
                txt = default[0]
                for lb, e in reversed(arms):
                    txt = "(if %s = %d then %s else %s)" % (scrut, lb, e[0], txt)
                return ("ret", (txt, default[1]))
            elif k == "NullStmt":
                pass
            else:
                raise Unsupported("statement kind %s" % k)
        return ("env", env)

    def translate(self):
        fd = None
        for o in clang_ast(self.repo, self.rel, self.name):
            if o.get("kind") == "FunctionDecl" and o.get("name") == self.name and find_kind(o, "CompoundStmt") is not None:
                fd = o
        if fd is None:
            raise Unsupported("function not found")
        rett = fd["type"]["qualType"].split("(")[0].strip()
        ret_bool = rett in ("bool", "_Bool")
        env = {}
        body = None
        for c in fd.get("inner", []):
            if c.get("kind") == "ParmVarDecl":
                qt = c["type"]["qualType"]
                if "*" in qt:
                    self.ptr_params.add(c["name"])
                else:
                    isb = qt in ("bool", "_Bool")
                    self.add_param("c_" + c["name"], "Bool" if isb else "Nat")
                    env[c["name"]] = ("c_" + c["name"], "b" if isb else "n")
            elif c.get("kind") == "CompoundStmt":
                body = c
        r = self.block(body.get("inner", []), env, ret_bool)
        if r[0] != "ret":
            raise Unsupported("function body does not end in a return")
        return self.params, ("Bool" if ret_bool else "Nat"), r[1][0]


def generate(repo):
    srcs = sorted(set(rel for _, rel in FUNCS))
    h = hashlib.sha256()
    for d in INCS:
        p = os.path.join(repo, d)
        for f in sorted(os.listdir(p)):
            if f.endswith(".h"):
                with open(os.path.join(p, f), "rb") as fh:
                    h.update(f.encode() + fh.read())
    for rel in srcs:
        with open(os.path.join(repo, rel), "rb") as fh:
            h.update(fh.read())
    with open(os.path.abspath(__file__), "rb") as fh:
        h.update(fh.read())
    key = h.hexdigest()
    cache = os.path.join(os.path.dirname(os.path.dirname(os.path.abspath(__file__))), ".build", "funcs-" + key[:24] + ".lean")
    if os.path.exists(cache):
        return [("Funcs", open(cache).read())]
    lines = ["/- GENERATED by extract/ext_funcs.py from clang's AST of /repo's working tree - do not edit -/",
             "namespace XcmModel.Generated.Funcs", "",
             "/-- marks a function the translator could not translate; nothing can be proved about it -/",
             "opaque unsupported : Nat", ""]
    enum_cache = {}
    for name, rel in FUNCS:
        try:
            params, rt, body = Tr(repo, rel, name, enum_cache).translate()
            ps = " ".join("(%s : %s)" % p for p in params)
            lines.append("/-- `%s` (%s) -/" % (name, rel))
            lines.append("def %s %s : %s :=\n  %s" % (name, ps, rt, body))
        except Unsupported as e:
            lines.append("/-- `%s` (%s): NOT TRANSLATED: %s -/" % (name, rel, e))
            lines.append("def %s : Nat := unsupported" % name)
        lines.append("")
    # the numeric codes of enum xcm_attr_type (public ABI), as the compiler sees them
    try:
        tr = Tr(repo, "libxcm/core/attr_tree.c", "-", enum_cache)
        codes = [(tr.enum_value("xcm_attr_type_" + n), n) for n in ("bool", "int64", "str", "bin", "double")]
        lines.append("def xcm_attr_type_code : List (Nat × String) := [%s]" % ", ".join('(%d, "%s")' % c for c in codes))
    except Unsupported as e:
        lines.append("def xcm_attr_type_code : List (Nat × String) := [] -- %s" % e)
    lines.append("")
    lines.append("end XcmModel.Generated.Funcs")
    text = "\n".join(lines) + "\n"
    try:
        os.makedirs(os.path.dirname(cache), exist_ok=True)
        with open(cache + ".tmp%d" % os.getpid(), "w") as f:
            f.write(text)
        os.replace(cache + ".tmp%d" % os.getpid(), cache)
    except OSError:
        pass
    return [("Funcs", text)]


if __name__ == "__main__":
    import sys
    print(generate(sys.argv[1] if len(sys.argv) > 1 else "/repo")[0][1])
