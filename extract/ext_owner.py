"""T1: cleanup locality (C08).  xcm_cleanup() releases a forked child's copies of a socket; the epoll instances and the
files on disk are shared with the owner, so on that path nothing kernel-visible may be changed.  In the sources this is the
`bool owner` parameter threaded through the destructors.  Extracted, per function that has an `owner` parameter:
  ownerSites       : every call that changes a shared object (xpoll registrations -> epoll_ctl on a shared epoll instance;
                     unlink of a socket / control file) with whether an enclosing condition requires `owner`
  ownerDelegations : every call of another function that takes an owner parameter, with the text of that argument
"""
import os, re, importlib.util

HERE = os.path.dirname(os.path.abspath(__file__))
spec = importlib.util.spec_from_file_location("ext_sites", os.path.join(HERE, "ext_sites.py"))
es = importlib.util.module_from_spec(spec)
spec.loader.exec_module(es)

SHARED = ["xpoll_fd_reg_add", "xpoll_fd_reg_mod", "xpoll_fd_reg_del", "xpoll_fd_reg_del_if_valid", "xpoll_bell_reg_add",
          "xpoll_bell_reg_mod", "xpoll_bell_reg_del", "epoll_ctl", "unlink", "active_fd_put", "timerfd_settime"]


def owner_functions(src):
    """(name, index of the owner parameter, body) of every function definition with a `bool owner` parameter"""
    out = []
    for m in re.finditer(r"\b([A-Za-z_]\w*)\s*\(((?:[^;{}()]|\([^()]*\))*)\)\s*\{", src):
        name, params = m.group(1), m.group(2)
        if name in ("if", "for", "while", "switch", "sizeof", "return", "do", "else"):
            continue
        ps = [p.strip() for p in params.split(",")]
        idx = [i for i, p in enumerate(ps) if re.search(r"\bbool\s+owner$", p)]
        if not idx:
            continue
        i = m.end(); depth = 1
        while i < len(src) and depth:
            depth += (src[i] == "{") - (src[i] == "}")
            i += 1
        out.append((name, idx[0], src[m.end():i]))
    return out


def owner_guard(body, pos):
    """True iff the statement the call is in, or an enclosing block's header, requires `owner` (and not `!owner`)"""
    st2 = max(body.rfind("{", 0, pos), body.rfind("}", 0, pos), body.rfind(";", 0, pos))
    conds = [body[st2 + 1:pos]]
    depth = 0; i = pos
    while i > 0:
        i -= 1
        c = body[i]
        if c == "}":
            depth += 1
        elif c == "{":
            if depth == 0:
                j = max(body.rfind(";", 0, i), body.rfind("}", 0, i), body.rfind("{", 0, i))
                conds.append(body[j + 1:i])
            else:
                depth -= 1
    for c in conds:
        c = re.sub(r"\s+", " ", c)
        if re.search(r"\bif\s*\(.*\bowner\b", c) and not re.search(r"!\s*owner\b", c) and not re.search(r"\belse\b", c):
            return True
    return False


def generate(repo):
    srcs = sorted(set(es.lib_sources(repo)))
    funcs = {}
    per_file = []
    for rel in srcs:
        src = es.strip_comments(open(os.path.join(repo, rel), errors="replace").read())
        fs = owner_functions(src)
        per_file.append((os.path.basename(rel), fs))
        for name, idx, _ in fs:
            funcs[name] = idx
    sites, dels = [], []
    for base, fs in per_file:
        for name, _, body in fs:
            for m in re.finditer(r"(?<![\w.>])(%s)\s*\(" % "|".join(SHARED), body):
                sites.append((base, name, m.group(1), owner_guard(body, m.start())))
            if funcs:
                for m in re.finditer(r"(?<![\w.>])(%s)\s*\(" % "|".join(sorted(funcs)), body):
                    args = es.call_args(body, m.end() - 1)
                    k = funcs[m.group(1)]
                    arg = re.sub(r"\s+", "", args[k]) if k < len(args) else "?"
                    dels.append((base, name, m.group(1), arg, owner_guard(body, m.start())))
    # entry points: every call of an owner-taking function from a function that has no owner parameter of its own (the
    # transports' close / cleanup operations, xcm.c, error ladders): the flag is a literal there
    entries = []
    for rel in srcs:
        src = es.strip_comments(open(os.path.join(repo, rel), errors="replace").read())
        base = os.path.basename(rel)
        local_defs = set(n for n, _, _, _ in es.functions(src))
        local_owner = dict((n, i) for n, i, _ in dict(per_file).get(base, []))
        for fname, b0, b1, body in es.functions(src):
            if fname in local_owner:
                continue
            for m in re.finditer(r"(?<![\w.>])(%s)\s*\(" % "|".join(sorted(funcs)), body):
                callee = m.group(1)
                if callee in local_defs and callee not in local_owner:
                    continue           # a file-local function of the same name without an owner parameter
                args = es.call_args(body, m.end() - 1)
                k = local_owner.get(callee, funcs[callee])
                arg = re.sub(r"\s+", "", args[k]) if k < len(args) else "?"
                entries.append((base, fname, m.group(1), arg))
    b = lambda x: "true" if x else "false"
    L = ["/- GENERATED by extract/ext_owner.py from /repo - do not edit. -/", "namespace XcmModel.Generated", "",
         "structure OwnerSite where", "  file : String", "  func : String", "  callee : String", "  guarded : Bool", "  deriving DecidableEq, Repr", "",
         "structure OwnerDelegation where", "  file : String", "  func : String", "  callee : String", "  arg : String", "  guarded : Bool",
         "  deriving DecidableEq, Repr", "",
         "def ownerFunctions : List String := [%s]" % ", ".join(es.lean_str(f) for f in sorted(funcs)), "",
         "def ownerSites : List OwnerSite := ["]
    L.append(",\n".join("  { file := %s, func := %s, callee := %s, guarded := %s }" % (es.lean_str(a), es.lean_str(f), es.lean_str(c), b(g)) for a, f, c, g in sites))
    L += ["]", "", "def ownerDelegations : List OwnerDelegation := ["]
    L.append(",\n".join("  { file := %s, func := %s, callee := %s, arg := %s, guarded := %s }" % (es.lean_str(a), es.lean_str(f), es.lean_str(c), es.lean_str(x), b(g)) for a, f, c, x, g in dels))
    L += ["]", "", "structure OwnerEntry where", "  file : String", "  func : String", "  callee : String", "  arg : String", "  isCleanup : Bool",
          "  deriving DecidableEq, Repr", "", "def ownerEntries : List OwnerEntry := ["]
    L.append(",\n".join("  { file := %s, func := %s, callee := %s, arg := %s, isCleanup := %s }" % (es.lean_str(a), es.lean_str(f), es.lean_str(c), es.lean_str(x), b("cleanup" in f)) for a, f, c, x in entries))
    L += ["]", "", "end XcmModel.Generated", ""]
    return [("Owner", "\n".join(L))]


if __name__ == "__main__":
    import sys
    print(generate(sys.argv[1] if len(sys.argv) > 1 else "/repo")[0][1])
