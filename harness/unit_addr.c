/* Correspondence harness for xcm_addr.c / xcm_dns.c and the libc functions the Lean model
   re-implements (strtol, inet_pton/ntop AF_INET, printf %d). */
#include "hutil.h"
#include "xcm_addr.h"
#include "xcm_dns.h"
#include <arpa/inet.h>
#include <netinet/in.h>

static void show_host(FILE *o, const struct xcm_addr_host *h)
{
    if (h->type == xcm_addr_type_name) {
	fputc('n', o); h_puthex(o, h->name, strlen(h->name));
    } else if (h->type == xcm_addr_type_ip && h->ip.family == AF_INET)
	fprintf(o, "4%u", ntohl(h->ip.addr.ip4));
    else if (h->type == xcm_addr_type_ip && h->ip.family == AF_INET6) {
	fputc('6', o); h_puthex(o, h->ip.addr.ip6, 16);
    } else
	fputs("?", o);
}

static bool read_host(const char *w, struct xcm_addr_host *h)
{
    memset(h, 0, sizeof(*h));
    size_t l;
    if (w[0] == 'n') {
	uint8_t *b = h_unhex(w + 1, &l);
	if (l > 253) { free(b); return false; }
	h->type = xcm_addr_type_name;
	memcpy(h->name, b, l + 1);
	free(b);
    } else if (w[0] == '4') {
	h->type = xcm_addr_type_ip;
	h->ip.family = AF_INET;
	h->ip.addr.ip4 = htonl((uint32_t)strtoul(w + 1, NULL, 10));
    } else {
	uint8_t *b = h_unhex(w + 1, &l);
	h->type = xcm_addr_type_ip;
	h->ip.family = AF_INET6;
	memcpy(h->ip.addr.ip6, b, 16);
	free(b);
    }
    return true;
}

typedef int (*parse_fun)(const char *, struct xcm_addr_host *, uint16_t *);
typedef int (*make_fun)(const struct xcm_addr_host *, uint16_t, char *, size_t);

static parse_fun get_parse(const char *p)
{
    if (!strcmp(p, "tcp")) return xcm_addr_parse_tcp;
    if (!strcmp(p, "tls")) return xcm_addr_parse_tls;
    if (!strcmp(p, "utls")) return xcm_addr_parse_utls;
    if (!strcmp(p, "sctp")) return xcm_addr_parse_sctp;
    if (!strcmp(p, "btcp")) return xcm_addr_parse_btcp;
    if (!strcmp(p, "btls")) return xcm_addr_parse_btls;
    return NULL;
}

static int make_btcp(const struct xcm_addr_host *h, uint16_t p, char *s, size_t c)
{ return xcm_addr_make_btcp(h, p, s, c); }
static int make_btls(const struct xcm_addr_host *h, uint16_t p, char *s, size_t c)
{ return xcm_addr_make_btls(h, p, s, c); }

static make_fun get_make(const char *p)
{
    if (!strcmp(p, "tcp")) return xcm_addr_make_tcp;
    if (!strcmp(p, "tls")) return xcm_addr_make_tls;
    if (!strcmp(p, "utls")) return xcm_addr_make_utls;
    if (!strcmp(p, "sctp")) return xcm_addr_make_sctp;
    if (!strcmp(p, "btcp")) return make_btcp;
    if (!strcmp(p, "btls")) return make_btls;
    return NULL;
}

/* runs a make function on an exact-size heap buffer pre-filled with 0xAA, so that ASan
   sees any write beyond `cap` and we can see how much of the buffer was touched */
static void show_make(FILE *o, int rc, int err, char *buf, size_t cap)
{
    size_t touched = 0;
    for (size_t i = 0; i < cap; i++)
	if ((uint8_t)buf[i] != 0xAA) touched = i + 1;
    if (rc == 0) {
	/* success: the model prints the buffer content up to and including the NUL; if there is
	   no NUL within the touched part, print what was touched */
	size_t n = 0;
	while (n < touched && buf[n] != 0) n++;
	if (n < touched) n++;
	fputs("ok ", o); h_puthex(o, buf, n); fputc('\n', o);
    } else if (err == ENAMETOOLONG)
	fprintf(o, "err ENAMETOOLONG ## %zu\n", touched);
    else
	fprintf(o, "err %s\n", h_errname(err));
}

static char *exact(const char *hex)
{
    size_t l; uint8_t *b = h_unhex(hex, &l);
    char *e = malloc(l + 1); memcpy(e, b, l + 1); free(b);
    return e;
}

int main(void)
{
    static char line[H_LINE_MAX];
    char *w[H_MAXW];
    FILE *o = stdout;
    while (fgets(line, sizeof(line), stdin)) {
	int n = h_words(line, w);
	if (n == 0 || w[0][0] == '#') continue;
	if ((!strcmp(w[0], "p6") || !strcmp(w[0], "n6")) && n == 3) {
	    /* the oracle lines are *checked* against libc here */
	    size_t l; 
	    if (!strcmp(w[0], "p6")) {
		char *t = exact(w[1]);
		uint8_t a[16];
		int r = inet_pton(AF_INET6, t, a);
		if (!strcmp(w[2], "none")) fputs(r == 1 ? "oracle-mismatch\n" : "ok\n", o);
		else {
		    uint8_t *b = h_unhex(w[2], &l);
		    fputs(r == 1 && l == 16 && !memcmp(a, b, 16) ? "ok\n" : "oracle-mismatch\n", o);
		    free(b);
		}
		free(t);
	    } else {
		uint8_t *a = h_unhex(w[1], &l);
		char *t = exact(w[2]);
		char buf[INET6_ADDRSTRLEN];
		const char *r = inet_ntop(AF_INET6, a, buf, sizeof(buf));
		fputs(r && !strcmp(r, t) ? "ok\n" : "oracle-mismatch\n", o);
		free(a); free(t);
	    }
	} else if (!strcmp(w[0], "parse") && n == 3) {
	    parse_fun f = get_parse(w[1]);
	    char *a = exact(w[2]);
	    struct xcm_addr_host h; uint16_t port = 0;
	    memset(&h, 0xAA, sizeof(h));
	    errno = 0;
	    int rc = f(a, &h, &port);
	    if (rc == 0) { fputs("ok ", o); show_host(o, &h); fprintf(o, " %u\n", (unsigned)ntohs(port)); }
	    else fprintf(o, "err %s\n", h_errname(errno));
	    free(a);
	} else if (!strcmp(w[0], "parseux") && n == 4) {
	    char *a = exact(w[2]);
	    size_t cap = strtoul(w[3], NULL, 10);
	    char *buf = malloc(cap ? cap : 1);
	    errno = 0;
	    int rc = !strcmp(w[1], "ux") ? xcm_addr_parse_ux(a, buf, cap) : xcm_addr_parse_uxf(a, buf, cap);
	    if (rc == 0) { fputs("ok ", o); h_puthex(o, buf, strlen(buf)); fputc('\n', o); }
	    else fprintf(o, "err %s\n", h_errname(errno));
	    free(buf); free(a);
	} else if (!strcmp(w[0], "proto") && n == 3) {
	    char *a = exact(w[1]);
	    size_t cap = strtoul(w[2], NULL, 10);
	    char *buf = malloc(cap ? cap : 1);
	    errno = 0;
	    int rc = xcm_addr_parse_proto(a, buf, cap);
	    if (rc == 0) { fputs("ok ", o); h_puthex(o, buf, strlen(buf)); fputc('\n', o); }
	    else fprintf(o, "err %s\n", h_errname(errno));
	    free(buf); free(a);
	} else if (!strcmp(w[0], "make") && n == 5) {
	    make_fun f = get_make(w[1]);
	    struct xcm_addr_host h;
	    size_t cap = strtoul(w[4], NULL, 10);
	    if (!f || !read_host(w[2], &h)) { fputs("bad-op\n", o); continue; }
	    char *buf = malloc(cap ? cap : 1);
	    memset(buf, 0xAA, cap ? cap : 1);
	    errno = 0;
	    int rc = f(&h, htons((uint16_t)atoi(w[3])), cap ? buf : buf, cap);
	    show_make(o, rc, errno, buf, cap);
	    free(buf);
	} else if (!strcmp(w[0], "makeux") && n == 4) {
	    char *name = exact(w[2]);
	    size_t cap = strtoul(w[3], NULL, 10);
	    char *buf = malloc(cap ? cap : 1);
	    memset(buf, 0xAA, cap ? cap : 1);
	    errno = 0;
	    int rc = !strcmp(w[1], "ux") ? xcm_addr_make_ux(name, buf, cap) : xcm_addr_make_uxf(name, buf, cap);
	    show_make(o, rc, errno, buf, cap);
	    free(buf); free(name);
	} else if (!strcmp(w[0], "valid") && n == 2) {
	    char *a = exact(w[1]);
	    fprintf(o, "%d\n", (int)xcm_addr_is_valid(a));
	    free(a);
	} else if (!strcmp(w[0], "dns") && n == 2) {
	    char *a = exact(w[1]);
	    fprintf(o, "%d\n", (int)xcm_dns_is_valid_name(a));
	    free(a);
	} else if (!strcmp(w[0], "pton4") && n == 2) {
	    char *a = exact(w[1]);
	    struct in_addr ia;
	    if (inet_pton(AF_INET, a, &ia) == 1) fprintf(o, "%u\n", ntohl(ia.s_addr));
	    else fputs("none\n", o);
	    free(a);
	} else if (!strcmp(w[0], "ntop4") && n == 2) {
	    struct in_addr ia; ia.s_addr = htonl((uint32_t)strtoul(w[1], NULL, 10));
	    char buf[INET_ADDRSTRLEN];
	    inet_ntop(AF_INET, &ia, buf, sizeof(buf));
	    h_puthex(o, buf, strlen(buf)); fputc('\n', o);
	} else if (!strcmp(w[0], "strtol") && n == 2) {
	    char *a = exact(w[1]);
	    char *end;
	    long v = strtol(a, &end, 10);
	    fprintf(o, "%ld %zu\n", v, (size_t)(end - a));
	    free(a);
	} else if (!strcmp(w[0], "dec") && n == 2) {
	    char buf[64];
	    snprintf(buf, sizeof(buf), "%zd", (ssize_t)strtoull(w[1], NULL, 10));
	    h_puthex(o, buf, strlen(buf)); fputc('\n', o);
	} else
	    fputs("bad-op\n", o);
	fflush(o);
    }
    return 0;
}
