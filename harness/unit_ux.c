/* Correspondence harness for the data path of xcm_tp_ux.c (ux and uxf transports).  The REAL file
   is #included; its kernel calls send()/recv() and xpoll_fd_reg_mod are redirected to the scripted
   layer below.  Headers are pre-included by the build. */
#include "hutil.h"
#include <sys/epoll.h>

static ssize_t mock_send(int fd, const void *buf, size_t len, int flags);
static ssize_t mock_recv(int fd, void *buf, size_t len, int flags);
static void mock_fd_reg_mod(struct xpoll *x, int reg, int event);
static void mock_register(const char *name, const struct xcm_tp_ops *ops) { (void)name; (void)ops; }

#define send(fd, buf, len, flags) mock_send(fd, buf, len, flags)
#define recv(fd, buf, len, flags) mock_recv(fd, buf, len, flags)
#define xpoll_fd_reg_mod mock_fd_reg_mod
#define xcm_tp_register mock_register

#include "xcm_tp_ux.c"

#undef send
#undef recv
#undef xpoll_fd_reg_mod
#undef xcm_tp_register

static int ksend_err;                       /* 0: accept the whole record */
static int krecv_kind; static uint8_t *krecv_data; static size_t krecv_len; static int krecv_err; /* 0 record 1 eof 2 err */
static uint8_t *tx; static size_t tx_len; static bool tx_any;
static int send_flags_seen, recv_flags_seen;
static int fdev = -1;

static ssize_t mock_send(int fd, const void *buf, size_t len, int flags)
{
    send_flags_seen = flags;
    if (ksend_err) { errno = ksend_err; return -1; }
    free(tx); tx = malloc(len ? len : 1); memcpy(tx, buf, len); tx_len = len; tx_any = true;
    return (ssize_t)len;
}

static ssize_t mock_recv(int fd, void *buf, size_t len, int flags)
{
    recv_flags_seen = flags;
    if (krecv_kind == 1) return 0;
    if (krecv_kind == 2) { errno = krecv_err; return -1; }
    size_t n = krecv_len < len ? krecv_len : len;
    memcpy(buf, krecv_data, n);
    /* SOCK_SEQPACKET + MSG_TRUNC: the real length of the record is returned */
    return (flags & MSG_TRUNC) ? (ssize_t)krecv_len : (ssize_t)n;
}

static void mock_fd_reg_mod(struct xpoll *x, int reg, int event) { fdev = event; }

static struct xcm_socket *sock;
static struct xcm_tp_proto proto = { "ux", &ux_ops };

static void new_conn(void)
{
    free(sock);
    sock = calloc(1, sizeof(struct xcm_socket) + sizeof(struct ux_socket));
    sock->proto = &proto;
    sock->type = xcm_socket_type_conn;
    sock->sock_id = 1;
    TOUX(sock)->fd = 0;
    TOUX(sock)->fd_reg_id = 5;
}

static void render(FILE *o, int rc, int err, const uint8_t *payload, size_t plen)
{
    if (rc < 0) fprintf(o, "-1 %s | -", h_errname(err));
    else if (payload) { fprintf(o, "%d | ", rc); h_showbytes(o, payload, plen); }
    else fprintf(o, "%d | -", rc);
    fputs(" |", o);
    for (int i = 0; i < XCM_TP_NUM_MESSAGING_CNTS; i++)
	fprintf(o, " %lld", (long long)ux_get_cnt(sock, (enum xcm_tp_cnt)i));
    fputs(" | tx+", o);
    if (tx_any) h_showbytes(o, tx, tx_len); else fputc('-', o);
    fputc('\n', o);
}

int main(void)
{
    static char line[H_LINE_MAX];
    char *w[H_MAXW];
    FILE *o = stdout;
    new_conn();
    while (fgets(line, sizeof(line), stdin)) {
	int n = h_words(line, w);
	if (n == 0 || w[0][0] == '#') continue;
	tx_any = false;
	if (!strcmp(w[0], "N") && n == 1) { new_conn(); fputs("ok\n", o); }
	else if (!strcmp(w[0], "S") && n == 3) {
	    size_t l; uint8_t *m = h_unhex(w[1], &l);
	    uint8_t *ex = malloc(l ? l : 1); memcpy(ex, m, l); free(m);
	    ksend_err = w[2][0] == 'E' ? h_errnum(w[2] + 1) : 0;
	    errno = 0;
	    int rc = ux_send(sock, ex, l);
	    int e = errno;
	    free(ex);
	    render(o, rc, e, NULL, 0);
	} else if (!strcmp(w[0], "R") && n == 3) {
	    size_t cap = strtoul(w[1], NULL, 10);
	    uint8_t *buf = malloc(cap ? cap : 1);
	    free(krecv_data); krecv_data = NULL; krecv_len = 0;
	    if (w[2][0] == 'Z') krecv_kind = 1;
	    else if (w[2][0] == 'E') { krecv_kind = 2; krecv_err = h_errnum(w[2] + 1); }
	    else { krecv_kind = 0; krecv_data = h_unhex(w[2] + 1, &krecv_len); }
	    errno = 0;
	    int rc = ux_receive(sock, buf, cap);
	    int e = errno;
	    render(o, rc, e, rc > 0 ? buf : NULL, rc > 0 ? (size_t)rc : 0);
	    free(buf);
	} else if (!strcmp(w[0], "F") && n == 1) {
	    errno = 0;
	    int rc = ux_finish(sock);
	    int e = errno;
	    render(o, rc, e, NULL, 0);
	} else if (!strcmp(w[0], "U") && n == 2) {
	    sock->type = xcm_socket_type_conn;
	    sock->condition = atoi(w[1]);
	    fdev = -1;
	    ux_update(sock);
	    fprintf(o, "fd=%d\n", fdev);
	} else if (!strcmp(w[0], "SU") && n == 2) {
	    sock->type = xcm_socket_type_server;
	    sock->condition = atoi(w[1]);
	    fdev = -1;
	    ux_update(sock);
	    sock->type = xcm_socket_type_conn;
	    fprintf(o, "fd=%d\n", fdev);
	} else
	    fputs("bad-op\n", o);
	fflush(o);
    }
    return 0;
}
