/* System harness for C16: the socket's fd is one stable descriptor that only ever signals readability,
   is quiet when the connection is idle, and is readable at once when the awaited condition is already met. */
#include "sysutil.h"
#include <poll.h>
#include <time.h>

static int viol;

static double h_now(void)
{
    struct timespec ts;
    clock_gettime(CLOCK_MONOTONIC, &ts);
    return ts.tv_sec + ts.tv_nsec / 1e9;
}

/* readiness of the xcm fd sampled `n` times over a settle window; returns how often it was readable;
   any other revents bit is a violation by itself */
static int sample(struct xcm_socket *s, int n, int *other)
{
    int fd = xcm_fd(s), cnt = 0;
    for (int i = 0; i < n; i++) {
	struct pollfd p = { .fd = fd, .events = POLLIN | POLLOUT | POLLPRI };
	int rc = poll(&p, 1, 0);
	if (rc > 0 && (p.revents & POLLIN)) cnt++;
	if (rc > 0 && (p.revents & ~POLLIN)) (*other)++;
	usleep(300);
    }
    return cnt;
}

static void drain(struct xcm_socket *s)
{
    static char b[70000];
    for (int i = 0; i < 2000; i++) { int rc = xcm_receive(s, b, sizeof(b)); if (rc < 0 && errno == EAGAIN) { if (i > 20) break; usleep(300); } else if (rc <= 0) break; }
}

static void settle(struct trio *t)
{
    for (int i = 0; i < 200; i++) { int a = xcm_finish(t->client), b = xcm_finish(t->accepted); if (a == 0 && b == 0 && i > 20) break; usleep(200); }
}

int main(void)
{
    static char line[H_LINE_MAX];
    char *w[H_MAXW];
    FILE *o = stdout;
    while (fgets(line, sizeof(line), stdin)) {
	int n = h_words(line, w);
	if (n == 0 || w[0][0] == '#') continue;
	if (!strcmp(w[0], "Q") && n == 4) {
	    /* Q <proto> <seed>: traffic with partial I/O, then quiescence, then every awaited condition */
	    const char *proto = w[1];
	    unsigned seed = atoi(w[2]);
	    int rounds = atoi(w[3]);
	    bool bs = sys_is_bytestream(proto);
	    struct trio t;
	    struct xcm_attr_map *cx = xcm_attr_map_create();
	    if (strstr(proto, "tcp") || strstr(proto, "tls")) xcm_attr_map_add_double(cx, "tcp.connect_timeout", 0.1);
	    int erc = sys_establish(proto, &t, cx, NULL);
	    xcm_attr_map_destroy(cx);
	    if (erc < 0) { fprintf(o, "fail %s\n", h_errname(errno)); fflush(o); continue; }
	    int fd_c = xcm_fd(t.client), fd_a = xcm_fd(t.accepted), fd_s = xcm_fd(t.server);
	    int other = 0, changed = 0;
	    static char big[50000];
	    for (int round = 0; round < rounds; round++) {
		int k = 1 + rand_r(&seed) % 40;
		for (int i = 0; i < k; i++) {
		    size_t len = 1 + rand_r(&seed) % (bs ? sizeof(big) : 40000);
		    memset(big, 'a' + i % 20, len);
		    struct xcm_socket *snd = (rand_r(&seed) & 1) ? t.client : t.accepted;
		    if (xcm_send(snd, big, len) < 0 && errno != EAGAIN) break;
		    if (rand_r(&seed) % 3 == 0) { char b[30000]; xcm_receive(snd == t.client ? t.accepted : t.client, b, 1 + rand_r(&seed) % sizeof(b)); }
		}
		/* both ends read everything, everything is flushed */
		for (int i = 0; i < 3; i++) { settle(&t); drain(t.client); drain(t.accepted); }
		if (xcm_fd(t.client) != fd_c || xcm_fd(t.accepted) != fd_a || xcm_fd(t.server) != fd_s) changed++;
	    }
	    settle(&t);
	    /* (0) condition 0 standing (never changed): back-pressure leaves a message in the client's send buffer, the peer
	       then drains, and the client completes the flush with xcm_finish ONLY - no xcm_await, no other call - and must be
	       quiet afterwards; so must be an established client connection after its connect timeout has passed */
	    {
		static char rb[70000];
		bool owed = false;
		memset(big, 'z', sizeof(big));
		for (int i = 0; i < 400; i++) { if (xcm_send(t.client, big, bs ? sizeof(big) : 30000) < 0) { owed = errno == EAGAIN; break; } }
		for (int i = 0; i < 6000; i++) {
		    int rrc = xcm_receive(t.accepted, rb, sizeof(rb));
		    /* a byte-stream application retries the refused call with the same data (what OpenSSL demands of btls) */
		    if (bs && owed && xcm_send(t.client, big, sizeof(big)) > 0) owed = false;
		    int frc = xcm_finish(t.client);
		    if (rrc < 0 && errno == EAGAIN && frc == 0 && !(bs && owed) && i > 50) break;
		    if (rrc < 0 && errno != EAGAIN) break;
		    if (rrc < 0) usleep(200);
		}
	    }
	    usleep(120000);
	    int qp = sample(t.client, 30, &other);
	    /* (1) condition 0: quiet */
	    xcm_await(t.client, 0); xcm_await(t.accepted, 0); xcm_await(t.server, 0);
	    int q0 = sample(t.client, 30, &other) + sample(t.accepted, 30, &other) + sample(t.server, 10, &other);
	    /* (2) RECEIVABLE after receive reported EAGAIN: quiet */
	    char b[64]; int r1 = xcm_receive(t.client, b, sizeof(b)); int e1 = errno;
	    int r2 = xcm_receive(t.accepted, b, sizeof(b)); int e2 = errno;
	    xcm_await(t.client, XCM_SO_RECEIVABLE); xcm_await(t.accepted, XCM_SO_RECEIVABLE);
	    int q1c = sample(t.client, 30, &other), q1a = sample(t.accepted, 30, &other);
	    int q1 = q1c + q1a;
	    if (getenv("QUIET_DEBUG")) fprintf(stderr, "quietR client=%d accepted=%d\n", q1c, q1a);
	    bool eagain_ok = r1 < 0 && e1 == EAGAIN && r2 < 0 && e2 == EAGAIN;
	    /* (3) server awaiting ACCEPTABLE with nothing pending: quiet */
	    xcm_await(t.server, XCM_SO_ACCEPTABLE);
	    int q2 = sample(t.server, 30, &other);
	    /* (4) conversely: SENDABLE is met on an idle connection: readable at once */
	    xcm_await(t.client, XCM_SO_SENDABLE);
	    int m1 = sample(t.client, 1, &other);
	    xcm_await(t.client, 0);
	    /* (5) a message has arrived before xcm_await(RECEIVABLE): readable at once */
	    xcm_await(t.accepted, 0);
	    xcm_send(t.client, "hello", 5);
	    for (int i = 0; i < 50; i++) { xcm_finish(t.client); usleep(200); }
	    int q3 = sample(t.accepted, 5, &other);           /* condition still 0: quiet although data is there */
	    xcm_await(t.accepted, XCM_SO_RECEIVABLE);
	    int m2 = sample(t.accepted, 1, &other);
	    int r3 = xcm_receive(t.accepted, b, sizeof(b));
	    /* (6) a pending connection before xcm_await(ACCEPTABLE): readable at once */
	    xcm_await(t.server, 0);
	    struct xcm_attr_map *m = sys_base_attrs(proto, true);
	    struct xcm_socket *c2 = xcm_connect_a(t.addr, m); xcm_attr_map_destroy(m);
	    for (int i = 0; i < 50 && c2; i++) { xcm_finish(c2); usleep(200); }
	    int q4 = sample(t.server, 5, &other);
	    xcm_await(t.server, XCM_SO_ACCEPTABLE);
	    int m3 = sample(t.server, 1, &other);
	    if (c2) xcm_close(c2);
	    if (xcm_fd(t.client) != fd_c || xcm_fd(t.accepted) != fd_a || xcm_fd(t.server) != fd_s) changed++;
	    fprintf(o, "quiet0pre=%d quiet0=%d quietR=%d eagain=%d quietS=%d quiet0data=%d quiet0conn=%d metS=%d metR=%d(%d) metA=%d other=%d fdchanged=%d\n",
		    qp, q0, q1, eagain_ok, q2, q3, q4, m1, m2, r3, m3, other, changed);
	    sys_close_trio(&t);
	} else if (!strcmp(w[0], "STUCK") && n == 2) {
	    /* STUCK <proto>: a byte-stream send is refused (EAGAIN) under back-pressure and the application does NOT retry it;
	       the peer reads everything that was accepted; both ends then finish successfully and await RECEIVABLE */
	    const char *proto = w[1];
	    struct trio t;
	    if (sys_establish(proto, &t, NULL, NULL) < 0) { fprintf(o, "fail %s\n", h_errname(errno)); fflush(o); continue; }
	    static char big[50000], rb[70000];
	    long acc = 0, got = 0; int other = 0;
	    memset(big, 'q', sizeof(big));
	    for (int i = 0; i < 4000; i++) { int rc = xcm_send(t.client, big, sizeof(big)); if (rc < 0) break; acc += rc; }
	    int fa = -1, fc = -1, e1 = 0;
	    for (int i = 0; i < 20000; i++) {
		int r = xcm_receive(t.accepted, rb, sizeof(rb)); e1 = errno;
		fc = xcm_finish(t.client); fa = xcm_finish(t.accepted);
		if (r > 0) got += r;
		if (r < 0 && e1 == EAGAIN && fc == 0 && fa == 0 && got >= acc && i > 200) break;
		if (r < 0 && e1 != EAGAIN) break;
		if (r < 0) usleep(100);
	    }
	    int rc0 = xcm_receive(t.client, rb, sizeof(rb)); int ec0 = errno;
	    if (!(rc0 < 0 && ec0 == EAGAIN)) fc = -2;
	    xcm_await(t.client, XCM_SO_RECEIVABLE); xcm_await(t.accepted, XCM_SO_RECEIVABLE);
	    usleep(50000);
	    int qc = sample(t.client, 30, &other), qa = sample(t.accepted, 30, &other);
	    int r2 = xcm_receive(t.accepted, rb, sizeof(rb)); int e2 = errno;
	    fprintf(o, "accepted=%ld delivered=%ld finish=%d,%d spin_client=%d spin_accepted=%d receive=%s\n", acc, got, fc, fa, qc, qa,
		    r2 < 0 ? h_errname(e2) : r2 == 0 ? "0" : "data");
	    sys_close_trio(&t);
	} else if (!strcmp(w[0], "RONLY") && n == 2) {
	    /* RONLY <proto>: the sender fills the connection until xcm_send reports EAGAIN, then only ever awaits RECEIVABLE and
	       calls xcm_receive when (and only when) its fd is readable - never send or finish again.  Phase A: the peer does not
	       read (300 ms): the sender's fd must be quiet.  Phase B: the peer reads: everything accepted must arrive. */
	    const char *proto = w[1];
	    bool bs = sys_is_bytestream(proto);
	    struct trio t;
	    if (sys_establish(proto, &t, NULL, NULL) < 0) { fprintf(o, "fail %s\n", h_errname(errno)); fflush(o); continue; }
	    static char big[50000], rb[70000];
	    long acc = 0, got = 0; int other = 0, refused = 0;
	    memset(big, 'r', sizeof(big));
	    for (int i = 0; i < 4000; i++) {
		int rc = xcm_send(t.client, big, bs ? sizeof(big) : 40000);
		if (rc < 0) { refused = errno == EAGAIN; break; }
		acc += bs ? rc : 40000;
	    }
	    xcm_await(t.client, XCM_SO_RECEIVABLE);
	    int fd = xcm_fd(t.client), wakeA = 0, wakeB = 0, rerr = 0;
	    double t0 = h_now();
	    while (h_now() - t0 < 0.3) {
		struct pollfd p = { .fd = fd, .events = POLLIN };
		if (poll(&p, 1, 10) > 0) {
		    wakeA++;
		    int r = xcm_receive(t.client, rb, sizeof(rb));
		    if (!(r < 0 && errno == EAGAIN)) { rerr = 1; break; }
		}
	    }
	    t0 = h_now();
	    int idle = 0;
	    while (h_now() - t0 < 4.0 && !rerr) {
		int r = xcm_receive(t.accepted, rb, sizeof(rb));
		if (r > 0) { got += r; idle = 0; }
		else if (r < 0 && errno == EAGAIN) idle++;
		else break;
		struct pollfd p = { .fd = fd, .events = POLLIN };
		if (poll(&p, 1, r > 0 ? 0 : 2) > 0) {
		    wakeB++;
		    int r2 = xcm_receive(t.client, rb, sizeof(rb));
		    if (!(r2 < 0 && errno == EAGAIN)) { rerr = 1; break; }
		}
		if (got >= acc && idle > 50) break;
	    }
	    usleep(20000);
	    int qc = sample(t.client, 30, &other);
	    fprintf(o, "refused=%d accepted=%ld delivered=%ld wakeA=%d wakeB=%d spin_after=%d rerr=%d\n", refused, acc, got, wakeA, wakeB, qc, rerr);
	    sys_close_trio(&t);
	} else
	    fputs("bad-op\n", o);
	fflush(o);
    }
    return viol;
}
