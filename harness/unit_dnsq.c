/* Correspondence harness for libxcm/tp/dns/xcm_dns_cares.c on top of libxcm/core/timer_mgr.c: both REAL files are
   #included; c-ares is a scripted stub (callback or not, descriptor set, timeout per call), the clock is scripted,
   timerfd_settime() and the xpoll registrations are recorded.  Times are ticks of 1/512 s (c-ares timeouts multiples of
   8 ticks = 1/64 s, exact in a struct timeval).  After every operation: query state, channel registrations, the two
   timer ids, the timerfd setting and the timer list. */
#include "hutil.h"
#include <ares.h>
#include <poll.h>
#include <signal.h>
#include <netinet/in.h>
#include <sys/timerfd.h>
#include <sys/wait.h>
#include <unistd.h>

static double h_now;
static long long h_armed = -1;
static int h_closed, h_timer_regdel, h_tfd_fail;
static int h_regs[ARES_GETSOCK_MAXNUM];		/* events registered per slot, 0 = none */
static int h_unknown_del;
static int h_settime(int fd, int flags, const struct itimerspec *ts, struct itimerspec *old)
{
    if (ts->it_value.tv_sec == 0 && ts->it_value.tv_nsec == 0) h_armed = -1;
    else h_armed = (long long)ts->it_value.tv_sec * 1000000000LL + ts->it_value.tv_nsec;
    return 0;
}
static int h_tfd_create(void) { if (h_tfd_fail) { errno = EMFILE; return -1; } return 1000; }
static int h_reg_add(int fd, int ev)
{
    if (fd == 1000) return 7;
    int slot = fd - 100;
    if (slot < 0 || slot >= ARES_GETSOCK_MAXNUM || h_regs[slot]) { printf("BAD-REG-ADD fd=%d\n", fd); exit(3); }
    h_regs[slot] = ev;
    return 20 + slot;
}
static void h_reg_del(int id)
{
    if (id == 7) { h_timer_regdel++; return; }
    int slot = id - 20;
    if (slot < 0 || slot >= ARES_GETSOCK_MAXNUM || !h_regs[slot]) { h_unknown_del++; return; }
    h_regs[slot] = 0;
}
#define ut_ftime() (h_now)
#define timerfd_settime h_settime
#define timerfd_create(c, f) h_tfd_create()
#define xpoll_fd_reg_add(x, fd, ev) h_reg_add(fd, ev)
#define xpoll_fd_reg_del(x, id) h_reg_del(id)
#define ut_close(fd) (h_closed++)
#include "timer_mgr.c"

/* ---- scripted c-ares ---- */
static int s_init_rc = ARES_SUCCESS, s_tries;
static ares_addrinfo_callback s_cb;
static void *s_arg;
static bool s_pending;
static const char *s_sync_tok = "-", *s_proc_tok = "-";
static char s_socks[128] = "-";
static long long s_to = -1;			/* ticks, -1 = no timeout */
static int s_process_fd_calls;

static void fire(const char *tok)
{
    if (!s_cb || !s_pending || !strcmp(tok, "-")) return;
    if (!strncmp(tok, "ok", 2)) {
	int n = atoi(tok + 2);
	struct ares_addrinfo *res = calloc(1, sizeof(*res));
	struct ares_addrinfo_node **pp = &res->nodes;
	for (int i = 0; i < n; i++) {
	    struct ares_addrinfo_node *nd = calloc(1, sizeof(*nd));
	    struct sockaddr_in *sa = calloc(1, sizeof(*sa));
	    sa->sin_family = AF_INET; sa->sin_addr.s_addr = htonl(0x7f000001 + i);
	    nd->ai_family = AF_INET; nd->ai_addr = (struct sockaddr *)sa; nd->ai_addrlen = sizeof(*sa);
	    *pp = nd; pp = &nd->ai_next;
	}
	s_pending = false;
	s_cb(s_arg, ARES_SUCCESS, 0, res);
    } else if (!strcmp(tok, "fail")) { s_pending = false; s_cb(s_arg, ARES_ENOTFOUND, 0, NULL); }
    else if (!strcmp(tok, "canc")) { s_cb(s_arg, ARES_ECANCELLED, 0, NULL); }
}
static int m_init_options(ares_channel *ch, struct ares_options *o, int mask) { s_tries = o->tries; *ch = (ares_channel)0x10; return s_init_rc; }
static void m_getaddrinfo(ares_channel ch, const char *name, const char *svc, const struct ares_addrinfo_hints *h, ares_addrinfo_callback cb, void *arg)
{ s_cb = cb; s_arg = arg; s_pending = true; fire(s_sync_tok); }
static int m_getsock(ares_channel ch, ares_socket_t *fds, int n)
{
    int mask = 0, slot = 0;
    if (!strcmp(s_socks, "-")) return 0;
    char buf[128]; strcpy(buf, s_socks);
    for (char *t = strtok(buf, ","); t && slot < n; t = strtok(NULL, ","), slot++) {
	fds[slot] = 100 + slot;
	if (strchr(t, 'r')) mask |= 1 << slot;
	if (strchr(t, 'w')) mask |= 1 << (slot + ARES_GETSOCK_MAXNUM);
    }
    return mask;
}
static struct timeval *m_timeout(ares_channel ch, struct timeval *maxtv, struct timeval *tv)
{
    if (s_to < 0) return NULL;
    tv->tv_sec = s_to / 512; tv->tv_usec = (s_to % 512) * 1000000 / 512;
    return tv;
}
static void m_process_fd(ares_channel ch, ares_socket_t r, ares_socket_t w) { s_process_fd_calls++; }
static void m_process(ares_channel ch, fd_set *r, fd_set *w) { fire(s_proc_tok); }
static void m_destroy(ares_channel ch) { if (s_pending && s_cb) { s_pending = false; s_cb(s_arg, ARES_EDESTRUCTION, 0, NULL); } }
static void m_freeaddrinfo(struct ares_addrinfo *ai)
{
    struct ares_addrinfo_node *n = ai->nodes;
    while (n) { struct ares_addrinfo_node *nx = n->ai_next; free(n->ai_addr); free(n); n = nx; }
    free(ai);
}
#define ares_init_options m_init_options
#define ares_getaddrinfo m_getaddrinfo
#define ares_getsock m_getsock
#define ares_timeout m_timeout
#define ares_process_fd m_process_fd
#define ares_process m_process
#define ares_destroy m_destroy
#define ares_freeaddrinfo m_freeaddrinfo
#define ares_strerror(s) "scripted failure"
#define ares_library_init(x) 0
#include "xcm_dns_cares.c"

static double ticks(const char *w) { return atoll(w) / 512.0; }

static void show(struct xcm_dns_query *q, const char *res)
{
    printf("%s | st=%d | regs=", res, (int)q->state);
    int n = 0;
    for (int i = 0; i < ARES_GETSOCK_MAXNUM; i++)
	if (h_regs[i]) {
	    printf("%s%d:%d", n++ ? "," : "", i, h_regs[i]);
	    if (q->channel_fd_reg_ids[i] != 20 + i) printf("!STALE-ID");
	}
    if (!n) printf("-");
    printf(" | ares=%lld overall=%lld | armed=", (long long)q->ares_timer_id, (long long)q->overall_timer_id);
    if (h_armed < 0) printf("off"); else printf("%lld", h_armed);
    printf(" | ");
    struct mtimer *m; n = 0;
    LIST_FOREACH(m, &q->timer_mgr->mtimers, entry)
	printf("%s%lld:%lld", n++ ? "," : "", (long long)m->id, (long long)(m->expiry_time * 1e9 + 0.5));
    if (!n) printf("-");
    if (h_unknown_del) printf(" UNKNOWN-REG-DEL=%d", h_unknown_del);
    printf("\n"); fflush(stdout);
}

static void set_env(const char *socks, const char *to)
{
    snprintf(s_socks, sizeof(s_socks), "%s", socks);
    s_to = strcmp(to, "-") ? atoll(to) : -1;
}

int main(void)
{
    static char line[H_LINE_MAX];
    char *w[H_MAXW];
    struct xcm_dns_query *q = NULL;
    char res[64];
    while (fgets(line, sizeof(line), stdin)) {
	int n = h_words(line, w);
	if (n == 0 || w[0][0] == '#') continue;
	if (!strcmp(w[0], "Q") && n == 6) {
	    if (q) { xcm_dns_query_destroy(q, true); q = NULL; }
	    memset(h_regs, 0, sizeof(h_regs)); h_armed = -1; h_unknown_del = 0; s_cb = NULL; s_pending = false;
	    h_now = ticks(w[1]);
	    s_sync_tok = w[3]; set_env(w[4], w[5]); s_init_rc = ARES_SUCCESS; h_tfd_fail = 0;
	    q = xcm_dns_resolve("name.example", NULL, ticks(w[2]), NULL);
	    s_sync_tok = "-";
	    if (!q) { printf("null\n"); fflush(stdout); continue; }
	    snprintf(res, sizeof(res), "tries=%d", s_tries); show(q, res);
	} else if (!strcmp(w[0], "QF") && n == 2) {
	    /* the two failure ladders of xcm_dns_resolve: nothing may be left behind */
	    if (q) { xcm_dns_query_destroy(q, true); q = NULL; }
	    int c0 = h_closed, r0 = h_timer_regdel;
	    h_tfd_fail = !strcmp(w[1], "tfd"); s_init_rc = !strcmp(w[1], "efile") ? ARES_EFILE : ARES_SUCCESS;
	    errno = 0;
	    struct xcm_dns_query *f = xcm_dns_resolve("name.example", NULL, 1.0, NULL);
	    printf("%s %s closed=%d regdel=%d\n", f ? "non-null" : "null", h_errname(errno), h_closed - c0, h_timer_regdel - r0); fflush(stdout);
	    h_tfd_fail = 0; s_init_rc = ARES_SUCCESS;
	    if (f) xcm_dns_query_destroy(f, true);
	} else if (q == NULL) { printf("bad-op\n"); fflush(stdout); }
	else if (!strcmp(w[0], "P") && n == 5) {
	    h_now = ticks(w[1]);
	    s_proc_tok = w[2]; set_env(w[3], w[4]);
	    xcm_dns_query_process(q);
	    s_proc_tok = "-";
	    snprintf(res, sizeof(res), "completed=%d", (int)xcm_dns_query_completed(q)); show(q, res);
	} else if (!strcmp(w[0], "R") && n == 2) {
	    int cap = atoi(w[1]);
	    struct xcm_addr_ip ips[XCM_DNS_MAX_RESULT_SIZE + 1];
	    if (cap > XCM_DNS_MAX_RESULT_SIZE + 1) cap = XCM_DNS_MAX_RESULT_SIZE + 1;
	    if (q->state == query_state_successful && cap == 0) {
		fflush(stdout);
		pid_t p = fork();
		if (p == 0) { signal(SIGABRT, SIG_DFL); close(2); xcm_dns_query_result(q, ips, cap); _exit(0); }
		int st = 0; waitpid(p, &st, 0);
		show(q, WIFEXITED(st) ? "survived" : "abort");
		continue;
	    }
	    errno = 0;
	    int rc = xcm_dns_query_result(q, ips, cap);
	    if (rc < 0) snprintf(res, sizeof(res), "rc=-1 %s", h_errname(errno)); else snprintf(res, sizeof(res), "rc=%d", rc);
	    for (int i = 0; i < rc; i++)
		if (ips[i].family != AF_INET || ntohl(ips[i].addr.ip4) != 0x7f000001u + i) snprintf(res, sizeof(res), "rc=%d WRONG-ADDRESS-%d", rc, i);
	    show(q, res);
	} else if (!strcmp(w[0], "D") && n == 1) {
	    int c0 = h_closed, r0 = h_timer_regdel, left = 0;
	    xcm_dns_query_destroy(q, true); q = NULL;
	    for (int i = 0; i < ARES_GETSOCK_MAXNUM; i++) left += h_regs[i] != 0;
	    printf("destroyed regs-left=%d closed=%d regdel=%d\n", left, h_closed - c0, h_timer_regdel - r0); fflush(stdout);
	} else { printf("bad-op\n"); fflush(stdout); }
    }
    return 0;
}
