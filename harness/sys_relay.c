/* System harness for C20: the REAL relay (tools/xcmrelay/rserver.c + xrelay.c, linked from the working tree) runs its
   libevent loop in a thread of this process; clients connect to it and a backend server receives what it forwards.
   send()/recv() made in the relay thread can be made to return EAGAIN / short counts (seeded) so that messages are
   left in the relay's XCM send buffers. */
#include "sysutil.h"
#include <pthread.h>
#include <poll.h>
#include <time.h>
#include <event.h>
#include <event2/thread.h>
#include <sys/socket.h>
#include "rserver.h"

static __thread int in_relay;
static int inject;                     /* per cent of relay-thread send/recv calls to disturb */
static unsigned fseed = 1;
static long n_eagain, n_short;
static unsigned frand(void) { fseed = fseed * 1103515245u + 12345u; return (fseed >> 16) & 0x7fff; }

ssize_t __real_send(int fd, const void *buf, size_t len, int flags);
ssize_t __real_recv(int fd, void *buf, size_t len, int flags);
/* "the receiver's socket buffer is full": after a short count on fd, sends on that fd are refused for a while */
static int stall_mode; static int stalled_fd = -1; static double stalled_until;
static double now(void);
ssize_t __wrap_send(int fd, const void *buf, size_t len, int flags)
{
    if (in_relay && stall_mode && fd == stalled_fd) {
	if (now() < stalled_until) { errno = EAGAIN; return -1; }
	stalled_fd = -1;
    }
    if (in_relay && inject && (int)(frand() % 100) < inject) {
	if (frand() % 2) { __atomic_add_fetch(&n_eagain, 1, __ATOMIC_RELAXED); errno = EAGAIN; return -1; }
	/* only a byte-stream socket may accept less than offered */
	int ty = 0; socklen_t tl = sizeof(ty); getsockopt(fd, SOL_SOCKET, SO_TYPE, &ty, &tl);
	if (len > 1 && ty == SOCK_STREAM) {
	    __atomic_add_fetch(&n_short, 1, __ATOMIC_RELAXED); len = 1 + frand() % (len - 1);
	    if (stall_mode && stalled_fd < 0) { stalled_fd = fd; stalled_until = now() + 0.03; }
	}
    }
    return __real_send(fd, buf, len, flags);
}
ssize_t __wrap_recv(int fd, void *buf, size_t len, int flags)
{
    if (in_relay && inject && (int)(frand() % 100) < inject / 2) {
	if (frand() % 2) { errno = EAGAIN; return -1; }
	int ty = 0; socklen_t tl = sizeof(ty); getsockopt(fd, SOL_SOCKET, SO_TYPE, &ty, &tl);
	if (len > 1 && ty == SOCK_STREAM) len = 1 + frand() % (len - 1);
    }
    return __real_recv(fd, buf, len, flags);
}

#include <netinet/in.h>
static int free_port(void)
{
    int fd = socket(AF_INET, SOCK_STREAM, 0); struct sockaddr_in a = { .sin_family = AF_INET, .sin_addr.s_addr = htonl(INADDR_LOOPBACK) };
    socklen_t l = sizeof(a); bind(fd, (struct sockaddr *)&a, sizeof(a)); getsockname(fd, (struct sockaddr *)&a, &l); close(fd);
    return ntohs(a.sin_port);
}

static double now(void) { struct timespec t; clock_gettime(CLOCK_MONOTONIC, &t); return t.tv_sec + t.tv_nsec / 1e9; }

static struct event_base *base;
static volatile int relay_exited, relay_fatal;
static void on_fatal(void *d) { relay_fatal = 1; }
static void *relay_main(void *arg) { in_relay = 1; event_base_dispatch(base); relay_exited = 1; return NULL; }
static void stop_cb(evutil_socket_t fd, short ev, void *arg) { event_base_loopbreak(base); }

#define MAXC 16
struct side { struct xcm_socket *s; int nsend, sent, got, bad, closed_seen, closed, err; size_t soff, goff; bool closer; double pause_until; };
struct conn { struct side c, b; int id; };

static size_t mlen(int conn, int dir, int i, bool bs, int maxlen) { unsigned h = (conn * 131 + dir * 17 + i) * 2654435761u; size_t l = 2 + (h >> 8) % (i % 5 == 0 ? maxlen - 2 : 2000); return bs && l > 60000 ? 60000 : l; }
static void mfill(char *b, int conn, int dir, int i, size_t l) { for (size_t k = 0; k < l; k++) b[k] = (char)('a' + (conn * 7 + dir * 3 + i * 11 + k) % 26); if (l >= 2) { b[0] = (char)conn; b[1] = (char)i; } }


static char exp_buf[70000];
/* accounts `r` received bytes / one received message on side S (direction of the data: 1-d) */
static void account(struct side *S, struct side *P, int conn, int d, const char *rbuf, int r, bool bs, int maxlen)
{
    if (bs) {
	int off = 0;
	while (off < r) {
	    size_t l = mlen(conn, 1 - d, S->got, bs, maxlen); mfill(exp_buf, conn, 1 - d, S->got, l);
	    size_t k = l - S->goff < (size_t)(r - off) ? l - S->goff : (size_t)(r - off);
	    if (S->got >= P->nsend || memcmp(exp_buf + S->goff, rbuf + off, k)) { S->bad++; break; }
	    S->goff += k; off += k; if (S->goff == l) { S->goff = 0; S->got++; }
	}
    } else {
	size_t l = mlen(conn, 1 - d, S->got, bs, maxlen); mfill(exp_buf, conn, 1 - d, S->got, l);
	if (S->got >= P->nsend || (size_t)r != l || memcmp(exp_buf, rbuf, l)) S->bad++;
	S->got++;
    }
}

int main(void)
{
    static char line[H_LINE_MAX];
    char *w[H_MAXW];
    FILE *o = stdout;
    evthread_use_pthreads();
    while (fgets(line, sizeof(line), stdin)) {
	int n = h_words(line, w);
	if (n == 0 || w[0][0] == '#') continue;
	if (!strcmp(w[0], "RELAY") && n == 8) {
	    /* RELAY <leg1> <leg2> <nconns> <msgs per direction> <seed> <inject%> <mode bits: 1=backend closes on odd connections, 2=sides pause reading, 4=a short write is followed by 30 ms of EAGAIN> */
	    const char *l1 = w[1], *l2 = w[2]; int nc = atoi(w[3]); if (nc > MAXC) nc = MAXC; int nm = atoi(w[4]);
	    unsigned seed = atoi(w[5]); inject = atoi(w[6]); int mode = atoi(w[7]); stall_mode = mode & 4; stalled_fd = -1; fseed = seed * 2654435761u + 7;
	    bool bs = sys_is_bytestream(l1);
	    n_eagain = n_short = 0; relay_exited = relay_fatal = 0;
	    char baddr[300], raddr[300];
	    sys_addr(l2, baddr, sizeof(baddr)); sys_addr(l1, raddr, sizeof(raddr));
	    if (strstr(raddr, ":127.0.0.1:0")) snprintf(raddr, sizeof(raddr), "%s:127.0.0.1:%d", l1, free_port());
	    struct xcm_attr_map *m = sys_base_attrs(l2, true);
	    struct xcm_socket *backend = xcm_server_a(baddr, m); xcm_attr_map_destroy(m);
	    if (!backend) { fprintf(o, "fail backend %s\n", h_errname(errno)); fflush(o); continue; }
	    snprintf(baddr, sizeof(baddr), "%s", xcm_local_addr(backend));
	    base = event_base_new();
	    struct xcm_attr_map *sa = xcm_attr_map_create(), *sca = xcm_attr_map_create(), *cca = xcm_attr_map_create();
	    xcm_attr_map_add_str(sa, "xcm.service", "any"); xcm_attr_map_add_str(cca, "xcm.service", "any");
	    struct rserver *rs = rserver_create(raddr, sa, sca, baddr, cca, on_fatal, NULL, base);
	    xcm_attr_map_destroy(sa); xcm_attr_map_destroy(sca); xcm_attr_map_destroy(cca);
	    if (!rs) { fprintf(o, "fail relay-server\n"); xcm_close(backend); fflush(o); continue; }
	    /* the relay's server address (port 0 resolved): ask the socket through a throw-away trick: rserver hides it, so use fixed names */
	    rserver_start(rs);
	    pthread_t th; pthread_create(&th, NULL, relay_main, NULL);
	    static struct conn cs[MAXC]; memset(cs, 0, sizeof(cs));
	    static char sbuf[70000], rbuf[70000], exp[70000];
	    int maxlen = bs ? 60000 : 65000;
	    const char *failure = "-"; char failbuf[200];
	    for (int i = 0; i < nc; i++) {
		struct xcm_attr_map *cm = sys_base_attrs(l1, true);
		cs[i].id = i; cs[i].c.s = xcm_connect_a(raddr, cm); xcm_attr_map_destroy(cm);
		if (!cs[i].c.s) { snprintf(failbuf, sizeof(failbuf), "connect:%s", h_errname(errno)); failure = failbuf; break; }
		cs[i].c.nsend = nm; cs[i].b.nsend = nm;
		cs[i].c.closer = !((mode & 1) && (i % 2)); cs[i].b.closer = !cs[i].c.closer;
	    }
	    /* backend connections are matched to clients by the first message (which carries the connection number) */
	    struct side *unmatched[MAXC]; int nun = 0; struct xcm_socket *pend[MAXC]; int npend = 0;
	    double t0 = now(); int done = 0; unsigned rs2 = seed;
	    while (failure[0] == '-' && now() - t0 < 40) {
		struct xcm_attr_map *am = xcm_attr_map_create(); xcm_attr_map_add_bool(am, "xcm.blocking", false);
		struct xcm_socket *a = xcm_accept_a(backend, am); xcm_attr_map_destroy(am);
		if (a && npend < MAXC) pend[npend++] = a;
		/* unmatched backend connections: read the first message */
		for (int k = 0; k < npend; k++) {
		    if (!pend[k]) continue;
		    int r = xcm_receive(pend[k], rbuf, sizeof(rbuf));
		    if (r > 0) {
			int id = (unsigned char)rbuf[0];
			if (id >= nc || cs[id].b.s) { failure = "bad-first-message"; break; }
			cs[id].b.s = pend[k]; pend[k] = NULL;
			account(&cs[id].b, &cs[id].c, id, 1, rbuf, r, bs, maxlen);
		    } else if (r == 0) { failure = "backend-closed-before-first-message"; break; }
		    else if (errno != EAGAIN) { snprintf(failbuf, sizeof(failbuf), "backend-first-receive:%s", h_errname(errno)); failure = failbuf; break; }
		}
		done = 0;
		for (int i = 0; i < nc && failure[0] == '-'; i++) {
		    for (int d = 0; d < 2; d++) {
			struct side *S = d == 0 ? &cs[i].c : &cs[i].b, *P = d == 0 ? &cs[i].b : &cs[i].c;
			if (!S->s || S->closed) continue;
			/* send (the backend only once matched) */
			/* the closing side keeps its last message until it has received everything, then sends it, flushes and closes at once */
			bool hold = S->closer && S->sent == S->nsend - 1 && S->soff == 0 && S->got < P->nsend;
			if (S->sent < S->nsend && !S->err && !hold) {
			    size_t l = mlen(i, d, S->sent, bs, maxlen); mfill(sbuf, i, d, S->sent, l);
			    int rc = xcm_send(S->s, sbuf + S->soff, l - S->soff);
			    if (rc >= 0) { if (bs) { S->soff += rc; if (S->soff == l) { S->soff = 0; S->sent++; } } else S->sent++; }
			    else if (errno != EAGAIN) { S->err = errno; }
			}
			/* receive, unless this side pauses for a while */
			bool paused = (mode & 2) && now() < S->pause_until;
			if ((mode & 2) && !paused && rand_r(&rs2) % 400 == 0) S->pause_until = now() + 0.15;
			if (!paused && !S->closed_seen) {
			    int r = xcm_receive(S->s, rbuf, sizeof(rbuf));
			    if (r > 0) {
				account(S, P, i, d, rbuf, r, bs, maxlen);
			    } else if (r == 0) { S->closed_seen = 1; if (getenv("RELAY_DEBUG")) fprintf(stderr, "%.3f conn %d side %d saw close (got %d)\n", now() - t0, i, d, S->got); }
			    else if (errno != EAGAIN) { if (!S->err) S->err = errno; S->closed_seen = 2; }
			}
			/* the closing side closes once everything it had to send is flushed locally and it has received everything */
			if (S->closer && S->sent == S->nsend && S->got == P->nsend && !S->closed) {
			    if (xcm_finish(S->s) == 0) { xcm_close(S->s); S->closed = 1; if (getenv("RELAY_DEBUG")) fprintf(stderr, "%.3f conn %d side %d closed\n", now() - t0, i, d); }
			} else xcm_finish(S->s);
		    }
		    struct side *C = &cs[i].c, *B = &cs[i].b;
		    bool closer_done = (C->closer ? C->closed : B->closed);
		    struct side *other = C->closer ? B : C;
		    if (closer_done && (other->closed_seen || other->err)) done++;
		}
		if (done == nc) break;
		usleep(100);
	    }
	    /* verdict */
	    int lost = 0, dup_or_bad = 0, early_close = 0, errs = 0, incomplete = 0;
	    for (int i = 0; i < nc; i++) {
		struct side *C = &cs[i].c, *B = &cs[i].b;
		dup_or_bad += C->bad + B->bad;
		struct side *other = C->closer ? B : C, *closer = C->closer ? C : B;
		if (other->closed_seen == 1 && other->got < closer->nsend) early_close++;
		if (other->closed_seen == 2 || C->err || B->err) errs++;
		if (!other->closed_seen && !other->err) incomplete++;
		lost += (closer->nsend - other->got) + (other->nsend - closer->got);
	    }
	    /* the relay must still be serving: one more connection, one message each way */
	    int alive = 0;
	    if (!relay_exited && !relay_fatal) {
		struct xcm_attr_map *cm = sys_base_attrs(l1, true);
		struct xcm_socket *c2 = xcm_connect_a(raddr, cm); xcm_attr_map_destroy(cm);
		struct xcm_socket *b2 = NULL; size_t sent2 = 0, got2 = 0; char acc2[16];
		const char *probe = "still-there?";
		for (int k = 0; c2 && k < 40000 && !alive; k++) {
		    if (!b2) { struct xcm_attr_map *am = xcm_attr_map_create(); xcm_attr_map_add_bool(am, "xcm.blocking", false); b2 = xcm_accept_a(backend, am); xcm_attr_map_destroy(am); }
		    if (sent2 < 12) { int rc2 = xcm_send(c2, probe + sent2, 12 - sent2); if (rc2 > 0) sent2 += rc2; else if (rc2 == 0) sent2 = 12; }
		    xcm_finish(c2);
		    if (b2) { int r = xcm_receive(b2, rbuf, sizeof(rbuf)); if (r > 0 && got2 + r <= 12) { memcpy(acc2 + got2, rbuf, r); got2 += r; } if (got2 == 12 && !memcmp(acc2, probe, 12)) alive = 1; }
		    usleep(100);
		}
		if (c2) xcm_close(c2); if (b2) xcm_close(b2);
	    }
	    fprintf(o, "conns=%d done=%d lost=%d bad=%d early_close=%d errors=%d incomplete=%d relay_exited=%d fatal=%d alive=%d fail=%s eagain=%ld short=%ld t=%.2f\n",
		    nc, done, lost, dup_or_bad, early_close, errs, incomplete, relay_exited, relay_fatal, alive, failure, n_eagain, n_short, now() - t0);
	    for (int i = 0; i < nc; i++) {
		struct side *C = &cs[i].c, *B = &cs[i].b; struct side *other = C->closer ? B : C, *closer = C->closer ? C : B;
		if (C->bad || B->bad || C->err || B->err || other->closed_seen != 1 || other->got < closer->nsend || closer->got < other->nsend)
		    fprintf(o, "  conn %d closer=%s client: sent=%d got=%d bad=%d close_seen=%d err=%s | backend: sent=%d got=%d bad=%d close_seen=%d err=%s\n", i, C->closer ? "client" : "backend",
			    C->sent, C->got, C->bad, C->closed_seen, C->err ? h_errname(C->err) : "-", B->sent, B->got, B->bad, B->closed_seen, B->err ? h_errname(B->err) : "-");
	    }
	    fputs(".\n", o);
	    for (int i = 0; i < nc; i++) { if (cs[i].c.s && !cs[i].c.closed) xcm_close(cs[i].c.s); if (cs[i].b.s && !cs[i].b.closed) xcm_close(cs[i].b.s); }
	    for (int k = 0; k < npend; k++) if (pend[k]) xcm_close(pend[k]);
	    /* stop the relay loop from inside */
	    struct timeval tv = { 0, 1000 }; struct event *stop = evtimer_new(base, stop_cb, NULL); evtimer_add(stop, &tv);
	    pthread_join(th, NULL);
	    event_free(stop);
	    inject = 0; stall_mode = 0;
	    rserver_stop(rs); rserver_destroy(rs); event_base_free(base);
	    xcm_close(backend);
	} else fputs("bad-op\n", o);
	fflush(o);
    }
    return 0;
}
