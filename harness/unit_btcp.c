/* Correspondence harness for the connection state machine of xcm_tp_btcp.c.  The REAL file is
   #included; its calls to the kernel (send/recv), the resolver query, tconnect and xpoll are
   redirected to the scripted layer below.  Headers are pre-included by the build. */
#include "hutil.h"
#include <sys/epoll.h>
#include <netinet/tcp.h>
#include <netinet/in.h>

static ssize_t mock_send(int fd, const void *buf, size_t len, int flags);
static ssize_t mock_recv(int fd, void *buf, size_t len, int flags);
static void mock_query_process(struct xcm_dns_query *q);
static int mock_query_result(struct xcm_dns_query *q, struct xcm_addr_ip *ips, int cap);
static bool mock_query_completed(struct xcm_dns_query *q);
static void mock_query_destroy(struct xcm_dns_query *q, bool owner);
static int mock_tc_connect(struct tconnect *tc, const struct xcm_addr_ip *lip, uint16_t lport, int64_t scope,
			   double tmo, const struct tcp_opts *opts, const struct xcm_addr_ip *rips, size_t n,
			   uint16_t rport);
static int mock_tc_get_fd(struct tconnect *tc, int *fd, int64_t *scope, struct tcp_opts *opts);
static void mock_tc_destroy(struct tconnect *tc, bool owner);
static int mock_fd_reg_add(struct xpoll *x, int fd, int event);
static void mock_fd_reg_mod(struct xpoll *x, int reg, int event);
static void mock_bell_reg_mod(struct xpoll *x, int reg, bool ringing);
static void mock_register(const char *name, const struct xcm_tp_ops *ops) { (void)name; (void)ops; }

#define send(fd, buf, len, flags) mock_send(fd, buf, len, flags)
#define recv(fd, buf, len, flags) mock_recv(fd, buf, len, flags)
#define xcm_dns_query_process mock_query_process
#define xcm_dns_query_result mock_query_result
#define xcm_dns_query_completed mock_query_completed
#define xcm_dns_query_destroy mock_query_destroy
#define tconnect_connect mock_tc_connect
#define tconnect_get_connected_fd mock_tc_get_fd
#define tconnect_destroy mock_tc_destroy
#define xpoll_fd_reg_add mock_fd_reg_add
#define xpoll_fd_reg_mod mock_fd_reg_mod
#define xpoll_bell_reg_mod mock_bell_reg_mod
#define xcm_tp_register mock_register

#include "xcm_tp_btcp.c"

#undef send
#undef recv
#undef xcm_dns_query_process
#undef xcm_dns_query_result
#undef xcm_dns_query_completed
#undef xcm_dns_query_destroy
#undef tconnect_connect
#undef tconnect_get_connected_fd
#undef tconnect_destroy
#undef xpoll_fd_reg_add
#undef xpoll_fd_reg_mod
#undef xpoll_bell_reg_mod
#undef xcm_tp_register

/* ---- scripted environment ---------------------------------------------------------------- */

#define MAXANS 16
static int est[MAXANS]; static int est_err[MAXANS]; static int n_est, used_est;   /* 0 again 1 fail 2 ok */
static int ksend_kind; static long ksend_k;          /* 0 ok(k) 1 err */
static int krecv_kind; static uint8_t *krecv_data; static size_t krecv_len; static int krecv_err; /* 0 data 1 eof 2 err */
static bool query_done;
static uint8_t *tx_delta; static size_t tx_delta_len, tx_delta_cap;
static int bell = -1, fdev = -1;
static struct btcp_socket *cur_bts;
static int dummy_fd = -1;

/* TCP options: what tconnect snapshot at tconnect_connect(), and what setsockopt() last put on the
   connection's kernel socket (setsockopt is wrapped at link time, so tcp_attr.c's calls land here) */
static struct tcp_opts snap; static bool have_snap;
static struct tcp_opts applied; static bool have_applied;

int __wrap_setsockopt(int fd, int level, int optname, const void *optval, socklen_t optlen)
{
    int v = optlen >= sizeof(int) ? *(const int *)optval : 0;
    if (level == SOL_SOCKET && optname == SO_KEEPALIVE) applied.keepalive = v != 0;
    else if (level == SOL_TCP && optname == TCP_KEEPIDLE) applied.keepalive_time = v;
    else if (level == SOL_TCP && optname == TCP_KEEPINTVL) applied.keepalive_interval = v;
    else if (level == SOL_TCP && optname == TCP_KEEPCNT) applied.keepalive_count = v;
    else if (level == SOL_TCP && optname == TCP_USER_TIMEOUT) applied.user_timeout = v / 1000;
    return 0;
}

static void show_opts(FILE *o)
{
    struct tcp_opts *d = &cur_bts->conn.tcp_opts;
    fprintf(o, "d=%d,%lld,%lld,%lld,%lld a=", d->keepalive, (long long)d->keepalive_time, (long long)d->keepalive_interval,
	    (long long)d->keepalive_count, (long long)d->user_timeout);
    if (have_applied)
	fprintf(o, "%d,%lld,%lld,%lld,%lld", applied.keepalive, (long long)applied.keepalive_time,
		(long long)applied.keepalive_interval, (long long)applied.keepalive_count, (long long)applied.user_timeout);
    else fputc('-', o);
}

static int next_est(int *err)
{
    if (used_est >= n_est) return 0;
    *err = est_err[used_est];
    return est[used_est++];
}

static ssize_t mock_send(int fd, const void *buf, size_t len, int flags)
{
    if (ksend_kind == 1) { errno = (int)ksend_k; return -1; }
    long k = ksend_k;
    if (k > (long)len) k = (long)len;
    if (k < 1) k = 1;
    if (len == 0) k = 0;
    if (tx_delta_len + k + 1 > tx_delta_cap) { tx_delta_cap = (tx_delta_len + k + 1) * 2; tx_delta = realloc(tx_delta, tx_delta_cap); }
    memcpy(tx_delta + tx_delta_len, buf, k);
    tx_delta_len += k;
    return k;
}

static ssize_t mock_recv(int fd, void *buf, size_t len, int flags)
{
    if (krecv_kind == 1) return 0;
    if (krecv_kind == 2) { errno = krecv_err; return -1; }
    size_t n = krecv_len < len ? krecv_len : len;
    memcpy(buf, krecv_data, n);
    return (ssize_t)n;
}

static void mock_query_process(struct xcm_dns_query *q) { }
static bool mock_query_completed(struct xcm_dns_query *q) { return query_done; }
static void mock_query_destroy(struct xcm_dns_query *q, bool owner) { }

static int mock_query_result(struct xcm_dns_query *q, struct xcm_addr_ip *ips, int cap)
{
    int e = 0;
    switch (next_est(&e)) {
    case 0: errno = EAGAIN; return -1;
    case 1: errno = e; return -1;
    default:
	ips[0].family = AF_INET; ips[0].addr.ip4 = htonl(0x7f000001);
	return 1;
    }
}

static int mock_tc_connect(struct tconnect *tc, const struct xcm_addr_ip *lip, uint16_t lport, int64_t scope,
			   double tmo, const struct tcp_opts *opts, const struct xcm_addr_ip *rips, size_t n,
			   uint16_t rport)
{
    int e = 0;
    snap = *opts; have_snap = true;
    if (used_est >= n_est) return 0;
    if (next_est(&e) == 1) { errno = e; return -1; }
    return 0;
}

static int mock_tc_get_fd(struct tconnect *tc, int *fd, int64_t *scope, struct tcp_opts *opts)
{
    int e = 0;
    switch (next_est(&e)) {
    case 0: errno = EAGAIN; return -1;
    case 1: errno = e; return -1;
    default:
	*fd = dummy_fd;
	*opts = snap;                       /* tconnect created the socket with its snapshot applied */
	applied = snap; have_applied = true;
	return 0;
    }
}

static void mock_tc_destroy(struct tconnect *tc, bool owner) { }
static int mock_fd_reg_add(struct xpoll *x, int fd, int event) { return 7; }
static void mock_fd_reg_mod(struct xpoll *x, int reg, int event) { fdev = event; }
static void mock_bell_reg_mod(struct xpoll *x, int reg, bool ringing) { bell = ringing; }

static void parse_est(const char *w)
{
    n_est = used_est = 0;
    if (!strcmp(w, "-")) return;
    char *dup = strdup(w), *save = NULL;
    for (char *t = strtok_r(dup, ",", &save); t && n_est < MAXANS; t = strtok_r(NULL, ",", &save)) {
	if (t[0] == 'a') { est[n_est] = 0; est_err[n_est++] = 0; }
	else if (t[0] == 'o') { est[n_est] = 2; est_err[n_est++] = 0; }
	else { est[n_est] = 1; est_err[n_est++] = h_errnum(t + 1); }
    }
    free(dup);
}

/* ---- socket under test --------------------------------------------------------------------- */

static struct xcm_socket *sock;
static struct xcm_tp_proto proto = { "btcp", &btcp_ops };

static void new_conn(const char *state)
{
    free(sock);
    sock = calloc(1, sizeof(struct xcm_socket) + sizeof(struct btcp_socket));
    sock->proto = &proto;
    sock->type = xcm_socket_type_conn;
    sock->sock_id = 1;
    struct btcp_socket *bts = TOBTCP(sock);
    cur_bts = bts;
    bts->fd = -1; bts->fd_reg_id = -1; bts->scope = -1;
    bts->conn.bell_reg_id = 3;
    tcp_opts_init(&bts->conn.tcp_opts);
    have_snap = false; have_applied = false;
    if (!strncmp(state, "resolving", 9)) {
	/* resolving | resolving-local (the local address's name only) | resolving-local+remote (both names) */
	bts->conn.state = conn_state_resolving;
	if (!strcmp(state, "resolving") || !strcmp(state, "resolving-local+remote")) bts->conn.query = (struct xcm_dns_query *)0x10;
	else { bts->conn.remote_ips[0].family = AF_INET; bts->conn.remote_ips[0].addr.ip4 = htonl(0x7f000001); bts->conn.num_remote_ips = 1; }
	if (strcmp(state, "resolving")) bts->conn.local_query = (struct xcm_dns_query *)0x18;
	bts->conn.tconnect = (struct tconnect *)0x20;
    } else if (!strcmp(state, "connecting")) {
	bts->conn.state = conn_state_connecting;
	bts->conn.tconnect = (struct tconnect *)0x20;
	snap = bts->conn.tcp_opts; have_snap = true;
    } else {
	bts->conn.state = conn_state_ready;
	bts->fd = dummy_fd; bts->fd_reg_id = 7;
	applied = bts->conn.tcp_opts; have_applied = true;
    }
}

static const char *state_str(void)
{
    struct btcp_socket *bts = TOBTCP(sock);
    static char buf[64];
    switch (bts->conn.state) {
    case conn_state_resolving:
	if (bts->conn.local_query != NULL) return bts->conn.query != NULL ? "resolving-local+remote" : "resolving-local";
	return "resolving";
    case conn_state_connecting: return "connecting";
    case conn_state_ready:
	/* an established connection holds no connect-phase helper (their timer/socket fds would stay in the epoll set) */
	if (bts->conn.tconnect != NULL) return "ready+tconnect";
	if (bts->conn.query != NULL || bts->conn.local_query != NULL) return "ready+query";
	return "ready";
    case conn_state_closed: return "closed";
    case conn_state_bad: snprintf(buf, sizeof(buf), "bad:%s", h_errname(bts->conn.badness_reason)); return buf;
    default: return "?";
    }
}

static void render(FILE *o, int rc, int err, const uint8_t *payload, size_t plen)
{
    if (rc < 0) fprintf(o, "-1 %s | -", h_errname(err));
    else if (payload) { fprintf(o, "%d | ", rc); h_showbytes(o, payload, plen); }
    else fprintf(o, "%d | -", rc);
    fputs(" |", o);
    for (int i = 0; i < XCM_TP_NUM_BYTESTREAM_CNTS; i++)
	fprintf(o, " %lld", (long long)btcp_get_cnt(sock, (enum xcm_tp_cnt)i));
    fprintf(o, " | %s | tx+", state_str());
    h_showbytes(o, tx_delta, tx_delta_len);
    fputc('\n', o);
}

int main(void)
{
    static char line[H_LINE_MAX];
    char *w[H_MAXW];
    FILE *o = stdout;
    dummy_fd = socket(AF_INET, SOCK_STREAM, 0);   /* a real TCP socket: tcp_effectuate_dscp() inspects its family */
    new_conn("ready");
    while (fgets(line, sizeof(line), stdin)) {
	int n = h_words(line, w);
	if (n == 0 || w[0][0] == '#') continue;
	tx_delta_len = 0;
	if (!strcmp(w[0], "N") && n == 2) { new_conn(w[1]); fputs("ok\n", o); }
	else if (!strcmp(w[0], "S") && n == 4) {
	    size_t l; uint8_t *m = h_unhex(w[1], &l);
	    uint8_t *ex = malloc(l ? l : 1); memcpy(ex, m, l); free(m);
	    parse_est(w[2]);
	    if (w[3][0] == 'E') { ksend_kind = 1; ksend_k = h_errnum(w[3] + 1); }
	    else { ksend_kind = 0; ksend_k = w[3][0] == 'A' ? 100000000 : atol(w[3] + 1); }
	    errno = 0;
	    int rc = btcp_send(sock, ex, l);
	    int e = errno;
	    free(ex);
	    render(o, rc, e, NULL, 0);
	} else if (!strcmp(w[0], "R") && n == 4) {
	    size_t cap = strtoul(w[1], NULL, 10);
	    uint8_t *buf = malloc(cap ? cap : 1);
	    parse_est(w[2]);
	    free(krecv_data); krecv_data = NULL; krecv_len = 0;
	    if (w[3][0] == 'Z') krecv_kind = 1;
	    else if (w[3][0] == 'E') { krecv_kind = 2; krecv_err = h_errnum(w[3] + 1); }
	    else { krecv_kind = 0; krecv_data = h_unhex(w[3] + 1, &krecv_len); }
	    errno = 0;
	    int rc = btcp_receive(sock, buf, cap);
	    int e = errno;
	    render(o, rc, e, rc > 0 ? buf : NULL, rc > 0 ? (size_t)rc : 0);
	    free(buf);
	} else if (!strcmp(w[0], "F") && n == 2) {
	    parse_est(w[1]);
	    errno = 0;
	    int rc = btcp_finish(sock);
	    int e = errno;
	    render(o, rc, e, NULL, 0);
	} else if (!strcmp(w[0], "U") && n == 3) {
	    sock->condition = atoi(w[1]);
	    query_done = atoi(w[2]);
	    bell = -1; fdev = -1;
	    btcp_update(sock);
	    fprintf(o, "bell=%d fd=", bell);
	    if (fdev >= 0) fprintf(o, "%d\n", fdev); else fputs("-\n", o);
	} else if (!strcmp(w[0], "O") && n == 3) {
	    /* O <option> <value>: the attribute setter of tcp.<option> (GEN_TCP_SET) */
	    int64_t v = strtoll(w[2], NULL, 10);
	    bool b = v != 0;
	    errno = 0;
	    int rc;
	    if (!strcmp(w[1], "keepalive")) rc = set_keepalive_attr(sock, NULL, &b, sizeof(b));
	    else if (!strcmp(w[1], "time")) rc = set_keepalive_time_attr(sock, NULL, &v, sizeof(v));
	    else if (!strcmp(w[1], "interval")) rc = set_keepalive_interval_attr(sock, NULL, &v, sizeof(v));
	    else if (!strcmp(w[1], "count")) rc = set_keepalive_count_attr(sock, NULL, &v, sizeof(v));
	    else rc = set_user_timeout_attr(sock, NULL, &v, sizeof(v));
	    int e = errno;
	    if (rc < 0) fprintf(o, "-1 %s | ", h_errname(e)); else fprintf(o, "%d | ", rc);
	    show_opts(o);
	    fputc('\n', o);
	} else if (!strcmp(w[0], "A") && n == 1) {
	    show_opts(o);
	    fputc('\n', o);
	} else if (!strcmp(w[0], "SU") && n == 2) {
	    /* server_update on a server socket */
	    struct xcm_socket *srv = calloc(1, sizeof(struct xcm_socket) + sizeof(struct btcp_socket));
	    srv->proto = &proto; srv->type = xcm_socket_type_server;
	    TOBTCP(srv)->fd_reg_id = 9;
	    srv->condition = atoi(w[1]);
	    fdev = -1;
	    btcp_update(srv);
	    fprintf(o, "fd=%d\n", fdev);
	    free(srv);
	} else
	    fputs("bad-op\n", o);
	fflush(o);
    }
    return 0;
}
