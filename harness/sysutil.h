/* Helpers for the system harnesses: real XCM sockets of every transport, connected inside one
   process by pumping non-blocking endpoints. */
#ifndef SYSUTIL_H
#define SYSUTIL_H
#include "hutil.h"
#include <unistd.h>
#include <xcm.h>
#include <xcm_attr.h>
#include <xcm_attr_map.h>
#include <xcm_addr.h>

struct trio {
    struct xcm_socket *server, *client, *accepted;
    char addr[300];
    const char *proto;
};

static int sys_seq;

static bool sys_is_bytestream(const char *proto)
{
    return !strcmp(proto, "btcp") || !strcmp(proto, "btls");
}

static bool sys_is_tls(const char *proto)
{
    return !strcmp(proto, "tls") || !strcmp(proto, "btls") || !strcmp(proto, "utls");
}

static void sys_addr(const char *proto, char *buf, size_t cap)
{
    const char *dir = getenv("VERIF_RUNDIR");
    if (!strcmp(proto, "ux"))
	snprintf(buf, cap, "ux:verif-%d-%d", (int)getpid(), __atomic_fetch_add(&sys_seq, 1, __ATOMIC_RELAXED));
    else if (!strcmp(proto, "uxf"))
	snprintf(buf, cap, "uxf:%s/s%d-%d", dir ? dir : "/tmp", (int)getpid(), __atomic_fetch_add(&sys_seq, 1, __ATOMIC_RELAXED));
    else
	snprintf(buf, cap, "%s:127.0.0.1:0", proto);
}

static struct xcm_attr_map *sys_base_attrs(const char *proto, bool nonblocking)
{
    struct xcm_attr_map *m = xcm_attr_map_create();
    if (nonblocking)
	xcm_attr_map_add_bool(m, "xcm.blocking", false);
    if (sys_is_bytestream(proto))
	xcm_attr_map_add_str(m, "xcm.service", "bytestream");
    return m;
}

/* pumps both ends until the connection is established on both; 0 on success */
static int sys_pump(struct trio *t, int max_iter)
{
    for (int i = 0; i < max_iter; i++) {
	if (t->accepted == NULL) {
	    struct xcm_attr_map *m = xcm_attr_map_create();
	    xcm_attr_map_add_bool(m, "xcm.blocking", false);
	    t->accepted = xcm_accept_a(t->server, m);
	    xcm_attr_map_destroy(m);
	}
	int rc_c = xcm_finish(t->client);
	int e_c = errno;
	int rc_a = t->accepted ? xcm_finish(t->accepted) : -1;
	int e_a = t->accepted ? errno : EAGAIN;
	if (rc_c == 0 && rc_a == 0)
	    return 0;
	if ((rc_c < 0 && e_c != EAGAIN) || (rc_a < 0 && e_a != EAGAIN))
	    return -1;
	usleep(500);
    }
    return -1;
}

/* server + connected client + accepted connection, all non-blocking */
static int sys_establish(const char *proto, struct trio *t, struct xcm_attr_map *extra_client,
			 struct xcm_attr_map *extra_server)
{
    memset(t, 0, sizeof(*t));
    t->proto = proto;
    char addr[300];
    sys_addr(proto, addr, sizeof(addr));
    struct xcm_attr_map *sm = sys_base_attrs(proto, true);
    if (extra_server) xcm_attr_map_add_all(sm, extra_server);
    t->server = xcm_server_a(addr, sm);
    xcm_attr_map_destroy(sm);
    if (t->server == NULL)
	return -1;
    const char *la = xcm_local_addr(t->server);
    snprintf(t->addr, sizeof(t->addr), "%s", la ? la : addr);
    struct xcm_attr_map *cm = sys_base_attrs(proto, true);
    if (extra_client) xcm_attr_map_add_all(cm, extra_client);
    t->client = xcm_connect_a(t->addr, cm);
    xcm_attr_map_destroy(cm);
    if (t->client == NULL)
	return -1;
    return sys_pump(t, 4000);
}

static void sys_close_trio(struct trio *t)
{
    if (t->client) xcm_close(t->client);
    if (t->accepted) xcm_close(t->accepted);
    if (t->server) xcm_close(t->server);
    memset(t, 0, sizeof(*t));
}

#endif
