/* System harness for C09 / C18 / C07: real tls, btls and utls sockets with real OpenSSL and a generated PKI.
   PKI_DIR: the fixture; VERIF_RUNDIR: scratch (composite files, the default XCM_TLS_CERT directory). */
#include "sysutil.h"
#include <sys/stat.h>
#include <sys/socket.h>
#include <netinet/in.h>
#include <arpa/inet.h>
#include <fcntl.h>
#include <poll.h>
#include <sys/wait.h>
#include <openssl/ssl.h>
#include <openssl/err.h>

static const char *pki, *run;
static int fseq;

static char *slurp(const char *path)
{
    FILE *f = fopen(path, "r"); if (!f) return NULL;
    char *buf = malloc(400000); size_t n = fread(buf, 1, 399999, f); buf[n] = 0; fclose(f);
    return buf;
}
static char *material(const char *spec)
{
    char *out = calloc(1, 800000); char *dup = strdup(spec);
    char *sv1;
    for (char *t = strtok_r(dup, "+", &sv1); t; t = strtok_r(NULL, "+", &sv1)) {
	char p[600]; snprintf(p, sizeof(p), "%s/%s.pem", pki, t);
	char *c = slurp(p); if (c) { strcat(out, c); free(c); }
    }
    free(dup);
    return out;
}
/* a file holding the material; plain fixture names map to the fixture file itself */
static const char *material_file(const char *spec)
{
    static char p[8][700]; static int k;
    char *q = p[k++ % 8];
    if (!strchr(spec, '+')) { snprintf(q, 700, "%s/%s.pem", pki, spec); return q; }
    snprintf(q, 700, "%s/m%d.pem", run, fseq++);
    char *m = material(spec); FILE *f = fopen(q, "w"); fputs(m, f); fclose(f); free(m);
    return q;
}
static void write_named(const char *dir, const char *name, const char *spec)
{
    char tmp[700], dst[700];
    snprintf(tmp, sizeof(tmp), "%s/.t%d", dir, fseq++); snprintf(dst, sizeof(dst), "%s/%s", dir, name);
    char *m = material(spec); FILE *f = fopen(tmp, "w"); fputs(m, f); fclose(f); free(m);
    rename(tmp, dst);
}

/* "auth=0,time=1,crlchk=1,vname=1,names=a:b,client=1,cert=a1,certv=a1,tc=rootA+rootB,tcv=..,crl=..,crlv=.." or "-" */
static int apply_attrs(struct xcm_attr_map *m, const char *spec)
{
    if (!strcmp(spec, "-")) return 0;
    char *dup = strdup(spec);
    char *sv2;
    for (char *t = strtok_r(dup, ",", &sv2); t; t = strtok_r(NULL, ",", &sv2)) {
	char *v = strchr(t, '='); if (!v) continue; *v++ = 0;
	if (!strcmp(t, "auth")) xcm_attr_map_add_bool(m, "tls.auth", atoi(v));
	else if (!strcmp(t, "time")) xcm_attr_map_add_bool(m, "tls.check_time", atoi(v));
	else if (!strcmp(t, "crlchk")) xcm_attr_map_add_bool(m, "tls.check_crl", atoi(v));
	else if (!strcmp(t, "vname")) xcm_attr_map_add_bool(m, "tls.verify_peer_name", atoi(v));
	else if (!strcmp(t, "client")) xcm_attr_map_add_bool(m, "tls.client", atoi(v));
	else if (!strcmp(t, "names")) xcm_attr_map_add_str(m, "tls.peer_names", !strcmp(v, "none") ? "" : v);
	else if (!strcmp(t, "cert")) {
	    char kf[700]; const char *cf = material_file(v);
	    char base[200]; snprintf(base, sizeof(base), "%s", v); char *dash = strstr(base, "-chain"); if (dash) *dash = 0;
	    snprintf(kf, sizeof(kf), "%s/%s-key.pem", pki, base);
	    xcm_attr_map_add_str(m, "tls.cert_file", cf); xcm_attr_map_add_str(m, "tls.key_file", kf);
	} else if (!strcmp(t, "certv")) {
	    char base[200]; snprintf(base, sizeof(base), "%s", v); char *dash = strstr(base, "-chain"); if (dash) *dash = 0;
	    char ks[220]; snprintf(ks, sizeof(ks), "%s-key", base);
	    char *c = material(v), *k = material(ks);
	    xcm_attr_map_add_bin(m, "tls.cert", c, strlen(c)); xcm_attr_map_add_bin(m, "tls.key", k, strlen(k)); free(c); free(k);
	} else if (!strcmp(t, "tc")) xcm_attr_map_add_str(m, "tls.tc_file", material_file(v));
	else if (!strcmp(t, "tcv")) { char *c = material(v); xcm_attr_map_add_bin(m, "tls.tc", c, strlen(c)); free(c); }
	else if (!strcmp(t, "crl")) xcm_attr_map_add_str(m, "tls.crl_file", material_file(v));
	else if (!strcmp(t, "crlv")) { char *c = material(v); xcm_attr_map_add_bin(m, "tls.crl", c, strlen(c)); free(c); }
    }
    free(dup);
    return 0;
}

static const char *st_name(int rc, int e) { return rc == 0 ? "ok" : h_errname(e); }

struct pair { struct xcm_socket *srv, *cli, *acc; char cli_st[64], acc_st[64]; bool cli_ok, acc_ok; };

/* establishes (or fails to) one connection; attrs per socket */
static void connect_pair(struct pair *p, const char *proto, struct xcm_socket *srv, const char *acc_attrs, const char *cli_attrs, const char *host)
{
    memset(p, 0, sizeof(*p)); p->srv = srv;
    snprintf(p->cli_st, sizeof(p->cli_st), "none"); snprintf(p->acc_st, sizeof(p->acc_st), "none");
    const char *la = xcm_local_addr(srv);
    char addr[300]; const char *port = strrchr(la, ':');
    snprintf(addr, sizeof(addr), "%s:%s%s", proto, host, port);
    struct xcm_attr_map *cm = sys_base_attrs(proto, true);
    apply_attrs(cm, cli_attrs);
    p->cli = xcm_connect_a(addr, cm);
    int ce = errno;
    xcm_attr_map_destroy(cm);
    if (!p->cli) snprintf(p->cli_st, sizeof(p->cli_st), "connect:%s", h_errname(ce));
    bool acc_failed = false, cli_done = p->cli == NULL, acc_done = false;
    int quiet = 0;
    for (int i = 0; i < 3000 && quiet < 60; i++) {
	if (!p->acc && !acc_failed) {
	    struct xcm_attr_map *am = xcm_attr_map_create();
	    xcm_attr_map_add_bool(am, "xcm.blocking", false);
	    apply_attrs(am, acc_attrs);
	    p->acc = xcm_accept_a(srv, am);
	    int ae = errno;
	    xcm_attr_map_destroy(am);
	    if (!p->acc && ae != EAGAIN) { acc_failed = true; acc_done = true; snprintf(p->acc_st, sizeof(p->acc_st), "accept:%s", h_errname(ae)); }
	}
	if (p->cli && !cli_done) {
	    int rc = xcm_finish(p->cli); int e = errno;
	    if (rc == 0 || e != EAGAIN) { cli_done = true; p->cli_ok = rc == 0; snprintf(p->cli_st, sizeof(p->cli_st), "%s", st_name(rc, e)); }
	}
	if (p->acc && !acc_done) {
	    int rc = xcm_finish(p->acc); int e = errno;
	    if (rc == 0 || e != EAGAIN) { acc_done = true; p->acc_ok = rc == 0; snprintf(p->acc_st, sizeof(p->acc_st), "%s", st_name(rc, e)); }
	}
	if (cli_done && (acc_done || (!p->acc && !p->cli_ok))) quiet++;
	usleep(300);
    }
}

/* can `from` get a message to `to`'s application?  1 = delivered intact */
static int deliver(struct xcm_socket *from, struct xcm_socket *to, const char *msg, char *why, size_t cap)
{
    snprintf(why, cap, "-");
    if (!from || !to) return 0;
    int sent = 0;
    char buf[256];
    for (int i = 0; i < 400; i++) {
	if (!sent) { int rc = xcm_send(from, msg, strlen(msg)); if (rc >= 0) sent = 1; else if (errno != EAGAIN) { snprintf(why, cap, "send:%s", h_errname(errno)); break; } }
	if (sent) xcm_finish(from);
	int r = xcm_receive(to, buf, sizeof(buf));
	if (r > 0) return (size_t)r == strlen(msg) && !memcmp(buf, msg, r) ? 1 : 2;
	if (r == 0) { snprintf(why, cap, "recv:closed"); break; }
	if (errno != EAGAIN) { snprintf(why, cap, "recv:%s", h_errname(errno)); break; }
	usleep(300);
    }
    return 0;
}

static struct xcm_socket *srvs[8]; static char srv_proto[8][16]; static struct pair pairs[16];
static void close_pair(struct pair *p) { if (p->cli) xcm_close(p->cli); if (p->acc) xcm_close(p->acc); p->cli = p->acc = NULL; }

/* live SSL_CTX objects of the process, counted through OpenSSL's ex_data hooks (nothing of the library is touched) */
static int live_ctx;
static void ctx_new_cb(void *parent, void *ptr, CRYPTO_EX_DATA *ad, int idx, long argl, void *argp) { (void)parent; (void)ptr; (void)ad; (void)idx; (void)argl; (void)argp; live_ctx++; }
static void ctx_free_cb(void *parent, void *ptr, CRYPTO_EX_DATA *ad, int idx, long argl, void *argp) { (void)parent; (void)ptr; (void)ad; (void)idx; (void)argl; (void)argp; live_ctx--; }

/* the forking-server hand-over: a child takes the connection over, the parent drops its copy with xcm_cleanup */
static void forkclean_pair(struct pair *p)
{
    fflush(NULL);
    pid_t pid = fork();
    if (pid == 0) _exit(0);
    int st; waitpid(pid, &st, 0);
    if (p->cli) xcm_cleanup(p->cli);
    if (p->acc) xcm_cleanup(p->acc);
    p->cli = p->acc = NULL;
}

static void peer_desc(struct xcm_socket *s, char *out, size_t cap)
{
    char names[512] = "-";
    if (s && xcm_attr_get_str(s, "tls.peer_names", names, sizeof(names)) < 0) snprintf(names, sizeof(names), "?");
    snprintf(out, cap, "%s", names);
}


static SSL_SESSION *saved_session;
static int new_session_cb(SSL *ssl, SSL_SESSION *session) { if (!saved_session) { saved_session = session; return 1; } return 0; }

/* ---- a raw OpenSSL client (not XCM), to play a peer that keeps and re-offers TLS sessions ---------------------- */
static int raw_connect_tcp(const char *xcm_addr)
{
    const char *port = strrchr(xcm_addr, ':');
    int fd = socket(AF_INET, SOCK_STREAM, 0);
    struct sockaddr_in a = { .sin_family = AF_INET, .sin_port = htons(atoi(port + 1)) };
    inet_pton(AF_INET, "127.0.0.1", &a.sin_addr);
    if (connect(fd, (struct sockaddr *)&a, sizeof(a)) < 0) { close(fd); return -1; }
    fcntl(fd, F_SETFL, fcntl(fd, F_GETFL) | O_NONBLOCK);
    return fd;
}

/* drives a raw client handshake against an XCM server socket; returns the accepted XCM connection (or NULL), whether the
   raw handshake completed, whether the session was resumed; *sess receives a session to re-offer */
static struct xcm_socket *raw_handshake(SSL_CTX *cctx, struct xcm_socket *srv, const char *acc_attrs, SSL_SESSION *offer,
					 SSL_SESSION **sess, int *hs_ok, int *resumed, char *acc_st, size_t cap, const char *payload, int *delivered)
{
    *hs_ok = 0; *resumed = 0; *delivered = 0; snprintf(acc_st, cap, "none");
    int fd = raw_connect_tcp(xcm_local_addr(srv));
    if (fd < 0) return NULL;
    SSL *ssl = SSL_new(cctx);
    SSL_set_fd(ssl, fd);
    if (offer) SSL_set_session(ssl, offer);
    struct xcm_socket *acc = NULL; bool acc_done = false, acc_ok = false, wrote = false;
    for (int i = 0; i < 3000; i++) {
	if (!*hs_ok) {
	    int rc = SSL_connect(ssl);
	    if (rc == 1) { *hs_ok = 1; *resumed = SSL_session_reused(ssl); }
	    else { int e = SSL_get_error(ssl, rc); if (e != SSL_ERROR_WANT_READ && e != SSL_ERROR_WANT_WRITE) { *hs_ok = -1; } }
	} else if (*hs_ok == 1) {
	    /* reading processes NewSessionTicket messages */
	    char b[256]; int r = SSL_read(ssl, b, sizeof(b)); (void)r;
	    if (!wrote && payload) { if (SSL_write(ssl, payload, strlen(payload)) > 0) wrote = true; }
	}
	if (!acc && !acc_done) {
	    struct xcm_attr_map *am = xcm_attr_map_create();
	    xcm_attr_map_add_bool(am, "xcm.blocking", false);
	    apply_attrs(am, acc_attrs);
	    acc = xcm_accept_a(srv, am); int ae = errno;
	    xcm_attr_map_destroy(am);
	    if (!acc && ae != EAGAIN) { acc_done = true; snprintf(acc_st, cap, "accept:%s", h_errname(ae)); }
	}
	if (acc && !acc_done) {
	    int rc = xcm_finish(acc); int e = errno;
	    if (rc == 0 || e != EAGAIN) { acc_done = true; acc_ok = rc == 0; snprintf(acc_st, cap, "%s", st_name(rc, e)); }
	}
	if (acc && acc_ok && payload && !*delivered) {
	    char b[256]; int r = xcm_receive(acc, b, sizeof(b));
	    if (r > 0) *delivered = 1;
	}
	if (acc_done && (*hs_ok != 0) && (!payload || *delivered || !acc_ok || i > 600) && i > 200) break;
	usleep(200);
    }
    if (sess && *hs_ok == 1) *sess = saved_session ? saved_session : SSL_get1_session(ssl);
    saved_session = NULL;
    SSL_free(ssl);
    close(fd);
    return acc;
}

int main(void)
{
    CRYPTO_get_ex_new_index(CRYPTO_EX_INDEX_SSL_CTX, 0, NULL, ctx_new_cb, NULL, ctx_free_cb);
    static char line[H_LINE_MAX];
    char *w[H_MAXW];
    FILE *o = stdout;
    pki = getenv("PKI_DIR"); run = getenv("VERIF_RUNDIR");
    if (!pki || !run) { fputs("PKI_DIR/VERIF_RUNDIR unset\n", stderr); return 2; }
    char dflt[700]; snprintf(dflt, sizeof(dflt), "%s/default", run); mkdir(dflt, 0700);
    setenv("XCM_TLS_CERT", dflt, 1);
    while (fgets(line, sizeof(line), stdin)) {
	int n = h_words(line, w);
	if (n == 0 || w[0][0] == '#') continue;
	/* a directory name starting with "dirLong" is padded so that the directory's path is 246 characters long: the default file
	   names then straddle 255 characters (<dir>/cert.pem is exactly 255 long) */
#define DIRPATH(out, name) do { snprintf(out, sizeof(out), "%s/%s", run, name); \
	if (!strncmp(name, "dirLong", 7)) { size_t l_ = strlen(out); while (l_ < 246 && l_ + 1 < sizeof(out)) out[l_++] = 'x'; out[l_] = 0; } } while (0)
	if (!strcmp(w[0], "D") && n >= 4) {
	    /* D <cert> <tc> <crl|-> [dir]: (re)write the default credential directory (atomic renames) */
	    char dir[700]; snprintf(dir, sizeof(dir), "%s", dflt);
	    if (n == 5) { DIRPATH(dir, w[4]); mkdir(dir, 0700); }
	    char base[200]; snprintf(base, sizeof(base), "%s", w[1]); char *dash = strstr(base, "-chain"); if (dash) *dash = 0;
	    char ks[220]; snprintf(ks, sizeof(ks), "%s-key", base);
	    write_named(dir, "key.pem", ks); write_named(dir, "cert.pem", w[1]); write_named(dir, "tc.pem", w[2]);
	    if (strcmp(w[3], "-")) write_named(dir, "crl.pem", w[3]); else { char p[800]; snprintf(p, sizeof(p), "%s/crl.pem", dir); unlink(p); }
	    fputs("ok\n", o);
	} else if (!strcmp(w[0], "ENV") && n == 2) {
	    char dir[700]; DIRPATH(dir, w[1]);
	    setenv("XCM_TLS_CERT", !strcmp(w[1], "default") ? dflt : dir, 1);
	    fputs("ok\n", o);
	} else if (!strcmp(w[0], "M") && n == 6) {
	    /* M <proto> <host> <server attrs> <accept attrs> <client attrs>: one connection under the given policies */
	    const char *proto = w[1];
	    char addr[300]; snprintf(addr, sizeof(addr), "%s:127.0.0.1:0", proto);
	    struct xcm_attr_map *sm = sys_base_attrs(proto, true);
	    apply_attrs(sm, w[3]);
	    struct xcm_socket *srv = xcm_server_a(addr, sm);
	    int se = errno;
	    xcm_attr_map_destroy(sm);
	    if (!srv) { fprintf(o, "server=%s\n", h_errname(se)); fflush(o); continue; }
	    struct pair p;
	    connect_pair(&p, proto, srv, w[4], w[5], w[2]);
	    char why1[64], why2[64];
	    int c2s = deliver(p.cli, p.acc, "ping-from-client", why1, sizeof(why1));
	    int s2c = deliver(p.acc, p.cli, "ping-from-server", why2, sizeof(why2));
	    /* the final verdict of each side (a rejection by the peer may arrive after the own handshake completed) */
	    char pc[600], pa[600]; peer_desc(p.cli_ok ? p.cli : NULL, pc, sizeof(pc)); peer_desc(p.acc_ok ? p.acc : NULL, pa, sizeof(pa));
	    fprintf(o, "server=ok client=%s accepted=%s c2s=%d(%s) s2c=%d(%s) cli_sees=%s acc_sees=%s\n", p.cli_st, p.acc_st, c2s, why1, s2c, why2, pc, pa);
	    close_pair(&p);
	    xcm_close(srv);
	} else if (!strcmp(w[0], "SRV") && n == 4) {
	    /* SRV <id> <proto> <attrs>: a server socket that stays */
	    int id = atoi(w[1]) % 8;
	    char addr[300]; snprintf(addr, sizeof(addr), "%s:127.0.0.1:0", w[2]);
	    struct xcm_attr_map *sm = sys_base_attrs(w[2], true); apply_attrs(sm, w[3]);
	    if (srvs[id]) xcm_close(srvs[id]);
	    srvs[id] = xcm_server_a(addr, sm); int se = errno;
	    snprintf(srv_proto[id], sizeof(srv_proto[id]), "%s", w[2]);
	    xcm_attr_map_destroy(sm);
	    fprintf(o, "server=%s\n", srvs[id] ? "ok" : h_errname(se));
	} else if (!strcmp(w[0], "CON") && n == 6) {
	    /* CON <pair> <server id> <host> <accept attrs> <client attrs> */
	    int pid = atoi(w[1]) % 16, sid = atoi(w[2]) % 8;
	    if (!srvs[sid]) { fputs("no-server\n", o); fflush(o); continue; }
	    close_pair(&pairs[pid]);
	    connect_pair(&pairs[pid], srv_proto[sid], srvs[sid], w[4], w[5], w[3]);
	    struct pair *p = &pairs[pid];
	    char why1[64], why2[64];
	    int c2s = deliver(p->cli, p->acc, "ping-from-client", why1, sizeof(why1));
	    int s2c = deliver(p->acc, p->cli, "ping-from-server", why2, sizeof(why2));
	    char pc[600], pa[600]; peer_desc(p->cli_ok ? p->cli : NULL, pc, sizeof(pc)); peer_desc(p->acc_ok ? p->acc : NULL, pa, sizeof(pa));
	    fprintf(o, "server=ok client=%s accepted=%s c2s=%d(%s) s2c=%d(%s) cli_sees=%s acc_sees=%s\n", p->cli_st, p->acc_st, c2s, why1, s2c, why2, pc, pa);
	} else if (!strcmp(w[0], "PING") && n == 2) {
	    struct pair *p = &pairs[atoi(w[1]) % 16];
	    char why1[64], why2[64];
	    int c2s = deliver(p->cli, p->acc, "ping-from-client", why1, sizeof(why1));
	    int s2c = deliver(p->acc, p->cli, "ping-from-server", why2, sizeof(why2));
	    char pc[600], pa[600]; peer_desc(p->cli, pc, sizeof(pc)); peer_desc(p->acc, pa, sizeof(pa));
	    fprintf(o, "c2s=%d(%s) s2c=%d(%s) cli_sees=%s acc_sees=%s\n", c2s, why1, s2c, why2, pc, pa);
	} else if (!strcmp(w[0], "CLOSE") && n == 2) { close_pair(&pairs[atoi(w[1]) % 16]); fputs("ok\n", o); }
	else if (!strcmp(w[0], "FORKCLEAN") && n == 2) { forkclean_pair(&pairs[atoi(w[1]) % 16]); fputs("ok\n", o); }
	else if (!strcmp(w[0], "CTXLIVE") && n == 1) { fprintf(o, "live_ctx=%d\n", live_ctx); }
	else if (!strcmp(w[0], "CLOSESRV") && n == 2) { int id = atoi(w[1]) % 8; if (srvs[id]) xcm_close(srvs[id]); srvs[id] = NULL; fputs("ok\n", o); }
	else if (!strcmp(w[0], "GARB") && n == 4) {
	    /* GARB <proto> <hex garbage> <chunk>: an established connection B idles while, in the same thread, a raw peer writes garbage
	       instead of a TLS handshake on a new connection A; the next operations on B are ones that would block */
	    const char *proto = w[1];
	    char addr[300]; snprintf(addr, sizeof(addr), "%s:127.0.0.1:0", proto);
	    struct xcm_attr_map *sm = sys_base_attrs(proto, true);
	    struct xcm_socket *srv = xcm_server_a(addr, sm); xcm_attr_map_destroy(sm);
	    if (!srv) { fprintf(o, "fail server %s\n", h_errname(errno)); fflush(o); continue; }
	    struct pair b; connect_pair(&b, proto, srv, "-", "-", "127.0.0.1");
	    if (!b.cli_ok || !b.acc_ok) { fprintf(o, "fail establish %s %s\n", b.cli_st, b.acc_st); close_pair(&b); xcm_close(srv); fflush(o); continue; }
	    char buf[256];
	    /* drain whatever the handshake left (session tickets) so that B is idle */
	    for (int i = 0; i < 50; i++) { xcm_receive(b.cli, buf, sizeof(buf)); xcm_receive(b.acc, buf, sizeof(buf)); xcm_finish(b.cli); xcm_finish(b.acc); usleep(200); }
	    size_t glen; uint8_t *g = h_unhex(w[2], &glen); size_t chunk = atoi(w[3]) > 0 ? (size_t)atoi(w[3]) : glen;
	    int fd = raw_connect_tcp(xcm_local_addr(srv));
	    char a_st[64] = "none"; struct xcm_socket *a = NULL; size_t off = 0; bool a_done = false;
	    for (int i = 0; i < 400 && !a_done; i++) {
		if (off < glen) { size_t k = glen - off < chunk ? glen - off : chunk; ssize_t wr = write(fd, g + off, k); if (wr > 0) off += wr; }
		if (!a) {
		    struct xcm_attr_map *am = xcm_attr_map_create(); xcm_attr_map_add_bool(am, "xcm.blocking", false);
		    a = xcm_accept_a(srv, am); int ae = errno; xcm_attr_map_destroy(am);
		    if (!a && ae != EAGAIN) { snprintf(a_st, sizeof(a_st), "accept:%s", h_errname(ae)); a_done = true; }
		} else {
		    /* a messaging transport reads the garbage through xcm_receive, a handshake through xcm_finish */
		    int rc = xcm_finish(a); int e = errno;
		    if (rc < 0 && e != EAGAIN) { snprintf(a_st, sizeof(a_st), "%s", h_errname(e)); a_done = true; }
		    else if (rc == 0) { snprintf(a_st, sizeof(a_st), "ok"); a_done = true; }
		}
		if (a_done) break;
		usleep(200);
	    }
	    /* immediately: operations on B that would block */
	    int r1 = xcm_receive(b.acc, buf, sizeof(buf)); int e1 = errno;
	    int r2 = xcm_receive(b.cli, buf, sizeof(buf)); int e2 = errno;
	    int f1 = xcm_finish(b.acc); int e3 = errno;
	    char why1[64], why2[64];
	    int c2s = deliver(b.cli, b.acc, "ping-from-client", why1, sizeof(why1));
	    int s2c = deliver(b.acc, b.cli, "ping-from-server", why2, sizeof(why2));
	    fprintf(o, "garbage=%s b_acc_recv=%s b_cli_recv=%s b_acc_finish=%s c2s=%d(%s) s2c=%d(%s)\n", a_st,
		    r1 < 0 ? h_errname(e1) : r1 == 0 ? "closed" : "data", r2 < 0 ? h_errname(e2) : r2 == 0 ? "closed" : "data",
		    f1 == 0 ? "ok" : h_errname(e3), c2s, why1, s2c, why2);
	    if (a) xcm_close(a);
	    close(fd); free(g);
	    close_pair(&b); xcm_close(srv);
	}
	else if (!strcmp(w[0], "RESUME") && n == 5) {
	    /* RESUME <proto> <server attrs (both servers)> <extra attrs of server 2> <raw client cert>: a non-XCM peer completes a
	       handshake with server 1, keeps the session (ticket) and offers it to server 2, which shares server 1's credentials
	       but has a stricter policy */
	    const char *proto = w[1];
	    char addr[300]; snprintf(addr, sizeof(addr), "%s:127.0.0.1:0", proto);
	    struct xcm_attr_map *m1 = sys_base_attrs(proto, true); apply_attrs(m1, w[2]);
	    struct xcm_attr_map *m2 = sys_base_attrs(proto, true); apply_attrs(m2, w[2]); apply_attrs(m2, w[3]);
	    struct xcm_socket *s1 = xcm_server_a(addr, m1), *s2 = xcm_server_a(addr, m2);
	    xcm_attr_map_destroy(m1); xcm_attr_map_destroy(m2);
	    if (!s1 || !s2) { fprintf(o, "fail server %s\n", h_errname(errno)); if (s1) xcm_close(s1); if (s2) xcm_close(s2); fflush(o); continue; }
	    SSL_CTX *cctx = SSL_CTX_new(TLS_client_method());
	    char cf[700], kf[700]; snprintf(cf, sizeof(cf), "%s/%s.pem", pki, w[4]); snprintf(kf, sizeof(kf), "%s/%s-key.pem", pki, w[4]);
	    SSL_CTX_use_certificate_chain_file(cctx, cf); SSL_CTX_use_PrivateKey_file(cctx, kf, SSL_FILETYPE_PEM);
	    SSL_CTX_set_session_cache_mode(cctx, SSL_SESS_CACHE_CLIENT | SSL_SESS_CACHE_NO_INTERNAL);
	    SSL_CTX_sess_set_new_cb(cctx, new_session_cb); saved_session = NULL;
	    SSL_SESSION *sess = NULL;
	    int hs1, res1, d1, hs2, res2, d2; char st1[64], st2[64];
	    struct xcm_socket *a1 = raw_handshake(cctx, s1, "-", NULL, &sess, &hs1, &res1, st1, sizeof(st1), NULL, &d1);
	    int resumable = sess ? SSL_SESSION_is_resumable(sess) : 0;
	    if (a1) xcm_close(a1);
	    struct xcm_socket *a2 = raw_handshake(cctx, s2, "-", sess, NULL, &hs2, &res2, st2, sizeof(st2), "open sesame", &d2);
	    fprintf(o, "s1=%s hs1=%d resumable=%d hs2=%d resumed=%d s2=%s delivered=%d\n", st1, hs1, resumable, hs2, res2, st2, d2);
	    if (a2) xcm_close(a2);
	    if (sess) SSL_SESSION_free(sess);
	    SSL_CTX_free(cctx);
	    xcm_close(s1); xcm_close(s2);
	    ERR_clear_error();
	} else
	    fputs("bad-op\n", o);
	fflush(o);
    }
    return 0;
}
