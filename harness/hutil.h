/* Helpers shared by the correspondence harnesses (line protocol, hex, FNV-1a). */
#ifndef HUTIL_H
#define HUTIL_H
#include <stdio.h>
#include <stdlib.h>
#include <string.h>
#include <stdint.h>
#include <stdbool.h>
#include <errno.h>
#include <ctype.h>

#define H_MAXW 64

static inline int h_nib(int c)
{
    if (c >= '0' && c <= '9') return c - '0';
    if (c >= 'a' && c <= 'f') return c - 'a' + 10;
    if (c >= 'A' && c <= 'F') return c - 'A' + 10;
    return -1;
}

/* decodes hex ("-" = empty) into a fresh malloc'ed buffer with one extra NUL byte */
static inline uint8_t *h_unhex(const char *s, size_t *len)
{
    if (strcmp(s, "-") == 0) {
	*len = 0;
	uint8_t *b = malloc(1);
	b[0] = 0;
	return b;
    }
    size_t n = strlen(s) / 2;
    uint8_t *b = malloc(n + 1);
    for (size_t i = 0; i < n; i++)
	b[i] = (uint8_t)(h_nib(s[2 * i]) * 16 + h_nib(s[2 * i + 1]));
    b[n] = 0;
    *len = n;
    return b;
}

static inline void h_puthex(FILE *f, const void *p, size_t len)
{
    const uint8_t *b = p;
    if (len == 0) {
	fputc('-', f);
	return;
    }
    for (size_t i = 0; i < len; i++)
	fprintf(f, "%02x", b[i]);
}

static inline uint64_t h_fnv(const void *p, size_t len)
{
    const uint8_t *b = p;
    uint64_t h = 14695981039346656037ULL;
    for (size_t i = 0; i < len; i++) {
	h ^= b[i];
	h *= 1099511628211ULL;
    }
    return h;
}

/* same format as XcmModel.showBytes */
static inline void h_showbytes(FILE *f, const void *p, size_t len)
{
    if (len <= 48)
	h_puthex(f, p, len);
    else
	fprintf(f, "#%zu:%llu", len, (unsigned long long)h_fnv(p, len));
}

/* splits a line in place into words; returns count */
static inline int h_words(char *line, char **w)
{
    int n = 0;
    char *p = line;
    while (*p && n < H_MAXW) {
	while (*p == ' ' || *p == '\n' || *p == '\r' || *p == '\t') p++;
	if (!*p) break;
	w[n++] = p;
	while (*p && *p != ' ' && *p != '\n' && *p != '\r' && *p != '\t') p++;
	if (*p) *p++ = '\0';
    }
    return n;
}

static inline const char *h_errname(int e)
{
    switch (e) {
#define E(x) case x: return #x;
	E(EPERM) E(ENOENT) E(EINTR) E(EIO) E(EBADF) E(EAGAIN) E(ENOMEM) E(EACCES) E(EFAULT)
	E(EBUSY) E(EEXIST) E(EINVAL) E(ENFILE) E(EMFILE) E(ENOSPC) E(EPIPE) E(ERANGE)
	E(ENAMETOOLONG) E(ENOSYS) E(EOVERFLOW) E(EPROTO) E(EMSGSIZE) E(ENOPROTOOPT)
	E(EPROTONOSUPPORT) E(EAFNOSUPPORT) E(EADDRINUSE) E(EADDRNOTAVAIL) E(ENETDOWN)
	E(ENETUNREACH) E(ECONNABORTED) E(ECONNRESET) E(ENOBUFS) E(EISCONN) E(ENOTCONN)
	E(ETIMEDOUT) E(ECONNREFUSED) E(EHOSTUNREACH) E(EALREADY) E(EINPROGRESS) E(ENOTSUP)
#undef E
    case 0: return "0";
    default: {
	static char buf[32];
	snprintf(buf, sizeof(buf), "E%d", e);
	return buf;
    }
    }
}

static inline int h_errnum(const char *n)
{
#define E(x) if (strcmp(n, #x) == 0) return x;
    E(EPERM) E(ENOENT) E(EINTR) E(EIO) E(EBADF) E(EAGAIN) E(ENOMEM) E(EACCES) E(EFAULT)
    E(EBUSY) E(EEXIST) E(EINVAL) E(ENFILE) E(EMFILE) E(ENOSPC) E(EPIPE) E(ERANGE)
    E(ENAMETOOLONG) E(ENOSYS) E(EOVERFLOW) E(EPROTO) E(EMSGSIZE) E(ENOPROTOOPT)
    E(EPROTONOSUPPORT) E(EAFNOSUPPORT) E(EADDRINUSE) E(EADDRNOTAVAIL) E(ENETDOWN)
    E(ENETUNREACH) E(ECONNABORTED) E(ECONNRESET) E(ENOBUFS) E(EISCONN) E(ENOTCONN)
    E(ETIMEDOUT) E(ECONNREFUSED) E(EHOSTUNREACH) E(EALREADY) E(EINPROGRESS) E(ENOTSUP)
#undef E
    return atoi(n);
}

#define H_LINE_MAX (1 << 20)

#endif
