/* Correspondence harness for xcm_attr_map (public API) and attr_path (internal API).
   usage: unit_attrmap attrmap|attrpath < ops */
#include "hutil.h"
#include "xcm_attr_map.h"
#include "attr_path.h"

#define MAXMAPS 4096
static struct xcm_attr_map *maps[MAXMAPS];
static int nmaps;

static struct xcm_attr_map *getm(const char *w)
{
    int i = atoi(w);
    if (i < 0 || i >= nmaps || maps[i] == NULL)
	return NULL;
    return maps[i];
}

struct each_ctx { FILE *f; int n; };

static void each_cb(const char *name, enum xcm_attr_type type, const void *value,
		    size_t len, void *user)
{
    struct each_ctx *c = user;
    if (c->n++ > 0)
	fputc(',', c->f);
    h_puthex(c->f, name, strlen(name));
    fprintf(c->f, ":%d:", (int)type);
    h_showbytes(c->f, value, len);
}

static void attrmap_op(int n, char **w)
{
    FILE *o = stdout;
    if (n == 1 && !strcmp(w[0], "new")) {
	maps[nmaps++] = xcm_attr_map_create();
	fputs("ok\n", o);
    } else if (n == 5 && !strcmp(w[0], "add")) {
	struct xcm_attr_map *m = getm(w[1]);
	if (!m) { fputs("bad-op\n", o); return; }
	int t = atoi(w[2]);
	size_t nl, vl;
	uint8_t *name = h_unhex(w[3], &nl);
	uint8_t *val = h_unhex(w[4], &vl);
	/* use the typed adder whenever the value has the canonical shape of its type */
	if (t == xcm_attr_type_bool && vl == 1 && val[0] <= 1)
	    xcm_attr_map_add_bool(m, (char *)name, val[0]);
	else if (t == xcm_attr_type_int64 && vl == 8) {
	    int64_t v; memcpy(&v, val, 8);
	    xcm_attr_map_add_int64(m, (char *)name, v);
	} else if (t == xcm_attr_type_double && vl == 8) {
	    double v; memcpy(&v, val, 8);
	    /* NaN payloads are not guaranteed to survive a by-value pass; use the raw adder */
	    if (v == v)
		xcm_attr_map_add_double(m, (char *)name, v);
	    else
		xcm_attr_map_add(m, (char *)name, xcm_attr_type_double, val, vl);
	} else if (t == xcm_attr_type_str && vl > 0 && val[vl - 1] == 0 && strlen((char *)val) == vl - 1)
	    xcm_attr_map_add_str(m, (char *)name, (char *)val);
	else if (t == xcm_attr_type_bin && (vl & 1))
	    xcm_attr_map_add_bin(m, (char *)name, val, vl);
	else
	    xcm_attr_map_add(m, (char *)name, (enum xcm_attr_type)t, val, vl);
	/* the map must hold copies: scribble over and free the caller's buffers */
	memset(name, 0x5a, nl); memset(val, 0xa5, vl);
	free(name); free(val);
	fputs("ok\n", o);
    } else if (n == 3 && !strcmp(w[0], "del")) {
	struct xcm_attr_map *m = getm(w[1]);
	if (!m) { fputs("bad-op\n", o); return; }
	size_t nl; uint8_t *name = h_unhex(w[2], &nl);
	xcm_attr_map_del(m, (char *)name);
	free(name);
	fputs("ok\n", o);
    } else if (n == 3 && !strcmp(w[0], "get")) {
	struct xcm_attr_map *m = getm(w[1]);
	if (!m) { fputs("bad-op\n", o); return; }
	size_t nl; uint8_t *name = h_unhex(w[2], &nl);
	enum xcm_attr_type t = 77; size_t len = 0;
	const void *v = xcm_attr_map_get(m, (char *)name, &t, &len);
	/* NULL out-parameters are allowed by the API */
	const void *v2 = xcm_attr_map_get(m, (char *)name, NULL, NULL);
	free(name);
	if (v != v2) { fputs("inconsistent\n", o); return; }
	if (!v) fputs("none\n", o);
	else { fprintf(o, "%d ", (int)t); h_showbytes(o, v, len); fputc('\n', o); }
    } else if (n == 4 && !strcmp(w[0], "gett")) {
	struct xcm_attr_map *m = getm(w[1]);
	if (!m) { fputs("bad-op\n", o); return; }
	int t = atoi(w[2]);
	size_t nl; uint8_t *name = h_unhex(w[3], &nl);
	const void *v = NULL;
	switch (t) {
	case xcm_attr_type_bool: v = xcm_attr_map_get_bool(m, (char *)name); break;
	case xcm_attr_type_int64: v = xcm_attr_map_get_int64(m, (char *)name); break;
	case xcm_attr_type_double: v = xcm_attr_map_get_double(m, (char *)name); break;
	case xcm_attr_type_str: v = xcm_attr_map_get_str(m, (char *)name); break;
	case xcm_attr_type_bin: v = xcm_attr_map_get_bin(m, (char *)name); break;
	}
	if (!v) fputs("none\n", o);
	else {
	    /* the typed getters do not return a length; take it from the generic getter */
	    size_t len = 0; enum xcm_attr_type tt;
	    const void *v2 = xcm_attr_map_get(m, (char *)name, &tt, &len);
	    if (v2 != v || (int)tt != t) fputs("inconsistent\n", o);
	    else { h_showbytes(o, v, len); fputc('\n', o); }
	}
	free(name);
    } else if (n == 3 && !strcmp(w[0], "exists")) {
	struct xcm_attr_map *m = getm(w[1]);
	if (!m) { fputs("bad-op\n", o); return; }
	size_t nl; uint8_t *name = h_unhex(w[2], &nl);
	fprintf(o, "%d\n", (int)xcm_attr_map_exists(m, (char *)name));
	free(name);
    } else if (n == 2 && !strcmp(w[0], "size")) {
	struct xcm_attr_map *m = getm(w[1]);
	if (!m) { fputs("bad-op\n", o); return; }
	fprintf(o, "%zu\n", xcm_attr_map_size(m));
    } else if (n == 2 && !strcmp(w[0], "each")) {
	struct xcm_attr_map *m = getm(w[1]);
	if (!m) { fputs("bad-op\n", o); return; }
	struct each_ctx c = { o, 0 };
	fputc('[', o);
	xcm_attr_map_foreach(m, each_cb, &c);
	fputs("]\n", o);
    } else if (n == 2 && !strcmp(w[0], "clone")) {
	struct xcm_attr_map *m = getm(w[1]);
	if (!m) { fputs("bad-op\n", o); return; }
	maps[nmaps++] = xcm_attr_map_clone(m);
	fputs("ok\n", o);
    } else if (n == 3 && !strcmp(w[0], "addall")) {
	struct xcm_attr_map *d = getm(w[1]), *s = getm(w[2]);
	if (!d || !s) { fputs("bad-op\n", o); return; }
	xcm_attr_map_add_all(d, s);
	fputs("ok\n", o);
    } else if (n == 3 && !strcmp(w[0], "equal")) {
	struct xcm_attr_map *a = getm(w[1]), *b = getm(w[2]);
	if (!a || !b) { fputs("bad-op\n", o); return; }
	fprintf(o, "%d\n", (int)xcm_attr_map_equal(a, b));
    } else if (n == 2 && !strcmp(w[0], "destroy")) {
	struct xcm_attr_map *m = getm(w[1]);
	if (!m) { fputs("bad-op\n", o); return; }
	xcm_attr_map_destroy(m);
	maps[atoi(w[1])] = NULL;
	fputs("ok\n", o);
    } else
	fputs("bad-op\n", o);
}

static void show_path(FILE *o, struct attr_path *p, bool root)
{
    size_t nc = attr_path_num_comps(p);
    fprintf(o, "ok %zu [", nc);
    for (size_t i = 0; i < nc; i++) {
	const struct attr_pcomp *c = attr_path_get_comp(p, i);
	if (i) fputc(' ', o);
	if (attr_pcomp_is_key(c)) {
	    const char *k = attr_pcomp_get_key(c);
	    fputc('k', o); h_puthex(o, k, strlen(k));
	} else
	    fprintf(o, "i%zu", attr_pcomp_get_index(c));
    }
    fputs("] ", o);
    if (root && nc > 0 && !attr_pcomp_is_key(attr_path_get_comp(p, 0))) {
	fputs("abort\n", o);
	return;
    }
    char *s = attr_path_to_str(p, root);
    h_puthex(o, s, strlen(s));
    fprintf(o, " %zu\n", attr_path_len(p, root));
    free(s);
}

static void attrpath_op(int n, char **w)
{
    FILE *o = stdout;
    if (n == 3 && !strcmp(w[0], "parse")) {
	bool root = atoi(w[1]);
	size_t l; uint8_t *s = h_unhex(w[2], &l);
	/* exact-size heap copy so that ASan sees any over-read of the input */
	char *exact = malloc(l + 1); memcpy(exact, s, l + 1); free(s);
	struct attr_path *p = attr_path_parse(exact, root);
	if (!p) fputs("null\n", o);
	else { show_path(o, p, root); attr_path_destroy(p); }
	free(exact);
    } else if (n == 4 && !strcmp(w[0], "eq")) {
	bool root = atoi(w[1]);
	size_t l; uint8_t *a = h_unhex(w[2], &l); uint8_t *b = h_unhex(w[3], &l);
	struct attr_path *p = attr_path_parse((char *)a, root);
	if (!p) fputs("null\n", o);
	else {
	    fprintf(o, "%d\n", (int)attr_path_equal_str(p, (char *)b, root));
	    attr_path_destroy(p);
	}
	free(a); free(b);
    } else if (n == 2 && !strcmp(w[0], "vk")) {
	size_t l; uint8_t *a = h_unhex(w[1], &l);
	fprintf(o, "%d\n", (int)attr_path_is_valid_key((char *)a));
	free(a);
    } else
	fputs("bad-op\n", o);
}

int main(int argc, char **argv)
{
    static char line[H_LINE_MAX];
    char *w[H_MAXW];
    bool path = argc > 1 && !strcmp(argv[1], "attrpath");
    while (fgets(line, sizeof(line), stdin)) {
	int n = h_words(line, w);
	if (n == 0 || w[0][0] == '#')
	    continue;
	if (path) attrpath_op(n, w); else attrmap_op(n, w);
	fflush(stdout);
    }
    return 0;
}
