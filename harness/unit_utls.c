/* Correspondence harness for libxcm/tp/tls/xcm_tp_utls.c: the REAL file is #included; its two sub-sockets are of logging
   mock transports (handed out for the names "ux" and "tls"), whose fallible operations take scripted answers.  The rest of
   the library (xcm_tp.c dispatch, address functions) is the real code, linked in.  A ledger follows every sub-socket:
   initialised ones must be closed or cleaned up before destroy, failed ones only destroyed, nothing is used after destroy. */
#include "hutil.h"

static struct xcm_tp_proto *m_proto_by_name(const char *name);
static void m_register(const char *name, const struct xcm_tp_ops *ops) { (void)name; (void)ops; }
struct ctl;
static struct ctl *m_ctl_create(void *s) { (void)s; return NULL; }
#define xcm_tp_proto_by_name m_proto_by_name
#define xcm_tp_register m_register
#define ctl_create(s) m_ctl_create(s)
#include "xcm_tp_utls.c"
#undef xcm_tp_proto_by_name
#undef xcm_tp_register
#undef ctl_create

static char logbuf[4096];
static void lg(const char *fmt, ...)
{
    va_list ap; va_start(ap, fmt);
    size_t n = strlen(logbuf);
    if (n) logbuf[n++] = ' ';
    vsnprintf(logbuf + n, sizeof(logbuf) - n, fmt, ap);
    va_end(ap);
}

/* scripted answers: one per fallible sub-socket call, in call order; exhausted = success */
static int ans_rc[16], ans_errno[16], n_ans, used_ans;
static int answer(void)
{
    if (used_ans >= n_ans) return 0;
    int i = used_ans++;
    if (ans_rc[i] < 0) errno = ans_errno[i];
    return ans_rc[i];
}

/* ledger */
enum lst { L_NONE, L_INITED, L_LIVE, L_FAILED, L_CLOSED };
struct mpriv { int tag; enum lst st; };
static int ledger_bad;
static const char *nm(struct xcm_socket *s) { return !strcmp(s->proto->name, "ux") ? "ux" : "tls"; }
#define PRIV(s) ((struct mpriv *)XCM_TP_GETPRIV(s, struct mpriv))

static int o_init(struct xcm_socket *s, struct xcm_socket *p)
{
    (void)p;
    /* create is logged here: xcm_tp_socket_create itself is the real function and cannot fail */
    lg("create(%s) init(%s)", nm(s), nm(s));
    int rc = answer();
    PRIV(s)->st = rc < 0 ? L_FAILED : L_INITED;
    return rc;
}
static int fallible(struct xcm_socket *s, const char *what)
{
    lg("%s(%s)", what, nm(s));
    if (PRIV(s)->st != L_INITED) { ledger_bad++; lg("!%s-in-state-%d", what, PRIV(s)->st); }
    int rc = answer();
    PRIV(s)->st = rc < 0 ? L_FAILED : L_LIVE;
    return rc;
}
static int o_connect(struct xcm_socket *s, const char *a) { (void)a; return fallible(s, "connect"); }
static int o_server(struct xcm_socket *s, const char *a) { (void)a; return fallible(s, "server"); }
static int o_accept(struct xcm_socket *c, struct xcm_socket *srv)
{
    if (PRIV(srv)->st != L_LIVE) { ledger_bad++; lg("!accept-on-dead-server"); }
    return fallible(c, "accept");
}
static void closing(struct xcm_socket *s, const char *what)
{
    lg("%s(%s)", what, nm(s));
    if (PRIV(s)->st != L_INITED && PRIV(s)->st != L_LIVE) { ledger_bad++; lg("!%s-in-state-%d", what, PRIV(s)->st); }
    PRIV(s)->st = L_CLOSED;
}
static void o_close(struct xcm_socket *s) { closing(s, "close"); }
static void o_cleanup(struct xcm_socket *s) { closing(s, "cleanup"); }
static int live_op(struct xcm_socket *s, const char *what)
{
    lg("%s(%s)", what, nm(s));
    if (PRIV(s)->st != L_LIVE) { ledger_bad++; lg("!%s-in-state-%d", what, PRIV(s)->st); }
    return answer();
}
static int o_send(struct xcm_socket *s, const void *b, size_t l) { (void)b; (void)l; return live_op(s, "send"); }
static int o_receive(struct xcm_socket *s, void *b, size_t c) { (void)b; (void)c; return live_op(s, "receive"); }
static int o_finish(struct xcm_socket *s) { return live_op(s, "finish"); }
static void o_update(struct xcm_socket *s) { lg("update(%s%s,%d)", nm(s), s->type == xcm_socket_type_server ? "@srv" : "", s->condition); if (PRIV(s)->st != L_LIVE) { ledger_bad++; lg("!update-in-state-%d", PRIV(s)->st); } }
static int64_t o_get_cnt(struct xcm_socket *s, enum xcm_tp_cnt c) { (void)c; lg("get_cnt(%s)", nm(s)); return !strcmp(nm(s), "ux") ? 1001 : 2002; }
static const char *o_local(struct xcm_socket *s, bool q) { (void)q; lg("local_addr(%s)", nm(s)); return !strcmp(nm(s), "ux") ? "ux:x" : "tls:127.0.0.1:4711"; }
static const char *o_remote(struct xcm_socket *s, bool q) { (void)q; return !strcmp(nm(s), "ux") ? "ux:x" : "tls:127.0.0.1:4711"; }
static size_t o_priv(enum xcm_socket_type t) { (void)t; return sizeof(struct mpriv); }
static size_t o_max_msg(struct xcm_socket *s) { (void)s; return 65535; }

static struct xcm_tp_ops mops = { .init = o_init, .connect = o_connect, .server = o_server, .close = o_close, .cleanup = o_cleanup,
    .accept = o_accept, .send = o_send, .receive = o_receive, .update = o_update, .finish = o_finish, .priv_size = o_priv,
    .max_msg = o_max_msg, .get_cnt = o_get_cnt, .get_local_addr = o_local, .get_remote_addr = o_remote };
static struct xcm_tp_proto ux_p = { "ux", &mops }, tls_p = { "tls", &mops };
static struct xcm_tp_proto *m_proto_by_name(const char *name) { return !strcmp(name, "ux") ? &ux_p : &tls_p; }

static struct xcm_tp_proto utls_p = { "utls", &utls_ops };

/* destroy is the real xcm_tp_socket_destroy (free): interposed at link time to keep the ledger */
void __real_xcm_tp_socket_destroy(struct xcm_socket *s);
void __wrap_xcm_tp_socket_destroy(struct xcm_socket *s)
{
    if (s != NULL && (s->proto == &ux_p || s->proto == &tls_p)) {
	lg("destroy(%s)", nm(s));
	/* an initialised-only UX sub-socket holds nothing (ux_init only sets fields), so dropping it without close releases
	   everything; an initialised TLS sub-socket holds a bell registration and its TCP sub-socket */
	bool holds = PRIV(s)->st == L_LIVE || (PRIV(s)->st == L_INITED && s->proto == &tls_p);
	if (holds) { ledger_bad++; lg("!destroy-without-close"); }
    }
    __real_xcm_tp_socket_destroy(s);
}

static void set_answers(char **w, int from, int n)
{
    n_ans = used_ans = 0;
    for (int i = from; i < n && n_ans < 16; i++) {
	if (w[i][0] == 'E') { ans_rc[n_ans] = -1; ans_errno[n_ans] = h_errnum(w[i] + 1); }
	else { ans_rc[n_ans] = 0; ans_errno[n_ans] = 0; }
	n_ans++;
    }
}

static void show(FILE *o, int rc, int e, struct xcm_socket *s)
{
    if (rc < 0) fprintf(o, "-1 %s", e ? h_errname(e) : "-"); else fprintf(o, "%d", rc);
    fprintf(o, " | %s |", logbuf[0] ? logbuf : "-");
    if (s) fprintf(o, " ux=%d tls=%d", TOUTLS(s)->ux_socket != NULL, TOUTLS(s)->tls_socket != NULL);
    else fputs(" gone", o);
    if (ledger_bad) fprintf(o, " LEDGER-VIOLATIONS=%d", ledger_bad);
    fputc('\n', o);
}

int main(void)
{
    static char line[H_LINE_MAX];
    char *w[H_MAXW];
    FILE *o = stdout;
    struct xcm_socket *s = NULL, *srv = NULL;
    bool s_live = false, srv_live = false;   /* connected / serving: only then the data-path operations are legal */
    while (fgets(line, sizeof(line), stdin)) {
	int n = h_words(line, w);
	if (n == 0 || w[0][0] == '#') continue;
	logbuf[0] = 0; ledger_bad = 0;
	if (!strcmp(w[0], "I") && n >= 2) {
	    /* I <conn|server> [<answer of ux init> <answer of tls init>]: a fresh utls socket (the previous ones are dropped) */
	    bool conn = !strcmp(w[1], "conn");
	    struct xcm_socket **slot = conn ? &s : &srv;
	    if (*slot) { free(*slot); *slot = NULL; }
	    if (conn) s_live = false; else srv_live = false;
	    set_answers(w, 2, n);
	    struct xcm_socket *x = xcm_tp_socket_create(&utls_p, conn ? xcm_socket_type_conn : xcm_socket_type_server, NULL, false, false, false);
	    errno = 0;
	    int rc = utls_ops.init(x, NULL); int e = errno;
	    (void)e;
	    if (rc < 0) { show(o, rc, 0, NULL); free(x); } else { *slot = x; show(o, rc, 0, x); }
	} else if (!strcmp(w[0], "C") && s && !s_live) {
	    set_answers(w, 1, n);
	    errno = 0;
	    int rc = utls_ops.connect(s, "utls:127.0.0.1:4711"); int e = errno;
	    if (rc < 0) { show(o, rc, e, NULL); free(s); s = NULL; } else { show(o, rc, e, s); s_live = true; }
	} else if (!strcmp(w[0], "CB") && s && !s_live) {
	    n_ans = used_ans = 0;
	    errno = 0;
	    int rc = utls_ops.connect(s, "utls:not an address"); int e = errno;
	    (void)e;
	    show(o, rc, EINVAL, rc < 0 ? NULL : s);
	    if (rc < 0) { free(s); s = NULL; }
	} else if (!strcmp(w[0], "S") && n >= 2 && srv && !srv_live) {
	    set_answers(w, 2, n);
	    errno = 0;
	    int rc = utls_ops.server(srv, atoi(w[1]) ? "utls:127.0.0.1:0" : "utls:127.0.0.1:4711"); int e = errno;
	    if (rc < 0) { show(o, rc, e, NULL); free(srv); srv = NULL; } else { show(o, rc, e, srv); srv_live = true; }
	} else if (!strcmp(w[0], "A") && srv && srv_live) {
	    /* A <answers>: a fresh connection socket (child of the server), then accept */
	    if (s) { free(s); s = NULL; }
	    s_live = false;
	    n_ans = used_ans = 0;
	    s = xcm_tp_socket_create(&utls_p, xcm_socket_type_conn, NULL, false, false, false);
	    if (utls_ops.init(s, srv) < 0) { fputs("fail init\n", o); free(s); s = NULL; fflush(o); continue; }
	    logbuf[0] = 0;
	    set_answers(w, 1, n);
	    errno = 0;
	    int rc = utls_ops.accept(s, srv); int e = errno;
	    if (rc < 0) { show(o, rc, e, NULL); free(s); s = NULL; } else { show(o, rc, e, s); s_live = true; }
	} else if (!strcmp(w[0], "X") && n == 3) {
	    /* X <conn|server> <0 close | 1 cleanup> */
	    struct xcm_socket **slot = !strcmp(w[1], "conn") ? &s : &srv;
	    if (!*slot) { fputs("no-socket\n", o); fflush(o); continue; }
	    if (atoi(w[2])) utls_ops.cleanup(*slot); else utls_ops.close(*slot);
	    show(o, 0, 0, *slot);
	    free(*slot); *slot = NULL;
	    if (!strcmp(w[1], "conn")) s_live = false; else srv_live = false;
	} else if ((!strcmp(w[0], "SND") || !strcmp(w[0], "RCV")) && s && s_live) {
	    set_answers(w, 1, n);
	    char b[8] = "x";
	    errno = 0;
	    int rc = w[0][0] == 'S' ? utls_ops.send(s, b, 1) : utls_ops.receive(s, b, sizeof(b)); int e = errno;
	    show(o, rc, e, s);
	} else if (!strcmp(w[0], "FIN") && n >= 2) {
	    struct xcm_socket *x = !strcmp(w[1], "conn") ? (s_live ? s : NULL) : (srv_live ? srv : NULL);
	    if (!x) { fputs("no-socket\n", o); fflush(o); continue; }
	    set_answers(w, 2, n);
	    errno = 0;
	    int rc = utls_ops.finish(x); int e = errno;
	    show(o, rc, e, x);
	} else if (!strcmp(w[0], "UPD") && n == 3) {
	    struct xcm_socket *x = !strcmp(w[1], "conn") ? (s_live ? s : NULL) : (srv_live ? srv : NULL);
	    if (!x) { fputs("no-socket\n", o); fflush(o); continue; }
	    x->condition = atoi(w[2]);
	    utls_ops.update(x);
	    show(o, 0, 0, x);
	} else if (!strcmp(w[0], "CNT") && s && s_live) {
	    int64_t v = utls_ops.get_cnt(s, xcm_tp_cnt_to_app_bytes);
	    show(o, (int)v, 0, s);
	} else
	    fputs("no-socket\n", o);
	fflush(o);
    }
    return 0;
}
