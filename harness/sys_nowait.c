/* System harness for C05: every API call on NON-BLOCKING sockets of every transport, in every
   connection phase, while link-time wrappers report any waiting primitive that could put the thread
   to sleep: poll/ppoll/select/epoll_wait with a non-zero timeout, nanosleep/usleep/sleep, and
   connect/accept4/send/recv/sendmsg/recvmsg/read/write on a descriptor without O_NONBLOCK. */
#include "sysutil.h"
#include <fcntl.h>
#include <poll.h>
#include <sys/epoll.h>
#include <sys/select.h>
#include <sys/socket.h>
#include <netinet/in.h>
#include <arpa/inet.h>
#include <time.h>
#include <sys/un.h>
#include "ctl_proto.h"
#include "xcm_tp.h"

static int armed;                 /* inside an XCM call on a non-blocking socket */
static char offences[4096]; static size_t off_len; static int n_off;
static int wait_cap_ms = 200;     /* an offending wait is cut short so the run stays fast */

static void offence(const char *fmt, ...)
{
    n_off++;
    if (off_len > sizeof(offences) - 200) return;
    va_list ap; va_start(ap, fmt);
    if (off_len) offences[off_len++] = ';';
    off_len += vsnprintf(offences + off_len, sizeof(offences) - off_len - 1, fmt, ap);
    va_end(ap);
}

static bool fd_blocking(int fd)
{
    int fl = fcntl(fd, F_GETFL);
    return fl >= 0 && !(fl & O_NONBLOCK);
}

int __real_poll(struct pollfd *, nfds_t, int);
int __wrap_poll(struct pollfd *fds, nfds_t n, int timeout)
{
    if (armed && timeout != 0) { offence("poll(timeout=%d)", timeout); timeout = timeout < 0 || timeout > wait_cap_ms ? wait_cap_ms : timeout; }
    return __real_poll(fds, n, timeout);
}
int __real_ppoll(struct pollfd *, nfds_t, const struct timespec *, const sigset_t *);
int __wrap_ppoll(struct pollfd *fds, nfds_t n, const struct timespec *ts, const sigset_t *ss)
{
    struct timespec cut = { 0, wait_cap_ms * 1000000L };
    if (armed && (ts == NULL || ts->tv_sec || ts->tv_nsec)) { offence("ppoll"); ts = &cut; }
    return __real_ppoll(fds, n, ts, ss);
}
int __real_select(int, fd_set *, fd_set *, fd_set *, struct timeval *);
int __wrap_select(int n, fd_set *r, fd_set *w, fd_set *e, struct timeval *tv)
{
    struct timeval cut = { 0, wait_cap_ms * 1000 };
    if (armed && (tv == NULL || tv->tv_sec || tv->tv_usec)) { offence("select"); tv = &cut; }
    return __real_select(n, r, w, e, tv);
}
int __real_epoll_wait(int, struct epoll_event *, int, int);
int __wrap_epoll_wait(int ep, struct epoll_event *ev, int max, int timeout)
{
    if (armed && timeout != 0) { offence("epoll_wait(timeout=%d)", timeout); timeout = wait_cap_ms; }
    return __real_epoll_wait(ep, ev, max, timeout);
}
int __real_nanosleep(const struct timespec *, struct timespec *);
int __wrap_nanosleep(const struct timespec *a, struct timespec *b)
{
    if (armed) { offence("nanosleep"); return 0; }
    return __real_nanosleep(a, b);
}
int __real_usleep(useconds_t);
int __wrap_usleep(useconds_t u)
{
    if (armed) { offence("usleep"); return 0; }
    return __real_usleep(u);
}
unsigned __real_sleep(unsigned);
unsigned __wrap_sleep(unsigned s)
{
    if (armed) { offence("sleep"); return 0; }
    return __real_sleep(s);
}
#define WRAP_IO(name, ret, proto, call, fdarg)                                  \
    ret __real_##name proto;                                                     \
    ret __wrap_##name proto                                                      \
    {                                                                            \
	if (armed && fd_blocking(fdarg)) offence(#name " on blocking fd %d", fdarg); \
	return __real_##name call;                                               \
    }
WRAP_IO(connect, int, (int fd, const struct sockaddr *a, socklen_t l), (fd, a, l), fd)
WRAP_IO(accept4, int, (int fd, struct sockaddr *a, socklen_t *l, int fl), (fd, a, l, fl), fd)
WRAP_IO(send, ssize_t, (int fd, const void *b, size_t n, int fl), (fd, b, n, fl), fd)
WRAP_IO(recv, ssize_t, (int fd, void *b, size_t n, int fl), (fd, b, n, fl), fd)
WRAP_IO(sendmsg, ssize_t, (int fd, const struct msghdr *m, int fl), (fd, m, fl), fd)
WRAP_IO(recvmsg, ssize_t, (int fd, struct msghdr *m, int fl), (fd, m, fl), fd)

/* ---- helpers ------------------------------------------------------------------------------- */
static double now(void) { struct timespec t; clock_gettime(CLOCK_MONOTONIC, &t); return t.tv_sec + t.tv_nsec / 1e9; }
static double slowest; static char slowest_call[64];

#define CALL(label, expr) do { double t0 = now(); armed = 1; expr; armed = 0; double dt = now() - t0; \
	if (dt > slowest) { slowest = dt; snprintf(slowest_call, sizeof(slowest_call), "%s", label); } } while (0)

/* every data-path and attribute call on a non-blocking connection socket */
static void poke_conn(struct xcm_socket *c, bool bytestream)
{
    char buf[4096]; memset(buf, 'x', sizeof(buf));
    int fd;
    CALL("xcm_fd", fd = xcm_fd(c)); (void)fd;
    for (int round = 0; round < 3; round++) {
	CALL("xcm_await", xcm_await(c, XCM_SO_RECEIVABLE | XCM_SO_SENDABLE));
	CALL("xcm_send", xcm_send(c, buf, bytestream ? sizeof(buf) : 100));
	CALL("xcm_receive", xcm_receive(c, buf, sizeof(buf)));
	CALL("xcm_finish", xcm_finish(c));
	CALL("xcm_await0", xcm_await(c, 0));
    }
    char v[256]; bool b; int64_t i64;
    CALL("attr_get_str", xcm_attr_get_str(c, "xcm.remote_addr", v, sizeof(v)));
    CALL("attr_get_str", xcm_attr_get_str(c, "xcm.local_addr", v, sizeof(v)));
    CALL("attr_get_bool", xcm_attr_get_bool(c, "xcm.blocking", &b));
    CALL("attr_get_int64", xcm_attr_get_int64(c, "xcm.from_app_bytes", &i64));
    CALL("attr_get_int64", xcm_attr_get_int64(c, "tcp.rtt", &i64));
    CALL("attr_get_str", xcm_attr_get_str(c, "tls.peer_names", v, sizeof(v)));
    CALL("attr_set", xcm_attr_set_int64(c, "tcp.keepalive_time", 2));
    CALL("attr_set", xcm_attr_set_bool(c, "xcm.blocking", false));
    CALL("set_blocking(false)", xcm_set_blocking(c, false));
}

static int raw_listener(int backlog, int *port)
{
    int fd = socket(AF_INET, SOCK_STREAM, 0);
    int one = 1; setsockopt(fd, SOL_SOCKET, SO_REUSEADDR, &one, sizeof(one));
    struct sockaddr_in sa = { .sin_family = AF_INET, .sin_addr.s_addr = htonl(INADDR_LOOPBACK) };
    bind(fd, (struct sockaddr *)&sa, sizeof(sa));
    listen(fd, backlog);
    socklen_t l = sizeof(sa); getsockname(fd, (struct sockaddr *)&sa, &l);
    *port = ntohs(sa.sin_port);
    return fd;
}

static void report(FILE *o, const char *what)
{
    fprintf(o, "%s offences=%d slowest=%.3f@%s", what, n_off, slowest, slowest_call[0] ? slowest_call : "-");
    if (n_off) fprintf(o, " [%s]", offences);
    fputc('\n', o);
    n_off = 0; off_len = 0; offences[0] = 0; slowest = 0; slowest_call[0] = 0;
}

int main(void)
{
    static char line[H_LINE_MAX];
    char *w[H_MAXW];
    FILE *o = stdout;
    while (fgets(line, sizeof(line), stdin)) {
	int n = h_words(line, w);
	if (n == 0 || w[0][0] == '#') continue;
	const char *proto = n > 1 ? w[1] : "tcp";
	bool bs = sys_is_bytestream(proto);
	if (!strcmp(w[0], "EST") && n == 2) {
	    /* established pair: idle, then under back-pressure (peer never reads), then after the peer closed */
	    struct trio t;
	    if (sys_establish(proto, &t, NULL, NULL) < 0) { fprintf(o, "fail %s\n", h_errname(errno)); fflush(o); continue; }
	    poke_conn(t.client, bs); poke_conn(t.accepted, bs);
	    report(o, "idle");
	    char big[60000]; memset(big, 'y', sizeof(big));
	    int rc = 0, sent = 0;
	    for (int i = 0; i < 3000 && !(rc < 0 && errno == EAGAIN && i > 50); i++) {
		CALL("xcm_send(bp)", rc = xcm_send(t.client, big, bs ? sizeof(big) : 60000));
		if (rc >= 0) sent++;
		else if (errno != EAGAIN) break;
	    }
	    poke_conn(t.client, bs);
	    fprintf(o, "sends=%d ", sent); report(o, "backpressure");
	    CALL("xcm_close", xcm_close(t.accepted)); t.accepted = NULL;
	    __real_usleep(20000);
	    poke_conn(t.client, bs); poke_conn(t.client, bs);
	    report(o, "peer-closed");
	    struct xcm_socket *a;
	    CALL("xcm_accept(none pending)", a = xcm_accept(t.server)); if (a) xcm_close(a);
	    CALL("xcm_await(server)", xcm_await(t.server, XCM_SO_ACCEPTABLE));
	    CALL("xcm_finish(server)", xcm_finish(t.server));
	    CALL("xcm_close", xcm_close(t.client)); t.client = NULL;
	    CALL("xcm_close(server)", xcm_close(t.server)); t.server = NULL;
	    report(o, "server+close");
	} else if (!strcmp(w[0], "BPC") && n == 2) {
	    /* close under back-pressure: the peer is alive but does not read; the sender has filled every buffer */
	    struct trio t;
	    if (sys_establish(proto, &t, NULL, NULL) < 0) { fprintf(o, "fail %s\n", h_errname(errno)); fflush(o); continue; }
	    static char big[60000]; memset(big, 'y', sizeof(big));
	    int rc = 0, eag = 0;
	    for (int i = 0; i < 4000 && eag < 3; i++) {
		CALL("xcm_send(bp)", rc = xcm_send(t.client, big, sizeof(big)));
		if (rc < 0 && errno == EAGAIN) eag++; else if (rc < 0) break; else eag = 0;
	    }
	    CALL("xcm_close(under back-pressure)", xcm_close(t.client)); t.client = NULL;
	    report(o, "close-backpressure");
	    sys_close_trio(&t);
	} else if (!strcmp(w[0], "CTLFLOOD") && n == 2) {
	    /* a control client pipelines requests and never reads the replies, while the owner keeps calling the API on its
	       non-blocking sockets: the control interface must not make those calls wait */
	    struct trio t;
	    if (sys_establish(proto, &t, NULL, NULL) < 0) { fprintf(o, "fail %s\n", h_errname(errno)); fflush(o); continue; }
	    char b[16];
	    for (int i = 0; i < 600; i++) { xcm_finish(t.client); xcm_receive(t.client, b, sizeof(b)); }
	    const char *dir = getenv("XCM_CTL");
	    char path[300]; snprintf(path, sizeof(path), "%s/ctl-%d-%lld", dir ? dir : "/nonexistent", (int)getpid(), (long long)t.client->sock_id);
	    int cfd = socket(AF_UNIX, SOCK_SEQPACKET | SOCK_NONBLOCK, 0);
	    struct sockaddr_un sa = { .sun_family = AF_UNIX }; snprintf(sa.sun_path, sizeof(sa.sun_path), "%s", path);
	    int crc = __real_connect(cfd, (struct sockaddr *)&sa, sizeof(sa));
	    struct ctl_proto_msg *q = calloc(1, sizeof(*q));
	    q->type = ctl_proto_type_get_all_attr_req;
	    int piped = 0;
	    for (int i = 0; i < 3000 && crc == 0; i++) {
		if (__real_send(cfd, q, sizeof(*q), MSG_NOSIGNAL) > 0) piped++;
		CALL("xcm_finish(ctl flood)", xcm_finish(t.client));
		CALL("xcm_receive(ctl flood)", xcm_receive(t.client, b, sizeof(b)));
		CALL("xcm_send(ctl flood)", xcm_send(t.client, "x", 1));
		if (slowest > 0.5 || n_off) break;
	    }
	    free(q);
	    fprintf(o, "ctl=%d piped=%d ", crc, piped); report(o, "ctl-flood");
	    close(cfd);
	    sys_close_trio(&t);
	} else if (!strcmp(w[0], "MUTE") && n == 2) {
	    /* peer: a raw TCP listener that accepts (kernel) but never speaks: TCP established, TLS handshake stuck */
	    int port, lfd = raw_listener(16, &port);
	    char addr[128]; snprintf(addr, sizeof(addr), "%s:127.0.0.1:%d", proto, port);
	    struct xcm_attr_map *m = sys_base_attrs(proto, true);
	    struct xcm_socket *c;
	    CALL("xcm_connect_a(mute)", c = xcm_connect_a(addr, m));
	    xcm_attr_map_destroy(m);
	    if (!c) { fprintf(o, "fail %s\n", h_errname(errno)); }
	    else { poke_conn(c, bs); __real_usleep(5000); poke_conn(c, bs); CALL("xcm_close", xcm_close(c)); report(o, "mute-peer"); }
	    close(lfd);
	} else if (!strcmp(w[0], "SYN") && n == 2) {
	    /* peer: a listener whose accept queue is full: the connect attempt stays in SYN_SENT */
	    int port, lfd = raw_listener(0, &port);
	    int fill[8];
	    for (int i = 0; i < 8; i++) {
		fill[i] = socket(AF_INET, SOCK_STREAM | SOCK_NONBLOCK, 0);
		struct sockaddr_in sa = { .sin_family = AF_INET, .sin_port = htons(port), .sin_addr.s_addr = htonl(INADDR_LOOPBACK) };
		__real_connect(fill[i], (struct sockaddr *)&sa, sizeof(sa));
	    }
	    __real_usleep(20000);
	    char addr[128]; snprintf(addr, sizeof(addr), "%s:127.0.0.1:%d", proto, port);
	    struct xcm_attr_map *m = sys_base_attrs(proto, true);
	    struct xcm_socket *c;
	    CALL("xcm_connect_a(full backlog)", c = xcm_connect_a(addr, m));
	    xcm_attr_map_destroy(m);
	    if (!c) { fprintf(o, "fail %s\n", h_errname(errno)); }
	    else { poke_conn(c, bs); CALL("xcm_close", xcm_close(c)); report(o, "syn-sent"); }
	    for (int i = 0; i < 8; i++) close(fill[i]);
	    close(lfd);
	} else if (!strcmp(w[0], "DNS") && n == 3) {
	    /* remote address is a DNS name; the resolver at 127.0.0.1:53 (a UDP socket held by this harness) never
	       answers: the connection stays in its resolving phase */
	    int u = socket(AF_INET, SOCK_DGRAM, 0);
	    struct sockaddr_in sa = { .sin_family = AF_INET, .sin_port = htons(53), .sin_addr.s_addr = htonl(INADDR_LOOPBACK) };
	    int brc = bind(u, (struct sockaddr *)&sa, sizeof(sa));
	    char addr[200]; snprintf(addr, sizeof(addr), "%s:%s:4711", proto, w[2]);
	    struct xcm_attr_map *m = sys_base_attrs(proto, true);
	    struct xcm_socket *c;
	    CALL("xcm_connect_a(name)", c = xcm_connect_a(addr, m));
	    xcm_attr_map_destroy(m);
	    if (!c) { fprintf(o, "bind=%d fail %s ", brc, h_errname(errno)); report(o, "resolving"); }
	    else { poke_conn(c, bs); CALL("xcm_close", xcm_close(c)); fprintf(o, "bind=%d ", brc); report(o, "resolving"); }
	    close(u);
	} else if (!strcmp(w[0], "LNAME") && n == 3) {
	    /* non-blocking connect with a DNS *name* in xcm.local_addr (F-05a) against a mute resolver */
	    int u = socket(AF_INET, SOCK_DGRAM, 0);
	    struct sockaddr_in sa = { .sin_family = AF_INET, .sin_port = htons(53), .sin_addr.s_addr = htonl(INADDR_LOOPBACK) };
	    int brc = bind(u, (struct sockaddr *)&sa, sizeof(sa));
	    int port, lfd = raw_listener(16, &port);
	    char addr[128]; snprintf(addr, sizeof(addr), "%s:127.0.0.1:%d", proto, port);
	    char laddr[200]; snprintf(laddr, sizeof(laddr), "%s:%s:0", proto, w[2]);
	    struct xcm_attr_map *m = sys_base_attrs(proto, true);
	    xcm_attr_map_add_str(m, "xcm.local_addr", laddr);
	    struct xcm_socket *c;
	    wait_cap_ms = 50;
	    CALL("xcm_connect_a(named local addr)", c = xcm_connect_a(addr, m));
	    wait_cap_ms = 200;
	    xcm_attr_map_destroy(m);
	    if (c) xcm_close(c);
	    fprintf(o, "bind=%d ", brc); report(o, "named-local-addr");
	    close(lfd); close(u);
	} else
	    fputs("bad-op\n", o);
	fflush(o);
    }
    return 0;
}
