/* Correspondence harness for the framing layer: the REAL xcm_tp_tcp.c (or, with -DFR_TLS,
   xcm_tp_tls.c) is #included, so its static functions run unmodified; only its calls to the
   byte-stream socket below (xcm_tp_socket_send/receive/finish/update) and the transport
   registration are redirected to the scripted lower layer defined here.  The headers the .c
   file includes are pre-included by the build (-include), so the redirection macros apply
   to the body of the .c file only. */
#include "hutil.h"

static int mock_send(struct xcm_socket *s, const void *buf, size_t len);
static int mock_receive(struct xcm_socket *s, void *buf, size_t capacity);
static int mock_finish(struct xcm_socket *s);
static void mock_update(struct xcm_socket *s);
static void mock_register(const char *name, const struct xcm_tp_ops *ops) { (void)name; (void)ops; }

#define xcm_tp_socket_send mock_send
#define xcm_tp_socket_receive mock_receive
#define xcm_tp_socket_finish mock_finish
#define xcm_tp_socket_update mock_update
#define xcm_tp_register mock_register

#ifdef FR_TLS
#include "xcm_tp_tls.c"
#define FR(x) tls_ ## x
#define FRPRIV(s) TOTLS(s)
#define FRLOWER btls_socket
#else
#include "xcm_tp_tcp.c"
#define FR(x) tcp_ ## x
#define FRPRIV(s) TOTCP(s)
#define FRLOWER btcp_socket
#endif

#undef xcm_tp_socket_send
#undef xcm_tp_socket_receive
#undef xcm_tp_socket_finish
#undef xcm_tp_socket_update
#undef xcm_tp_register

/* ---- scripted lower layer --------------------------------------------------------------- */

#define MAXANS 64
struct ans { int kind; long k; };  /* kind: 0 ok(k), 1 err(k) */
static struct ans answers[MAXANS];
static int n_ans, used_ans;

static uint8_t *tx_delta; static size_t tx_delta_len, tx_delta_cap;

struct seg { uint8_t *data; size_t len, off; struct seg *next; };
static struct seg *rx_head, *rx_tail;
static int rx_end;      /* 0 none, 1 eof, 2 err */
static int rx_errno;
static int fin_errno;   /* answer of the lower finish, 0 = ok */
static int lower_condition = -1;

static int tx_errno;   /* sticky lower-layer send error (a failed byte-stream connection stays failed) */

static int mock_send(struct xcm_socket *s, const void *buf, size_t len)
{
    if (tx_errno) { errno = tx_errno; return -1; }
    if (used_ans >= n_ans) { errno = EAGAIN; return -1; }
    struct ans a = answers[used_ans++];
    if (a.kind == 1) { if (a.k != EAGAIN) tx_errno = (int)a.k; errno = (int)a.k; return -1; }
    long k = a.k;
    if (k > (long)len) k = (long)len;
    if (k < 1) k = 1;
    if (tx_delta_len + k > tx_delta_cap) {
	tx_delta_cap = (tx_delta_len + k) * 2;
	tx_delta = realloc(tx_delta, tx_delta_cap);
    }
    memcpy(tx_delta + tx_delta_len, buf, k);
    tx_delta_len += k;
    return (int)k;
}

static int mock_receive(struct xcm_socket *s, void *buf, size_t capacity)
{
    if (rx_head) {
	struct seg *g = rx_head;
	size_t n = g->len - g->off;
	if (n > capacity) n = capacity;
	memcpy(buf, g->data + g->off, n);
	g->off += n;
	if (g->off == g->len) {
	    rx_head = g->next;
	    if (!rx_head) rx_tail = NULL;
	    free(g->data); free(g);
	}
	return (int)n;
    }
    if (rx_end == 1) return 0;
    if (rx_end == 2) { errno = rx_errno; return -1; }
    errno = EAGAIN;
    return -1;
}

static int mock_finish(struct xcm_socket *s)
{
    if (fin_errno) { errno = fin_errno; return -1; }
    return 0;
}

static void mock_update(struct xcm_socket *s)
{
    lower_condition = s->condition;
}

static void parse_ans(const char *w)
{
    n_ans = 0; used_ans = 0;
    if (!strcmp(w, "-")) return;
    char *dup = strdup(w), *save = NULL;
    for (char *t = strtok_r(dup, ",", &save); t && n_ans < MAXANS; t = strtok_r(NULL, ",", &save)) {
	if (t[0] == 'A') answers[n_ans++] = (struct ans){ 0, 1000000 };
	else if (t[0] == 'P') answers[n_ans++] = (struct ans){ 0, atol(t + 1) };
	else answers[n_ans++] = (struct ans){ 1, h_errnum(t + 1) };
    }
    free(dup);
}

/* ---- the socket under test ---------------------------------------------------------------- */

static struct xcm_socket *sock, *lower;

static void new_conn(void)
{
    if (sock) {
	mbuf_deinit(&FRPRIV(sock)->conn.send_mbuf);
	mbuf_deinit(&FRPRIV(sock)->conn.receive_mbuf);
	free(sock); free(lower);
    }
    while (rx_head) { struct seg *g = rx_head; rx_head = g->next; free(g->data); free(g); }
    rx_tail = NULL; rx_end = 0; fin_errno = 0; tx_errno = 0;
    sock = calloc(1, sizeof(struct xcm_socket) + FR(priv_size)(xcm_socket_type_conn));
    lower = calloc(1, sizeof(struct xcm_socket));
    sock->type = xcm_socket_type_conn;
    sock->sock_id = 1;
    lower->type = xcm_socket_type_conn;
    FRPRIV(sock)->FRLOWER = lower;
    mbuf_init(&FRPRIV(sock)->conn.send_mbuf);
    mbuf_init(&FRPRIV(sock)->conn.receive_mbuf);
}

static void render(FILE *o, int rc, int err, const uint8_t *payload, size_t plen)
{
    if (rc < 0) fprintf(o, "-1 %s | -", h_errname(err));
    else if (payload) { fprintf(o, "%d | ", rc); h_showbytes(o, payload, plen); }
    else fprintf(o, "%d | -", rc);
    fputs(" |", o);
    for (int i = 0; i < XCM_TP_NUM_MESSAGING_CNTS; i++)
	fprintf(o, " %lld", (long long)FR(get_cnt)(sock, (enum xcm_tp_cnt)i));
    fprintf(o, " | %d %d %d ", mbuf_wire_len(&FRPRIV(sock)->conn.send_mbuf), FRPRIV(sock)->conn.mbuf_sent,
	    mbuf_wire_len(&FRPRIV(sock)->conn.receive_mbuf));
    if (FRPRIV(sock)->conn.bad) fputs(h_errname(FRPRIV(sock)->conn.badness_reason), o);
    else fputc('-', o);
    fputs(" | tx+", o);
    h_showbytes(o, tx_delta, tx_delta_len);
    fprintf(o, " ## used=%d\n", used_ans);
}

int main(void)
{
    static char line[H_LINE_MAX];
    char *w[H_MAXW];
    FILE *o = stdout;
    new_conn();
    while (fgets(line, sizeof(line), stdin)) {
	int n = h_words(line, w);
	if (n == 0 || w[0][0] == '#') continue;
	tx_delta_len = 0;
	if (!strcmp(w[0], "S") && n == 3) {
	    size_t l; uint8_t *m = h_unhex(w[1], &l);
	    /* exact-size copy: ASan sees any over-read of the caller's buffer */
	    uint8_t *ex = malloc(l ? l : 1); memcpy(ex, m, l); free(m);
	    parse_ans(w[2]);
	    errno = 0;
	    int rc = FR(send)(sock, ex, l);
	    int e = errno;
	    memset(ex, 0xEE, l); free(ex);
	    render(o, rc, e, NULL, 0);
	} else if (!strcmp(w[0], "SL") && n == 3) {
	    /* SL <len> <answers>: a send whose claimed length exceeds the maximum (up to and beyond 2^32, 2^63): it must be
	       refused on its size alone; the buffer holds 64 KiB so that a wrongly accepted length reads defined bytes */
	    size_t l = strtoull(w[1], NULL, 10);
	    static uint8_t big[65536];
	    memset(big, 0x5a, sizeof(big));
	    parse_ans(w[2]);
	    errno = 0;
	    int rc = l > 65535 ? FR(send)(sock, big, l) : -2;
	    int e = errno;
	    render(o, rc, e, NULL, 0);
	} else if (!strcmp(w[0], "R") && n == 3) {
	    size_t cap = strtoul(w[1], NULL, 10);
	    uint8_t *buf = malloc(cap ? cap : 1);
	    parse_ans(w[2]);
	    errno = 0;
	    int rc = FR(receive)(sock, buf, cap);
	    int e = errno;
	    render(o, rc, e, rc > 0 ? buf : NULL, rc > 0 ? (size_t)rc : 0);
	    free(buf);
	} else if (!strcmp(w[0], "F") && n == 3) {
	    parse_ans(w[1]);
	    fin_errno = !strcmp(w[2], "ok") ? 0 : h_errnum(w[2] + 1);
	    errno = 0;
	    int rc = FR(finish)(sock);
	    int e = errno;
	    render(o, rc, e, NULL, 0);
	    fin_errno = 0;
	} else if (!strcmp(w[0], "U") && n == 2) {
	    sock->condition = atoi(w[1]);
	    lower_condition = -1;
	    FR(update)(sock);
	    fprintf(o, "lower=%d\n", lower_condition);
	} else if (!strcmp(w[0], "A") && n == 2) {
	    size_t l; uint8_t *b = h_unhex(w[1], &l);
	    if (l == 0) free(b);
	    else {
		struct seg *g = calloc(1, sizeof(*g));
		g->data = b; g->len = l;
		if (rx_tail) rx_tail->next = g; else rx_head = g;
		rx_tail = g;
	    }
	    fputs("ok\n", o);
	} else if (!strcmp(w[0], "Z") && n == 1) {
	    rx_end = 1; fputs("ok\n", o);
	} else if (!strcmp(w[0], "X") && n == 2) {
	    rx_end = 2; rx_errno = h_errnum(w[1]); fputs("ok\n", o);
	} else if (!strcmp(w[0], "N") && n == 1) {
	    new_conn(); fputs("ok\n", o);
	} else
	    fputs("bad-op\n", o);
	fflush(o);
    }
    return 0;
}
