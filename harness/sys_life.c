/* System harness for C08: lifecycle paths of the real library under failures of resource-creating system calls, and
   fork + xcm_cleanup.  Calls made by the library (and the libraries below it) to socket/accept4/epoll_create1/eventfd/
   timerfd_create/connect/bind/listen/fopen go through link-time wrappers that can make the k-th call fail with a given
   errno and that keep a ledger of descriptors created and closed.  Every case runs in a forked child. */
#include "sysutil.h"
#include <fcntl.h>
#include <dirent.h>
#include <poll.h>
#include <signal.h>
#include <time.h>
#include <sys/socket.h>
#include <sys/un.h>
#include <netinet/in.h>
#include <sys/stat.h>
#include <sys/wait.h>
#include <arpa/inet.h>
#include <netinet/in.h>
#include <sys/epoll.h>
#include <sys/eventfd.h>
#include <sys/timerfd.h>
#include <sanitizer/lsan_interface.h>

static int armed, call_no, fail_at = -1, fail_errno, n_failed, fail_at2 = -1, fail_errno2;
static char fail_name[48];
static unsigned char lib_fd[4096];          /* descriptors created by library-side calls and not yet closed */
static int stray_close, stray_fd;

static bool hit(const char *name)
{
    if (!armed) return false;
    call_no++;
    if (call_no == fail_at2) { n_failed++; snprintf(fail_name + strlen(fail_name), sizeof(fail_name) - strlen(fail_name), "+%.10s", name); errno = fail_errno2; return true; }
    if (call_no == fail_at) { if (getenv("LIFE_DEBUG")) fprintf(stderr, "failing call %d: %s\n", call_no, name); n_failed++; snprintf(fail_name, sizeof(fail_name), "%s", name); errno = fail_errno; return true; }
    return false;
}
static int created(int fd) { if (fd >= 0 && fd < 4096) lib_fd[fd] = 1; return fd; }

int __real_socket(int d, int t, int p); int __wrap_socket(int d, int t, int p) { if (hit("socket")) return -1; return created(__real_socket(d, t, p)); }
int __real_accept4(int fd, struct sockaddr *a, socklen_t *l, int f);
int __wrap_accept4(int fd, struct sockaddr *a, socklen_t *l, int f)
{
    /* only a pending connection can make accept4 fail for lack of descriptors */
    struct pollfd p = { .fd = fd, .events = POLLIN };
    if (armed && poll(&p, 1, 0) > 0 && hit("accept4")) return -1;
    return created(__real_accept4(fd, a, l, f));
}
int __real_epoll_create1(int f); int __wrap_epoll_create1(int f) { if (hit("epoll_create1")) return -1; return created(__real_epoll_create1(f)); }
int __real_eventfd(unsigned v, int f); int __wrap_eventfd(unsigned v, int f) { if (hit("eventfd")) return -1; return created(__real_eventfd(v, f)); }
int __real_timerfd_create(int c, int f); int __wrap_timerfd_create(int c, int f) { if (hit("timerfd_create")) return -1; return created(__real_timerfd_create(c, f)); }
int __real_connect(int fd, const struct sockaddr *a, socklen_t l); int __wrap_connect(int fd, const struct sockaddr *a, socklen_t l) { if (hit("connect")) return -1; return __real_connect(fd, a, l); }
int __real_bind(int fd, const struct sockaddr *a, socklen_t l); int __wrap_bind(int fd, const struct sockaddr *a, socklen_t l) { if (hit("bind")) return -1; return __real_bind(fd, a, l); }
int __real_listen(int fd, int b); int __wrap_listen(int fd, int b) { if (hit("listen")) return -1; return __real_listen(fd, b); }
FILE *__real_fopen(const char *p, const char *m); FILE *__wrap_fopen(const char *p, const char *m) { if (strstr(p, ".pem") && hit("fopen")) return NULL; return __real_fopen(p, m); }
int __real_close(int fd);
int __wrap_close(int fd)
{
    if (fd >= 0 && fd < 4096) {
	if (lib_fd[fd]) lib_fd[fd] = 0;
	else if (armed) { stray_close++; stray_fd = fd; }
    }
    return __real_close(fd);
}

static double now(void) { struct timespec t; clock_gettime(CLOCK_MONOTONIC, &t); return t.tv_sec + t.tv_nsec / 1e9; }

static int count_fds(char *list, size_t cap)
{
    int n = 0; list[0] = 0;
    DIR *d = opendir("/proc/self/fd"); int dfd = dirfd(d);
    for (struct dirent *e; (e = readdir(d));) {
	if (e->d_name[0] == '.') continue;
	int fd = atoi(e->d_name); if (fd == dfd) continue;
	n++;
	char t[300], l[300]; snprintf(l, sizeof(l), "/proc/self/fd/%d", fd); ssize_t k = readlink(l, t, sizeof(t) - 1); t[k > 0 ? k : 0] = 0;
	size_t len = strlen(list); if (len + 40 < cap) snprintf(list + len, cap - len, "%d:%s ", fd, t);
    }
    closedir(d);
    return n;
}
static int count_files(const char *dir)
{
    /* this process's control files only (ctl-<pid>-<socket id>) */
    char mine[64]; snprintf(mine, sizeof(mine), "ctl-%d-", (int)getpid());
    int n = 0; DIR *d = opendir(dir); if (!d) return 0;
    for (struct dirent *e; (e = readdir(d));) if (!strncmp(e->d_name, mine, strlen(mine))) n++;
    closedir(d);
    return n;
}

/* ---- the scenario: every API result is recorded; failures must come as NULL/-1 with errno set ------------------- */
static char trace[2048]; static int bad_errno;
static void note(const char *what, bool failed, int e) { size_t l = strlen(trace); snprintf(trace + l, sizeof(trace) - l, "%s%s=%s", l ? "," : "", what, failed ? h_errname(e) : "ok"); if (failed && e == 0) bad_errno++; }

static char uxf_path[400], ctl_dir[400];

static void scenario(const char *proto, int variant)
{
    char addr[300]; sys_addr(proto, addr, sizeof(addr));
    if (!strcmp(proto, "uxf")) snprintf(uxf_path, sizeof(uxf_path), "%s", addr + 4);
    struct xcm_attr_map *m = sys_base_attrs(proto, true);
    errno = 0;
    struct xcm_socket *srv = xcm_server_a(addr, m); note("server", !srv, errno);
    struct xcm_socket *cli = NULL, *acc = NULL;
    if (srv) {
	char ca[300]; snprintf(ca, sizeof(ca), "%s", xcm_local_addr(srv));
	errno = 0; cli = xcm_connect_a(ca, m); note("connect", !cli, errno);
	bool acc_failed = false; int cli_fin = -1, acc_fin = -1, ce = 0, ae = 0;
	for (int i = 0; i < 2000 && cli; i++) {
	    if (!acc && !acc_failed) {
		struct xcm_attr_map *am = xcm_attr_map_create(); xcm_attr_map_add_bool(am, "xcm.blocking", false);
		errno = 0; acc = xcm_accept_a(srv, am); int e = errno; xcm_attr_map_destroy(am);
		if (!acc && e != EAGAIN) { acc_failed = true; note("accept", true, e); }
	    }
	    cli_fin = xcm_finish(cli); ce = errno;
	    if (acc) { acc_fin = xcm_finish(acc); ae = errno; }
	    if (cli_fin < 0 && ce != EAGAIN) break;
	    if (acc && acc_fin < 0 && ae != EAGAIN) break;
	    if (cli_fin == 0 && acc && acc_fin == 0) break;
	    if (acc_failed && i > 200) break;
	    usleep(200);
	}
	if (cli) note("client", cli_fin < 0, ce);
	if (acc) note("accepted", acc_fin < 0, ae);
	if (cli && acc && cli_fin == 0 && acc_fin == 0) {
	    char b[64]; int got = 0;
	    int rc = xcm_send(cli, "hello", 5); note("send", rc < 0, errno);
	    for (int i = 0; i < 500 && !got; i++) { xcm_finish(cli); int r = xcm_receive(acc, b, sizeof(b)); if (r > 0) got = 1; else if (r == 0 || errno != EAGAIN) break; usleep(200); }
	    note("deliver", !got, EIO);
	}
    }
    xcm_attr_map_destroy(m);
    /* close in one of the possible orders */
    struct xcm_socket *order[3] = { cli, acc, srv };
    if (variant % 3 == 1) { order[0] = srv; order[1] = cli; order[2] = acc; }
    if (variant % 3 == 2) { order[0] = acc; order[1] = srv; order[2] = cli; }
    for (int i = 0; i < 3; i++) if (order[i]) xcm_close(order[i]);
}



/* a TCP listener that answers no SYN: backlog 0 and a pending connection nobody accepts */
static int blackhole(int *port, int fill[4])
{
    int l = __real_socket(AF_INET, SOCK_STREAM, 0);
    struct sockaddr_in a = { .sin_family = AF_INET, .sin_addr.s_addr = htonl(INADDR_LOOPBACK) };
    socklen_t sl = sizeof(a);
    __real_bind(l, (struct sockaddr *)&a, sizeof(a)); __real_listen(l, 0); getsockname(l, (struct sockaddr *)&a, &sl);
    *port = ntohs(a.sin_port);
    for (int i = 0; i < 4; i++) { fill[i] = __real_socket(AF_INET, SOCK_STREAM | SOCK_NONBLOCK, 0); __real_connect(fill[i], (struct sockaddr *)&a, sizeof(a)); }
    usleep(20000);
    return l;
}

/* the interest set of an epoll instance as the kernel reports it: sorted "tfd:events" pairs from /proc/self/fdinfo */
static void epoll_sig(int epfd, char *out, size_t cap)
{
    char path[64], line[256]; int tf[64], ev[64], n = 0;
    snprintf(path, sizeof(path), "/proc/self/fdinfo/%d", epfd);
    FILE *f = fopen(path, "r");
    out[0] = 0;
    if (!f) { snprintf(out, cap, "?"); return; }
    while (fgets(line, sizeof(line), f) && n < 64) {
	int a; unsigned b;
	if (sscanf(line, "tfd: %d events: %x", &a, &b) == 2) { tf[n] = a; ev[n] = (int)b; n++; }
    }
    fclose(f);
    for (int i = 0; i < n; i++) for (int j = i + 1; j < n; j++) if (tf[j] < tf[i]) { int x = tf[i]; tf[i] = tf[j]; tf[j] = x; x = ev[i]; ev[i] = ev[j]; ev[j] = x; }
    for (int i = 0; i < n; i++) snprintf(out + strlen(out), cap - strlen(out), "%d:%x,", tf[i], ev[i]);
}

static void run_fork(FILE *o, const char *proto)
{
    bool tcpish = strcmp(proto, "ux") && strcmp(proto, "uxf");
    struct trio t;
    if (sys_establish(proto, &t, NULL, NULL) < 0) { fprintf(o, "fail establish %s\n", h_errname(errno)); return; }
    char path[400] = ""; if (!strcmp(proto, "uxf")) snprintf(path, sizeof(path), "%s", t.addr + 4);
    /* a connection attempt that is still in progress, with its connect timeout armed */
    struct xcm_socket *pend = NULL; int port = 0, fill[4], bl = -1;
    if (tcpish) {
	bl = blackhole(&port, fill);
	char a[100]; snprintf(a, sizeof(a), "%s:127.0.0.1:%d", !strcmp(proto, "utls") ? "tls" : proto, port);
	struct xcm_attr_map *m = sys_base_attrs(proto, true); xcm_attr_map_add_double(m, "tcp.connect_timeout", 0.4);
	pend = xcm_connect_a(a, m); xcm_attr_map_destroy(m);
    }
    /* a connection whose peer has gone and which has noticed it (its bell rings: the fd is readable until it is closed) */
    struct xcm_socket *dead = NULL;
    { struct xcm_attr_map *m = sys_base_attrs(proto, true); struct xcm_socket *c3 = xcm_connect_a(t.addr, m); xcm_attr_map_destroy(m);
      struct xcm_socket *a3 = NULL; int up = 0; char b3[8];
      for (int i = 0; c3 && i < 3000 && !up; i++) { if (!a3) { struct xcm_attr_map *am = xcm_attr_map_create(); xcm_attr_map_add_bool(am, "xcm.blocking", false); a3 = xcm_accept_a(t.server, am); xcm_attr_map_destroy(am); }
	  int f1 = xcm_finish(c3); int f2 = a3 ? xcm_finish(a3) : -1; if (f1 == 0 && f2 == 0) up = 1; usleep(200); }
      if (a3) xcm_close(a3);
      if (c3 && up) { for (int i = 0; i < 3000; i++) { int rc = xcm_receive(c3, b3, sizeof(b3)); if (rc == 0 || (rc < 0 && errno != EAGAIN)) { dead = c3; break; } usleep(200); } }
      if (c3 && !dead) xcm_close(c3); }
    /* control clients attached to every control socket of this process, and accepted by the owners */
    int cc[16], ncc = 0;
    { char mine[64]; snprintf(mine, sizeof(mine), "ctl-%d-", (int)getpid());
      DIR *d = opendir(ctl_dir);
      for (struct dirent *e; d && (e = readdir(d)) && ncc < 16;) if (!strncmp(e->d_name, mine, strlen(mine))) {
	  struct sockaddr_un a = { .sun_family = AF_UNIX }; snprintf(a.sun_path, sizeof(a.sun_path), "%.300s/%.60s", ctl_dir, e->d_name);
	  int fd = __real_socket(AF_UNIX, SOCK_SEQPACKET | SOCK_NONBLOCK, 0);
	  if (__real_connect(fd, (struct sockaddr *)&a, sizeof(a)) == 0) cc[ncc++] = fd; else __real_close(fd);
      }
      if (d) closedir(d);
      char b4[8];
      for (int k = 0; k < 40; k++) { xcm_finish(t.client); xcm_receive(t.client, b4, sizeof(b4)); xcm_finish(t.accepted); xcm_receive(t.accepted, b4, sizeof(b4));
	  struct xcm_socket *a2 = xcm_accept(t.server); if (a2) xcm_close(a2); if (dead) xcm_receive(dead, b4, sizeof(b4)); } }
    struct xcm_socket *own[5] = { t.client, t.accepted, t.server, dead, pend };
    char sig0[5][600], sig1[5][600];
    for (int i = 0; i < 5; i++) { sig0[i][0] = 0; if (own[i]) epoll_sig(xcm_fd(own[i]), sig0[i], sizeof(sig0[i])); }
    int dead_before = -1;
    if (dead) { struct pollfd p = { .fd = xcm_fd(dead), .events = POLLIN }; dead_before = poll(&p, 1, 0) > 0; }
    int ctl_before = count_files(ctl_dir);
    fflush(o);
    pid_t pid = fork();
    if (pid == 0) {
	/* the child releases its copies; it must not touch what belongs to the parent */
	xcm_cleanup(t.client); xcm_cleanup(t.accepted); xcm_cleanup(t.server); if (pend) xcm_cleanup(pend); if (dead) xcm_cleanup(dead);
	_exit(0);
    }
    int st; waitpid(pid, &st, 0);
    int child_ok = WIFEXITED(st) && WEXITSTATUS(st) == 0;
    /* the kernel-side interest sets of the owner's sockets (shared with the child through fork) must be what they were */
    int epoll_same = 1;
    for (int i = 0; i < 5; i++) { sig1[i][0] = 0; if (own[i]) epoll_sig(xcm_fd(own[i]), sig1[i], sizeof(sig1[i])); if (strcmp(sig0[i], sig1[i])) epoll_same = 0; }
    int dead_signalled = -1;
    /* judged against what it was before the fork (a ux connection awaiting nothing is legitimately quiet) */
    if (dead) { struct pollfd p = { .fd = xcm_fd(dead), .events = POLLIN }; dead_signalled = (poll(&p, 1, 0) > 0) || !dead_before; }
    /* the owner's view afterwards */
    char buf[64]; int c2s = 0, s2c = 0;
    xcm_send(t.client, "ping", 4); xcm_send(t.accepted, "pong", 4);
    for (int i = 0; i < 2000 && !(c2s && s2c); i++) {
	xcm_finish(t.client); xcm_finish(t.accepted);
	if (!c2s && xcm_receive(t.accepted, buf, sizeof(buf)) == 4) c2s = 1;
	if (!s2c && xcm_receive(t.client, buf, sizeof(buf)) == 4) s2c = 1;
	usleep(200);
    }
    struct stat sb; int file_ok = !path[0] || stat(path, &sb) == 0;
    int ctl_after = count_files(ctl_dir);
    /* the server still accepts */
    int again = 0; { struct xcm_attr_map *m = sys_base_attrs(proto, true); struct xcm_socket *c2 = xcm_connect_a(t.addr, m); xcm_attr_map_destroy(m);
      struct xcm_socket *a2 = NULL; for (int i = 0; c2 && i < 3000 && !again; i++) { if (!a2) { struct xcm_attr_map *am = xcm_attr_map_create(); xcm_attr_map_add_bool(am, "xcm.blocking", false); a2 = xcm_accept_a(t.server, am); xcm_attr_map_destroy(am); }
	  int f1 = xcm_finish(c2); int f2 = a2 ? xcm_finish(a2) : -1; if (f1 == 0 && f2 == 0) again = 1; usleep(200); }
      if (c2) xcm_close(c2); if (a2) xcm_close(a2); }
    /* the pending connect: its timeout must still fire and wake the owner */
    char pend_st[64] = "-"; double waited = 0;
    if (pend) {
	double t0 = now(); snprintf(pend_st, sizeof(pend_st), "no-wakeup");
	xcm_await(pend, 0);
	while (now() - t0 < 3.0) {
	    struct pollfd p = { .fd = xcm_fd(pend), .events = POLLIN };
	    if (poll(&p, 1, 50) > 0) { int rc = xcm_finish(pend); if (rc < 0 && errno != EAGAIN) { snprintf(pend_st, sizeof(pend_st), "%s", h_errname(errno)); break; } if (rc == 0) { snprintf(pend_st, sizeof(pend_st), "connected"); break; } }
	}
	waited = now() - t0;
	xcm_close(pend);
    }
    fprintf(o, "child_ok=%d c2s=%d s2c=%d file_ok=%d ctl=%d/%d accepts_again=%d pending=%s waited=%.2f epoll_same=%d dead_signalled=%d ctl_clients=%d\n", child_ok, c2s, s2c, file_ok, ctl_before, ctl_after, again, pend_st, waited, epoll_same, dead_signalled, ncc);
    for (int i = 0; i < ncc; i++) __real_close(cc[i]);
    if (dead) xcm_close(dead);
    sys_close_trio(&t);
    if (bl >= 0) { __real_close(bl); for (int i = 0; i < 4; i++) __real_close(fill[i]); }
}

static void run_ctl(FILE *o, int nclients)
{
    char before[4000], after[4000];
    int nb = count_fds(before, sizeof(before));
    char addr[300]; sys_addr("ux", addr, sizeof(addr));
    struct xcm_attr_map *m = sys_base_attrs("ux", true);
    struct xcm_socket *srv = xcm_server_a(addr, m); xcm_attr_map_destroy(m);
    if (!srv) { fprintf(o, "fail server %s\n", h_errname(errno)); return; }
    /* the control socket of this server: the one file ctl-<pid>-* that appeared */
    char path[600] = ""; char mine[64]; snprintf(mine, sizeof(mine), "ctl-%d-", (int)getpid());
    DIR *d = opendir(ctl_dir); for (struct dirent *e; d && (e = readdir(d));) if (!strncmp(e->d_name, mine, strlen(mine))) snprintf(path, sizeof(path), "%s/%s", ctl_dir, e->d_name); if (d) closedir(d);
    int cfd[4]; int attached = 0;
    for (int i = 0; i < nclients && i < 4; i++) {
	cfd[i] = __real_socket(AF_UNIX, SOCK_SEQPACKET | SOCK_NONBLOCK, 0);
	struct sockaddr_un a = { .sun_family = AF_UNIX }; snprintf(a.sun_path, sizeof(a.sun_path), "%s", path);
	if (__real_connect(cfd[i], (struct sockaddr *)&a, sizeof(a)) == 0) attached++;
	/* the owner services its control interface now and then */
	for (int k = 0; k < 40; k++) { struct xcm_socket *a2 = xcm_accept(srv); if (a2) xcm_close(a2); }
    }
    xcm_close(srv);
    int eofs = 0;
    for (int i = 0; i < nclients && i < 4; i++) {
	char b[16]; int r = -1;
	for (int k = 0; k < 200; k++) { r = recv(cfd[i], b, sizeof(b), 0); if (r >= 0 || errno != EAGAIN) break; usleep(500); }
	if (r == 0) eofs++;
	__real_close(cfd[i]);
    }
    struct stat sb; int file_left = path[0] && stat(path, &sb) == 0;
    int na = count_fds(after, sizeof(after));
    fprintf(o, "clients=%d attached=%d eof_seen=%d fds=%d/%d ctl_file_left=%d%s%s\n", nclients, attached, eofs, nb, na, file_left, na != nb ? " after=" : "", na != nb ? after : "");
}

/* RESOLVING <proto>: sockets closed (and, in a forked child, cleaned up) while the DNS queries of a non-blocking connect - the
   remote name's and the one for a DNS name in xcm.local_addr - are still outstanding: a silent UDP sink on 127.0.0.1:53 (the
   resolver of this sandbox) keeps them pending.  Nothing may be left: descriptors, heap. */
static void run_resolving(FILE *o, const char *proto)
{
    int sink = __real_socket(AF_INET, SOCK_DGRAM, 0);
    struct sockaddr_in sa = { .sin_family = AF_INET, .sin_port = htons(53) };
    inet_pton(AF_INET, "127.0.0.1", &sa.sin_addr);
    if (sink < 0 || __real_bind(sink, (struct sockaddr *)&sa, sizeof(sa)) < 0) { fprintf(o, "skip cannot bind 127.0.0.1:53 (%s)\n", h_errname(errno)); return; }
    char before[4000], after[4000];
    /* warm up c-ares' one-time state */
    for (int w = 0; w < 2; w++) {
	struct xcm_attr_map *m = sys_base_attrs(proto, true);
	char ra[128]; snprintf(ra, sizeof(ra), "%s:warm%d.verif.test:4711", proto, w);
	struct xcm_socket *c = xcm_connect_a(ra, m); xcm_attr_map_destroy(m);
	if (c) xcm_close(c);
    }
    int nb = count_fds(before, sizeof(before));
    int made = 0, child_left = -1;
    for (int i = 0; i < 12; i++) {
	struct xcm_attr_map *m = sys_base_attrs(proto, true);
	char la[128], ra[128];
	snprintf(la, sizeof(la), "%s:local%d.verif.test:0", proto, i);
	/* remote: a name (both queries pending), or an address (only the local name's query) */
	if (i % 2) snprintf(ra, sizeof(ra), "%s:remote%d.verif.test:4711", proto, i); else snprintf(ra, sizeof(ra), "%s:127.0.0.1:4711", proto);
	if (i % 3) xcm_attr_map_add_str(m, "xcm.local_addr", la);
	struct xcm_socket *c = xcm_connect_a(ra, m);
	xcm_attr_map_destroy(m);
	if (!c) continue;
	made++;
	xcm_finish(c);
	if (i == 5) {
	    /* a child drops its copy of the socket in mid-resolution */
	    int pfd[2]; pipe(pfd);
	    pid_t pid = fork();
	    /* the child then holds: the baseline minus the sink plus the pipe's write end = as many as the baseline */
	    if (pid == 0) { char l[4000]; __real_close(pfd[0]); xcm_cleanup(c); __real_close(sink); int n = count_fds(l, sizeof(l)); dprintf(pfd[1], "%d\n", n); _exit(0); }
	    __real_close(pfd[1]); char b[32] = ""; read(pfd[0], b, sizeof(b) - 1); __real_close(pfd[0]); int st; waitpid(pid, &st, 0);
	    child_left = atoi(b);
	}
	xcm_close(c);
    }
    int na = count_fds(after, sizeof(after));
    int heap = __lsan_do_recoverable_leak_check();
    fprintf(o, "made=%d fds=%d/%d child_fds=%d(parent had %d) heap_leak=%d%s%s\n", made, nb, na, child_left, nb, heap ? 1 : 0, na != nb ? " after=" : "", na != nb ? after : "");
    __real_close(sink);
}

int main(void)
{
    static char line[H_LINE_MAX];
    char *w[H_MAXW];
    FILE *o = stdout;
    const char *run = getenv("VERIF_RUNDIR");
    snprintf(ctl_dir, sizeof(ctl_dir), "%s/ctl", run ? run : "/tmp"); mkdir(ctl_dir, 0700); setenv("XCM_CTL", ctl_dir, 1);
    /* warm up: one-time initialisations (OpenSSL, c-ares, the library's own) are not lifecycle paths */
    { struct trio t; if (sys_establish("tls", &t, NULL, NULL) == 0) sys_close_trio(&t); if (sys_establish("ux", &t, NULL, NULL) == 0) sys_close_trio(&t); }
    while (fgets(line, sizeof(line), stdin)) {
	int n = h_words(line, w);
	if (n == 0 || w[0][0] == '#') continue;
	if (!strcmp(w[0], "COUNT") && n == 3) {
	    /* COUNT <proto> <variant>: how many wrapped calls the undisturbed scenario makes */
	    fflush(o);
	    int pfd[2]; pipe(pfd);
	    pid_t pid = fork();
	    if (pid == 0) { armed = 1; fail_at = -1; scenario(w[1], atoi(w[2])); armed = 0; dprintf(pfd[1], "%d\n", call_no); _exit(0); }
	    __real_close(pfd[1]); char b[64] = ""; read(pfd[0], b, sizeof(b) - 1); __real_close(pfd[0]); int st; waitpid(pid, &st, 0);
	    fprintf(o, "calls=%d\n", atoi(b));
	} else if (!strcmp(w[0], "CASE") && (n == 5 || n == 7)) {
	    /* CASE <proto> <variant> <k> <errno> [<k2> <errno2>]: the k-th (and the k2-th, k2 > k) resource-creating call fails; -1 = none */
	    fflush(o);
	    int pfd[2]; pipe(pfd);
	    pid_t pid = fork();
	    if (pid == 0) {
		__real_close(pfd[0]);
		char before[4000], after[4000];
		int nb = count_fds(before, sizeof(before));
		memset(lib_fd, 0, sizeof(lib_fd)); stray_close = 0; trace[0] = 0; uxf_path[0] = 0;
		fail_at = atoi(w[3]); fail_errno = h_errnum(w[4]);
		fail_at2 = n == 7 ? atoi(w[5]) : -1; fail_errno2 = n == 7 ? h_errnum(w[6]) : 0;
		armed = 1;
		scenario(w[1], atoi(w[2]));
		armed = 0;
		int na = count_fds(after, sizeof(after));
		int leaked_lib = 0; for (int i = 0; i < 4096; i++) leaked_lib += lib_fd[i];
		struct stat sb; int uxf_left = uxf_path[0] && stat(uxf_path, &sb) == 0;
		int ctl_left = count_files(ctl_dir);
		int heap = __lsan_do_recoverable_leak_check();
		dprintf(pfd[1], "failed_call=%s:%d fds=%d/%d lib_fds_left=%d stray_close=%d uxf_left=%d ctl_left=%d heap_leak=%d bad_errno=%d trace=%s%s%s\n",
			n_failed ? fail_name : "-", n_failed, nb, na, leaked_lib, stray_close, uxf_left, ctl_left, heap ? 1 : 0, bad_errno, trace[0] ? trace : "-",
			na != nb ? " after=" : "", na != nb ? after : "");
		_exit(0);
	    }
	    __real_close(pfd[1]);
	    char b[6000]; size_t got = 0; ssize_t r;
	    while ((r = read(pfd[0], b + got, sizeof(b) - 1 - got)) > 0) got += r;
	    b[got] = 0; __real_close(pfd[0]);
	    int st; waitpid(pid, &st, 0);
	    if (WIFSIGNALED(st)) fprintf(o, "crash signal=%d\n", WTERMSIG(st));
	    else if (WEXITSTATUS(st) != 0 || got == 0) fprintf(o, "crash exit=%d\n", WEXITSTATUS(st));
	    else fputs(b, o);
	} else if ((!strcmp(w[0], "FORK") || !strcmp(w[0], "CTL") || !strcmp(w[0], "RESOLVING")) && n == 2) {
	    /* isolated in a child like every case */
	    fflush(o);
	    int pfd[2]; pipe(pfd);
	    pid_t pid = fork();
	    if (pid == 0) {
		__real_close(pfd[0]);
		FILE *po = fdopen(pfd[1], "w");
		if (!strcmp(w[0], "FORK")) run_fork(po, w[1]); else if (!strcmp(w[0], "RESOLVING")) run_resolving(po, w[1]); else run_ctl(po, atoi(w[1]));
		fflush(po);
		_exit(0);
	    }
	    __real_close(pfd[1]);
	    char b[6000]; size_t got = 0; ssize_t r;
	    while ((r = read(pfd[0], b + got, sizeof(b) - 1 - got)) > 0) got += r;
	    b[got] = 0; __real_close(pfd[0]);
	    int st; waitpid(pid, &st, 0);
	    if (WIFSIGNALED(st)) fprintf(o, "crash signal=%d\n", WTERMSIG(st));
	    else if (got == 0) fprintf(o, "crash exit=%d\n", WEXITSTATUS(st));
	    else fputs(b, o);
	} else fputs("bad-op\n", o);
	fflush(o);
    }
    return 0;
}
