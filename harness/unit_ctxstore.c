/* Correspondence harness for libxcm/tp/tls/ctx_store.c: the REAL file is #included and runs against real OpenSSL and
   real files (a PKI fixture directory given in PKI_DIR, a scratch directory in VERIF_RUNDIR).  item_load is wrapped
   so that a script can replace files while a context is being loaded; SSL_CTX_free is wrapped to observe releases. */
#include "hutil.h"
#include <unistd.h>
#include <sys/stat.h>
#include <openssl/ssl.h>
#include <openssl/x509.h>
#include "item.h"

static int m_item_load(const struct item *item, char **data);
static void m_ctx_free(SSL_CTX *c);
#define item_load m_item_load
#define SSL_CTX_free m_ctx_free
#include "ctx_store.c"
#undef item_load
#undef SSL_CTX_free

#define MAXCTX 512
static SSL_CTX *ctxs[MAXCTX]; static int nctx; static bool freed[MAXCTX];
static char freed_now[256];
static int ctx_id(SSL_CTX *c) { for (int i = 0; i < nctx; i++) if (ctxs[i] == c && !freed[i]) return i; return -1; }
static void m_ctx_free(SSL_CTX *c)
{
    int id = ctx_id(c);
    if (id >= 0) { freed[id] = true; char b[16]; snprintf(b, sizeof(b), "%s%d", freed_now[0] ? "," : "", id); strcat(freed_now, b); }
    SSL_CTX_free(c);
}

static const char *pki, *run;
static char *slurp(const char *path)
{
    FILE *f = fopen(path, "r"); if (!f) return NULL;
    static char buf[200000]; size_t n = fread(buf, 1, sizeof(buf) - 1, f); buf[n] = 0; fclose(f);
    return strdup(buf);
}
/* material "a+b+c" = concatenation of the fixture files a.pem b.pem c.pem */
static char *material(const char *spec)
{
    char *out = calloc(1, 400000); char *dup = strdup(spec);
    char *sv1;
    for (char *t = strtok_r(dup, "+", &sv1); t; t = strtok_r(NULL, "+", &sv1)) {
	char p[600]; snprintf(p, sizeof(p), "%s/%s.pem", pki, t);
	char *c = slurp(p); if (c) { strcat(out, c); free(c); }
    }
    free(dup);
    return out;
}
static int wseq;
static void write_file(const char *name, const char *spec)
{
    char tmp[600], dst[600];
    snprintf(tmp, sizeof(tmp), "%s/.tmp%d", run, wseq++); snprintf(dst, sizeof(dst), "%s/%s", run, name);
    char *m = material(spec);
    FILE *f = fopen(tmp, "w"); fputs(m, f); fclose(f); free(m);
    rename(tmp, dst);
}

/* scripted changes during a get: after the k-th item_load of this call */
static int load_no; static struct { int at; char name[64]; char spec[128]; } hooks[8]; static int nhooks;
static int m_item_load(const struct item *item, char **data)
{
    int rc = item_load(item, data);
    if (item->type != item_type_none) {
	load_no++;
	for (int i = 0; i < nhooks; i++) if (hooks[i].at == load_no) write_file(hooks[i].name, hooks[i].spec);
    }
    return rc;
}

static void set_item(struct item *it, const char *w)
{
    item_init(it);
    if (!strcmp(w, "-")) return;
    if (w[0] == 'f') { char p[600]; snprintf(p, sizeof(p), "%s/%s", run, w + 2); item_set_file(it, p, false); }
    else { char *m = material(w + 2); item_set_value(it, m, false); free(m); }
}

static int cmp_str(const void *a, const void *b) { return strcmp(*(char *const *)a, *(char *const *)b); }
static void cn_of(X509_NAME *n, char *out, size_t cap) { out[0] = 0; X509_NAME_get_text_by_NID(n, NID_commonName, out, cap); }

static void describe(FILE *o, SSL_CTX *c)
{
    char cn[128] = "-";
    X509 *x = SSL_CTX_get0_certificate(c);
    if (x) cn_of(X509_get_subject_name(x), cn, sizeof(cn));
    STACK_OF(X509) *chain = NULL; SSL_CTX_get0_chain_certs(c, &chain);
    fprintf(o, " cert=%s chain=%d tc=", cn, chain ? sk_X509_num(chain) : 0);
    STACK_OF(X509_OBJECT) *objs = X509_STORE_get0_objects(SSL_CTX_get_cert_store(c));
    char *names[64]; int nn = 0, ncrl = 0;
    for (int i = 0; i < sk_X509_OBJECT_num(objs); i++) {
	X509_OBJECT *ob = sk_X509_OBJECT_value(objs, i);
	if (X509_OBJECT_get_type(ob) == X509_LU_X509 && nn < 64) { char b[128]; cn_of(X509_get_subject_name(X509_OBJECT_get0_X509(ob)), b, sizeof(b)); names[nn++] = strdup(b); }
	else if (X509_OBJECT_get_type(ob) == X509_LU_CRL) ncrl++;
    }
    qsort(names, nn, sizeof(char *), cmp_str);
    if (!nn) fputc('-', o);
    for (int i = 0; i < nn; i++) { fprintf(o, "%s%s", i ? "," : "", names[i]); free(names[i]); }
    fprintf(o, " crl=%d", ncrl);
}

static void show_cache(FILE *o)
{
    fputs(" | cache", o);
    /* in id order */
    for (int id = 0; id < nctx; id++) {
	struct cache_entry *e;
	LIST_FOREACH(e, &cache.entries, elem) if (ctx_id(e->ssl_ctx) == id) fprintf(o, " %d:%d", id, e->use_cnt);
    }
    fprintf(o, " | freed %s\n", freed_now[0] ? freed_now : "-");
}

int main(void)
{
    static char line[H_LINE_MAX];
    char *w[H_MAXW];
    FILE *o = stdout;
    pki = getenv("PKI_DIR"); run = getenv("VERIF_RUNDIR");
    if (!pki || !run) { fputs("PKI_DIR/VERIF_RUNDIR unset\n", stderr); return 2; }
    /* every run starts from an empty directory: a re-run of a (shrunk) history must not see the files or links an earlier
       run of this check left behind */
    { static const char *names[] = { "cert.pem", "key.pem", "tc.pem", "crl.pem", "cert2.pem", "key2.pem", "tc2.pem", "lnk-cert.pem", "lnk-tc.pem" };
      char p[700];
      for (unsigned i = 0; i < sizeof(names) / sizeof(names[0]); i++) {
	  snprintf(p, sizeof(p), "%s/%s", run, names[i]); unlink(p);
	  snprintf(p, sizeof(p), "%s/%s.tmp", run, names[i]); unlink(p);
      } }
    ctx_store_init();
    static SSL_CTX *slots[64];
    while (fgets(line, sizeof(line), stdin)) {
	int n = h_words(line, w);
	if (n == 0 || w[0][0] == '#') continue;
	freed_now[0] = 0;
	if (!strcmp(w[0], "W") && n == 3) { write_file(w[1], w[2]); fputs("ok\n", o); }
	else if (!strcmp(w[0], "L") && n == 3) {
	    /* L <name> <target>: name becomes a symbolic link to target (atomically) */
	    char tmp[600], dst[600]; snprintf(tmp, sizeof(tmp), "%s/.lnk%d", run, wseq++); snprintf(dst, sizeof(dst), "%s/%s", run, w[1]);
	    symlink(w[2], tmp); rename(tmp, dst); fputs("ok\n", o);
	} else if (!strcmp(w[0], "X") && n == 2) { char p[600]; snprintf(p, sizeof(p), "%s/%s", run, w[1]); unlink(p); fputs("ok\n", o); }
	else if (!strcmp(w[0], "G") && n >= 6) {
	    /* G <slot> <cert> <key> <tc> <crl> [<k>:<file>:<material> ...] */
	    int slot = atoi(w[1]) % 64;
	    struct item it[4];
	    for (int i = 0; i < 4; i++) set_item(&it[i], w[2 + i]);
	    nhooks = 0; load_no = 0;
	    for (int i = 6; i < n && nhooks < 8; i++) {
		char *a = strchr(w[i], ':'); if (!a) continue; *a++ = 0; char *b = strchr(a, ':'); if (!b) continue; *b++ = 0;
		hooks[nhooks].at = atoi(w[i]); snprintf(hooks[nhooks].name, 64, "%s", a); snprintf(hooks[nhooks].spec, 128, "%s", b); nhooks++;
	    }
	    if (slots[slot]) { fputs("slot-busy\n", o); for (int i = 0; i < 4; i++) item_deinit(&it[i]); fflush(o); continue; }
	    int before = nctx;
	    errno = 0;
	    SSL_CTX *c = ctx_store_get_ctx(&it[0], &it[1], &it[2], &it[3], NULL);
	    int e = errno;
	    nhooks = 0;
	    if (c == NULL) fprintf(o, "-1 %s loads=%d", h_errname(e), load_no);
	    else {
		int id = ctx_id(c);
		if (id < 0) { id = nctx; ctxs[nctx++] = c; }
		slots[slot] = c;
		fprintf(o, "ctx=%d created=%d loads=%d", id, nctx > before, load_no);
		describe(o, c);
	    }
	    for (int i = 0; i < 4; i++) item_deinit(&it[i]);
	    show_cache(o);
	} else if (!strcmp(w[0], "P") && n == 2) {
	    int slot = atoi(w[1]) % 64;
	    if (!slots[slot]) { fputs("slot-empty\n", o); fflush(o); continue; }
	    ctx_store_put(slots[slot]); slots[slot] = NULL;
	    fputs("put", o); show_cache(o);
	} else fputs("bad-op\n", o);
	fflush(o);
    }
    return 0;
}
