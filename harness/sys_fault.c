/* System harness for C06: terminal conditions on live connections of every transport.
   INJ : one kernel send()/recv() below XCM (or below OpenSSL) fails with a chosen errno at a chosen call index; from then
         on that descriptor behaves as Linux does once the error has been consumed (recv -> 0, send -> EPIPE), so only XCM's
         own memory can keep the errno.  The XCM call that was running must report it; every later call must keep to it.
   CUT : a raw TCP peer writes a prefix of a wire stream (cut at every byte offset) and closes or resets.
   KILL: a forked XCM peer is killed at a chosen moment (during the handshake, mid-message, between messages).
   Output: one line per case; the oracle is in gen/props/C06.py. */
#include "sysutil.h"
#include <poll.h>
#include <signal.h>
#include <sys/socket.h>
#include <sys/wait.h>
#include <netinet/in.h>
#include <netinet/tcp.h>
#include <arpa/inet.h>
#include <time.h>

/* ---- the shim ---- */
static int arm_dir;          /* 0 off, 1 send, 2 recv */
static long arm_k, seen_k;
static int arm_errno, dead_fd = -1, fired_call = -1, cur_call = -1;

ssize_t __real_send(int, const void *, size_t, int);
ssize_t __wrap_send(int fd, const void *buf, size_t len, int flags)
{
    if (fd == dead_fd) { errno = EPIPE; return -1; }
    if (arm_dir == 1 && cur_call >= 0 && seen_k++ == arm_k) { arm_dir = 0; dead_fd = fd; fired_call = cur_call; errno = arm_errno; return -1; }
    return __real_send(fd, buf, len, flags);
}
ssize_t __real_recv(int, void *, size_t, int);
ssize_t __wrap_recv(int fd, void *buf, size_t len, int flags)
{
    if (fd == dead_fd) return 0;
    if (arm_dir == 2 && cur_call >= 0 && seen_k++ == arm_k) { arm_dir = 0; dead_fd = fd; fired_call = cur_call; errno = arm_errno; return -1; }
    return __real_recv(fd, buf, len, flags);
}

static double now(void) { struct timespec t; clock_gettime(CLOCK_MONOTONIC, &t); return t.tv_sec + t.tv_nsec / 1e9; }

/* message i / stream position: content is a function of the index */
static size_t msg_len(int i) { static const size_t L[] = { 1, 7, 100, 1500, 9000, 40000, 65535, 3 }; return L[i % 8]; }
static unsigned char msg_byte(int i, size_t k) { return (unsigned char)('A' + (i * 7 + k) % 23); }
static unsigned char stream_byte(long pos) { return (unsigned char)(pos * 131 + pos / 251); }

struct side {
    struct xcm_socket *s;
    bool bs;
    int tx_i; long tx_pos;          /* next message / stream position to send */
    int rx_i; long rx_pos;          /* next expected */
    int bad;                        /* deliveries that are not the expected message / bytes */
    int term;                       /* 0 none, 1 closed (receive returned 0), 2 error */
    int term_errno; int term_call; char term_op;
};

static char buf[70000];

/* one XCM call; returns a result token: >0 data ok, 0 closed, -errno */
static int do_recv(struct side *a)
{
    int rc = xcm_receive(a->s, buf, sizeof(buf)); int e = errno;
    if (rc < 0) return -e;
    if (rc == 0) return 0;
    if (a->bs) {
	for (int k = 0; k < rc; k++) if ((unsigned char)buf[k] != stream_byte(a->rx_pos + k)) { a->bad++; break; }
	a->rx_pos += rc;
    } else {
	size_t l = msg_len(a->rx_i);
	if ((size_t)rc != l) a->bad++;
	else for (size_t k = 0; k < l; k++) if ((unsigned char)buf[k] != msg_byte(a->rx_i, k)) { a->bad++; break; }
	a->rx_i++;
    }
    return rc;
}

static int do_send(struct side *a)
{
    if (a->bs) {
	size_t l = 1 + (a->tx_pos * 7919) % 20000;
	for (size_t k = 0; k < l; k++) buf[k] = (char)stream_byte(a->tx_pos + k);
	int rc = xcm_send(a->s, buf, l); int e = errno;
	if (rc < 0) return -e;
	a->tx_pos += rc;
	return rc > 0 ? rc : 1;
    }
    size_t l = msg_len(a->tx_i);
    for (size_t k = 0; k < l; k++) buf[k] = (char)msg_byte(a->tx_i, k);
    int rc = xcm_send(a->s, buf, l); int e = errno;
    if (rc < 0) return -e;
    a->tx_i++;
    return 1;
}

static int do_finish(struct side *a)
{
    int rc = xcm_finish(a->s); int e = errno;
    return rc < 0 ? -e : 1;
}

static void tok(char *out, size_t cap, char op, int r)
{
    size_t n = strlen(out);
    if (r > 0) snprintf(out + n, cap - n, "%c:ok,", op);
    else if (r == 0) snprintf(out + n, cap - n, "%c:0,", op);
    else snprintf(out + n, cap - n, "%c:-%s,", op, h_errname(-r));
}

/* after the terminal condition: a fixed mix of calls, results appended to `out` */
static void post_calls(struct side *a, char *out, size_t cap)
{
    static const char ops[] = "RSFSRFRSRRSF";
    for (const char *p = ops; *p; p++) {
	int r = *p == 'R' ? do_recv(a) : *p == 'S' ? do_send(a) : do_finish(a);
	tok(out, cap, *p, r);
    }
}

static void note_term(struct side *a, char op, int r, int call)
{
    if (a->term) return;
    if (r == 0 && op == 'R') { a->term = 1; a->term_errno = 0; a->term_call = call; a->term_op = op; }
    else if (r < 0 && -r != EAGAIN) { a->term = 2; a->term_errno = -r; a->term_call = call; a->term_op = op; }
}

static void cmd_inj(FILE *o, const char *proto, const char *dir, long k, int eno, unsigned seed)
{
    struct trio t;
    arm_dir = 0; dead_fd = -1; fired_call = -1; cur_call = -1;
    if (sys_establish(proto, &t, NULL, NULL) < 0) { fprintf(o, "fail establish %s\n", h_errname(errno)); sys_close_trio(&t); return; }
    struct side c = { .s = t.client, .bs = sys_is_bytestream(proto) }, a = { .s = t.accepted, .bs = c.bs };
    arm_errno = eno; arm_k = k; seen_k = 0; arm_dir = !strcmp(dir, "send") ? 1 : 2;
    int call = 0; char first_op = '-'; int first_res = 0; int first_side = -1;
    char fired_op = '-'; int fired_res = 0, fired_side = -1;
    for (int step = 0; step < 400 && !(c.term && a.term) && !(fired_call >= 0 && (c.term || a.term)); step++) {
	int pick = rand_r(&seed) % 10;
	struct side *x = (pick & 1) ? &a : &c; int xi = (pick & 1);
	if (x->term) continue;
	char op = pick < 4 ? 'S' : pick < 8 ? 'R' : 'F';
	/* keep the pipe from filling: the reader side reads more often than the writer writes */
	cur_call = call;
	int r = op == 'S' ? do_send(x) : op == 'R' ? do_recv(x) : do_finish(x);
	cur_call = -1;
	if (fired_call == call) { fired_op = op; fired_res = r; fired_side = xi; }
	note_term(x, op, r, call);
	if (x->term && first_side < 0) { first_side = xi; first_op = op; first_res = r; }
	call++;
    }
    char post[600] = "";
    struct side *v = fired_side == 1 ? &a : fired_side == 0 ? &c : NULL;
    if (v) post_calls(v, post, sizeof(post));
    char fr[64] = "", fi[64] = "";
    tok(fr, sizeof(fr), fired_op, fired_res); tok(fi, sizeof(fi), first_op, first_res);
    fprintf(o, "fired=%d side=%d during=%s first_term=%s(side %d) bad=%d post=%s\n", fired_call >= 0, fired_side, fr, fi, first_side,
	    c.bad + a.bad, post[0] ? post : "-");
    arm_dir = 0; dead_fd = -1;
    sys_close_trio(&t);
}

/* wire stream for CUT: tcp = frames (4-byte big-endian length + payload), btcp = raw bytes */
static size_t build_wire(bool bs, unsigned char *w, size_t cap, int *nframes, size_t *ends)
{
    static const size_t L[] = { 1, 5, 300, 2, 70 };
    size_t n = 0;
    if (bs) { for (n = 0; n < 400 && n < cap; n++) w[n] = stream_byte(n); *nframes = 0; return n; }
    *nframes = 5;
    for (int i = 0; i < 5; i++) {
	w[n++] = 0; w[n++] = 0; w[n++] = (L[i] >> 8) & 0xff; w[n++] = L[i] & 0xff;
	for (size_t k = 0; k < L[i]; k++) w[n++] = msg_byte(100 + i, k);
	ends[i] = n;
    }
    return n;
}

static void cmd_cut(FILE *o, const char *proto, const char *mode, long cut, int cap)
{
    bool bs = sys_is_bytestream(proto);
    char addr[300]; sys_addr(proto, addr, sizeof(addr));
    struct xcm_attr_map *m = sys_base_attrs(proto, true);
    struct xcm_socket *srv = xcm_server_a(addr, m);
    xcm_attr_map_destroy(m);
    if (!srv) { fprintf(o, "fail server %s\n", h_errname(errno)); return; }
    const char *la = xcm_local_addr(srv);
    int port = atoi(strrchr(la, ':') + 1);
    int fd = socket(AF_INET, SOCK_STREAM, 0);
    struct sockaddr_in sa = { .sin_family = AF_INET, .sin_port = htons(port) };
    inet_pton(AF_INET, "127.0.0.1", &sa.sin_addr);
    if (connect(fd, (struct sockaddr *)&sa, sizeof(sa)) < 0) { fprintf(o, "fail connect %s\n", h_errname(errno)); close(fd); xcm_close(srv); return; }
    static unsigned char w[2000]; int nf; size_t ends[8];
    size_t wl = build_wire(bs, w, sizeof(w), &nf, ends);
    if ((size_t)cut > wl) cut = wl;
    int one = 1; setsockopt(fd, IPPROTO_TCP, TCP_NODELAY, &one, sizeof(one));
    if (cut > 0 && __real_send(fd, w, cut, MSG_NOSIGNAL) != cut) { fprintf(o, "fail write\n"); close(fd); xcm_close(srv); return; }
    struct xcm_socket *acc = NULL;
    m = xcm_attr_map_create(); xcm_attr_map_add_bool(m, "xcm.blocking", false);
    for (int i = 0; i < 2000 && !acc; i++) { acc = xcm_accept_a(srv, m); if (!acc) usleep(200); }
    xcm_attr_map_destroy(m);
    if (!acc) { fprintf(o, "fail accept %s\n", h_errname(errno)); close(fd); xcm_close(srv); return; }
    /* let the bytes arrive, read part of them first when the mode says so, then the peer goes away */
    bool early = strstr(mode, "late") == NULL;
    if (!strncmp(mode, "rst", 3)) { struct linger l = { 1, 0 }; setsockopt(fd, SOL_SOCKET, SO_LINGER, &l, sizeof(l)); }
    if (early) { usleep(2000); close(fd); fd = -1; usleep(2000); }
    int delivered = 0, partial = 0, wrong = 0; long got = 0; int term = -1;
    char post[600] = "";
    for (int i = 0; i < 3000; i++) {
	int rc = xcm_receive(acc, buf, cap); int e = errno;
	if (rc > 0) {
	    if (bs) { for (int k = 0; k < rc; k++) if ((unsigned char)buf[k] != w[got + k]) { wrong++; break; } got += rc; if (got > cut) partial++; }
	    else {
		size_t l = delivered < nf ? ends[delivered] - (delivered ? ends[delivered - 1] : 0) - 4 : 0;
		size_t expect = l < (size_t)cap ? l : (size_t)cap;
		if (delivered >= nf || ends[delivered] > (size_t)cut) partial++;
		else if ((size_t)rc != expect) wrong++;
		else for (size_t k = 0; k < expect; k++) if ((unsigned char)buf[k] != msg_byte(100 + delivered, k)) { wrong++; break; }
		delivered++;
	    }
	    continue;
	}
	if (rc == 0) { term = 0; break; }
	if (e != EAGAIN) { term = e; break; }
	if (fd >= 0 && i > 20) { close(fd); fd = -1; }
	usleep(300);
    }
    if (fd >= 0) close(fd);
    struct side a = { .s = acc, .bs = bs };
    if (term >= 0) post_calls(&a, post, sizeof(post));
    fprintf(o, "delivered=%d got=%ld partial=%d wrong=%d term=%s post=%s\n", delivered, got, partial, wrong,
	    term < 0 ? "none" : term == 0 ? "0" : h_errname(term), post[0] ? post : "-");
    xcm_close(acc); xcm_close(srv);
}

static void cmd_kill(FILE *o, const char *proto, long delay_us, int nmsg)
{
    bool bs = sys_is_bytestream(proto);
    char addr[300]; sys_addr(proto, addr, sizeof(addr));
    struct xcm_attr_map *m = sys_base_attrs(proto, true);
    struct xcm_socket *srv = xcm_server_a(addr, m);
    xcm_attr_map_destroy(m);
    if (!srv) { fprintf(o, "fail server %s\n", h_errname(errno)); return; }
    char la[300]; snprintf(la, sizeof(la), "%s", xcm_local_addr(srv));
    fflush(o);
    pid_t pid = fork();
    if (pid == 0) {
	/* the peer: blocking connect, then messages for ever */
	struct xcm_attr_map *cm = sys_base_attrs(proto, false);
	struct xcm_socket *c = xcm_connect_a(la, cm);
	if (!c) _exit(3);
	struct side s = { .s = c, .bs = bs };
	for (int i = 0; nmsg < 0 || i < nmsg; i++) if (do_send(&s) < 0) _exit(4);
	if (nmsg >= 0) { xcm_close(c); _exit(0); }
	_exit(0);
    }
    double t0 = now(); bool killed = false;
    struct xcm_socket *acc = NULL;
    m = xcm_attr_map_create(); xcm_attr_map_add_bool(m, "xcm.blocking", false);
    struct side a = { .bs = bs };
    int term = -1; char term_op = '-'; int hs_fail = 0;
    for (int i = 0; i < 200000; i++) {
	if (!killed && nmsg < 0 && (now() - t0) * 1e6 >= delay_us) { kill(pid, SIGKILL); killed = true; }
	if (!acc) {
	    acc = xcm_accept_a(srv, m);
	    if (!acc) { if (killed && now() - t0 > 1.0 + delay_us / 1e6) break; usleep(50); continue; }
	    a.s = acc;
	}
	int r = do_recv(&a);
	if (r > 0) continue;
	if (r == 0) { term = 0; term_op = 'R'; break; }
	if (-r != EAGAIN) { term = -r; term_op = 'R'; break; }
	if (killed && now() - t0 > 4.0 + delay_us / 1e6) break;
	if (nmsg >= 0 && now() - t0 > 8.0) break;
	usleep(50);
    }
    xcm_attr_map_destroy(m);
    if (!killed) kill(pid, SIGKILL);
    int st; waitpid(pid, &st, 0);
    char post[600] = "";
    if (acc && term >= 0) post_calls(&a, post, sizeof(post));
    (void)term_op; (void)hs_fail;
    fprintf(o, "accepted=%d delivered=%ld bad=%d term=%s post=%s\n", acc != NULL, bs ? a.rx_pos : (long)a.rx_i, a.bad,
	    term < 0 ? "none" : term == 0 ? "0" : h_errname(term), post[0] ? post : "-");
    if (acc) xcm_close(acc);
    xcm_close(srv);
}

int main(void)
{
    static char line[H_LINE_MAX];
    char *w[H_MAXW];
    FILE *o = stdout;
    signal(SIGPIPE, SIG_IGN);
    while (fgets(line, sizeof(line), stdin)) {
	int n = h_words(line, w);
	if (n == 0 || w[0][0] == '#') continue;
	if (!strcmp(w[0], "INJ") && n == 6)
	    cmd_inj(o, w[1], w[2], atol(w[3]), h_errnum(w[4]), (unsigned)atoi(w[5]));
	else if (!strcmp(w[0], "CUT") && n == 5)
	    cmd_cut(o, w[1], w[2], atol(w[3]), atoi(w[4]));
	else if (!strcmp(w[0], "KILL") && n == 4)
	    cmd_kill(o, w[1], atol(w[2]), atoi(w[3]));
	else
	    fputs("bad-op\n", o);
	fflush(o);
    }
    return 0;
}
