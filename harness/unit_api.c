/* Correspondence harness for the wrappers of libxcm/core/xcm.c (xcm_send, xcm_receive, xcm_finish,
   xcm_await, xcm_set_blocking with socket_wait/socket_finish/bytestream_bsend/msg_bsend).  The REAL
   file is #included; the transport below (xcm_tp_socket_*) and poll() are a scripted environment. */
#include "hutil.h"
#include <poll.h>

static int m_tp_send(struct xcm_socket *s, const void *buf, size_t len);
static int m_tp_receive(struct xcm_socket *s, void *buf, size_t cap);
static int m_tp_finish(struct xcm_socket *s);
static void m_tp_update(struct xcm_socket *s);
static bool m_tp_is_bytestream(struct xcm_socket *s);
static int m_poll(struct pollfd *fds, nfds_t n, int timeout);
static int m_xpoll_get_fd(struct xpoll *x) { return 0; }

#define xcm_tp_socket_send m_tp_send
#define xcm_tp_socket_receive m_tp_receive
#define xcm_tp_socket_finish m_tp_finish
#define xcm_tp_socket_update m_tp_update
#define xcm_tp_socket_is_bytestream m_tp_is_bytestream
#define poll m_poll
#define xpoll_get_fd m_xpoll_get_fd

#include "xcm.c"

#undef xcm_tp_socket_send
#undef xcm_tp_socket_receive
#undef xcm_tp_socket_finish
#undef xcm_tp_socket_update
#undef xcm_tp_socket_is_bytestream
#undef poll
#undef xpoll_get_fd

#define MAXANS 64
static int ans_ok[MAXANS]; static long ans_v[MAXANS]; static int n_ans, used_ans;
static char trace[8192]; static size_t trace_len;
static bool bytestream;
static const uint8_t *send_base; static size_t send_len;
static int pending_cond;
static int oob;      /* a transport call was handed memory outside the application's buffer */

static void tr(const char *fmt, ...)
{
    va_list ap; va_start(ap, fmt);
    if (trace_len) trace[trace_len++] = ' ';
    trace_len += vsnprintf(trace + trace_len, sizeof(trace) - trace_len - 1, fmt, ap);
    va_end(ap);
}

/* next answer: 1 ok(v) / 0 err(v); an exhausted script answers ok */
static int next_ans(long *v)
{
    if (used_ans >= n_ans) { *v = 1000000000; return 1; }
    *v = ans_v[used_ans];
    return ans_ok[used_ans++];
}

static int m_tp_send(struct xcm_socket *s, const void *buf, size_t len)
{
    size_t off = (const uint8_t *)buf - send_base;
    tr("S(%zu,%zu)", off, len);
    if ((const uint8_t *)buf < send_base || off + len > send_len) oob = 1;
    long v;
    if (!next_ans(&v)) { errno = (int)v; return -1; }
    if (!bytestream) return 0;
    if (len == 0) return 0;
    long k = v; if (k > (long)len) k = (long)len; if (k < 1) k = 1;
    return (int)k;
}

static int m_tp_receive(struct xcm_socket *s, void *buf, size_t cap)
{
    tr("R(%zu)", cap);
    long v;
    if (!next_ans(&v)) { errno = (int)v; return -1; }
    long k = v < (long)cap ? v : (long)cap;
    memset(buf, 0x33, k);
    return (int)k;
}

static int m_tp_finish(struct xcm_socket *s)
{
    tr("F");
    long v;
    if (!next_ans(&v)) { errno = (int)v; return -1; }
    return 0;
}

static void m_tp_update(struct xcm_socket *s) { pending_cond = s->condition; }
static bool m_tp_is_bytestream(struct xcm_socket *s) { return bytestream; }

static int m_poll(struct pollfd *fds, nfds_t n, int timeout)
{
    tr("W(%d)", pending_cond);
    if (timeout == 0) tr("!poll-timeout-0");
    long v;
    if (!next_ans(&v)) { errno = (int)v; return -1; }
    fds[0].revents = POLLIN;
    return 1;
}

static void parse_script(const char *w)
{
    n_ans = used_ans = 0;
    if (!strcmp(w, "-")) return;
    char *dup = strdup(w), *save = NULL;
    for (char *t = strtok_r(dup, ",", &save); t && n_ans < MAXANS; t = strtok_r(NULL, ",", &save)) {
	if (t[0] == 'E') { ans_ok[n_ans] = 0; ans_v[n_ans++] = h_errnum(t); }
	else { ans_ok[n_ans] = 1; ans_v[n_ans++] = atol(t); }
    }
    free(dup);
}

static struct xcm_socket sock;

static void out(FILE *o, int rc, int e)
{
    if (rc < 0) fprintf(o, "-1 %s | ", h_errname(e)); else fprintf(o, "%d | ", rc);
    fputs(trace_len ? trace : "-", o);
}

int main(void)
{
    static char line[H_LINE_MAX];
    char *w[H_MAXW];
    FILE *o = stdout;
    sock.type = xcm_socket_type_conn; sock.is_blocking = true;
    while (fgets(line, sizeof(line), stdin)) {
	int n = h_words(line, w);
	if (n == 0 || w[0][0] == '#') continue;
	trace_len = 0; trace[0] = 0; oob = 0;
	if (!strcmp(w[0], "N") && n == 3) {
	    memset(&sock, 0, sizeof(sock));
	    sock.type = xcm_socket_type_conn;
	    sock.is_blocking = atoi(w[1]);
	    bytestream = atoi(w[2]);
	    fputs("ok\n", o);
	} else if (!strcmp(w[0], "S") && n == 3) {
	    size_t len = strtoul(w[1], NULL, 10);
	    uint8_t *buf = malloc(len ? len : 1);
	    send_base = buf; send_len = len;
	    parse_script(w[2]);
	    errno = 0;
	    int rc = xcm_send(&sock, buf, len);
	    int e = errno;
	    out(o, rc, e);
	    if (oob) fputs(" !transport-handed-memory-outside-the-buffer", o);
	    fputc('\n', o);
	    free(buf);
	} else if (!strcmp(w[0], "R") && n == 3) {
	    size_t cap = strtoul(w[1], NULL, 10);
	    uint8_t *buf = malloc(cap ? cap : 1);
	    parse_script(w[2]);
	    errno = 0;
	    int rc = xcm_receive(&sock, buf, cap);
	    int e = errno;
	    out(o, rc, e); fputc('\n', o);
	    free(buf);
	} else if (!strcmp(w[0], "F") && n == 2) {
	    parse_script(w[1]);
	    errno = 0;
	    int rc = xcm_finish(&sock);
	    int e = errno;
	    out(o, rc, e); fputc('\n', o);
	} else if (!strcmp(w[0], "A") && n == 2) {
	    errno = 0;
	    pending_cond = -1;
	    int rc = xcm_await(&sock, atoi(w[1]));
	    int e = errno;
	    if (rc == 0) tr("U(%d)", pending_cond);
	    out(o, rc, e); fputc('\n', o);
	} else if (!strcmp(w[0], "B") && n == 3) {
	    parse_script(w[2]);
	    errno = 0;
	    int rc = xcm_set_blocking(&sock, atoi(w[1]));
	    int e = errno;
	    out(o, rc, e);
	    fprintf(o, " | blocking=%d\n", sock.is_blocking);
	} else
	    fputs("bad-op\n", o);
	fflush(o);
    }
    return 0;
}
