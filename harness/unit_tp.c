/* Correspondence harness for the dispatch layer libxcm/tp/common/xcm_tp.c: the REAL file is #included; the transport
   below is a scripted table of operations that logs every call, the control interface is a logging stub. */
#include "hutil.h"

struct ctl;
static void m_ctl_process(struct ctl *c);
static struct ctl *m_ctl_create(void *s);
static void m_ctl_destroy(struct ctl *c, bool owner);
#define ctl_process m_ctl_process
#define ctl_create(s) m_ctl_create(s)
#define ctl_destroy m_ctl_destroy
#include "xcm_tp.c"
#undef ctl_process
#undef ctl_create
#undef ctl_destroy

static char logbuf[4096];
static void lg(const char *w) { if (logbuf[0]) strcat(logbuf, " "); strcat(logbuf, w); }
static void m_ctl_process(struct ctl *c) { lg("ctl"); }
static struct ctl *m_ctl_create(void *s) { lg("ctl_create"); return (struct ctl *)0x10; }
static void m_ctl_destroy(struct ctl *c, bool owner) { }

static int next_rc, next_errno;
static int answer(void) { if (next_rc < 0) errno = next_errno; return next_rc; }
static int o_init(struct xcm_socket *s, struct xcm_socket *p) { lg("init"); return 0; }
static int o_connect(struct xcm_socket *s, const char *a) { lg("connect"); return answer(); }
static int o_server(struct xcm_socket *s, const char *a) { lg("server"); return answer(); }
static void o_close(struct xcm_socket *s) { lg("close"); }
static void o_cleanup(struct xcm_socket *s) { lg("cleanup"); }
static int o_accept(struct xcm_socket *c, struct xcm_socket *s) { lg("accept"); return answer(); }
static int o_send(struct xcm_socket *s, const void *b, size_t l) { lg("send"); return answer(); }
static int o_receive(struct xcm_socket *s, void *b, size_t c) { lg("receive"); return answer(); }
static void o_update(struct xcm_socket *s) { lg(s->type == xcm_socket_type_server ? "update_server" : "update"); }
static int o_finish(struct xcm_socket *s) { lg("finish"); return answer(); }
static size_t o_priv(enum xcm_socket_type t) { return 16; }
static size_t o_max_msg(struct xcm_socket *s) { return 65535; }

static struct xcm_tp_ops ops = { .init = o_init, .connect = o_connect, .server = o_server, .close = o_close, .cleanup = o_cleanup,
    .accept = o_accept, .send = o_send, .receive = o_receive, .update = o_update, .finish = o_finish, .priv_size = o_priv, .max_msg = o_max_msg };
static struct xcm_tp_proto proto = { "mock", &ops };

/* "<rc>" or "E<ERRNO>" */
static void set_answer(const char *w)
{
    if (w[0] == 'E') { next_rc = -1; next_errno = h_errnum(w + 1); } else { next_rc = atoi(w); next_errno = 0; }
}

int main(void)
{
    static char line[H_LINE_MAX];
    char *w[H_MAXW];
    FILE *o = stdout;
    struct xcm_socket *s = NULL, *srv = NULL;
    while (fgets(line, sizeof(line), stdin)) {
	int n = h_words(line, w);
	if (n == 0 || w[0][0] == '#') continue;
	logbuf[0] = 0;
	int rc = 0;
	if (!strcmp(w[0], "N") && n == 3) {
	    /* N <auto_update 0|1> <auto_enable_ctl 0|1>: a fresh connection socket and a fresh server socket */
	    free(s); free(srv);
	    s = xcm_tp_socket_create(&proto, xcm_socket_type_conn, NULL, atoi(w[2]), atoi(w[1]), false);
	    srv = xcm_tp_socket_create(&proto, xcm_socket_type_server, NULL, atoi(w[2]), atoi(w[1]), false);
	} else if (s == NULL) { fputs("bad-op\n", o); fflush(o); continue; }
	else if (!strcmp(w[0], "C") && n == 2) { set_answer(w[1]); rc = xcm_tp_socket_connect(s, "x"); }
	else if (!strcmp(w[0], "V") && n == 2) { set_answer(w[1]); rc = xcm_tp_socket_server(srv, "x"); }
	else if (!strcmp(w[0], "A") && n == 2) { set_answer(w[1]); rc = xcm_tp_socket_accept(s, srv); }
	else if (!strcmp(w[0], "S") && n == 2) { set_answer(w[1]); rc = xcm_tp_socket_send(s, "ab", 2); }
	else if (!strcmp(w[0], "R") && n == 2) { set_answer(w[1]); char b[8]; rc = xcm_tp_socket_receive(s, b, sizeof(b)); }
	else if (!strcmp(w[0], "F") && n == 2) { set_answer(w[1]); rc = xcm_tp_socket_finish(s); }
	else if (!strcmp(w[0], "U") && n == 1) { xcm_tp_socket_update(s); }
	else { fputs("bad-op\n", o); fflush(o); continue; }
	fprintf(o, "rc=%d | %s | skipped=%llu,%llu ctl=%d,%d\n", rc, logbuf[0] ? logbuf : "-",
		(unsigned long long)s->skipped_ctl_calls, (unsigned long long)srv->skipped_ctl_calls, s->ctl != NULL, srv->ctl != NULL);
	fflush(o);
    }
    return 0;
}
