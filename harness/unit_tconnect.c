/* Correspondence harness for libxcm/tp/tcp/tconnect.c (multi-address connect: single, sequential,
   happy eyeballs).  The REAL file is #included; socket(), bind(), connect(), ut_established(),
   tcp_opts_effectuate(), the timer manager and xpoll registrations are a scripted environment.
   bind() follows the kernel: a socket that was explicitly bound cannot be bound again (EINVAL). */
#include "hutil.h"
#include <arpa/inet.h>
#include <netinet/in.h>
#include <sys/epoll.h>

static int m_socket(int family, int type, int proto);
static int m_bind(int fd, const struct sockaddr *a, socklen_t l);
static int m_connect(int fd, const struct sockaddr *a, socklen_t l);
static int m_established(int fd);
static int m_effectuate(const struct tcp_opts *o, int fd);
static struct timer_mgr *m_tm_create(struct xpoll *x, void *l);
static int64_t m_tm_schedule(struct timer_mgr *m, double t);
static bool m_tm_expired(struct timer_mgr *m, int64_t id);
static void m_tm_cancel(struct timer_mgr *m, int64_t *id);
static void m_tm_ack(struct timer_mgr *m, int64_t *id);
static void m_tm_destroy(struct timer_mgr *m, bool owner);
static int m_reg_add(struct xpoll *x, int fd, int ev);
static void m_reg_del(struct xpoll *x, int id);
static void m_reg_del_if_valid(struct xpoll *x, int id);
static void m_close(int fd);

#define socket m_socket
#define bind m_bind
#define connect m_connect
#define ut_established m_established
#define tcp_opts_effectuate m_effectuate
#define timer_mgr_create m_tm_create
#define timer_mgr_schedule m_tm_schedule
#define timer_mgr_has_expired m_tm_expired
#define timer_mgr_cancel m_tm_cancel
#define timer_mgr_ack m_tm_ack
#define timer_mgr_destroy m_tm_destroy
#define xpoll_fd_reg_add m_reg_add
#define xpoll_fd_reg_del m_reg_del
#define xpoll_fd_reg_del_if_valid m_reg_del_if_valid
#define ut_close_if_valid m_close

#include "tconnect.c"

#undef socket
#undef bind
#undef connect
#undef ut_established
#undef tcp_opts_effectuate
#undef timer_mgr_create
#undef timer_mgr_schedule
#undef timer_mgr_has_expired
#undef timer_mgr_cancel
#undef timer_mgr_ack
#undef timer_mgr_destroy
#undef xpoll_fd_reg_add
#undef xpoll_fd_reg_del
#undef xpoll_fd_reg_del_if_valid
#undef ut_close_if_valid

#define FD4 104
#define FD6 106
#define MAXTOK 64
static char toks[MAXTOK][24]; static int n_tok, used_tok;
static char trace[8192]; static size_t trace_len;
static bool bound4, bound6;
static int regs;               /* live xpoll registrations of connecting fds */
static int64_t next_timer = 1;
static int live_timers;

static void tr(const char *fmt, ...)
{
    va_list ap; va_start(ap, fmt);
    if (trace_len) trace[trace_len++] = ' ';
    trace_len += vsnprintf(trace + trace_len, sizeof(trace) - trace_len - 1, fmt, ap);
    va_end(ap);
}
static const char *next_tok(void) { return used_tok < n_tok ? toks[used_tok++] : "-"; }

static int m_socket(int family, int type, int proto) { return family == AF_INET ? FD4 : FD6; }
static void m_close(int fd) { }
/* the options as they were when tconnect_connect() was called: tconnect works on a snapshot (xcm_tp_btcp.c re-applies
   what the user set later itself, by comparing with the snapshot it gets back); the caller's own structure keeps changing */
static const struct tcp_opts SNAP = { .keepalive = true, .keepalive_time = 77, .keepalive_interval = 5, .keepalive_count = 9, .user_timeout = 31 };
static struct tcp_opts live_opts;          /* like btcp's per-socket options: live, user-writable */
static bool is_snap(const struct tcp_opts *o)
{
    return o->keepalive == SNAP.keepalive && o->keepalive_time == SNAP.keepalive_time && o->keepalive_interval == SNAP.keepalive_interval &&
	o->keepalive_count == SNAP.keepalive_count && o->user_timeout == SNAP.user_timeout;
}
static int m_effectuate(const struct tcp_opts *o, int fd)
{
    const char *t = next_tok();
    const char *q = is_snap(o) ? "" : "!not-the-snapshot";
    if (t[0] == 'E') { tr("Ef(%d)=%s%s", fd == FD4 ? 4 : 6, t, q); errno = h_errnum(t + 1); return -1; }
    tr("Ef(%d)%s", fd == FD4 ? 4 : 6, q);
    return 0;
}
static int addr_idx(const struct sockaddr *a)
{
    if (a->sa_family == AF_INET) return ntohl(((const struct sockaddr_in *)a)->sin_addr.s_addr) & 0xff;
    if (a->sa_family == AF_INET6) return ((const struct sockaddr_in6 *)a)->sin6_addr.s6_addr[15];
    return -1;
}
static int m_bind(int fd, const struct sockaddr *a, socklen_t l)
{
    bool *b = fd == FD4 ? &bound4 : &bound6;
    if (*b) { tr("B(%d)=EINVAL", fd == FD4 ? 4 : 6); errno = EINVAL; return -1; }
    *b = true;
    tr("B(%d)", fd == FD4 ? 4 : 6);
    return 0;
}
static int m_connect(int fd, const struct sockaddr *a, socklen_t l)
{
    if (a->sa_family == AF_UNSPEC) { tr("A(%d)", fd == FD4 ? 4 : 6); return 0; }
    const char *t = next_tok();
    if (!strcmp(t, "ok")) { tr("C(%d)=ok", addr_idx(a)); return 0; }
    if (t[0] == 'E') { tr("C(%d)=%s", addr_idx(a), t); errno = h_errnum(t + 1); return -1; }
    tr("C(%d)=ip", addr_idx(a));
    errno = EINPROGRESS;
    return -1;
}
static int m_established(int fd)
{
    const char *t = next_tok();
    if (!strcmp(t, "ok")) { tr("G(%d)=ok", fd == FD4 ? 4 : 6); return 0; }
    if (t[0] == 'E') { tr("G(%d)=%s", fd == FD4 ? 4 : 6, t); errno = h_errnum(t + 1); return -1; }
    tr("G(%d)=ip", fd == FD4 ? 4 : 6);
    errno = EINPROGRESS;
    return -1;
}
static struct timer_mgr *m_tm_create(struct xpoll *x, void *l) { return (struct timer_mgr *)0x30; }
static int64_t m_tm_schedule(struct timer_mgr *m, double t) { live_timers++; tr("T+"); return next_timer++; }
static bool m_tm_expired(struct timer_mgr *m, int64_t id)
{
    const char *t = next_tok();
    bool x = !strcmp(t, "x");
    tr(x ? "T?x" : "T?");
    return x;
}
static void m_tm_cancel(struct timer_mgr *m, int64_t *id) { if (*id >= 0) { live_timers--; tr("T-"); } *id = -1; }
static void m_tm_ack(struct timer_mgr *m, int64_t *id) { if (*id >= 0) { live_timers--; tr("Tack"); } *id = -1; }
static void m_tm_destroy(struct timer_mgr *m, bool owner) { }
static int m_reg_add(struct xpoll *x, int fd, int ev) { regs++; tr("R+(%d,%d)", fd == FD4 ? 4 : 6, ev); return 40 + fd; }
static void m_reg_del(struct xpoll *x, int id) { regs--; tr("R-"); }
static void m_reg_del_if_valid(struct xpoll *x, int id) { if (id >= 0) m_reg_del(x, id); }

static void parse_script(const char *w)
{
    n_tok = used_tok = 0;
    if (!strcmp(w, "-")) return;
    char *dup = strdup(w), *save = NULL;
    for (char *t = strtok_r(dup, ",", &save); t && n_tok < MAXTOK; t = strtok_r(NULL, ",", &save))
	snprintf(toks[n_tok++], sizeof(toks[0]), "%s", t);
    free(dup);
}

static struct tconnect *tc;
static struct xcm_addr_ip ips[64]; static int n_ips;

/* like begin_connect() of xcm_tp_btcp.c: the local address lives in this function's stack frame */
static int __attribute__((noinline)) do_connect(enum tconnect_algorithm alg, bool with_local, int lport, int64_t scope)
{
    struct xcm_addr_ip local_ip_data;
    struct xcm_addr_ip *local_ip = NULL;
    if (with_local) {
	local_ip_data.family = AF_INET;
	local_ip_data.addr.ip4 = htonl(0x7f000009);
	local_ip = &local_ip_data;
    }
    live_opts = SNAP;
    int rc = tconnect_connect(tc, local_ip, (uint16_t)lport, scope, 3.0, &live_opts, ips, n_ips, 4711);
    int e = errno;
    /* the user changes options while the connection is being established */
    live_opts.keepalive = false; live_opts.keepalive_time = 1234; live_opts.keepalive_interval = 56; live_opts.keepalive_count = 3; live_opts.user_timeout = 99;
    errno = e;
    return rc;
}

/* overwrite the dead stack frame of do_connect(), as later calls of the application would */
static void __attribute__((noinline)) scribble(void)
{
    volatile char junk[512];
    for (size_t i = 0; i < sizeof(junk); i++) junk[i] = (char)0xEE;
}

int main(void)
{
    static char line[H_LINE_MAX];
    char *w[H_MAXW];
    FILE *o = stdout;
    while (fgets(line, sizeof(line), stdin)) {
	int n = h_words(line, w);
	if (n == 0 || w[0][0] == '#') continue;
	trace_len = 0; trace[0] = 0;
	if (!strcmp(w[0], "N") && n == 6) {
	    /* N <single|sequential|happy_eyeballs> <families e.g. 4,6,4> <local 0|1> <local port> <script> */
	    if (tc) tconnect_destroy(tc, true);
	    bound4 = bound6 = false; regs = 0; live_timers = 0; trace_len = 0; trace[0] = 0;
	    enum tconnect_algorithm alg = tconnect_algorithm_enum(w[1]);
	    tc = tconnect_create(alg, (struct xpoll *)0x10, NULL);
	    n_ips = 0;
	    char *dup = strdup(w[2]), *save = NULL;
	    for (char *t = strtok_r(dup, ",", &save); t && n_ips < 60; t = strtok_r(NULL, ",", &save)) {
		memset(&ips[n_ips], 0, sizeof(ips[0]));
		if (t[0] == '4') { ips[n_ips].family = AF_INET; ips[n_ips].addr.ip4 = htonl(0x0a000000 | n_ips); }
		else { ips[n_ips].family = AF_INET6; ips[n_ips].addr.ip6[0] = 0xfd; ips[n_ips].addr.ip6[15] = (uint8_t)n_ips; }
		n_ips++;
	    }
	    free(dup);
	    parse_script(w[5]);
	    errno = 0;
	    int rc = do_connect(alg, atoi(w[3]), atoi(w[4]), -1);
	    int e = errno;
	    scribble();
	    if (rc < 0) fprintf(o, "-1 %s | %s\n", h_errname(e), trace_len ? trace : "-");
	    else fprintf(o, "0 | %s | regs=%d timers=%d\n", trace_len ? trace : "-", regs, live_timers);
	} else if (!strcmp(w[0], "P") && n == 2) {
	    parse_script(w[1]);
	    int fd = -1; int64_t scope = -7; struct tcp_opts opts;
	    errno = 0;
	    int rc = tconnect_get_connected_fd(tc, &fd, &scope, &opts);
	    int e = errno;
	    if (rc < 0) fprintf(o, "-1 %s | %s | regs=%d timers=%d\n", h_errname(e), trace_len ? trace : "-", regs, live_timers);
	    else fprintf(o, "0 fd=%d%s | %s | regs=%d timers=%d\n", fd == FD4 ? 4 : 6, is_snap(&opts) ? "" : "!not-the-snapshot", trace_len ? trace : "-", regs, live_timers);
	} else
	    fputs("bad-op\n", o);
	fflush(o);
    }
    return 0;
}
