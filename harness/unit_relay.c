/* Correspondence harness for tools/xcmrelay/xrelay.c: the REAL file is #included; the XCM sockets and libevent are a
   scripted environment.  Each op delivers one fd event to one of the two forwarders of a relay. */
#include "hutil.h"
#include <stdarg.h>
#include <event.h>
#include <xcm.h>

static int m_send(struct xcm_socket *s, const void *buf, size_t len);
static int m_receive(struct xcm_socket *s, void *buf, size_t cap);
static int m_finish(struct xcm_socket *s);
static int m_await(struct xcm_socket *s, int cond);
static int m_fd(struct xcm_socket *s);
static int m_close(struct xcm_socket *s);
static int m_set_blocking(struct xcm_socket *s, bool b) { return 0; }
#define xcm_send m_send
#define xcm_receive m_receive
#define xcm_finish m_finish
#define xcm_await m_await
#define xcm_fd m_fd
#define xcm_close m_close
#define xcm_set_blocking m_set_blocking
#undef event_assign
#define event_assign(ev, base, fd, what, cb, arg) 0
#undef event_add
#define event_add(ev, tv) 0
#undef event_del
#define event_del(ev) 0
#include "xrelay.c"
#undef xcm_send
#undef xcm_receive
#undef xcm_finish
#undef xcm_await
#undef xcm_fd
#undef xcm_close
#undef xcm_set_blocking

/* the two connections are the small integers 1 and 2 disguised as pointers */
#define CONN(i) ((struct xcm_socket *)(uintptr_t)(i))
static int idx(struct xcm_socket *s) { return (int)(uintptr_t)s; }
static char logbuf[8192];
static void lg(const char *fmt, ...) { va_list ap; va_start(ap, fmt); size_t l = strlen(logbuf); if (l) logbuf[l++] = ' '; vsnprintf(logbuf + l, sizeof(logbuf) - l, fmt, ap); va_end(ap); }

static int cond[3];
/* the scripted answer for the single XCM call an event triggers */
static int a_kind; static long a_n; static int a_errno; static uint8_t *a_data; static size_t a_len; static bool bytestream;
static char next_answer[H_LINE_MAX]; static int calls_made;
static void parse_answer(const char *w);
/* the second XCM call of one event (the drain attempt right after an end of stream) gets the second answer */
static void next_call(void) { if (calls_made++ == 1) parse_answer(next_answer); }
static int m_send(struct xcm_socket *s, const void *buf, size_t len)
{
    next_call();
    { char b[256]; FILE *m = fmemopen(b, sizeof(b), "w"); h_showbytes(m, buf, len); fclose(m); lg("send(%d,%s)", idx(s), b); }
    if (a_kind == 0 && !a_data) { if (!bytestream) return 0; long k = a_n; if (k > (long)len) k = len; if (k < 1) k = 1; return (int)k; }
    if (a_kind != 1) { errno = EAGAIN; return -1; }      /* an answer that xcm_send cannot give: nothing happens */
    errno = a_errno; return -1;
}
static int m_receive(struct xcm_socket *s, void *buf, size_t cap)
{
    next_call();
    lg("receive(%d)", idx(s));
    if (a_kind == 0 && a_data) { size_t n = a_len < cap ? a_len : cap; memcpy(buf, a_data, n); return (int)n; }
    if (a_kind == 0) { errno = EAGAIN; return -1; }         /* not an answer of xcm_receive: nothing happens */
    if (a_kind == 2) return 0;
    errno = a_errno; return -1;
}
static int m_finish(struct xcm_socket *s) { next_call(); lg("finish(%d)", idx(s)); if (a_kind != 1) return 0; errno = a_errno; return -1; }
static int m_await(struct xcm_socket *s, int c) { cond[idx(s)] = c; return 0; }
static int m_fd(struct xcm_socket *s) { return 100 + idx(s); }
static int m_close(struct xcm_socket *s) { lg("close(%d)", idx(s)); return 0; }

static int term_reason = -99;
static void on_term(struct xrelay *r, int reason, const char *msg, void *d) { term_reason = reason; lg("term(%d)", reason); }

/* "ok" | "ok:<n>" | "d:<hex>" | "eof" | "E<ERRNO>" */
static void parse_answer(const char *w)
{
    free(a_data); a_data = NULL; a_len = 0; a_n = 1000000; a_errno = 0;
    if (!strncmp(w, "ok", 2)) { a_kind = 0; if (w[2] == ':') a_n = atol(w + 3); }
    else if (!strncmp(w, "d:", 2)) { a_kind = 0; a_data = h_unhex(w + 2, &a_len); }
    else if (!strcmp(w, "eof")) a_kind = 2;
    else { a_kind = 1; a_errno = h_errnum(w + 1); }
}

int main(void)
{
    static char line[H_LINE_MAX];
    char *w[H_MAXW];
    FILE *o = stdout;
    struct xrelay *r = NULL;
    while (fgets(line, sizeof(line), stdin)) {
	int n = h_words(line, w);
	if (n == 0 || w[0][0] == '#') continue;
	logbuf[0] = 0;
	if (!strcmp(w[0], "N") && n == 2) {
	    /* N <bytestream 0|1>: a started relay between connection 1 and connection 2 */
	    bytestream = atoi(w[1]);
	    free(r); cond[1] = cond[2] = 0; term_reason = -99;
	    r = xrelay_create(CONN(1), CONN(2), on_term, NULL, NULL);
	    xrelay_start(r);
	    fprintf(o, "cond=%d,%d len=%d,%d drain=0\n", cond[1], cond[2], r->fwd0.data_len, r->fwd1.data_len);
	} else if (!strcmp(w[0], "E") && (n == 4 || n == 5) && r) {
	    /* E <forwarder 0|1> <conn 1|2> <answer>: the fd of that connection is active; the forwarder's callback runs */
	    struct xfwd *f = atoi(w[1]) ? &r->fwd1 : &r->fwd0;
	    if (term_reason != -99) { fputs("terminated\n", o); fflush(o); continue; }
	    parse_answer(w[3]); snprintf(next_answer, sizeof(next_answer), "%s", n == 5 ? w[4] : "ok"); calls_made = 0;
	    if (r->draining) {
		/* both forwarders are stopped: only the draining connection's fd is watched */
		if (atoi(w[2]) == idx(r->drain_conn)) xrelay_drain_active(100 + atoi(w[2]), 0, r);
	    } else
		xfwd_active(100 + atoi(w[2]), 0, f);
	    fprintf(o, "%s | cond=%d,%d len=%d,%d drain=%d\n", logbuf[0] ? logbuf : "-", cond[1], cond[2], r->fwd0.data_len, r->fwd1.data_len,
		    r->draining ? idx(r->drain_conn) : 0);
	} else fputs("bad-op\n", o);
	fflush(o);
    }
    return 0;
}
