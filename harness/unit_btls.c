/* Correspondence harness for the TLS connection machine of xcm_tp_btls.c.  The REAL file is #included;
   OpenSSL's SSL_connect/SSL_accept/SSL_write/SSL_read/SSL_get_error/SSL_has_pending, the peer certificate
   verdict, the btcp socket below and xpoll bells are a scripted environment. */
#include "hutil.h"
#include <openssl/ssl.h>
#include <openssl/err.h>

static int m_handshake(SSL *ssl);
static int m_write(SSL *ssl, const void *buf, int len);
static int m_read(SSL *ssl, void *buf, int cap);
static int m_get_error(const SSL *ssl, int rc);
static int m_has_pending(const SSL *ssl);
static X509 *m_peer_cert(const SSL *ssl);
static long m_verify_result(const SSL *ssl);
static unsigned long m_peek_error(void);
static void m_x509_free(X509 *x);
static int m_lower_finish(struct xcm_socket *s);
static void m_lower_update(struct xcm_socket *s);
static void m_bell_mod(struct xpoll *x, int reg, bool ringing);
static void m_register(const char *name, const struct xcm_tp_ops *ops) { (void)name; (void)ops; }
static void m_noop(void) { }

#define SSL_connect m_handshake
#define SSL_accept m_handshake
#define SSL_write m_write
#define SSL_read m_read
#define SSL_get_error m_get_error
#define SSL_has_pending m_has_pending
#undef SSL_get_peer_certificate
#define SSL_get_peer_certificate m_peer_cert
#define SSL_get1_peer_certificate m_peer_cert
#define SSL_get_verify_result m_verify_result
#define ERR_peek_error m_peek_error
#define X509_free m_x509_free
#define xcm_tp_socket_finish m_lower_finish
#define xcm_tp_socket_update m_lower_update
#define xpoll_bell_reg_mod m_bell_mod
#define xcm_tp_register m_register
#define ctx_store_init m_noop

#include "xcm_tp_btls.c"

#undef SSL_connect
#undef SSL_accept
#undef SSL_write
#undef SSL_read
#undef SSL_get_error
#undef SSL_has_pending
#undef SSL_get_peer_certificate
#undef SSL_get1_peer_certificate
#undef SSL_get_verify_result
#undef ERR_peek_error
#undef X509_free
#undef xcm_tp_socket_finish
#undef xcm_tp_socket_update
#undef xpoll_bell_reg_mod
#undef xcm_tp_register
#undef ctx_store_init

/* ---- scripted OpenSSL ----------------------------------------------------------------------- */
/* one answer for the handshake call, one for the data call */
struct ans { int kind; long v; int errno_; int queued; uint8_t *data; size_t dlen; };
/* kinds: 0 ok/done, 1 wantRead, 2 wantWrite, 3 zeroReturn, 4 sslErr, 5 syscall, 6 zero(write returned 0) */
static struct ans hs, io;
static struct ans wq[8]; static int n_wq, used_wq;   /* one answer per SSL_write call of an operation; exhausted = all accepted */
static int cert;                 /* 0 none, 1 ok, 2 rejected */
static int last_kind, last_errno, last_queued;
static int has_pending;
static int lower_finish_err;
static int bell = -1, lower_updates, ssl_write_calls, ssl_read_calls, hs_calls;
static struct xcm_socket *lower;
static uint8_t *wr; static size_t wr_len;

static int answer_event(struct ans *a)
{
    last_kind = a->kind; last_errno = a->errno_; last_queued = a->queued;
    errno = a->errno_;
    return a->kind == 6 ? 0 : -1;
}
static int m_handshake(SSL *ssl) { hs_calls++; if (hs.kind == 0) return 1; return answer_event(&hs); }
static int m_write(SSL *ssl, const void *buf, int len)
{
    ssl_write_calls++;
    struct ans dflt = { .kind = 0, .v = 1000000000 };
    struct ans *a = used_wq < n_wq ? &wq[used_wq++] : &dflt;
    if (a->kind == 0) {
	long k = a->v; if (k > len) k = len; if (k < 1) k = 1;
	wr = realloc(wr, wr_len + k); memcpy(wr + wr_len, buf, k); wr_len += k;
	return (int)k;
    }
    return answer_event(a);
}
static int m_read(SSL *ssl, void *buf, int cap)
{
    ssl_read_calls++;
    if (io.kind == 0) { size_t n = io.dlen < (size_t)cap ? io.dlen : (size_t)cap; memcpy(buf, io.data, n); return (int)n; }
    return answer_event(&io);
}
static int m_get_error(const SSL *ssl, int rc)
{
    switch (last_kind) {
    case 1: return SSL_ERROR_WANT_READ;
    case 2: return SSL_ERROR_WANT_WRITE;
    case 3: return SSL_ERROR_ZERO_RETURN;
    case 4: return SSL_ERROR_SSL;
    case 5: return SSL_ERROR_SYSCALL;
    default: return SSL_ERROR_SSL;
    }
}
static int m_has_pending(const SSL *ssl) { return has_pending; }
static X509 *m_peer_cert(const SSL *ssl) { return cert == 0 ? NULL : (X509 *)0x60; }
static long m_verify_result(const SSL *ssl) { return cert == 1 ? X509_V_OK : X509_V_ERR_CERT_HAS_EXPIRED; }
static unsigned long m_peek_error(void) { return last_queued ? 1 : 0; }
static void m_x509_free(X509 *x) { }
static int m_lower_finish(struct xcm_socket *s) { if (lower_finish_err) { errno = lower_finish_err; return -1; } return 0; }
static void m_lower_update(struct xcm_socket *s) { lower_updates++; }
static void m_bell_mod(struct xpoll *x, int reg, bool ringing) { bell = ringing; }

/* "ok" | "ok:<n>" | "wr" | "ww" | "zr" | "se" | "sc:<ERRNO>:<queued>" | "z0" | "d:<hex>" */
static void parse_ans(struct ans *a, const char *w)
{
    free(a->data); memset(a, 0, sizeof(*a));
    if (!strncmp(w, "ok", 2)) { a->kind = 0; a->v = w[2] == ':' ? atol(w + 3) : 1000000000; }
    else if (!strcmp(w, "wr")) a->kind = 1;
    else if (!strcmp(w, "ww")) a->kind = 2;
    else if (!strcmp(w, "zr")) a->kind = 3;
    else if (!strcmp(w, "se")) a->kind = 4;
    else if (!strncmp(w, "sc:", 3)) {
	a->kind = 5;
	char *dup = strdup(w + 3); char *c = strchr(dup, ':');
	if (c) { *c = 0; a->queued = atoi(c + 1); }
	a->errno_ = !strcmp(dup, "0") ? 0 : h_errnum(dup);
	free(dup);
    } else if (!strcmp(w, "z0")) a->kind = 6;
    else if (!strncmp(w, "d:", 2)) { a->kind = 0; a->data = h_unhex(w + 2, &a->dlen); }
}

static struct xcm_socket *sock;
static struct xcm_tp_proto proto = { "btls", (struct xcm_tp_ops *)&btls_ops };

static const char *state_str(void)
{
    struct btls_socket *b = TOBTLS(sock);
    static char buf[64];
    switch (b->conn.state) {
    case conn_state_tls_handshaking: return "handshaking";
    case conn_state_ready: return "ready";
    case conn_state_closed: return "closed";
    case conn_state_bad: snprintf(buf, sizeof(buf), "bad:%s", h_errname(b->conn.badness_reason)); return buf;
    default: return "?";
    }
}

static void render(FILE *o, int rc, int e, const uint8_t *payload, size_t plen)
{
    struct btls_socket *b = TOBTLS(sock);
    if (rc < 0) fprintf(o, "-1 %s | -", h_errname(e));
    else if (payload) { fprintf(o, "%d | ", rc); h_showbytes(o, payload, plen); }
    else fprintf(o, "%d | -", rc);
    fputs(" |", o);
    for (int i = 0; i < XCM_TP_NUM_BYTESTREAM_CNTS; i++) fprintf(o, " %lld", (long long)btls_get_cnt(sock, (enum xcm_tp_cnt)i));
    fprintf(o, " | %s c=%d w=%d pend=%zu | hs=%d wr=%d rd=%d", state_str(), b->conn.ssl_condition, b->conn.ssl_wants, b->conn.pending_write_len, hs_calls, ssl_write_calls, ssl_read_calls);
    fputs(" tx+", o);
    if (wr_len) h_showbytes(o, wr, wr_len); else fputc('-', o);
    fputc('\n', o);
}

int main(void)
{
    static char line[H_LINE_MAX];
    char *w[H_MAXW];
    FILE *o = stdout;
    lower = calloc(1, sizeof(struct xcm_socket) + 4096);
    while (fgets(line, sizeof(line), stdin)) {
	int n = h_words(line, w);
	if (n == 0 || w[0][0] == '#') continue;
	hs_calls = ssl_write_calls = ssl_read_calls = 0; wr_len = 0; n_wq = used_wq = 0;
	if (!strcmp(w[0], "N") && n == 5) {
	    /* N <auth 0|1> <client 0|1> <cert none|ok|rejected> <hs>: a connection that has just entered the handshake */
	    if (sock) free(TOBTLS(sock)->conn.pending_write);
	    free(sock);
	    sock = calloc(1, sizeof(struct xcm_socket) + sizeof(struct btls_socket));
	    sock->proto = &proto; sock->type = xcm_socket_type_conn; sock->sock_id = 1;
	    struct btls_socket *b = TOBTLS(sock);
	    b->tls_auth = atoi(w[1]); b->tls_client = atoi(w[2]); b->check_time = true;
	    cert = !strcmp(w[3], "ok") ? 1 : !strcmp(w[3], "rejected") ? 2 : 0;
	    b->btcp_socket = lower; b->conn.ssl = (SSL *)0x50; b->conn.bell_reg_id = 2;
	    b->conn.state = conn_state_tls_handshaking;
	    /* as in the real code, entering the handshake is immediately followed by a first attempt */
	    parse_ans(&hs, w[4]);
	    try_finish_tls_handshake(sock);
	    fprintf(o, "%s c=%d w=%d\n", state_str(), b->conn.ssl_condition, b->conn.ssl_wants);
	} else if (!strcmp(w[0], "S") && n >= 3) {
	    /* S <hex> <hs> [<write answer> ...] */
	    size_t l; uint8_t *m = h_unhex(w[1], &l);
	    uint8_t *ex = malloc(l ? l : 1); memcpy(ex, m, l); free(m);
	    parse_ans(&hs, w[2]);
	    n_wq = used_wq = 0; for (int i = 3; i < n && n_wq < 8; i++) parse_ans(&wq[n_wq++], w[i]);
	    errno = 0;
	    int rc = btls_send(sock, ex, l); int e = errno;
	    free(ex);
	    render(o, rc, e, NULL, 0);
	} else if (!strcmp(w[0], "R") && n >= 4) {
	    /* R <capacity> <hs> <read answer> [<write answer> ...]: the write answers serve the flush of retained output */
	    size_t cap = strtoul(w[1], NULL, 10);
	    uint8_t *buf = malloc(cap ? cap : 1);
	    parse_ans(&hs, w[2]); parse_ans(&io, w[3]);
	    n_wq = used_wq = 0; for (int i = 4; i < n && n_wq < 8; i++) parse_ans(&wq[n_wq++], w[i]);
	    errno = 0;
	    int rc = btls_receive(sock, buf, cap); int e = errno;
	    render(o, rc, e, rc > 0 ? buf : NULL, rc > 0 ? (size_t)rc : 0);
	    free(buf);
	} else if (!strcmp(w[0], "F") && n >= 3) {
	    /* F <hs> <lower finish> [<write answer> ...] */
	    parse_ans(&hs, w[1]);
	    lower_finish_err = !strcmp(w[2], "ok") ? 0 : h_errnum(w[2]);
	    n_wq = used_wq = 0; for (int i = 3; i < n && n_wq < 8; i++) parse_ans(&wq[n_wq++], w[i]);
	    errno = 0;
	    int rc = btls_finish(sock); int e = errno;
	    render(o, rc, e, NULL, 0);
	} else if (!strcmp(w[0], "U") && n == 3) {
	    sock->condition = atoi(w[1]); has_pending = atoi(w[2]);
	    bell = -1; lower_updates = 0; lower->condition = -1;
	    btls_update(sock);
	    fprintf(o, "bell=%d lower=%d called=%d\n", bell, lower->condition, lower_updates);
	} else
	    fputs("bad-op\n", o);
	fflush(o);
    }
    return 0;
}
