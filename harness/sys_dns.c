/* System harness for C13: the whole library (btcp + tconnect + c-ares resolver) against a scripted DNS
   responder and raw listeners on distinct loopback addresses that accept, refuse (no listener) or
   ignore (full accept queue) connections. */
#include "sysutil.h"
#include <netinet/in.h>
#include <arpa/inet.h>
#include <sys/socket.h>
#include <time.h>

static double now(void) { struct timespec t; clock_gettime(CLOCK_MONOTONIC, &t); return t.tv_sec + t.tv_nsec / 1e9; }

#define MAXL 64
static int lfds[MAXL], fillfds[MAXL * 4], nl, nf;

static int listener(const char *ip, int port, int backlog, bool v6)
{
    int fd = socket(v6 ? AF_INET6 : AF_INET, SOCK_STREAM, 0);
    int one = 1; setsockopt(fd, SOL_SOCKET, SO_REUSEADDR, &one, sizeof(one));
    int rc;
    if (v6) { struct sockaddr_in6 sa = { .sin6_family = AF_INET6, .sin6_port = htons(port) }; inet_pton(AF_INET6, ip, &sa.sin6_addr); rc = bind(fd, (struct sockaddr *)&sa, sizeof(sa)); }
    else { struct sockaddr_in sa = { .sin_family = AF_INET, .sin_port = htons(port) }; inet_pton(AF_INET, ip, &sa.sin_addr); rc = bind(fd, (struct sockaddr *)&sa, sizeof(sa)); }
    if (rc < 0 || listen(fd, backlog) < 0) { close(fd); return -1; }
    return fd;
}

int main(void)
{
    static char line[H_LINE_MAX];
    char *w[H_MAXW];
    FILE *o = stdout;
    while (fgets(line, sizeof(line), stdin)) {
	int n = h_words(line, w);
	if (n == 0 || w[0][0] == '#') continue;
	if (!strcmp(w[0], "LISTEN") && n == 4) {
	    /* LISTEN <ip> <port> <accept|silent> */
	    bool v6 = strchr(w[1], ':') != NULL;
	    bool silent = !strcmp(w[3], "silent");
	    int fd = listener(w[1], atoi(w[2]), silent ? 0 : 16, v6);
	    if (fd < 0) { fprintf(o, "fail %s\n", h_errname(errno)); fflush(o); continue; }
	    lfds[nl++] = fd;
	    if (silent)
		for (int i = 0; i < 4; i++) {       /* fill the accept queue: further SYNs are dropped */
		    int c = socket(v6 ? AF_INET6 : AF_INET, SOCK_STREAM | SOCK_NONBLOCK, 0);
		    if (v6) { struct sockaddr_in6 sa = { .sin6_family = AF_INET6, .sin6_port = htons(atoi(w[2])) }; inet_pton(AF_INET6, w[1], &sa.sin6_addr); connect(c, (struct sockaddr *)&sa, sizeof(sa)); }
		    else { struct sockaddr_in sa = { .sin_family = AF_INET, .sin_port = htons(atoi(w[2])) }; inet_pton(AF_INET, w[1], &sa.sin_addr); connect(c, (struct sockaddr *)&sa, sizeof(sa)); }
		    fillfds[nf++] = c;
		}
	    usleep(10000);
	    fputs("ok\n", o);
	} else if (!strcmp(w[0], "RESET") && n == 1) {
	    for (int i = 0; i < nl; i++) close(lfds[i]);
	    for (int i = 0; i < nf; i++) close(fillfds[i]);
	    nl = nf = 0;
	    fputs("ok\n", o);
	} else if (!strcmp(w[0], "CON") && n == 7) {
	    /* CON <proto> <algorithm> <name> <port> <local addr|-> <tcp.connect_timeout> */
	    char addr[300]; snprintf(addr, sizeof(addr), "%s:%s:%s", w[1], w[3], w[4]);
	    struct xcm_attr_map *m = sys_base_attrs(w[1], true);
	    xcm_attr_map_add_str(m, "dns.algorithm", w[2]);
	    xcm_attr_map_add_double(m, "tcp.connect_timeout", atof(w[6]));
	    xcm_attr_map_add_double(m, "dns.timeout", 1.0);
	    if (sys_is_tls(w[1])) xcm_attr_map_add_bool(m, "tls.auth", false);
	    if (strcmp(w[5], "-")) xcm_attr_map_add_str(m, "xcm.local_addr", w[5]);
	    double t0 = now();
	    errno = 0;
	    struct xcm_socket *c = xcm_connect_a(addr, m);
	    int e = errno;
	    xcm_attr_map_destroy(m);
	    if (!c) { fprintf(o, "connect_a NULL %s t=%.2f\n", h_errname(e), now() - t0); fflush(o); continue; }
	    int rc = -1; e = EAGAIN; const char *by = "finish";
	    int k = 0;
	    while (now() - t0 < 20.0) {
		/* the outcome may be reported by finish, send or receive: rotate */
		char b[8];
		k++;
		if (k % 3 == 0) { rc = xcm_finish(c); by = "finish"; }
		else if (k % 3 == 1) { rc = xcm_receive(c, b, sizeof(b)); by = "receive"; if (rc >= 0) rc = 0; }
		else { rc = xcm_finish(c); by = "finish"; }
		e = errno;
		if (rc == 0 && !strcmp(by, "finish")) break;
		if (rc < 0 && e != EAGAIN) break;
		usleep(2000);
	    }
	    double dt = now() - t0;
	    if (rc == 0 || (rc < 0 && e == EAGAIN && xcm_finish(c) == 0)) {
		const char *ra = xcm_remote_addr(c), *la = xcm_local_addr(c);
		/* for TLS the TCP-level connection is what the algorithm selects: the handshake peer is a raw listener */
		fprintf(o, "connected remote=%s local=%s t=%.2f\n", ra ? ra : "?", la ? la : "?", dt);
	    } else
		fprintf(o, "failed %s by=%s t=%.2f remote=%s\n", h_errname(e), by, dt, xcm_remote_addr(c) ? xcm_remote_addr(c) : "-");
	    xcm_close(c);
	} else if (!strcmp(w[0], "SRV") && n == 2) {
	    double t0 = now();
	    errno = 0;
	    struct xcm_socket *s = xcm_server(w[1]);
	    int e = errno;
	    if (s) { fprintf(o, "server ok %s t=%.2f\n", xcm_local_addr(s), now() - t0); xcm_close(s); }
	    else fprintf(o, "server NULL %s t=%.2f\n", h_errname(e), now() - t0);
	} else
	    fputs("bad-op\n", o);
	fflush(o);
    }
    return 0;
}
