/* Correspondence harness for libxcm/core/xpoll.c and libxcm/tp/common/active_fd.c against the REAL
   kernel: real epoll instances and eventfds, pipes as user descriptors whose readability the script
   controls.  After every operation the registration tables and the readability of the epoll fd
   (poll with timeout 0) are printed. */
#include "hutil.h"
#include <poll.h>
#include <sys/epoll.h>
#include <sys/eventfd.h>
#include <unistd.h>
#include <fcntl.h>

#include "xpoll.c"
#include "active_fd.c"

#define NPIPES 8
static int pr[NPIPES], pw[NPIPES];
static struct xpoll *xp;

static const char *fdname(int fd)
{
    static char b[16];
    for (int i = 0; i < NPIPES; i++) if (pr[i] == fd) { snprintf(b, sizeof(b), "%d", i); return b; }
    return "A";
}

static void show(FILE *o)
{
    fputs(" | slots=", o);
    for (int i = 0; i < xp->fd_regs_capacity; i++) {
	if (i) fputc(',', o);
	if (xp->fd_regs[i].fd < 0) fputc('-', o); else fprintf(o, "%s:%d", fdname(xp->fd_regs[i].fd), xp->fd_regs[i].event);
    }
    fputs(" bells=", o);
    for (int i = 0; i < xp->bell_regs_capacity; i++) {
	if (i) fputc(',', o);
	if (xp->bell_regs[i].free) fputc('-', o); else fprintf(o, "%d", xp->bell_regs[i].ringing);
    }
    struct pollfd p = { .fd = xpoll_get_fd(xp), .events = POLLIN | POLLOUT | POLLPRI };
    int rc = poll(&p, 1, 0);
    fprintf(o, " active=%d readable=%d other=%d\n", xp->active_fd >= 0, rc > 0 && (p.revents & POLLIN) != 0,
	    rc > 0 && (p.revents & ~POLLIN) != 0);
}

/* pool test: descriptors by order of first appearance */
static int seen_fd[4096], n_seen;
static int got[4096], n_got;
static int seen_live[4096];
/* descriptors are numbered by creation: a kernel fd number that is reused after close is a new descriptor */
static void sync_live(void)
{
    for (int i = 0; i < n_seen; i++) {
	if (!seen_live[i]) continue;
	bool found = false;
	struct active_fd *a; LIST_FOREACH(a, &active_fds, elem) if (a->fd == seen_fd[i]) found = true;
	if (!found) seen_live[i] = 0;
    }
    struct active_fd *a;
    /* new entries are inserted at the head: number them oldest first */
    int newfds[64], nn = 0;
    LIST_FOREACH(a, &active_fds, elem) {
	bool known = false;
	for (int i = 0; i < n_seen; i++) if (seen_live[i] && seen_fd[i] == a->fd) known = true;
	if (!known && nn < 64) newfds[nn++] = a->fd;
    }
    for (int k = nn - 1; k >= 0; k--) { seen_fd[n_seen] = newfds[k]; seen_live[n_seen] = 1; n_seen++; }
}
static int fd_index(int fd)
{
    for (int i = n_seen - 1; i >= 0; i--) if (seen_live[i] && seen_fd[i] == fd) return i;
    return -1;
}

int main(void)
{
    static char line[H_LINE_MAX];
    char *w[H_MAXW];
    FILE *o = stdout;
    for (int i = 0; i < NPIPES; i++) { int p[2]; if (pipe2(p, O_NONBLOCK) < 0) return 2; pr[i] = p[0]; pw[i] = p[1]; }
    xp = xpoll_create(NULL);
    int epfd0 = xpoll_get_fd(xp);
    while (fgets(line, sizeof(line), stdin)) {
	int n = h_words(line, w);
	if (n == 0 || w[0][0] == '#') continue;
	if (!strcmp(w[0], "N") && n == 1) {
	    xpoll_destroy(xp);
	    for (int i = 0; i < NPIPES; i++) { char b[64]; while (read(pr[i], b, sizeof(b)) > 0); }
	    xp = xpoll_create(NULL); epfd0 = xpoll_get_fd(xp);
	    fputs("ok", o); show(o);
	} else if (!strcmp(w[0], "FA") && n == 3) { int id = xpoll_fd_reg_add(xp, pr[atoi(w[1])], atoi(w[2])); fprintf(o, "reg=%d", id); show(o); }
	else if (!strcmp(w[0], "FM") && n == 3) { xpoll_fd_reg_mod(xp, atoi(w[1]), atoi(w[2])); fputs("ok", o); show(o); }
	else if (!strcmp(w[0], "FD") && n == 2) { xpoll_fd_reg_del(xp, atoi(w[1])); fputs("ok", o); show(o); }
	else if (!strcmp(w[0], "BA") && n == 2) { int id = xpoll_bell_reg_add(xp, atoi(w[1])); fprintf(o, "reg=%d", id); show(o); }
	else if (!strcmp(w[0], "BM") && n == 3) { xpoll_bell_reg_mod(xp, atoi(w[1]), atoi(w[2])); fputs("ok", o); show(o); }
	else if (!strcmp(w[0], "BD") && n == 2) { xpoll_bell_reg_del(xp, atoi(w[1])); fputs("ok", o); show(o); }
	else if (!strcmp(w[0], "W") && n == 2) { char c = 'x'; if (write(pw[atoi(w[1])], &c, 1) < 0) {} fputs("ok", o); show(o); }
	else if (!strcmp(w[0], "C") && n == 2) { char b[64]; while (read(pr[atoi(w[1])], b, sizeof(b)) > 0); fputs("ok", o); show(o); }
	else if (!strcmp(w[0], "PG") && n == 1) {
	    int fd = active_fd_get();
	    sync_live();
	    got[n_got++] = fd;
	    fprintf(o, "fd=%d |", fd_index(fd));
	    struct active_fd *a; LIST_FOREACH(a, &active_fds, elem) fprintf(o, " %d:%d", fd_index(a->fd), a->cnt);
	    fputc('\n', o);
	} else if (!strcmp(w[0], "PP") && n == 2) {
	    int k = atoi(w[1]);
	    if (k < n_got && got[k] >= 0) { active_fd_put(got[k]); got[k] = -1; sync_live(); fputs("ok |", o); } else fputs("skip |", o);
	    struct active_fd *a; LIST_FOREACH(a, &active_fds, elem) fprintf(o, " %d:%d", fd_index(a->fd), a->cnt);
	    fputc('\n', o);
	} else
	    fputs("bad-op\n", o);
	if (xpoll_get_fd(xp) != epfd0) fputs("!epoll-fd-changed\n", o);
	fflush(o);
    }
    return 0;
}
