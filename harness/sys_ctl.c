/* System harness for C14: a raw SEQPACKET client speaking and mis-speaking ctl_proto.h to live sockets,
   next to the libxcmctl client, while the owner keeps servicing its sockets and a message flow runs. */
#include "sysutil.h"
#include <sys/ioctl.h>
#include <linux/sockios.h>
#include <dirent.h>
#include <fcntl.h>
#include <poll.h>
#include <sys/socket.h>
#include <sys/un.h>
#include "ctl_proto.h"
#include "xcmc.h"
#include "xcm_tp.h"

static struct trio T;
static char ctl_dir[256];
static char paths[3][300];       /* server, client, accepted */
static int64_t refs[3];

static int list_dir(char names[][300], int max)
{
    DIR *d = opendir(ctl_dir); int n = 0;
    if (!d) return 0;
    struct dirent *e;
    while ((e = readdir(d)) && n < max)
	if (e->d_name[0] != '.') snprintf(names[n++], 300, "%s/%s", ctl_dir, e->d_name);
    closedir(d);
    return n;
}

static struct xcm_socket *sock_of(const char *l) { return !strcmp(l, "server") ? T.server : !strcmp(l, "client") ? T.client : T.accepted; }
static const char *path_of(const char *l) { return !strcmp(l, "server") ? paths[0] : !strcmp(l, "client") ? paths[1] : paths[2]; }

/* the owner's event loop turns: every socket is given the chance to run its control interface */
static void service(int rounds)
{
    char b[8];
    for (int i = 0; i < rounds; i++) {
	if (T.client) { xcm_finish(T.client); xcm_receive(T.client, b, 0 ? 1 : sizeof(b)); }
	if (T.accepted) { xcm_finish(T.accepted); xcm_receive(T.accepted, b, sizeof(b)); }
	if (T.server) { struct xcm_socket *a = xcm_accept(T.server); if (a) xcm_close(a); }
    }
}

static int raw_connect(const char *path)
{
    int fd = socket(AF_UNIX, SOCK_SEQPACKET | SOCK_NONBLOCK, 0);
    struct sockaddr_un sa = { .sun_family = AF_UNIX };
    snprintf(sa.sun_path, sizeof(sa.sun_path), "%s", path);
    if (connect(fd, (struct sockaddr *)&sa, sizeof(sa)) < 0) { int e = errno; close(fd); errno = e; return -1; }
    return fd;
}

/* waits (servicing the owner) for a reply on a raw session; returns bytes received, 0 on close, -1 timeout */
static ssize_t raw_reply(int fd, struct ctl_proto_msg *res)
{
    for (int i = 0; i < 400; i++) {
	service(2);
	ssize_t rc = recv(fd, res, sizeof(*res), 0);
	if (rc >= 0) return rc;
	if (errno != EAGAIN) return -2;
    }
    return -1;
}

static void show_value(FILE *o, int type, const void *v, size_t len)
{
    fprintf(o, "t=%d len=%zu h=%llu", type, len, (unsigned long long)h_fnv(v, len));
}

struct acc { char buf[65536]; size_t len; int n; bool key_seen; };
static void acc_cb(const char *name, enum xcm_attr_type type, void *value, size_t len, void *data)
{
    struct acc *a = data;
    if (!strcmp(name, "tls.key")) { a->key_seen = true; }
    if (a->len + strlen(name) + 64 < sizeof(a->buf))
	a->len += sprintf(a->buf + a->len, "%s:%d:%zu:%llu,", name, (int)type, len, (unsigned long long)h_fnv(value, len));
    a->n++;
}
static bool volatile_name(const char *n) { return !strncmp(n, "tcp.rtt", 7) || !strncmp(n, "tcp.segs", 8) || !strncmp(n, "tcp.total", 9) || strstr(n, "_bytes") || strstr(n, "_msgs"); }
static void acc_cb_stable(const char *name, enum xcm_attr_type type, void *value, size_t len, void *data)
{
    if (!volatile_name(name)) acc_cb(name, type, value, len, data);
    else { struct acc *a = data; a->n++; if (a->len + strlen(name) + 8 < sizeof(a->buf)) a->len += sprintf(a->buf + a->len, "%s:%d:%zu:*,", name, (int)type, len); }
}

int main(void)
{
    static char line[H_LINE_MAX];
    char *w[H_MAXW];
    FILE *o = stdout;
    snprintf(ctl_dir, sizeof(ctl_dir), "%s", getenv("XCM_CTL") ? getenv("XCM_CTL") : "/tmp");
    while (fgets(line, sizeof(line), stdin)) {
	int n = h_words(line, w);
	if (n == 0 || w[0][0] == '#') continue;
	if (!strcmp(w[0], "E") && (n == 2 || n == 3)) {
	    /* E <proto> [byvalue]: sockets with control interfaces; `byvalue` gives the client its TLS credentials by value */
	    static char before[64][300], after[64][300];
	    struct xcm_attr_map *cm = NULL;
	    if (n == 3 && (!strcmp(w[2], "byvalue") || !strcmp(w[2], "byvalue-ec"))) {
		cm = xcm_attr_map_create();
		const char *dir = !strcmp(w[2], "byvalue-ec") ? getenv("VERIF_ECDIR") : getenv("XCM_TLS_CERT");
		const char *files[3] = { "cert.pem", "key.pem", "tc.pem" }, *names[3] = { "tls.cert", "tls.key", "tls.tc" };
		for (int i = 0; i < 3; i++) {
		    char p[400]; snprintf(p, sizeof(p), "%s/%s", dir, files[i]);
		    FILE *f = fopen(p, "r"); static char pem[20000]; size_t l = f ? fread(pem, 1, sizeof(pem) - 1, f) : 0; if (f) fclose(f);
		    pem[l] = 0;
		    xcm_attr_map_add_bin(cm, names[i], pem, l);
		}
	    } else if (n == 3 && !strcmp(w[2], "manysan")) {
		cm = xcm_attr_map_create();
		const char *dir = getenv("VERIF_SANDIR");
		char p[400];
		snprintf(p, sizeof(p), "%s/cert.pem", dir); xcm_attr_map_add_str(cm, "tls.cert_file", p);
		snprintf(p, sizeof(p), "%s/key.pem", dir); xcm_attr_map_add_str(cm, "tls.key_file", p);
		snprintf(p, sizeof(p), "%s/tc.pem", dir); xcm_attr_map_add_str(cm, "tls.tc_file", p);
	    }
	    int nb = list_dir(before, 64);
	    int rc = sys_establish(w[1], &T, cm, NULL);
	    if (cm) xcm_attr_map_destroy(cm);
	    if (rc < 0) { fprintf(o, "fail %s\n", h_errname(errno)); fflush(o); continue; }
	    service(600);     /* the control interface is created lazily, after a number of calls */
	    /* the control files are named after (pid, sock_id): take the id from the library's own socket struct, so that
	       no control request is spent on identifying the sockets (each session's FIRST request is part of the property) */
	    memset(paths, 0, sizeof(paths));
	    struct xcm_socket *ss[3] = { T.server, T.client, T.accepted };
	    for (int i = 0; i < 3; i++) {
		snprintf(paths[i], 300, "%s/ctl-%d-%lld", ctl_dir, (int)getpid(), (long long)ss[i]->sock_id);
		if (access(paths[i], F_OK) != 0) paths[i][0] = 0;
	    }
	    /* utls: the connection's control interface belongs to its active sub-connection, which has another id: find
	       it by asking the files not yet assigned for their local address (costs that session's first request) */
	    int na = list_dir(after, 64);
	    for (int k = 1; k < 3; k++) {
		if (paths[k][0]) continue;
		const char *want = xcm_local_addr(ss[k]);
		for (int i = 0; i < na && !paths[k][0]; i++) {
		    bool old = false;
		    for (int j = 0; j < nb; j++) if (!strcmp(before[j], after[i])) old = true;
		    if (old || !strcmp(after[i], paths[0]) || !strcmp(after[i], paths[1]) || !strcmp(after[i], paths[2])) continue;
		    int fd = raw_connect(after[i]);
		    if (fd < 0) continue;
		    struct ctl_proto_msg *q = calloc(1, sizeof(*q)), *r = calloc(1, sizeof(*r));
		    q->type = ctl_proto_type_get_attr_req; strcpy(q->get_attr_req.attr_name, "xcm.local_addr");
		    send(fd, q, sizeof(*q), MSG_NOSIGNAL);
		    if (raw_reply(fd, r) == sizeof(*r) && r->type == ctl_proto_type_get_attr_cfm && want && !strcmp(r->get_attr_cfm.attr.str_value, want))
			snprintf(paths[k], 300, "%s", after[i]);
		    close(fd); free(q); free(r);
		    service(8);
		}
	    }
	    fprintf(o, "ok ctl=%d,%d,%d\n", paths[0][0] != 0, paths[1][0] != 0, paths[2][0] != 0);
	} else if (!strcmp(w[0], "Q") && n == 4) {
	    /* Q <sock> <kind> <hexname>: one raw session, one request of the given kind; the reply next to the in-process answer */
	    struct xcm_socket *s = sock_of(w[1]);
	    size_t nl; uint8_t *name = h_unhex(w[3], &nl);
	    int fd = raw_connect(path_of(w[1]));
	    if (fd < 0) { fprintf(o, "noconnect %s\n", h_errname(errno)); free(name); fflush(o); continue; }
	    service(8);
	    struct ctl_proto_msg *q = malloc(sizeof(*q)), *r = malloc(sizeof(*r));
	    memset(q, 0x5c, sizeof(*q)); memset(r, 0, sizeof(*r));
	    size_t sendlen = sizeof(*q);
	    const char *kind = w[2];
	    bool expect_reply = true;
	    if (!strcmp(kind, "get") || !strcmp(kind, "get2")) {
		q->type = ctl_proto_type_get_attr_req;
		memset(q->get_attr_req.attr_name, 0, sizeof(q->get_attr_req.attr_name));
		memcpy(q->get_attr_req.attr_name, name, nl < XCM_ATTR_NAME_MAX ? nl : XCM_ATTR_NAME_MAX - 1);
	    } else if (!strcmp(kind, "unterminated")) {
		q->type = ctl_proto_type_get_attr_req;
		memset(q->get_attr_req.attr_name, 'a', sizeof(q->get_attr_req.attr_name));      /* no NUL inside the field */
		memcpy(q->get_attr_req.attr_name, name, nl < XCM_ATTR_NAME_MAX ? nl : XCM_ATTR_NAME_MAX);
	    } else if (!strcmp(kind, "getall")) q->type = ctl_proto_type_get_all_attr_req;
	    else if (!strcmp(kind, "badtype")) { q->type = 99; expect_reply = false; }
	    else if (!strcmp(kind, "cfmtype")) { q->type = ctl_proto_type_get_attr_cfm; expect_reply = false; }
	    else if (!strcmp(kind, "short")) { q->type = ctl_proto_type_get_attr_req; sendlen = 10; expect_reply = false; }
	    else if (!strcmp(kind, "empty")) { sendlen = 0; expect_reply = false; }
	    else if (!strcmp(kind, "hangup")) { q->type = ctl_proto_type_get_all_attr_req; }
	    /* exact-size copy so that an over-read of the request is an ASan report in the owner */
	    uint8_t *ex = malloc(sendlen ? sendlen : 1); memcpy(ex, q, sendlen);
	    ssize_t src = send(fd, ex, sendlen, MSG_NOSIGNAL);
	    free(ex);
	    if (!strcmp(kind, "hangup")) { close(fd); service(40); fprintf(o, "hangup sent=%zd\n", src); free(q); free(r); free(name); fflush(o); continue; }
	    if (!strcmp(kind, "get2")) {
		/* a get-all as the *second* request on the session, after a successful get */
		ssize_t r1 = raw_reply(fd, r); (void)r1;
		memset(q, 0x5c, sizeof(*q)); q->type = ctl_proto_type_get_all_attr_req;
		send(fd, q, sizeof(*q), MSG_NOSIGNAL);
		kind = "getall";
	    }
	    ssize_t rr = raw_reply(fd, r);
	    if (rr > 0) {
		/* whatever the reply says: the datagram must not carry the private key */
		static char keyv[16384]; enum xcm_attr_type kt;
		int kl = xcm_attr_get(s, "tls.key", &kt, keyv, sizeof(keyv));
		if (kl >= 48) {
		    /* the base64 body, past the PEM header line */
		    const char *body = memchr(keyv, '\n', kl);
		    if (body && (keyv + kl) - body > 40 && memmem(r, (size_t)rr, body + 1, 32) != NULL) fputs("!KEY-DISCLOSED ", o);
		}
	    }
	    if (rr == -1) fprintf(o, "%s noreply", kind);
	    else if (rr == 0) fprintf(o, "%s closed", kind);
	    else if (rr != sizeof(*r)) fprintf(o, "%s badsize=%zd", kind, rr);
	    else if (r->type == ctl_proto_type_get_attr_cfm && strcmp(kind, "getall")) {
		fprintf(o, "%s cfm ", kind); show_value(o, r->get_attr_cfm.attr.value_type, r->get_attr_cfm.attr.any_value,
							  r->get_attr_cfm.attr.value_len <= CTL_ATTR_VALUE_MAX ? r->get_attr_cfm.attr.value_len : 0);
		if (r->get_attr_cfm.attr.value_len > CTL_ATTR_VALUE_MAX) fprintf(o, " !value_len=%zu", r->get_attr_cfm.attr.value_len);
	    } else if (r->type == ctl_proto_type_get_attr_rej && strcmp(kind, "getall")) {
		/* a rejection must not carry a value */
		bool clean = true; for (size_t i = 0; i < 64; i++) if (r->get_attr_cfm.attr.any_value[i]) clean = false;
		fprintf(o, "%s rej %s", kind, h_errname(r->get_attr_rej.rej_errno)); (void)clean;
	    } else {
		struct ctl_proto_get_all_attr_cfm *c = &r->get_all_attr_cfm;
		struct acc a = { .len = 0 };
		fprintf(o, "%s type=%d n=%zu ", kind, (int)r->type, c->attrs_len);
		bool bad = c->attrs_len > CTL_PROTO_MAX_ATTRS;
		for (size_t i = 0; i < c->attrs_len && i < CTL_PROTO_MAX_ATTRS; i++) {
		    struct ctl_proto_attr *at = &c->attrs[i];
		    if (memchr(at->name, 0, sizeof(at->name)) == NULL || at->value_len > CTL_ATTR_VALUE_MAX) { bad = true; continue; }
		    acc_cb_stable(at->name, at->value_type, at->any_value, at->value_len, &a);
		}
		fprintf(o, "%s%s [%s]", bad ? "!malformed " : "", a.key_seen ? "!KEY-DISCLOSED " : "", a.buf);
	    }
	    /* in-process answer to the same question */
	    if (!strcmp(kind, "getall")) {
		struct acc a = { .len = 0 };
		xcm_attr_get_all(s, acc_cb_stable, &a);
		fprintf(o, " | inproc n=%d [%s]", a.n, a.buf);
	    } else if (!strcmp(kind, "get") || !strcmp(kind, "unterminated")) {
		char nm[XCM_ATTR_NAME_MAX + 1]; memcpy(nm, q->get_attr_req.attr_name, XCM_ATTR_NAME_MAX); nm[XCM_ATTR_NAME_MAX] = 0;
		uint8_t v[CTL_ATTR_VALUE_MAX]; enum xcm_attr_type t = -1;
		int grc = xcm_attr_get(s, nm, &t, v, sizeof(v));
		if (grc >= 0) { fprintf(o, " | inproc cfm "); show_value(o, t, v, grc); }
		else fprintf(o, " | inproc rej %s", h_errname(errno));
	    }
	    (void)expect_reply;
	    fputc('\n', o);
	    close(fd); service(8);
	    free(q); free(r); free(name);
	} else if (!strcmp(w[0], "L") && n == 3) {
	    /* L <sock> <hexname|ALL>: through the library's own client libxcmctl */
	    struct xcm_socket *s = sock_of(w[1]);
	    const char *p = path_of(w[1]);
	    const char *dash = strrchr(p, '-'); int64_t ref = dash ? atoll(dash + 1) : 0;
	    struct xcmc_session *ses = xcmc_open(getpid(), ref);
	    if (!ses) { fprintf(o, "xcmc_open failed %s\n", h_errname(errno)); fflush(o); continue; }
	    /* xcmc is a blocking client: it needs the owner to run; do the exchange from a forked child */
	    fflush(o);
	    int pfd[2]; pipe(pfd);
	    pid_t pid = fork();
	    if (pid == 0) {
		close(pfd[0]);
		FILE *po = fdopen(pfd[1], "w");
		if (!strcmp(w[2], "ALL")) {
		    struct acc a = { .len = 0 };
		    int rc = xcmc_attr_get_all(ses, (xcmc_attr_cb)acc_cb_stable, &a);
		    if (rc < 0) fprintf(po, "xcmc getall -1 %s", h_errname(errno)); else fprintf(po, "xcmc getall n=%d [%s]", a.n, a.buf);
		} else {
		    size_t nl; uint8_t *name = h_unhex(w[2], &nl);
		    uint8_t v[CTL_ATTR_VALUE_MAX]; enum xcm_attr_type t = -1;
		    int rc = xcmc_attr_get(ses, (char *)name, &t, v, sizeof(v));
		    if (rc < 0) fprintf(po, "xcmc get rej %s", h_errname(errno)); else { fprintf(po, "xcmc get cfm "); show_value(po, t, v, rc); }
		}
		fflush(po);
		_exit(0);
	    }
	    close(pfd[1]);
	    fcntl(pfd[0], F_SETFL, O_NONBLOCK);
	    char res[70000]; size_t rl = 0;
	    for (int i = 0; i < 4000; i++) {
		service(4);
		ssize_t k = read(pfd[0], res + rl, sizeof(res) - rl - 1);
		if (k > 0) rl += k; else if (k == 0) break;
		usleep(200);
	    }
	    res[rl] = 0;
	    int st; waitpid(pid, &st, 0);
	    close(pfd[0]);
	    xcmc_close(ses);
	    service(8);
	    fputs(rl ? res : "xcmc noreply", o);
	    if (!strcmp(w[2], "ALL")) { struct acc a = { .len = 0 }; xcm_attr_get_all(s, acc_cb_stable, &a); fprintf(o, " | inproc n=%d [%s]", a.n, a.buf); }
	    else { size_t nl; uint8_t *name = h_unhex(w[2], &nl); uint8_t v[CTL_ATTR_VALUE_MAX]; enum xcm_attr_type t = -1;
		int grc = xcm_attr_get(s, (char *)name, &t, v, sizeof(v));
		if (grc >= 0) { fprintf(o, " | inproc cfm "); show_value(o, t, v, grc); } else fprintf(o, " | inproc rej %s", h_errname(errno)); free(name); }
	    fputc('\n', o);
	} else if (!strcmp(w[0], "M") && n == 3) {
	    /* M <sock> <n>: n simultaneous raw sessions each asking for xcm.type; how many are answered while all stay open */
	    int cnt = atoi(w[2]); int fds[32]; int answered = 0, connected = 0;
	    for (int i = 0; i < cnt && i < 32; i++) { fds[i] = raw_connect(path_of(w[1])); if (fds[i] >= 0) connected++; service(8); }
	    struct ctl_proto_msg *q = calloc(1, sizeof(*q)), *r = calloc(1, sizeof(*r));
	    q->type = ctl_proto_type_get_attr_req; strcpy(q->get_attr_req.attr_name, "xcm.type");
	    for (int i = 0; i < cnt && i < 32; i++) if (fds[i] >= 0) send(fds[i], q, sizeof(*q), MSG_NOSIGNAL);
	    service(200);
	    for (int i = 0; i < cnt && i < 32; i++) if (fds[i] >= 0 && recv(fds[i], r, sizeof(*r), 0) == sizeof(*r)) answered++;
	    for (int i = 0; i < cnt && i < 32; i++) if (fds[i] >= 0) close(fds[i]);
	    service(40);
	    /* afterwards a new session must be served again */
	    int fd = raw_connect(path_of(w[1])); int again = 0;
	    if (fd >= 0) { send(fd, q, sizeof(*q), MSG_NOSIGNAL); again = raw_reply(fd, r) == sizeof(*r); close(fd); }
	    service(8);
	    fprintf(o, "sessions connected=%d answered=%d served_after=%d\n", connected, answered, again);
	    free(q); free(r);
	} else if (!strcmp(w[0], "MIX") && n == 2) {
	    /* MIX <sock>: session A floods requests without reading until a reply is pending, then hangs up; the idle session
	       B must receive nothing it did not ask for, and its own request must be answered with its own answer */
	    struct xcm_socket *s = sock_of(w[1]);
	    int a = raw_connect(path_of(w[1])); service(8);
	    int b = raw_connect(path_of(w[1])); service(8);
	    struct ctl_proto_msg *q = calloc(1, sizeof(*q)), *r = calloc(1, sizeof(*r));
	    q->type = ctl_proto_type_get_attr_req; strcpy(q->get_attr_req.attr_name, "xcm.type");
	    int flooded = 0;
	    for (int i = 0; i < 400 && a >= 0; i++) {
		if (send(a, q, sizeof(*q), MSG_NOSIGNAL) < 0) break;
		flooded++;
		service(3);
	    }
	    service(40);
	    if (a >= 0) close(a);
	    service(60);
	    int unsolicited = 0;
	    if (b >= 0 && recv(b, r, sizeof(*r), 0) > 0) unsolicited = 1;
	    int answered = 0, matches = 0;
	    if (b >= 0) {
		memset(q, 0, sizeof(*q)); q->type = ctl_proto_type_get_attr_req; strcpy(q->get_attr_req.attr_name, "xcm.transport");
		send(b, q, sizeof(*q), MSG_NOSIGNAL);
		if (raw_reply(b, r) == sizeof(*r)) {
		    answered = 1;
		    char v[64] = ""; xcm_attr_get_str(s, "xcm.transport", v, sizeof(v));
		    matches = r->type == ctl_proto_type_get_attr_cfm && !strcmp(r->get_attr_cfm.attr.str_value, v);
		}
		close(b);
	    }
	    service(20);
	    fprintf(o, "mix flooded=%d unsolicited=%d answered=%d matches=%d\n", flooded, unsolicited, answered, matches);
	    free(q); free(r);
	} else if (!strcmp(w[0], "MIX2") && n == 2) {
	    /* MIX2 <sock>: session A (first accepted, table slot 0) has been answered before (its slot holds a get-all reply);
	       session B sends a request; the owner is stepped one API call at a time until B's request has been consumed
	       (SIOCOUTQ of B's descriptor drops to 0: its reply is built and waits for the next control turn); at that moment A
	       hangs up, so B's session is moved into the freed slot with its reply pending.  B must receive its own answer. */
	    struct xcm_socket *s = sock_of(w[1]);
	    int a = raw_connect(path_of(w[1])); service(8);
	    int b = raw_connect(path_of(w[1])); service(8);
	    struct ctl_proto_msg *q = calloc(1, sizeof(*q)), *r = calloc(1, sizeof(*r));
	    int a_answered = 0, consumed = 0, answered = 0, matches = 0, rtype = -1;
	    if (a >= 0 && b >= 0) {
		q->type = ctl_proto_type_get_all_attr_req;
		send(a, q, sizeof(*q), MSG_NOSIGNAL);
		a_answered = raw_reply(a, r) == sizeof(*r);
		memset(q, 0, sizeof(*q)); q->type = ctl_proto_type_get_attr_req; strcpy(q->get_attr_req.attr_name, "xcm.type");
		send(b, q, sizeof(*q), MSG_NOSIGNAL);
		char buf[8];
		for (int i = 0; i < 4000 && !consumed; i++) {
		    if (s == T.server) { struct xcm_socket *x = xcm_accept(s); if (x) xcm_close(x); }
		    else xcm_receive(s, buf, sizeof(buf));
		    int outq = -1;
		    if (ioctl(b, SIOCOUTQ, &outq) == 0 && outq == 0) consumed = 1;
		}
		/* B may already have been answered if two control turns fell into one step: then the window was missed */
		int early = recv(b, r, sizeof(*r), MSG_PEEK) > 0;
		close(a); a = -1;
		if (raw_reply(b, r) == sizeof(*r)) {
		    answered = 1; rtype = r->type;
		    char v[64] = ""; xcm_attr_get_str(s, "xcm.type", v, sizeof(v));
		    matches = r->type == ctl_proto_type_get_attr_cfm && !strcmp(r->get_attr_cfm.attr.str_value, v);
		}
		fprintf(o, "mix2 a_answered=%d consumed=%d window=%d answered=%d matches=%d rtype=%d\n", a_answered, consumed, !early, answered, matches, rtype);
	    } else fprintf(o, "mix2 noconnect\n");
	    if (a >= 0) close(a);
	    if (b >= 0) close(b);
	    service(20);
	    free(q); free(r);
	} else if (!strcmp(w[0], "D") && n == 2) {
	    /* D <count>: data path oracle: count messages client -> accepted while ctl sessions come and go */
	    int cnt = atoi(w[1]), sent = 0, got = 0, bad = 0;
	    char m[64], b[64];
	    int fd = raw_connect(paths[1]);
	    struct ctl_proto_msg *q = calloc(1, sizeof(*q));
	    q->type = ctl_proto_type_get_all_attr_req;
	    for (int i = 0; i < cnt * 50 && got < cnt; i++) {
		if (sent < cnt) { int l = snprintf(m, sizeof(m), "msg-%d", sent); if (xcm_send(T.client, m, sys_is_bytestream(T.proto) ? l : l) >= 0) sent++; }
		if (fd >= 0 && i % 3 == 0) send(fd, q, sizeof(*q), MSG_NOSIGNAL);
		int rc = xcm_receive(T.accepted, b, sizeof(b) - 1);
		if (rc > 0) { b[rc] = 0; char exp[64]; snprintf(exp, sizeof(exp), "msg-%d", got); if (strcmp(b, exp)) bad++; got++; }
		xcm_finish(T.client);
		if (fd >= 0 && i % 7 == 0) { struct ctl_proto_msg r; while (recv(fd, &r, sizeof(r), 0) > 0); }
	    }
	    if (fd >= 0) close(fd);
	    free(q);
	    fprintf(o, "data sent=%d got=%d bad=%d\n", sent, got, bad);
	} else if (!strcmp(w[0], "X") && n == 1) {
	    sys_close_trio(&T);
	    static char rest[64][300];
	    int left = list_dir(rest, 64);
	    fprintf(o, "closed ctl_files_left=%d\n", left);
	} else
	    fputs("bad-op\n", o);
	fflush(o);
    }
    return 0;
}
