/* System harness for C04: two applications that follow the documented event-loop protocol to the
   letter (declare interest with xcm_await, wait until xcm_fd is readable, then call the intended
   operation or xcm_finish) while link-time wrappers make the kernel calls below XCM refuse (EAGAIN) or
   shorten reads and writes at random.  A watchdog reports a stall: work is owed but no fd becomes
   readable.  Also the blocking forms, in threads, under the same faults. */
#include "sysutil.h"
#include <poll.h>
#include <pthread.h>
#include <sys/socket.h>
#include <time.h>

static int inject;            /* per cent of kernel calls that are disturbed */
static unsigned fseed = 1;
static pthread_mutex_t flock_ = PTHREAD_MUTEX_INITIALIZER;
static long n_eagain, n_short;

static unsigned roll(void)
{
    pthread_mutex_lock(&flock_);
    fseed = fseed * 1103515245u + 12345u;
    unsigned r = (fseed >> 8) & 0xffffff;
    pthread_mutex_unlock(&flock_);
    return r;
}

static bool is_stream(int fd)
{
    int t = 0; socklen_t l = sizeof(t);
    return getsockopt(fd, SOL_SOCKET, SO_TYPE, &t, &l) == 0 && t == SOCK_STREAM;
}

ssize_t __real_send(int, const void *, size_t, int);
ssize_t __wrap_send(int fd, const void *buf, size_t len, int flags)
{
    if (inject && roll() % 100 < (unsigned)inject) {
	if (roll() % 2) { n_eagain++; errno = EAGAIN; return -1; }
	if (is_stream(fd) && len > 1) { n_short++; len = 1 + roll() % len; }
    }
    return __real_send(fd, buf, len, flags);
}
ssize_t __real_recv(int, void *, size_t, int);
ssize_t __wrap_recv(int fd, void *buf, size_t len, int flags)
{
    if (inject && roll() % 100 < (unsigned)inject) {
	if (roll() % 2) { n_eagain++; errno = EAGAIN; return -1; }
	if (is_stream(fd) && len > 1) { n_short++; len = 1 + roll() % len; }
    }
    return __real_recv(fd, buf, len, flags);
}

static double now(void) { struct timespec t; clock_gettime(CLOCK_MONOTONIC, &t); return t.tv_sec + t.tv_nsec / 1e9; }

/* message i: length and content are functions of i */
static size_t msg_len(int i, bool bs) { static const size_t L[] = { 1, 7, 100, 1500, 9000, 40000, 65535, 3 }; size_t l = L[i % 8]; return bs && l > 30000 ? 30000 : l; }
static void msg_fill(char *b, int i, size_t l) { for (size_t k = 0; k < l; k++) b[k] = (char)('A' + (i * 7 + k) % 23); }

static bool readable(struct xcm_socket *s, int timeout_ms)
{
    struct pollfd p = { .fd = xcm_fd(s), .events = POLLIN };
    return poll(&p, 1, timeout_ms) > 0;
}

/* xcm_await only when the awaited condition changes (the documented examples await once and then only select) */
static void await_if_changed(struct xcm_socket *s, int *last, int cond)
{
    if (*last != cond) { xcm_await(s, cond); *last = cond; }
}

/* spec: the sender keeps condition 0 and sends on speculation; only after EAGAIN does it await SENDABLE, and it
   withdraws that interest before it sends again - so the last accepted send is followed by no XCM call at all */
static void run_loop(FILE *o, const char *proto, int nmsgs, unsigned seed, bool spec)
{
    int last_srv = -1, last_cli = -1, last_acc = -1; bool want_send = !spec;
    bool bs = sys_is_bytestream(proto);
    char addr[300]; sys_addr(proto, addr, sizeof(addr));
    int saved = inject; inject = 0;
    struct xcm_attr_map *m = sys_base_attrs(proto, true);
    struct xcm_socket *srv = xcm_server_a(addr, m);
    inject = saved;
    if (!srv) { xcm_attr_map_destroy(m); fprintf(o, "fail server %s\n", h_errname(errno)); return; }
    char caddr[300]; snprintf(caddr, sizeof(caddr), "%s", xcm_local_addr(srv));
    struct xcm_socket *cli = xcm_connect_a(caddr, m);
    xcm_attr_map_destroy(m);
    if (!cli) { fprintf(o, "fail connect %s\n", h_errname(errno)); xcm_close(srv); return; }
    struct xcm_socket *acc = NULL;
    static char sbuf[70000], rbuf[70000], exp[70000];
    int sent = 0, got = 0, bad = 0, idle = 0, iter = 0, spins = 0;
    size_t bs_sent_off = 0, bs_got = 0, bs_total = 0;
    for (int i = 0; i < nmsgs; i++) bs_total += msg_len(i, true);
    bool cli_closed = false, close_seen = false, stall = false, failed = false;
    int err_no = 0; const char *err_at = "";
    double t0 = now();
    while (!close_seen && !failed) {
	iter++;
	{
	    /* the sender closes as soon as xcm_finish says that everything it sent has been handed down - it never reads;
	       (before the repair F-06b the server's useless TLS 1.3 session tickets, left unread, turned this close into a reset) */
	    if (sent == nmsgs && !cli_closed && !failed) {
		int frc = xcm_finish(cli);
		if (frc == 0) { xcm_close(cli); cli_closed = true; }
		else if (errno != EAGAIN) { failed = true; err_no = errno; err_at = "finish"; }
	    }
	}
	/* declare interest */
	await_if_changed(srv, &last_srv, acc ? 0 : XCM_SO_ACCEPTABLE);
	if (!cli_closed) await_if_changed(cli, &last_cli, sent < nmsgs && want_send ? XCM_SO_SENDABLE : 0);
	if (acc) await_if_changed(acc, &last_acc, XCM_SO_RECEIVABLE);
	if (spec && !cli_closed && sent < nmsgs && !want_send) {
	    /* speculative sends under condition 0 */
	    while (sent < nmsgs) {
		size_t l = msg_len(sent, bs);
		msg_fill(sbuf, sent, l);
		int src = bs ? xcm_send(cli, sbuf + bs_sent_off, l - bs_sent_off) : xcm_send(cli, sbuf, l);
		if (src >= 0) { if (bs) { bs_sent_off += src; if (bs_sent_off == l) { bs_sent_off = 0; sent++; } } else sent++; }
		else if (errno == EAGAIN) { want_send = true; break; }
		else { failed = true; err_no = errno; err_at = "send"; break; }
	    }
	    if (want_send) await_if_changed(cli, &last_cli, XCM_SO_SENDABLE);
	}
	struct pollfd p[3]; int np = 0; int is = -1, ic = -1, ia = -1;
	p[np].fd = xcm_fd(srv); p[np].events = POLLIN; is = np++;
	if (!cli_closed) { p[np].fd = xcm_fd(cli); p[np].events = POLLIN; ic = np++; }
	if (acc) { p[np].fd = xcm_fd(acc); p[np].events = POLLIN; ia = np++; }
	int rc = poll(p, np, 10);
	if (rc == 0) {
	    /* nothing is readable.  Is anything owed?  Yes until the close has been seen. */
	    if (++idle > 400) { stall = true; break; }
	    continue;
	}
	idle = 0;
	bool progress = false;
	if (is >= 0 && (p[is].revents & POLLIN) && !acc) {
	    struct xcm_attr_map *am = xcm_attr_map_create(); xcm_attr_map_add_bool(am, "xcm.blocking", false);
	    acc = xcm_accept_a(srv, am); xcm_attr_map_destroy(am);
	    if (acc) progress = true; else if (errno != EAGAIN) { failed = true; err_no = errno; err_at = "accept"; }
	}
	if (ic >= 0 && (p[ic].revents & POLLIN)) {
	    if (spec && sent < nmsgs) {
		/* woken: withdraw the interest, the speculative sends at the top of the loop follow */
		want_send = false; progress = true;
		await_if_changed(cli, &last_cli, 0);
	    } else if (sent < nmsgs) {
		size_t l = msg_len(sent, bs);
		msg_fill(sbuf, sent, l);
		int src = bs ? xcm_send(cli, sbuf + bs_sent_off, l - bs_sent_off) : xcm_send(cli, sbuf, l);
		if (src >= 0) {
		    progress = true;
		    if (bs) { bs_sent_off += src; if (bs_sent_off == l) { bs_sent_off = 0; sent++; } } else sent++;
		} else if (errno != EAGAIN) { failed = true; err_no = errno; err_at = "send"; }
	    } else {
		int frc = xcm_finish(cli);
		if (frc == 0) progress = true;
		else if (errno != EAGAIN) { failed = true; err_no = errno; err_at = "finish"; }
	    }
	}
	if (ia >= 0 && acc && (p[ia].revents & POLLIN)) {
	    int rrc = xcm_receive(acc, rbuf, sizeof(rbuf));
	    if (rrc > 0) {
		progress = true;
		if (bs) {
		    /* compare with the concatenated stream */
		    for (int k = 0; k < rrc; k++) {
			/* locate position bs_got + k */
			size_t pos = bs_got + k, i = 0, off = 0;
			while (i < (size_t)nmsgs && off + msg_len(i, true) <= pos) { off += msg_len(i, true); i++; }
			char e = i < (size_t)nmsgs ? (char)('A' + (i * 7 + (pos - off)) % 23) : '?';
			if (rbuf[k] != e) { bad++; break; }
		    }
		    bs_got += rrc;
		} else {
		    size_t l = msg_len(got, false);
		    msg_fill(exp, got, l);
		    if ((size_t)rrc != l || memcmp(exp, rbuf, l)) bad++;
		    got++;
		}
	    } else if (rrc == 0) { close_seen = true; progress = true; }
	    else if (errno != EAGAIN) { failed = true; err_no = errno; err_at = "receive"; }
	}
	if (!progress) spins++;
	if (now() - t0 > 60) { stall = true; break; }
    }
    bool complete = bs ? bs_got == bs_total : got == nmsgs;
    fprintf(o, "loop sent=%d got=%d bytes=%zu/%zu bad=%d complete=%d close_seen=%d stall=%d failed=%s%s iter=%d spins=%d eagain=%ld short=%ld t=%.2f\n",
	    sent, got, bs_got, bs_total, bad, complete, close_seen, stall, failed ? h_errname(err_no) : "-", failed ? err_at : "", iter, spins,
	    n_eagain, n_short, now() - t0);
    if (!cli_closed) xcm_close(cli);
    if (acc) xcm_close(acc);
    xcm_close(srv);
}

/* ---- full duplex: both ends send and receive, each awaiting RECEIVABLE (unless it pauses reading) plus SENDABLE while it
   has something to send; one XCM call per wake-up.  Pauses build back-pressure in both directions at once, so an end is
   regularly blocked on output while input arrives - the case where one awaited condition must not displace the other. */
struct dend { struct xcm_socket *s; int last; int sent, got, bad; size_t soff, goff_total; double pause_until; bool done_rx; };

static void duplex_io(struct dend *e, bool bs, int nmsgs, bool can_read, bool *progress, bool *failed, int *err_no, const char **err_at)
{
    static char sbuf[70000], rbuf[70000], exp[70000];
    /* alternate: prefer the receive when allowed, else the send */
    if (can_read && !e->done_rx) {
	int r = xcm_receive(e->s, rbuf, sizeof(rbuf));
	if (r > 0) {
	    *progress = true;
	    if (bs) {
		for (int k = 0; k < r; k++) {
		    size_t pos = e->goff_total + k, i = 0, off = 0;
		    while (i < (size_t)nmsgs && off + msg_len(i, true) <= pos) { off += msg_len(i, true); i++; }
		    char c = i < (size_t)nmsgs ? (char)('A' + (i * 7 + (pos - off)) % 23) : '?';
		    if (rbuf[k] != c) { e->bad++; break; }
		}
		e->goff_total += r;
		size_t tot = 0; for (int i = 0; i < nmsgs; i++) tot += msg_len(i, true);
		if (e->goff_total >= tot) { e->got = nmsgs; e->done_rx = true; }
	    } else {
		size_t l = msg_len(e->got, false);
		msg_fill(exp, e->got, l);
		if ((size_t)r != l || memcmp(exp, rbuf, l)) e->bad++;
		if (++e->got == nmsgs) e->done_rx = true;
	    }
	    return;
	}
	if (r == 0) { *failed = true; *err_no = EPIPE; *err_at = "early-close"; return; }
	if (errno != EAGAIN) { *failed = true; *err_no = errno; *err_at = "receive"; return; }
    }
    if (e->sent < nmsgs) {
	size_t l = msg_len(e->sent, bs);
	msg_fill(sbuf, e->sent, l);
	int r = bs ? xcm_send(e->s, sbuf + e->soff, l - e->soff) : xcm_send(e->s, sbuf, l);
	if (r >= 0) { *progress = true; if (bs) { e->soff += r; if (e->soff == l) { e->soff = 0; e->sent++; } } else e->sent++; }
	else if (errno != EAGAIN) { *failed = true; *err_no = errno; *err_at = "send"; }
    } else {
	int r = xcm_finish(e->s);
	if (r == 0) *progress = true;
	else if (errno != EAGAIN) { *failed = true; *err_no = errno; *err_at = "finish"; }
    }
}

static void run_duplex(FILE *o, const char *proto, int nmsgs, unsigned seed)
{
    bool bs = sys_is_bytestream(proto);
    struct trio t;
    int saved = inject; inject = 0;
    int erc = sys_establish(proto, &t, NULL, NULL);
    inject = saved;
    if (erc < 0) { fprintf(o, "fail establish %s\n", h_errname(errno)); sys_close_trio(&t); return; }
    struct dend e[2] = { { .s = t.client, .last = -1 }, { .s = t.accepted, .last = -1 } };
    bool stall = false, failed = false; int err_no = 0; const char *err_at = "";
    int idle = 0, iter = 0, spins = 0;
    double t0 = now();
    while (!failed) {
	iter++;
	bool all = true;
	for (int i = 0; i < 2; i++) if (!(e[i].sent == nmsgs && e[i].done_rx)) all = false;
	if (all) {
	    int f0 = xcm_finish(e[0].s), f1 = xcm_finish(e[1].s);
	    if (f0 == 0 && f1 == 0) break;
	}
	struct pollfd p[2];
	bool can_read[2];
	for (int i = 0; i < 2; i++) {
	    if (e[i].pause_until < now() && rand_r(&seed) % 40 == 0) e[i].pause_until = now() + 0.02 + (rand_r(&seed) % 60) / 1000.0;
	    can_read[i] = now() >= e[i].pause_until;
	    int cond = (can_read[i] && !e[i].done_rx ? XCM_SO_RECEIVABLE : 0) | (e[i].sent < nmsgs ? XCM_SO_SENDABLE : 0);
	    await_if_changed(e[i].s, &e[i].last, cond);
	    p[i].fd = xcm_fd(e[i].s); p[i].events = POLLIN;
	}
	int rc = poll(p, 2, 10);
	if (rc == 0) { if (++idle > 400) { stall = true; break; } continue; }
	idle = 0;
	bool progress = false;
	for (int i = 0; i < 2 && !failed; i++)
	    if (p[i].revents & POLLIN) duplex_io(&e[i], bs, nmsgs, can_read[i], &progress, &failed, &err_no, &err_at);
	if (!progress) spins++;
	if (now() - t0 > 60) { stall = true; break; }
    }
    fprintf(o, "duplex sent=%d,%d got=%d,%d bad=%d complete=%d stall=%d failed=%s%s iter=%d spins=%d eagain=%ld short=%ld t=%.2f\n",
	    e[0].sent, e[1].sent, e[0].got, e[1].got, e[0].bad + e[1].bad, e[0].sent == nmsgs && e[1].sent == nmsgs && e[0].done_rx && e[1].done_rx,
	    stall, failed ? h_errname(err_no) : "-", failed ? err_at : "", iter, spins, n_eagain, n_short, now() - t0);
    sys_close_trio(&t);
}

/* ---- blocking forms ------------------------------------------------------------------------- */
struct bctx { const char *proto; char addr[300]; int nmsgs; int got, bad; bool close_seen; int err; const char *at; struct xcm_socket *srv; };

static void *b_sender(void *arg)
{
    struct bctx *c = arg;
    bool bs = sys_is_bytestream(c->proto);
    struct xcm_attr_map *m = sys_base_attrs(c->proto, false);
    struct xcm_socket *s = xcm_connect_a(c->addr, m);
    xcm_attr_map_destroy(m);
    if (!s) { c->err = errno; c->at = "connect"; return NULL; }
    static __thread char b[70000];
    for (int i = 0; i < c->nmsgs; i++) {
	size_t l = msg_len(i, bs), off = 0;
	msg_fill(b, i, l);
	while (off < l) {
	    int rc = xcm_send(s, b + off, l - off);
	    if (rc < 0) { c->err = errno; c->at = "send"; xcm_close(s); return NULL; }
	    off += bs ? (size_t)rc : l;
	}
    }
    /* wait for the receiver's acknowledgement (a blocking xcm_receive), so that the close cannot reset the connection
       under data that is still in flight */
    char ack[4];
    int arc = xcm_receive(s, ack, sizeof(ack));
    if (arc <= 0) { c->err = arc < 0 ? errno : EPIPE; c->at = "ack"; }
    xcm_close(s);
    return NULL;
}

static void *b_receiver(void *arg)
{
    struct bctx *c = arg;
    bool bs = sys_is_bytestream(c->proto);
    struct xcm_socket *a = xcm_accept(c->srv);
    if (!a) { c->err = errno; c->at = "accept"; return NULL; }
    static __thread char b[70000], e[70000];
    size_t total = 0, expect = 0;
    bool acked = false;
    for (int i = 0; i < c->nmsgs; i++) expect += msg_len(i, true);
    for (;;) {
	if (!acked && (bs ? total == expect : c->got == c->nmsgs)) {
	    if (xcm_send(a, "k", 1) < 0) { c->err = errno; c->at = "acksend"; break; }
	    acked = true;
	}
	int rc = xcm_receive(a, b, sizeof(b));
	if (rc == 0) { c->close_seen = true; break; }
	if (rc < 0) { c->err = errno; c->at = "receive"; break; }
	if (bs) total += rc;
	else { size_t l = msg_len(c->got, false); msg_fill(e, c->got, l); if ((size_t)rc != l || memcmp(e, b, l)) c->bad++; c->got++; }
    }
    if (bs) c->got = total == expect ? c->nmsgs : -1;
    xcm_close(a);
    return NULL;
}

static void run_block(FILE *o, const char *proto, int nmsgs)
{
    struct bctx c; memset(&c, 0, sizeof(c));
    c.proto = proto; c.nmsgs = nmsgs; c.at = "";
    char addr[300]; sys_addr(proto, addr, sizeof(addr));
    int saved = inject; inject = 0;
    struct xcm_attr_map *m = sys_base_attrs(proto, false);
    c.srv = xcm_server_a(addr, m);
    xcm_attr_map_destroy(m);
    inject = saved;
    if (!c.srv) { fprintf(o, "fail server %s\n", h_errname(errno)); return; }
    snprintf(c.addr, sizeof(c.addr), "%s", xcm_local_addr(c.srv));
    double t0 = now();
    pthread_t ts, tr;
    pthread_create(&tr, NULL, b_receiver, &c);
    pthread_create(&ts, NULL, b_sender, &c);
    struct timespec dl; clock_gettime(CLOCK_REALTIME, &dl); dl.tv_sec += 40;
    int j1 = pthread_timedjoin_np(ts, NULL, &dl);
    int j2 = pthread_timedjoin_np(tr, NULL, &dl);
    fprintf(o, "block got=%d/%d bad=%d close_seen=%d hung=%d err=%s%s eagain=%ld short=%ld t=%.2f\n", c.got, nmsgs, c.bad, c.close_seen,
	    (j1 != 0) + (j2 != 0), c.err ? h_errname(c.err) : "-", c.at, n_eagain, n_short, now() - t0);
    fflush(o);
    if (j1 || j2) _exit(3);       /* threads are stuck in the library: nothing more can be done in this process */
    xcm_close(c.srv);
}

int main(void)
{
    static char line[H_LINE_MAX];
    char *w[H_MAXW];
    FILE *o = stdout;
    while (fgets(line, sizeof(line), stdin)) {
	int n = h_words(line, w);
	if (n == 0 || w[0][0] == '#') continue;
	n_eagain = n_short = 0;
	if (!strcmp(w[0], "LOOP") && n == 5) { inject = atoi(w[3]); fseed = atoi(w[4]) * 2654435761u + 1; run_loop(o, w[1], atoi(w[2]), atoi(w[4]), false); inject = 0; }
	else if (!strcmp(w[0], "SPEC") && n == 5) { inject = atoi(w[3]); fseed = atoi(w[4]) * 2654435761u + 1; run_loop(o, w[1], atoi(w[2]), atoi(w[4]), true); inject = 0; }
	else if (!strcmp(w[0], "DUPLEX") && n == 5) { inject = atoi(w[3]); fseed = atoi(w[4]) * 2654435761u + 1; run_duplex(o, w[1], atoi(w[2]), atoi(w[4])); inject = 0; }
	else if (!strcmp(w[0], "BLOCK") && n == 5) { inject = atoi(w[3]); fseed = atoi(w[4]) * 2654435761u + 1; run_block(o, w[1], atoi(w[2])); inject = 0; }
	else fputs("bad-op\n", o);
	fflush(o);
    }
    return 0;
}
