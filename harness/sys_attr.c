/* System harness for attribute access (C10, C11): real sockets of every transport, every access
   function, canary-framed buffers.  Commands on stdin, one result line each. */
#include "sysutil.h"

#define MAXS 16
static struct xcm_socket *socks[MAXS];
static char labels[MAXS][32];
static int nsocks;
static struct trio trio;

static int add_sock(const char *label, struct xcm_socket *s)
{
    if (s == NULL || nsocks >= MAXS) return -1;
    snprintf(labels[nsocks], sizeof(labels[0]), "%s", label);
    socks[nsocks] = s;
    return nsocks++;
}

static struct xcm_socket *find(const char *label)
{
    for (int i = 0; i < nsocks; i++)
	if (!strcmp(labels[i], label)) return socks[i];
    return NULL;
}

static const char *tname(enum xcm_attr_type t)
{
    switch (t) {
    case xcm_attr_type_bool: return "bool";
    case xcm_attr_type_int64: return "int64";
    case xcm_attr_type_double: return "double";
    case xcm_attr_type_str: return "str";
    case xcm_attr_type_bin: return "bin";
    default: return "?";
    }
}

static int tnum(const char *n)
{
    if (!strcmp(n, "bool")) return xcm_attr_type_bool;
    if (!strcmp(n, "int64")) return xcm_attr_type_int64;
    if (!strcmp(n, "double")) return xcm_attr_type_double;
    if (!strcmp(n, "str")) return xcm_attr_type_str;
    if (!strcmp(n, "bin")) return xcm_attr_type_bin;
    return atoi(n);           /* invalid type numbers are passed through */
}

static void list_cb(const char *name, enum xcm_attr_type type, void *value, size_t len, void *data)
{
    FILE *o = data;
    fprintf(o, " %s:%s:%zu", name, tname(type), len);
}

static bool is_volatile(const char *name)
{
    return !strcmp(name, "tcp.rtt") || !strcmp(name, "tcp.segs_in") || !strcmp(name, "tcp.segs_out") ||
	!strcmp(name, "tcp.total_retrans");
}

struct snap { char *buf; size_t len, cap; };

static void snap_cb(const char *name, enum xcm_attr_type type, void *value, size_t len, void *data)
{
    struct snap *s = data;
    if (is_volatile(name)) return;
    size_t need = strlen(name) + len + 16;
    if (s->len + need > s->cap) { s->cap = (s->len + need) * 2; s->buf = realloc(s->buf, s->cap); }
    s->len += sprintf(s->buf + s->len, "%s=%d:", name, (int)type);
    memcpy(s->buf + s->len, value, len);
    s->len += len;
    s->buf[s->len++] = ';';
}

static uint64_t snapshot(struct xcm_socket *s)
{
    struct snap sn = { NULL, 0, 0 };
    xcm_attr_get_all(s, snap_cb, &sn);
    uint64_t h = h_fnv(sn.buf ? sn.buf : "", sn.len);
    free(sn.buf);
    return h;
}

#define PAD 64

/* one get through `api` into a buffer of exactly `cap` usable bytes framed by canaries; run twice
   with different fill patterns to learn which bytes were written */
static void do_get(FILE *o, struct xcm_socket *s, const char *name, const char *api, size_t cap)
{
    int rcs[2], errs[2];
    enum xcm_attr_type types[2] = { -1, -1 };
    uint8_t fills[2] = { 0xA5, 0x5A };
    size_t total = cap + 2 * PAD;
    uint8_t *bufs[2];
    for (int r = 0; r < 2; r++) {
	bufs[r] = malloc(total);
	memset(bufs[r], fills[r], total);
	void *v = bufs[r] + PAD;
	errno = 0;
	int rc;
	if (!strcmp(api, "get")) rc = xcm_attr_get(s, name, &types[r], v, cap);
	else if (!strcmp(api, "get_notype")) rc = xcm_attr_get(s, name, NULL, v, cap);
	else if (!strcmp(api, "str")) rc = xcm_attr_get_str(s, name, v, cap);
	else if (!strcmp(api, "bin")) rc = xcm_attr_get_bin(s, name, v, cap);
	else if (!strcmp(api, "bool")) rc = xcm_attr_get_bool(s, name, v);
	else if (!strcmp(api, "int64")) rc = xcm_attr_get_int64(s, name, v);
	else if (!strcmp(api, "double")) rc = xcm_attr_get_double(s, name, v);
	else if (!strcmp(api, "getf")) rc = xcm_attr_getf(s, &types[r], v, cap, "%s", name);
	else if (!strcmp(api, "getf_str")) rc = xcm_attr_getf_str(s, v, cap, "%s", name);
	else if (!strcmp(api, "getf_bin")) rc = xcm_attr_getf_bin(s, v, cap, "%s", name);
	else if (!strcmp(api, "getf_bool")) rc = xcm_attr_getf_bool(s, v, "%s", name);
	else if (!strcmp(api, "getf_int64")) rc = xcm_attr_getf_int64(s, v, "%s", name);
	else if (!strcmp(api, "getf_double")) rc = xcm_attr_getf_double(s, v, "%s", name);
	else { fputs("bad-op\n", o); free(bufs[r]); if (r) free(bufs[0]); return; }
	rcs[r] = rc; errs[r] = errno;
    }
    /* written = 1 + highest index (relative to the value pointer) changed in either run;
       beyond = any byte at index >= cap, or before the buffer, changed */
    long hi = -1; bool beyond = false;
    for (size_t i = 0; i < total; i++) {
	bool ch = bufs[0][i] != fills[0] || bufs[1][i] != fills[1];
	if (!ch) continue;
	if (i < PAD || i >= PAD + cap) beyond = true;
	if ((long)i - PAD > hi) hi = (long)i - PAD;
    }
    fprintf(o, "%d %s %ld %d %s", rcs[0], rcs[0] < 0 ? h_errname(errs[0]) : "-", hi + 1, beyond ? 1 : 0,
	    (int)types[0] >= 0 ? tname(types[0]) : "-");
    if (rcs[0] != rcs[1] || (rcs[0] < 0 && errs[0] != errs[1])) fputs(" unstable", o);
    fputc('\n', o);
    free(bufs[0]); free(bufs[1]);
}

int main(void)
{
    static char line[H_LINE_MAX];
    char *w[H_MAXW];
    FILE *o = stdout;
    while (fgets(line, sizeof(line), stdin)) {
	int n = h_words(line, w);
	if (n == 0 || w[0][0] == '#') continue;
	if (!strcmp(w[0], "E") && n == 2) {
	    int rc = sys_establish(w[1], &trio, NULL, NULL);
	    if (rc < 0) { fprintf(o, "fail %s\n", h_errname(errno)); }
	    else {
		add_sock("server", trio.server); add_sock("client", trio.client); add_sock("accepted", trio.accepted);
		fputs("ok\n", o);
	    }
	} else if (!strcmp(w[0], "C") && n == 2) {
	    /* a second client that is left in whatever phase xcm_connect_a reaches */
	    struct xcm_attr_map *m = sys_base_attrs(w[1], true);
	    struct xcm_socket *c = xcm_connect_a(trio.addr, m);
	    xcm_attr_map_destroy(m);
	    if (c == NULL) fprintf(o, "fail %s\n", h_errname(errno));
	    else { add_sock("connecting", c); fputs("ok\n", o); }
	} else if (!strcmp(w[0], "P") && n == 1) {
	    /* the accepted side goes away; the client notices on its next receive */
	    struct xcm_socket *a = find("accepted");
	    for (int i = 0; i < nsocks; i++) if (socks[i] == a) { snprintf(labels[i], sizeof(labels[0]), "gone"); socks[i] = NULL; }
	    xcm_close(a);
	    trio.accepted = NULL;
	    char b[16]; int rc = -1;
	    for (int i = 0; i < 200; i++) { rc = xcm_receive(trio.client, b, sizeof(b)); if (rc == 0 || (rc < 0 && errno != EAGAIN)) break; usleep(1000); }
	    fprintf(o, "ok %d\n", rc);
	} else if (!strcmp(w[0], "L") && n == 2) {
	    struct xcm_socket *s = find(w[1]);
	    if (!s) { fputs("nosock\n", o); } else {
		fputs("attrs", o);
		xcm_attr_get_all(s, list_cb, o);
		fputc('\n', o);
	    }
	} else if (!strcmp(w[0], "G") && n == 5) {
	    struct xcm_socket *s = find(w[1]);
	    size_t l; uint8_t *name = h_unhex(w[2], &l);
	    if (!s) fputs("nosock\n", o); else do_get(o, s, (char *)name, w[3], strtoul(w[4], NULL, 10));
	    free(name);
	} else if (!strcmp(w[0], "T") && n == 5) {
	    /* T <sock> <hexname> <type> <hexvalue>: set; reports rc, errno, whether the visible attribute
	       state changed, and (on success) whether the value reads back */
	    struct xcm_socket *s = find(w[1]);
	    size_t l, vl; uint8_t *name = h_unhex(w[2], &l); uint8_t *val = h_unhex(w[4], &vl);
	    if (!s) { fputs("nosock\n", o); } else {
		uint8_t *ex = malloc(vl ? vl : 1); memcpy(ex, val, vl);     /* exact-size copy: over-reads trip ASan */
		uint64_t before = snapshot(s);
		errno = 0;
		int rc = xcm_attr_set(s, (char *)name, tnum(w[3]), ex, vl);
		int e = errno;
		uint64_t after = snapshot(s);
		int rb = -1;
		if (rc == 0) {
		    uint8_t *back = malloc(vl + 64);
		    enum xcm_attr_type bt;
		    int grc = xcm_attr_get(s, (char *)name, &bt, back, vl + 64);
		    rb = (grc == (int)vl && (int)bt == tnum(w[3]) && memcmp(back, ex, vl) == 0) ? 1 : 0;
		    free(back);
		}
		fprintf(o, "%d %s %d %d\n", rc, rc < 0 ? h_errname(e) : "-", before != after, rb);
		free(ex);
	    }
	    free(name); free(val);
	} else if (!strcmp(w[0], "X") && n == 1) {
	    for (int i = 0; i < nsocks; i++)
		if (socks[i] && socks[i] != trio.server && socks[i] != trio.client && socks[i] != trio.accepted)
		    xcm_close(socks[i]);
	    sys_close_trio(&trio);
	    nsocks = 0;
	    fputs("ok\n", o);
	} else
	    fputs("bad-op\n", o);
	fflush(o);
    }
    return 0;
}
