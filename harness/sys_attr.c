/* System harness for attribute access (C10, C11): real sockets of every transport, every access
   function, canary-framed buffers.  Commands on stdin, one result line each. */
#include "sysutil.h"

#define MAXS 16
static struct xcm_socket *socks[MAXS];
static char labels[MAXS][32];
static int nsocks;
static struct trio trio;

static int add_sock(const char *label, struct xcm_socket *s)
{
    if (s == NULL || nsocks >= MAXS) return -1;
    snprintf(labels[nsocks], sizeof(labels[0]), "%s", label);
    socks[nsocks] = s;
    return nsocks++;
}

static struct xcm_socket *find(const char *label)
{
    for (int i = 0; i < nsocks; i++)
	if (!strcmp(labels[i], label)) return socks[i];
    return NULL;
}

static const char *tname(enum xcm_attr_type t)
{
    switch (t) {
    case xcm_attr_type_bool: return "bool";
    case xcm_attr_type_int64: return "int64";
    case xcm_attr_type_double: return "double";
    case xcm_attr_type_str: return "str";
    case xcm_attr_type_bin: return "bin";
    default: return "?";
    }
}

static int tnum(const char *n)
{
    if (!strcmp(n, "bool")) return xcm_attr_type_bool;
    if (!strcmp(n, "int64")) return xcm_attr_type_int64;
    if (!strcmp(n, "double")) return xcm_attr_type_double;
    if (!strcmp(n, "str")) return xcm_attr_type_str;
    if (!strcmp(n, "bin")) return xcm_attr_type_bin;
    return atoi(n);           /* invalid type numbers are passed through */
}

static void list_cb(const char *name, enum xcm_attr_type type, void *value, size_t len, void *data)
{
    FILE *o = data;
    fprintf(o, " %s:%s:%zu", name, tname(type), len);
}

static bool is_volatile(const char *name)
{
    return !strcmp(name, "tcp.rtt") || !strcmp(name, "tcp.segs_in") || !strcmp(name, "tcp.segs_out") ||
	!strcmp(name, "tcp.total_retrans");
}

struct snap { char *buf; size_t len, cap; };

static void snap_cb(const char *name, enum xcm_attr_type type, void *value, size_t len, void *data)
{
    struct snap *s = data;
    if (is_volatile(name)) return;
    size_t need = strlen(name) + len + 16;
    if (s->len + need > s->cap) { s->cap = (s->len + need) * 2; s->buf = realloc(s->buf, s->cap); }
    s->len += sprintf(s->buf + s->len, "%s=%d:", name, (int)type);
    memcpy(s->buf + s->len, value, len);
    s->len += len;
    s->buf[s->len++] = ';';
}

static uint64_t snapshot(struct xcm_socket *s)
{
    struct snap sn = { NULL, 0, 0 };
    xcm_attr_get_all(s, snap_cb, &sn);
    uint64_t h = h_fnv(sn.buf ? sn.buf : "", sn.len);
    free(sn.buf);
    return h;
}

#define PAD 64

/* one get through `api` into a buffer of exactly `cap` usable bytes framed by canaries; run twice
   with different fill patterns to learn which bytes were written */
static void do_get(FILE *o, struct xcm_socket *s, const char *name, const char *api, size_t cap)
{
    int rcs[2], errs[2];
    enum xcm_attr_type types[2] = { -1, -1 };
    uint8_t fills[2] = { 0xA5, 0x5A };
    size_t total = cap + 2 * PAD;
    uint8_t *bufs[2];
    for (int r = 0; r < 2; r++) {
	bufs[r] = malloc(total);
	memset(bufs[r], fills[r], total);
	void *v = bufs[r] + PAD;
	errno = 0;
	int rc;
	if (!strcmp(api, "get")) rc = xcm_attr_get(s, name, &types[r], v, cap);
	else if (!strcmp(api, "get_notype")) rc = xcm_attr_get(s, name, NULL, v, cap);
	else if (!strcmp(api, "str")) rc = xcm_attr_get_str(s, name, v, cap);
	else if (!strcmp(api, "bin")) rc = xcm_attr_get_bin(s, name, v, cap);
	else if (!strcmp(api, "bool")) rc = xcm_attr_get_bool(s, name, v);
	else if (!strcmp(api, "int64")) rc = xcm_attr_get_int64(s, name, v);
	else if (!strcmp(api, "double")) rc = xcm_attr_get_double(s, name, v);
	else if (!strcmp(api, "getf")) rc = xcm_attr_getf(s, &types[r], v, cap, "%s", name);
	else if (!strcmp(api, "getf_str")) rc = xcm_attr_getf_str(s, v, cap, "%s", name);
	else if (!strcmp(api, "getf_bin")) rc = xcm_attr_getf_bin(s, v, cap, "%s", name);
	else if (!strcmp(api, "getf_bool")) rc = xcm_attr_getf_bool(s, v, "%s", name);
	else if (!strcmp(api, "getf_int64")) rc = xcm_attr_getf_int64(s, v, "%s", name);
	else if (!strcmp(api, "getf_double")) rc = xcm_attr_getf_double(s, v, "%s", name);
	else { fputs("bad-op\n", o); free(bufs[r]); if (r) free(bufs[0]); return; }
	rcs[r] = rc; errs[r] = errno;
    }
    /* written = 1 + highest index (relative to the value pointer) changed in either run;
       beyond = any byte at index >= cap, or before the buffer, changed */
    long hi = -1; bool beyond = false;
    for (size_t i = 0; i < total; i++) {
	bool ch = bufs[0][i] != fills[0] || bufs[1][i] != fills[1];
	if (!ch) continue;
	if (i < PAD || i >= PAD + cap) beyond = true;
	if ((long)i - PAD > hi) hi = (long)i - PAD;
    }
    fprintf(o, "%d %s %ld %d %s", rcs[0], rcs[0] < 0 ? h_errname(errs[0]) : "-", hi + 1, beyond ? 1 : 0,
	    (int)types[0] >= 0 ? tname(types[0]) : "-");
    if (rcs[0] != rcs[1] || (rcs[0] < 0 && errs[0] != errs[1])) fputs(" unstable", o);
    fputc('\n', o);
    free(bufs[0]); free(bufs[1]);
}

#include <netinet/in.h>
#include <netinet/tcp.h>
#include <arpa/inet.h>
#include <sys/socket.h>

/* the kernel descriptor whose local TCP port is the one in an XCM address "proto:ip:port" */
static int fd_by_local_addr(const char *xaddr)
{
    const char *c = xaddr ? strrchr(xaddr, ':') : NULL;
    if (!c) return -1;
    int port = atoi(c + 1);
    for (int fd = 3; fd < 1024; fd++) {
	struct sockaddr_in sa; socklen_t l = sizeof(sa);
	int type; socklen_t tl = sizeof(type);
	if (getsockopt(fd, SOL_SOCKET, SO_TYPE, &type, &tl) < 0 || type != SOCK_STREAM) continue;
	if (getsockname(fd, (struct sockaddr *)&sa, &l) < 0 || sa.sin_family != AF_INET) continue;
	struct sockaddr_in pa; socklen_t pl = sizeof(pa);
	if (getpeername(fd, (struct sockaddr *)&pa, &pl) < 0) continue;      /* listening socket */
	if (ntohs(sa.sin_port) == port) return fd;
    }
    return -1;
}

static void show_kernel_opts(FILE *o, int fd)
{
    int ka = -1, idle = -1, intvl = -1, cnt = -1, ut = -1; socklen_t l;
    l = sizeof(ka); getsockopt(fd, SOL_SOCKET, SO_KEEPALIVE, &ka, &l);
    l = sizeof(idle); getsockopt(fd, SOL_TCP, TCP_KEEPIDLE, &idle, &l);
    l = sizeof(intvl); getsockopt(fd, SOL_TCP, TCP_KEEPINTVL, &intvl, &l);
    l = sizeof(cnt); getsockopt(fd, SOL_TCP, TCP_KEEPCNT, &cnt, &l);
    l = sizeof(ut); getsockopt(fd, SOL_TCP, TCP_USER_TIMEOUT, &ut, &l);
    fprintf(o, "%d,%d,%d,%d,%d", ka != 0, idle, intvl, cnt, ut / 1000);
}

static void show_xcm_opts(FILE *o, struct xcm_socket *s)
{
    bool ka = false; int64_t t = -1, i = -1, c = -1, u = -1;
    xcm_attr_get_bool(s, "tcp.keepalive", &ka);
    xcm_attr_get_int64(s, "tcp.keepalive_time", &t);
    xcm_attr_get_int64(s, "tcp.keepalive_interval", &i);
    xcm_attr_get_int64(s, "tcp.keepalive_count", &c);
    xcm_attr_get_int64(s, "tcp.user_timeout", &u);
    fprintf(o, "%d,%lld,%lld,%lld,%lld", ka, (long long)t, (long long)i, (long long)c, (long long)u);
}

/* "name=value,name=value" (tcp.* options: keepalive is bool, the rest int64) */
static int apply_list(struct xcm_socket *s, struct xcm_attr_map *m, const char *list, FILE *o)
{
    if (!strcmp(list, "-")) return 0;
    char *dup = strdup(list), *save = NULL;
    int fails = 0;
    for (char *t = strtok_r(dup, ",", &save); t; t = strtok_r(NULL, ",", &save)) {
	char *eq = strchr(t, '='); if (!eq) continue;
	*eq = 0;
	char name[64];
	snprintf(name, sizeof(name), "tcp.%s%s", (!strcmp(t, "time") || !strcmp(t, "interval") || !strcmp(t, "count")) ? "keepalive_" : "", t);
	long long v = atoll(eq + 1);
	if (!strcmp(t, "keepalive")) {
	    if (m) xcm_attr_map_add_bool(m, name, v != 0);
	    else if (xcm_attr_set_bool(s, name, v != 0) < 0) fails++;
	} else {
	    if (m) xcm_attr_map_add_int64(m, name, v);
	    else if (xcm_attr_set_int64(s, name, v) < 0) fails++;
	}
    }
    free(dup);
    return fails;
}

#include <pthread.h>
static struct xcm_socket *drain_sock; static volatile int drain_stop;
static void *drainer(void *arg)
{
    static char b[70000];
    usleep(150000);
    while (!drain_stop) { int rc = xcm_receive(drain_sock, b, sizeof(b)); if (rc < 0 && errno == EAGAIN) usleep(500); else if (rc <= 0) break; }
    return NULL;
}

int main(void)
{
    static char line[H_LINE_MAX];
    char *w[H_MAXW];
    FILE *o = stdout;
    while (fgets(line, sizeof(line), stdin)) {
	int n = h_words(line, w);
	if (n == 0 || w[0][0] == '#') continue;
	if (!strcmp(w[0], "E") && n == 2) {
	    int rc = sys_establish(w[1], &trio, NULL, NULL);
	    if (rc < 0) { fprintf(o, "fail %s\n", h_errname(errno)); }
	    else {
		add_sock("server", trio.server); add_sock("client", trio.client); add_sock("accepted", trio.accepted);
		fputs("ok\n", o);
	    }
	} else if (!strcmp(w[0], "C") && n == 2) {
	    /* a second client that is left in whatever phase xcm_connect_a reaches */
	    struct xcm_attr_map *m = sys_base_attrs(w[1], true);
	    struct xcm_socket *c = xcm_connect_a(trio.addr, m);
	    xcm_attr_map_destroy(m);
	    if (c == NULL) fprintf(o, "fail %s\n", h_errname(errno));
	    else { add_sock("connecting", c); fputs("ok\n", o); }
	} else if (!strcmp(w[0], "P") && n == 1) {
	    /* the accepted side goes away; the client notices on its next receive */
	    struct xcm_socket *a = find("accepted");
	    for (int i = 0; i < nsocks; i++) if (socks[i] == a) { snprintf(labels[i], sizeof(labels[0]), "gone"); socks[i] = NULL; }
	    xcm_close(a);
	    trio.accepted = NULL;
	    char b[16]; int rc = -1;
	    for (int i = 0; i < 200; i++) { rc = xcm_receive(trio.client, b, sizeof(b)); if (rc == 0 || (rc < 0 && errno != EAGAIN)) break; usleep(1000); }
	    fprintf(o, "ok %d\n", rc);
	} else if (!strcmp(w[0], "L") && n == 2) {
	    struct xcm_socket *s = find(w[1]);
	    if (!s) { fputs("nosock\n", o); } else {
		fputs("attrs", o);
		xcm_attr_get_all(s, list_cb, o);
		fputc('\n', o);
	    }
	} else if (!strcmp(w[0], "G") && n == 5) {
	    struct xcm_socket *s = find(w[1]);
	    size_t l; uint8_t *name = h_unhex(w[2], &l);
	    if (!s) fputs("nosock\n", o); else do_get(o, s, (char *)name, w[3], strtoul(w[4], NULL, 10));
	    free(name);
	} else if (!strcmp(w[0], "T") && n == 5) {
	    /* T <sock> <hexname> <type> <hexvalue>: set; reports rc, errno, whether the visible attribute
	       state changed, and (on success) whether the value reads back */
	    struct xcm_socket *s = find(w[1]);
	    size_t l, vl; uint8_t *name = h_unhex(w[2], &l); uint8_t *val = h_unhex(w[4], &vl);
	    if (!s) { fputs("nosock\n", o); } else {
		uint8_t *ex = malloc(vl ? vl : 1); memcpy(ex, val, vl);     /* exact-size copy: over-reads trip ASan */
		uint64_t before = snapshot(s);
		errno = 0;
		int rc = xcm_attr_set(s, (char *)name, tnum(w[3]), ex, vl);
		int e = errno;
		uint64_t after = snapshot(s);
		int rb = -1;
		if (rc == 0) {
		    uint8_t *back = malloc(vl + 64);
		    enum xcm_attr_type bt;
		    int grc = xcm_attr_get(s, (char *)name, &bt, back, vl + 64);
		    rb = (grc == (int)vl && (int)bt == tnum(w[3]) && memcmp(back, ex, vl) == 0) ? 1 : 0;
		    free(back);
		}
		fprintf(o, "%d %s %d %d\n", rc, rc < 0 ? h_errname(e) : "-", before != after, rb);
		free(ex);
	    }
	    free(name); free(val);
	} else if (!strcmp(w[0], "K") && n == 6) {
	    /* K <proto> <pre> <during> <post> <accept>: TCP options given in the attribute map of xcm_connect_a, set
	       between xcm_connect_a and establishment, set afterwards; and in the map of xcm_accept_a.
	       Prints what XCM reports and what the kernel socket really has, for both ends. */
	    struct trio t; memset(&t, 0, sizeof(t));
	    char addr[300]; sys_addr(w[1], addr, sizeof(addr));
	    struct xcm_attr_map *sm = sys_base_attrs(w[1], true);
	    t.server = xcm_server_a(addr, sm); xcm_attr_map_destroy(sm);
	    if (!t.server) { fprintf(o, "fail server %s\n", h_errname(errno)); fflush(o); continue; }
	    snprintf(t.addr, sizeof(t.addr), "%s", xcm_local_addr(t.server));
	    struct xcm_attr_map *cm = sys_base_attrs(w[1], true);
	    apply_list(NULL, cm, w[2], o);
	    t.client = xcm_connect_a(t.addr, cm); xcm_attr_map_destroy(cm);
	    if (!t.client) { fprintf(o, "fail connect %s\n", h_errname(errno)); xcm_close(t.server); fflush(o); continue; }
	    int f1 = apply_list(t.client, NULL, w[3], o);
	    struct xcm_attr_map *am = xcm_attr_map_create();
	    xcm_attr_map_add_bool(am, "xcm.blocking", false);
	    apply_list(NULL, am, w[5], o);
	    for (int i = 0; i < 2000 && !t.accepted; i++) { t.accepted = xcm_accept_a(t.server, am); if (!t.accepted) { xcm_finish(t.client); usleep(500); } }
	    xcm_attr_map_destroy(am);
	    int prc = t.accepted ? sys_pump(&t, 4000) : -1;
	    int f2 = apply_list(t.client, NULL, w[4], o);
	    if (prc < 0) fprintf(o, "fail establish %s\n", h_errname(errno));
	    else {
		int cfd = fd_by_local_addr(xcm_local_addr(t.client));
		int afd = fd_by_local_addr(xcm_remote_addr(t.client)) ;
		/* the accepted socket's local port is the server port: identify it through its peer = client's local */
		afd = -1;
		{
		    const char *c = strrchr(xcm_local_addr(t.client), ':'); int cport = c ? atoi(c + 1) : -1;
		    for (int fd = 3; fd < 1024; fd++) {
			struct sockaddr_in pa; socklen_t pl = sizeof(pa);
			if (getpeername(fd, (struct sockaddr *)&pa, &pl) == 0 && pa.sin_family == AF_INET && ntohs(pa.sin_port) == cport) { afd = fd; break; }
		    }
		}
		fprintf(o, "client xcm="); show_xcm_opts(o, t.client); fprintf(o, " kernel="); show_kernel_opts(o, cfd);
		fprintf(o, " accepted xcm="); show_xcm_opts(o, t.accepted); fprintf(o, " kernel="); show_kernel_opts(o, afd);
		fprintf(o, " setfails=%d,%d\n", f1, f2);
	    }
	    sys_close_trio(&t);
	} else if (!strcmp(w[0], "LA") && n == 3) {
	    /* LA <proto> <local xcm addr>: xcm.local_addr on connect; prints the client's local and the peer-visible address */
	    struct trio t;
	    struct xcm_attr_map *m = xcm_attr_map_create();
	    xcm_attr_map_add_str(m, "xcm.local_addr", w[2]);
	    int rc = sys_establish(w[1], &t, m, NULL);
	    xcm_attr_map_destroy(m);
	    if (rc < 0) fprintf(o, "fail %s\n", h_errname(errno));
	    else fprintf(o, "local=%s seen_by_peer=%s\n", xcm_local_addr(t.client), xcm_remote_addr(t.accepted));
	    sys_close_trio(&t);
	} else if (!strcmp(w[0], "SV") && n == 4) {
	    /* SV <server|connect> <addr> <service> */
	    struct xcm_attr_map *m = xcm_attr_map_create();
	    xcm_attr_map_add_str(m, "xcm.service", w[3]);
	    xcm_attr_map_add_bool(m, "xcm.blocking", false);
	    errno = 0;
	    struct xcm_socket *s = !strcmp(w[1], "server") ? xcm_server_a(w[2], m) : xcm_connect_a(w[2], m);
	    int e = errno;
	    xcm_attr_map_destroy(m);
	    if (s) {
		char sv[64] = ""; xcm_attr_get_str(s, "xcm.service", sv, sizeof(sv));
		fprintf(o, "ok service=%s\n", sv);
		xcm_close(s);
	    } else fprintf(o, "null %s\n", h_errname(e));
	} else if (!strcmp(w[0], "BL") && n == 4) {
	    /* BL <sock> <api|attr> <0|1>: switch blocking mode one way, read it back both ways */
	    struct xcm_socket *s = find(w[1]);
	    if (!s) { fputs("nosock\n", o); } else {
		int rc = !strcmp(w[2], "api") ? xcm_set_blocking(s, atoi(w[3])) : xcm_attr_set_bool(s, "xcm.blocking", atoi(w[3]));
		bool a = false; xcm_attr_get_bool(s, "xcm.blocking", &a);
		fprintf(o, "%d is_blocking=%d attr=%d\n", rc, xcm_is_blocking(s), a);
	    }
	} else if (!strcmp(w[0], "BLK") && n == 3) {
	    /* BLK <proto> <api|attr>: switch to blocking mode while a message is still buffered in XCM (the peer
	       starts reading a little later, from another thread): the switch must finish the outstanding work */
	    struct trio t;
	    if (sys_establish(w[1], &t, NULL, NULL) < 0) { fprintf(o, "fail %s\n", h_errname(errno)); fflush(o); continue; }
	    static char big[60000]; memset(big, 'z', sizeof(big));
	    bool bs = sys_is_bytestream(w[1]);
	    int rc = 0, sent = 0, eagain = 0;
	    for (int i = 0; i < 4000 && eagain < 3; i++) {
		rc = xcm_send(t.client, big, sizeof(big));
		if (rc >= 0) { sent++; eagain = 0; } else if (errno == EAGAIN) eagain++; else break;
	    }
	    int64_t fa0 = -1, tl0 = -1;
	    xcm_attr_get_int64(t.client, bs ? "xcm.from_app_bytes" : "xcm.from_app_msgs", &fa0);
	    xcm_attr_get_int64(t.client, bs ? "xcm.to_lower_bytes" : "xcm.to_lower_msgs", &tl0);
	    pthread_t th; drain_sock = t.accepted; drain_stop = 0;
	    pthread_create(&th, NULL, drainer, NULL);
	    int src = !strcmp(w[2], "api") ? xcm_set_blocking(t.client, true) : xcm_attr_set_bool(t.client, "xcm.blocking", true);
	    int se = errno;
	    int64_t fa1 = -1, tl1 = -1;
	    xcm_attr_get_int64(t.client, bs ? "xcm.from_app_bytes" : "xcm.from_app_msgs", &fa1);
	    xcm_attr_get_int64(t.client, bs ? "xcm.to_lower_bytes" : "xcm.to_lower_msgs", &tl1);
	    drain_stop = 1; pthread_join(th, NULL);
	    fprintf(o, "blk rc=%d %s pending_before=%lld pending_after=%lld blocking=%d\n", src, src < 0 ? h_errname(se) : "-",
		    (long long)(fa0 - tl0), (long long)(fa1 - tl1), xcm_is_blocking(t.client));
	    sys_close_trio(&t);
	} else if (!strcmp(w[0], "IN") && n == 4) {
	    /* IN <proto> <server bool attrs k=v,...> <accept bool attrs>: what the accepted connection reports */
	    struct xcm_attr_map *sm = xcm_attr_map_create(), *am = xcm_attr_map_create();
	    for (int which = 0; which < 2; which++) {
		if (!strcmp(w[2 + which], "-")) continue;
		char *dup = strdup(w[2 + which]), *save = NULL;
		for (char *t = strtok_r(dup, ",", &save); t; t = strtok_r(NULL, ",", &save)) {
		    char *eq = strchr(t, '='); if (!eq) continue; *eq = 0;
		    xcm_attr_map_add_bool(which ? am : sm, t, atoi(eq + 1));
		}
		free(dup);
	    }
	    struct trio t; memset(&t, 0, sizeof(t)); t.proto = w[1];
	    char addr[300]; sys_addr(w[1], addr, sizeof(addr));
	    struct xcm_attr_map *bm = sys_base_attrs(w[1], true); xcm_attr_map_add_all(bm, sm);
	    t.server = xcm_server_a(addr, bm); xcm_attr_map_destroy(bm);
	    if (!t.server) { fprintf(o, "fail server %s\n", h_errname(errno)); }
	    else {
		snprintf(t.addr, sizeof(t.addr), "%s", xcm_local_addr(t.server));
		struct xcm_attr_map *cm = sys_base_attrs(w[1], true);
		xcm_attr_map_add_bool(cm, "tls.auth", false);          /* the client does not judge the server here */
		t.client = xcm_connect_a(t.addr, cm); xcm_attr_map_destroy(cm);
		xcm_attr_map_add_bool(am, "xcm.blocking", false);
		for (int i = 0; i < 2000 && !t.accepted && t.client; i++) { t.accepted = xcm_accept_a(t.server, am); if (!t.accepted) { xcm_finish(t.client); usleep(500); } }
		if (!t.accepted) fprintf(o, "fail accept %s\n", h_errname(errno));
		else {
		    const char *names[] = { "tls.auth", "tls.check_time", "tls.check_crl", "tls.verify_peer_name", "tls.client" };
		    fputs("accepted", o);
		    for (unsigned i = 0; i < sizeof(names) / sizeof(names[0]); i++) {
			bool sv = false, av = false;
			int r1 = xcm_attr_get_bool(t.server, names[i], &sv), r2 = xcm_attr_get_bool(t.accepted, names[i], &av);
			fprintf(o, " %s:%d/%d", names[i], r1 < 0 ? -1 : sv, r2 < 0 ? -1 : av);
		    }
		    char sv[64] = "", av[64] = "";
		    xcm_attr_get_str(t.server, "xcm.service", sv, sizeof(sv)); xcm_attr_get_str(t.accepted, "xcm.service", av, sizeof(av));
		    fprintf(o, " service:%s/%s\n", sv, av);
		}
	    }
	    sys_close_trio(&t);
	    xcm_attr_map_destroy(sm); xcm_attr_map_destroy(am);
	} else if (!strcmp(w[0], "X") && n == 1) {
	    for (int i = 0; i < nsocks; i++)
		if (socks[i] && socks[i] != trio.server && socks[i] != trio.client && socks[i] != trio.accepted)
		    xcm_close(socks[i]);
	    sys_close_trio(&trio);
	    nsocks = 0;
	    fputs("ok\n", o);
	} else
	    fputs("bad-op\n", o);
	fflush(o);
    }
    return 0;
}
