/* Correspondence harness for the lifecycle ladders of libxcm/core/xcm.c (xcm_connect_a, xcm_server_a, xcm_accept_a,
   xcm_close, xcm_cleanup).  The REAL file is #included; xpoll, the transport dispatch (xcm_tp_socket_*) and poll() are a
   scripted environment that keeps a ledger of what has been acquired and released. */
#include "hutil.h"
#include <stdarg.h>
#include <poll.h>
#include "xcm_tp.h"

static char trace[4096];
static void tr(const char *fmt, ...) { va_list ap; va_start(ap, fmt); size_t l = strlen(trace); if (l) trace[l++] = ' '; vsnprintf(trace + l, sizeof(trace) - l, fmt, ap); va_end(ap); }

#define MAXANS 16
static int ans[MAXANS], n_ans, used;      /* 0 = ok, else errno */
static int next_ans(void) { return used < n_ans ? ans[used++] : 0; }

/* ledger */
static int live_sock, live_xpoll, live_tp_init, live_tp_open, bad_release;
static size_t o_max_msg(struct xcm_socket *s) { return 65535; }
static struct xcm_tp_ops mock_ops = { .max_msg = o_max_msg };
static struct xcm_tp_proto mock_proto = { "mock", &mock_ops };

static const struct xcm_tp_proto *m_proto_by_addr(const char *a) { if (!strncmp(a, "none:", 5)) { errno = ENOPROTOOPT; return NULL; } return &mock_proto; }
static struct xcm_socket *m_tp_create(const struct xcm_tp_proto *p, enum xcm_socket_type t, struct xpoll *x, bool a, bool b, bool blocking)
{
    struct xcm_socket *s = calloc(1, sizeof(struct xcm_socket) + 64);
    s->proto = p; s->type = t; s->is_blocking = blocking;
    live_sock++; tr("sock+");
    return s;
}
static void m_tp_destroy(struct xcm_socket *s) { if (!s) return; if (live_sock <= 0) bad_release++; live_sock--; tr("sock-"); free(s); }
static struct xpoll *m_xpoll_create(void *ref) { int e = next_ans(); if (e) { errno = e; tr("xpoll!"); return NULL; } live_xpoll++; tr("xpoll+"); return (struct xpoll *)0x40; }
static void m_xpoll_destroy(struct xpoll *x) { if (!x) return; if (live_xpoll <= 0) bad_release++; live_xpoll--; tr("xpoll-"); }
static int m_xpoll_get_fd(struct xpoll *x) { return 0; }
static int m_tp_init(struct xcm_socket *s, struct xcm_socket *parent) { int e = next_ans(); if (e) { errno = e; tr("init!"); return -1; } live_tp_init++; tr("init+"); return 0; }
static int m_tp_connect(struct xcm_socket *s, const char *a)
{   /* a failed connect/server/accept leaves the transport cleaned up (the transport contract) */
    int e = next_ans(); if (e) { errno = e; live_tp_init--; tr("connect!"); return -1; } live_tp_open++; tr("connect+"); return 0; }
static int m_tp_server(struct xcm_socket *s, const char *a) { int e = next_ans(); if (e) { errno = e; live_tp_init--; tr("server!"); return -1; } live_tp_open++; tr("server+"); return 0; }
static int m_tp_accept(struct xcm_socket *c, struct xcm_socket *srv) { int e = next_ans(); if (e) { errno = e; live_tp_init--; tr("accept!(%s)", h_errname(e)); return -1; } live_tp_open++; tr("accept+"); return 0; }
static void m_tp_close(struct xcm_socket *s) { if (!s) return; if (live_tp_init <= 0) bad_release++; live_tp_init--; if (live_tp_open > 0) live_tp_open--; tr("close"); }
static void m_tp_cleanup(struct xcm_socket *s) { if (!s) return; if (live_tp_init <= 0) bad_release++; live_tp_init--; if (live_tp_open > 0) live_tp_open--; tr("cleanup"); }
static int m_tp_finish(struct xcm_socket *s) { int e = next_ans(); tr(e ? "finish!" : "finish+"); if (e) { errno = e; return -1; } return 0; }
static void m_tp_update(struct xcm_socket *s) { }
static int m_poll(struct pollfd *f, nfds_t n, int t) { tr("wait"); return 1; }
static int m_set_attrs_hook;   /* set_attrs is real: it applies xcm.blocking etc.; a failing attribute is produced by an unknown name */

#define xcm_tp_proto_by_addr m_proto_by_addr
#define xcm_tp_socket_create m_tp_create
#define xcm_tp_socket_destroy m_tp_destroy
#define xpoll_create m_xpoll_create
#define xpoll_destroy m_xpoll_destroy
#define xpoll_get_fd m_xpoll_get_fd
#define xcm_tp_socket_init m_tp_init
#define xcm_tp_socket_connect m_tp_connect
#define xcm_tp_socket_server m_tp_server
#define xcm_tp_socket_accept m_tp_accept
#define xcm_tp_socket_close m_tp_close
#define xcm_tp_socket_cleanup m_tp_cleanup
#define xcm_tp_socket_finish m_tp_finish
#define xcm_tp_socket_update m_tp_update
#define poll m_poll
#include "xcm.c"
#undef poll

static void ledger(FILE *o) { fprintf(o, " | sock=%d xpoll=%d tp=%d bad_release=%d", live_sock, live_xpoll, live_tp_init, bad_release); }
static void load_answers(char **w, int from, int n) { n_ans = used = 0; for (int i = from; i < n && n_ans < MAXANS; i++) ans[n_ans++] = !strcmp(w[i], "ok") ? 0 : h_errnum(w[i]); }

int main(void)
{
    static char line[H_LINE_MAX];
    char *w[H_MAXW];
    FILE *o = stdout;
    struct xcm_socket *socks[16] = { 0 };
    while (fgets(line, sizeof(line), stdin)) {
	int n = h_words(line, w);
	if (n == 0 || w[0][0] == '#') continue;
	trace[0] = 0;
	if ((!strcmp(w[0], "CONNECT") || !strcmp(w[0], "SERVER")) && n >= 4) {
	    /* CONNECT|SERVER <slot> <blocking 0|1> <badattr 0|1> answers...: xpoll_create, init, connect/server, [finish] */
	    int slot = atoi(w[1]) % 16;
	    struct xcm_attr_map *m = xcm_attr_map_create();
	    xcm_attr_map_add_bool(m, "xcm.blocking", atoi(w[2]));
	    if (atoi(w[3])) xcm_attr_map_add_str(m, "no.such.attribute", "x");
	    load_answers(w, 4, n);
	    errno = 0;
	    struct xcm_socket *s = !strcmp(w[0], "CONNECT") ? xcm_connect_a("mock:x", m) : xcm_server_a("mock:x", m);
	    int e = errno;
	    xcm_attr_map_destroy(m);
	    if (socks[slot] && s) { xcm_close(s); fputs("slot-busy\n", o); fflush(o); continue; }
	    if (s) socks[slot] = s;
	    fprintf(o, "%s | %s", s ? "ok" : h_errname(e), trace[0] ? trace : "-"); ledger(o); fputc('\n', o);
	} else if (!strcmp(w[0], "ACCEPT") && n >= 5) {
	    /* ACCEPT <slot> <server slot> <badattr> answers... (the blocking mode is the server socket's) */
	    int slot = atoi(w[1]) % 16, ss = atoi(w[2]) % 16;
	    if (!socks[ss] || socks[slot]) { fputs("bad-slot\n", o); fflush(o); continue; }
	    struct xcm_attr_map *m = xcm_attr_map_create();
	    if (atoi(w[3])) xcm_attr_map_add_str(m, "no.such.attribute", "x");
	    load_answers(w, 4, n);
	    errno = 0;
	    struct xcm_socket *s = xcm_accept_a(socks[ss], m);
	    int e = errno;
	    xcm_attr_map_destroy(m);
	    if (s) socks[slot] = s;
	    fprintf(o, "%s | %s", s ? "ok" : h_errname(e), trace[0] ? trace : "-"); ledger(o); fputc('\n', o);
	} else if ((!strcmp(w[0], "CLOSE") || !strcmp(w[0], "CLEANUP")) && n == 2) {
	    int slot = atoi(w[1]) % 16;
	    if (!strcmp(w[0], "CLOSE")) xcm_close(socks[slot]); else xcm_cleanup(socks[slot]);
	    socks[slot] = NULL;
	    fprintf(o, "done | %s", trace[0] ? trace : "-"); ledger(o); fputc('\n', o);
	} else fputs("bad-op\n", o);
	fflush(o);
    }
    return 0;
}
