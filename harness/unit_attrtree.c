/* Correspondence harness for libxcm/core/attr_tree.c + attr_node.c (+ attr_path.c): the REAL nested attribute tree, built
   with the library's own add functions and mock getters/setters, is queried with arbitrary names; the Lean AttrTree model
   describes the same tree flatly (added paths only).  Value nodes carry an id (returned by the getter as an int64). */
#include "hutil.h"
#include "xcm_attr_types.h"
#include "attr_tree.h"

static int h_get(struct xcm_socket *s, void *context, void *value, size_t capacity)
{
    int64_t id = (int64_t)(uintptr_t)context;
    if (capacity < sizeof(id)) { errno = EOVERFLOW; return -1; }
    memcpy(value, &id, sizeof(id));
    return sizeof(id);
}
static int h_set(struct xcm_socket *s, void *context, const void *value, size_t len) { return 0; }

struct ent { char name[600]; long long id; };
static struct ent ents[4096];
static int nents;
static void all_cb(const char *name, enum xcm_attr_type type, void *value, size_t len, void *data)
{
    int64_t id = -1;
    if (type == xcm_attr_type_int64 && len == 8) memcpy(&id, value, 8);
    if (nents < 4096) { snprintf(ents[nents].name, sizeof(ents[nents].name), "%s", name); ents[nents].id = id; nents++; }
}
static int cmp_ent(const void *a, const void *b) { return strcmp(((const struct ent *)a)->name, ((const struct ent *)b)->name); }

int main(void)
{
    static char line[H_LINE_MAX];
    char *w[H_MAXW];
    struct attr_tree *t = NULL;
    while (fgets(line, sizeof(line), stdin)) {
	int n = h_words(line, w);
	if (n == 0 || w[0][0] == '#') continue;
	if (!strcmp(w[0], "N") && n == 1) { attr_tree_destroy(t); t = attr_tree_create(); printf("new\n"); }
	else if (t == NULL) printf("bad-op\n");
	else if (!strcmp(w[0], "AV") && n == 4) {
	    bool rd = atoi(w[3]);
	    attr_tree_add_value_node(t, w[1], NULL, (void *)(uintptr_t)atoll(w[2]), xcm_attr_type_int64, rd ? NULL : h_set, rd ? h_get : NULL);
	    printf("added\n");
	} else if (!strcmp(w[0], "AL") && n == 2) { attr_tree_add_list_node(t, w[1]); printf("added\n"); }
	else if (!strcmp(w[0], "G") && n == 2) {
	    int64_t v = -1; enum xcm_attr_type ty = 0;
	    errno = 0;
	    int rc = attr_tree_get_value(t, w[1], &ty, &v, sizeof(v), NULL);
	    if (rc < 0) printf("err %s\n", h_errname(errno)); else printf("value %lld\n", (long long)v);
	} else if (!strcmp(w[0], "L") && n == 2) {
	    errno = 0;
	    int rc = attr_tree_get_list_len(t, w[1], NULL);
	    if (rc < 0) printf("err %s\n", h_errname(errno)); else printf("len %d\n", rc);
	} else if (!strcmp(w[0], "ALL") && n == 1) {
	    nents = 0;
	    attr_tree_get_all(t, all_cb, NULL);
	    qsort(ents, nents, sizeof(ents[0]), cmp_ent);
	    printf("all");
	    for (int i = 0; i < nents; i++) printf(" %s=%lld", ents[i].name, ents[i].id);
	    printf("\n");
	} else printf("bad-op\n");
	fflush(stdout);
    }
    attr_tree_destroy(t);
    return 0;
}
