/* Correspondence harness for libxcm/core/timer_mgr.c: the REAL file is #included; the clock (ut_ftime) is scripted,
   timerfd_settime() is recorded (what the kernel would be told), xpoll is a stub.  Times in the script are ticks of
   1/512 s, for which the double arithmetic of the code is exact; output is in nanoseconds.  After every operation the
   timerfd setting and the manager's list are printed.  An ack / has_expired of an id that is not live is run in a forked
   child (the code asserts / dereferences NULL) and the way the child died is the result.  KERN validates the timerfd
   assumption (K-timerfd) against the real kernel. */
#include "hutil.h"
#include <poll.h>
#include <signal.h>
#include <sys/timerfd.h>
#include <sys/wait.h>
#include <unistd.h>

static double h_now;
static long long h_armed = -1;		/* ns, -1 = disarmed */
static int h_settimes, h_closed, h_regdel;
static int h_settime(int fd, int flags, const struct itimerspec *ts, struct itimerspec *old)
{
    h_settimes++;
    if (flags != TFD_TIMER_ABSTIME || ts->it_interval.tv_sec != 0 || ts->it_interval.tv_nsec != 0) {
	printf("UNEXPECTED-SETTIME flags=%d\n", flags);
	exit(3);
    }
    if (ts->it_value.tv_sec == 0 && ts->it_value.tv_nsec == 0) h_armed = -1;
    else h_armed = (long long)ts->it_value.tv_sec * 1000000000LL + ts->it_value.tv_nsec;
    return 0;
}
#define ut_ftime() (h_now)
#define timerfd_settime h_settime
#define timerfd_create(c, f) (1000)
#define xpoll_fd_reg_add(x, fd, ev) (7)
#define xpoll_fd_reg_del(x, id) (h_regdel++)
#define ut_close(fd) (h_closed++)
#include "timer_mgr.c"
#undef timerfd_settime
#undef timerfd_create

#define TICK_NS 1953125LL
static double ticks(const char *w) { return atoll(w) / 512.0; }

static void show(struct timer_mgr *t, const char *res)
{
    printf("%s | armed=", res);
    if (h_armed < 0) printf("off"); else printf("%lld", h_armed);
    printf(" | ");
    struct mtimer *m;
    int n = 0;
    LIST_FOREACH(m, &t->mtimers, entry)
	printf("%s%lld:%lld", n++ ? "," : "", (long long)m->id, (long long)(m->expiry_time * 1e9 + 0.5));
    if (!n) printf("-");
    printf("\n");
    fflush(stdout);
}

static const char *in_child(struct timer_mgr *t, int what, int64_t id)
{
    fflush(stdout);
    pid_t p = fork();
    if (p == 0) {
	signal(SIGABRT, SIG_DFL); signal(SIGSEGV, SIG_DFL);
	close(2);
	if (what == 0) timer_mgr_ack(t, &id); else (void)timer_mgr_has_expired(t, id);
	_exit(0);
    }
    int st = 0;
    waitpid(p, &st, 0);
    if (WIFEXITED(st) && WEXITSTATUS(st) == 0) return "survived";
    return what == 0 ? "abort" : "oob";
}

static int kern(void)
{
    int fd = (timerfd_create)(CLOCK_MONOTONIC, TFD_NONBLOCK);
    if (fd < 0) return 0;
    struct pollfd p = { .fd = fd, .events = POLLIN };
    struct timespec now; clock_gettime(CLOCK_MONOTONIC, &now);
    struct itimerspec past = { .it_value = { .tv_sec = 0, .tv_nsec = 1 } };
    struct itimerspec fut = { .it_value = { .tv_sec = now.tv_sec + 1000, .tv_nsec = 0 } };
    struct itimerspec off = { };
    int ok = 1;
    ok &= poll(&p, 1, 0) == 0;						/* fresh: quiet */
    (timerfd_settime)(fd, TFD_TIMER_ABSTIME, &past, NULL); ok &= poll(&p, 1, 0) == 1;	/* deadline reached: readable, without being read ... */
    ok &= poll(&p, 1, 0) == 1;						/* ... and stays so */
    (timerfd_settime)(fd, TFD_TIMER_ABSTIME, &fut, NULL); ok &= poll(&p, 1, 0) == 0;	/* set again to a later time: quiet */
    (timerfd_settime)(fd, TFD_TIMER_ABSTIME, &past, NULL); ok &= poll(&p, 1, 0) == 1;
    (timerfd_settime)(fd, TFD_TIMER_ABSTIME, &off, NULL); ok &= poll(&p, 1, 0) == 0;	/* disarmed: quiet */
    close(fd);
    return ok;
}

int main(void)
{
    static char line[H_LINE_MAX];
    char *w[H_MAXW];
    struct timer_mgr *t = NULL;
    char res[64];
    while (fgets(line, sizeof(line), stdin)) {
	int n = h_words(line, w);
	if (n == 0 || w[0][0] == '#') continue;
	if (!strcmp(w[0], "N") && n == 1) {
	    if (t) timer_mgr_destroy(t, true);
	    h_armed = -1;
	    t = timer_mgr_create(NULL, NULL);
	    show(t, "new");
	} else if (!strcmp(w[0], "KERN") && n == 1) {
	    printf("kern %s\n", kern() ? "ok" : "DIFFERS"); fflush(stdout);
	} else if (t == NULL) { printf("bad-op\n"); fflush(stdout); }
	else if (!strcmp(w[0], "S") && n == 3) {
	    h_now = ticks(w[1]);
	    int64_t id = timer_mgr_schedule(t, ticks(w[2]));
	    snprintf(res, sizeof(res), "id=%lld", (long long)id); show(t, res);
	} else if (!strcmp(w[0], "R") && n == 4) {
	    h_now = ticks(w[1]);
	    int64_t id = atoll(w[3]);
	    timer_mgr_reschedule(t, ticks(w[2]), &id);
	    snprintf(res, sizeof(res), "id=%lld", (long long)id); show(t, res);
	} else if (!strcmp(w[0], "C") && n == 2) {
	    int64_t id = atoll(w[1]);
	    timer_mgr_cancel(t, &id);
	    snprintf(res, sizeof(res), "id=%lld", (long long)id); show(t, res);
	} else if (!strcmp(w[0], "K") && n == 2) {
	    int64_t id = atoll(w[1]);
	    if (find_mtimer(t, id) == NULL) show(t, in_child(t, 0, id));
	    else { timer_mgr_ack(t, &id); snprintf(res, sizeof(res), "id=%lld", (long long)id); show(t, res); }
	} else if (!strcmp(w[0], "E") && n == 3) {
	    h_now = ticks(w[1]);
	    int64_t id = atoll(w[2]);
	    if (find_mtimer(t, id) == NULL) show(t, in_child(t, 1, id));
	    else { snprintf(res, sizeof(res), "expired=%d", (int)timer_mgr_has_expired(t, id)); show(t, res); }
	} else if (!strcmp(w[0], "P") && n == 2) {
	    /* would the timerfd be readable at this time (K-timerfd applied to the recorded setting) */
	    long long nowns = atoll(w[1]) * TICK_NS;
	    snprintf(res, sizeof(res), "readable=%d", h_armed >= 0 && h_armed <= nowns); show(t, res);
	} else { printf("bad-op\n"); fflush(stdout); }
    }
    if (t) {
	int c0 = h_closed, r0 = h_regdel;
	timer_mgr_destroy(t, true);
	if (h_closed != c0 + 1 || h_regdel != r0 + 1) { printf("DESTROY-LEDGER closed=%d regdel=%d\n", h_closed - c0, h_regdel - r0); return 4; }
    }
    return 0;
}
