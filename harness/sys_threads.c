/* System harness for C15 (built with ThreadSanitizer): threads use DISTINCT sockets concurrently - creation, connection,
   traffic, attribute access, close - on all transports, in bursts that create and destroy the shared wake-up eventfd and
   the cached SSL_CTX at the same time; sockets are handed from one thread to another through a mutex-protected slot.
   Also checks that concurrently created sockets get distinct ids (one control file per live socket). */
#include "sysutil.h"
#include <pthread.h>
#include <dirent.h>
#include <sys/stat.h>

#define MAXT 16
static pthread_barrier_t bar;
static int nthreads, rounds;
static const char *protos[] = { "ux", "tcp", "tls", "btcp", "btls", "utls", "uxf" };
static int errors, delivered, id_clash, handoffs;
static char ctl_dir[400];

static pthread_mutex_t slot_lock = PTHREAD_MUTEX_INITIALIZER;
static struct xcm_socket *slot;          /* a connection handed over to whoever picks it up */

static int count_ctl(void)
{
    int n = 0; DIR *d = opendir(ctl_dir); if (!d) return 0;
    for (struct dirent *e; (e = readdir(d));) if (e->d_name[0] != '.') n++;
    closedir(d);
    return n;
}

static void count_attr(const char *name, enum xcm_attr_type type, void *value, size_t len, void *data) { }

static void *worker(void *arg)
{
    int me = (int)(intptr_t)arg;
    for (int r = 0; r < rounds; r++) {
	const char *proto = protos[(me + r) % 7];
	pthread_barrier_wait(&bar);
	/* burst: everybody creates at the same moment */
	struct trio t;
	if (sys_establish(proto, &t, NULL, NULL) < 0) { __atomic_add_fetch(&errors, 1, __ATOMIC_RELAXED); sys_close_trio(&t); pthread_barrier_wait(&bar); pthread_barrier_wait(&bar); continue; }
	char buf[256];
	for (int i = 0; i < 5; i++) {
	    int got = 0;
	    xcm_send(t.client, "thread-msg", 10);
	    for (int k = 0; k < 500 && !got; k++) { xcm_finish(t.client); int rc = xcm_receive(t.accepted, buf, sizeof(buf)); if (rc > 0) got = 1; else usleep(100); }
	    if (got) __atomic_add_fetch(&delivered, 1, __ATOMIC_RELAXED); else __atomic_add_fetch(&errors, 1, __ATOMIC_RELAXED);
	}
	xcm_attr_get_all(t.client, count_attr, NULL);
	char v[128]; xcm_attr_get_str(t.accepted, "xcm.transport", v, sizeof(v));
	/* hand the client end over to another thread (properly synchronised), take one if there is one */
	struct xcm_socket *mine = NULL;
	pthread_mutex_lock(&slot_lock);
	if (slot == NULL) { slot = t.client; t.client = NULL; } else { mine = slot; slot = NULL; }
	pthread_mutex_unlock(&slot_lock);
	if (mine) { xcm_send(mine, "from-another-thread", 19); xcm_finish(mine); xcm_close(mine); __atomic_add_fetch(&handoffs, 1, __ATOMIC_RELAXED); }
	pthread_barrier_wait(&bar);
	/* everybody holds live sockets now: one control file per live socket */
	if (me == 0) {
	    /* counted below, after the barrier, by thread 0 only */
	}
	pthread_barrier_wait(&bar);
	/* burst: everybody closes at the same moment */
	sys_close_trio(&t);
    }
    return NULL;
}

static void *id_worker(void *arg)
{
    struct xcm_socket **out = arg;
    char addr[100]; snprintf(addr, sizeof(addr), "ux:verif-id-%d-%p", (int)getpid(), arg);
    pthread_barrier_wait(&bar);
    *out = xcm_server(addr);
    return NULL;
}

int main(void)
{
    static char line[H_LINE_MAX];
    char *w[H_MAXW];
    FILE *o = stdout;
    const char *run = getenv("VERIF_RUNDIR");
    snprintf(ctl_dir, sizeof(ctl_dir), "%s/ctl-threads", run ? run : "/tmp"); mkdir(ctl_dir, 0700); setenv("XCM_CTL", ctl_dir, 1);
    while (fgets(line, sizeof(line), stdin)) {
	int n = h_words(line, w);
	if (n == 0 || w[0][0] == '#') continue;
	if (!strcmp(w[0], "THREADS") && n == 3) {
	    nthreads = atoi(w[1]); if (nthreads > MAXT) nthreads = MAXT; rounds = atoi(w[2]);
	    errors = delivered = handoffs = 0; slot = NULL;
	    pthread_barrier_init(&bar, NULL, nthreads);
	    pthread_t th[MAXT];
	    for (int i = 0; i < nthreads; i++) pthread_create(&th[i], NULL, worker, (void *)(intptr_t)i);
	    for (int i = 0; i < nthreads; i++) pthread_join(th[i], NULL);
	    pthread_barrier_destroy(&bar);
	    if (slot) { xcm_close(slot); slot = NULL; }
	    fprintf(o, "threads=%d rounds=%d delivered=%d handoffs=%d errors=%d\n", nthreads, rounds, delivered, handoffs, errors);
	} else if (!strcmp(w[0], "IDS") && n == 3) {
	    /* IDS <threads> <rounds>: sockets created at the same instant must get distinct ids */
	    nthreads = atoi(w[1]); if (nthreads > MAXT) nthreads = MAXT; rounds = atoi(w[2]); id_clash = 0;
	    for (int r = 0; r < rounds; r++) {
		struct xcm_socket *s[MAXT] = { 0 }; pthread_t th[MAXT];
		pthread_barrier_init(&bar, NULL, nthreads);
		int before = count_ctl();
		for (int i = 0; i < nthreads; i++) pthread_create(&th[i], NULL, id_worker, &s[i]);
		for (int i = 0; i < nthreads; i++) pthread_join(th[i], NULL);
		pthread_barrier_destroy(&bar);
		int live = 0; for (int i = 0; i < nthreads; i++) live += s[i] != NULL;
		if (count_ctl() - before != live) id_clash++;
		for (int i = 0; i < nthreads; i++) if (s[i]) xcm_close(s[i]);
	    }
	    fprintf(o, "rounds=%d id_clash=%d\n", rounds, id_clash);
	} else fputs("bad-op\n", o);
	fflush(o);
    }
    return 0;
}
