#!/bin/sh
# tools/process_wt.sh <worktree>: confirm both delivered changes (build, demo fails with / passes without; suite as reported by the
# author) and run the quick check of each change's property against it.  Output: <worktree>/mutations/process.log
wt="$1"; mkdir -p /tmp/mut
cd /verif
for m in m1 m2; do
  [ -f "$wt/mutations/$m.diff" ] && [ -f "$wt/mutations/$m.json" ] || { echo "$m: not delivered"; continue; }
  sh tools/confirm_mut.sh "$wt" $m nosuite
  prop=$(python3 -c "import json;print(json.load(open('$wt/mutations/$m.json'))['property'])")
  flock /tmp/mut/repo.lock sh tools/try_mut.sh "$wt/mutations/$m.diff" $prop
done
