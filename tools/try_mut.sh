#!/bin/sh
# tools/try_mut.sh <patch.diff> <Cxx> [<Cyy> ...] : applies a seeded change to /repo's working tree, runs the
# quick checks named, restores the tree.  Prints one verdict line per check.
d="$1"; shift
git -C /repo apply "$d" || { echo "patch does not apply"; exit 2; }
cd /verif
export VERIF_EVIDENCE_DIR=/verif/.run/scratch-evidence
for p in "$@"; do
  out=$(./check "$p" --tier quick 2>&1)
  if echo "$out" | grep -q "^VIOLATION"; then v=DETECTED; else v=missed; fi
  echo "$p $v :: $(echo "$out" | grep -E "violation |VIOLATION" | head -2 | cut -c1-220 | tr '\n' '|')"
done
git -C /repo checkout -- .
