#!/usr/bin/env python3
"""tools/run_seeded.py [ids...]: applies each seeded change under /verif/seeded to /repo's working tree, runs the quick check of
its property, restores the tree, and writes /verif/seeded/MATRIX.md."""
import json, os, subprocess, sys
root = "/verif/seeded"
rows = []
merge = "--merge" in sys.argv[1:]
args = [a for a in sys.argv[1:] if a != "--merge"]
ids = args or sorted(d for d in os.listdir(root) if os.path.isdir(os.path.join(root, d)))
for d in ids:
    meta = json.load(open(os.path.join(root, d, "meta.json")))
    prop = meta["property"]
    patch = os.path.join(root, d, "patch.diff")
    if subprocess.run(["git", "-C", "/repo", "apply", "--check", patch], capture_output=True).returncode != 0:
        rows.append((d, prop, "DOES-NOT-APPLY", ""))
        print(d, "does not apply"); continue
    subprocess.run(["git", "-C", "/repo", "apply", patch], check=True)
    try:
        r = subprocess.run(["./check", prop, "--tier", "quick"], cwd="/verif", capture_output=True, text=True, timeout=3000,
                           env=dict(os.environ, VERIF_EVIDENCE_DIR="/verif/.run/scratch-evidence"))
        out = r.stdout + r.stderr
    finally:
        subprocess.run(["git", "-C", "/repo", "checkout", "--", "."], check=True)
    viol = [l for l in out.splitlines() if l.strip().startswith("violation ")]
    detected = any(l.startswith("VIOLATION") for l in out.splitlines())
    first = viol[0].strip()[10:170] if viol else ([l for l in out.splitlines() if l.startswith("VIOLATION")] or [""])[0][:170]
    rows.append((d, prop, "DETECTED" if detected else "MISSED", first))
    print(d, rows[-1][2], first[:100], flush=True)
if args and not merge:
    print(sum(1 for r in rows if r[2] == "DETECTED"), "of", len(rows), "detected (partial run: MATRIX.md left alone)")
    sys.exit(0)
if merge:
    # --merge <ids>: rows of this run replace / extend the rows of the existing matrix (same /repo HEAD)
    old = {}
    for l in open(os.path.join(root, "MATRIX.md")):
        f = [x.strip() for x in l.strip().strip("|").split(" | ")]
        if len(f) == 4 and f[0] not in ("seeded change", "---") and not f[0].startswith("-"):
            old[f[0]] = tuple(f)
    for r in rows:
        old[r[0]] = r
    rows = [old[k] for k in sorted(old)]
with open(os.path.join(root, "MATRIX.md"), "w") as f:
    f.write("# Seeded changes vs. the quick checks (tools/run_seeded.py, on /repo HEAD %s)\n\n" % subprocess.run(["git", "-C", "/repo", "log", "--format=%h", "-1"], capture_output=True, text=True).stdout.strip())
    f.write("| seeded change | property | result | first violation reported |\n|---|---|---|---|\n")
    for r in rows:
        f.write("| %s | %s | %s | %s |\n" % (r[0], r[1], r[2], r[3].replace("|", "/")))
print(sum(1 for r in rows if r[2] == "DETECTED"), "of", len(rows), "detected")
