#!/usr/bin/env python3
"""Compares an `xcmtest -v` log (make check VERBOSE=1 output) with the stable_pass list of
/root/.vp/BASELINE.json: prints every stable test that did not report OK."""
import json, re, sys
log = open(sys.argv[1], errors="replace").read()
log = re.sub(r"\x1b\[[0-9;]*m", "", log)
res = {}
for m in re.finditer(r"^(\w+:\w+): (OK|FAILED|TIMED OUT|NOT RUN|CRASHED)[^\n]*$", log, re.M):
    res[m.group(1)] = m.group(2)
base = json.load(open("/root/.vp/BASELINE.json"))
bad = [(t, res.get(t, "missing")) for t in base["stable_pass"] if res.get(t) != "OK"]
print("stable tests: %d, OK: %d" % (len(base["stable_pass"]), len(base["stable_pass"]) - len(bad)))
for t, r in bad:
    print("  NOT OK:", t, r)
sys.exit(1 if bad else 0)
