#!/bin/sh
# tools/revert_test.sh <repo-commit> <Cxx> : temporarily reverts a fix in /repo's working tree, runs the
# quick check (expects VIOLATION) and restores the tree.
c="$1"; p="$2"
git -C /repo show "$c" | git -C /repo apply -R || exit 2
cd /verif && VERIF_EVIDENCE_DIR=/verif/.run/scratch-evidence ./check "$p" --tier quick 2>&1 | grep -E "VIOLATION|KNOWN|tier=" | head -5
git -C /repo checkout -- .
