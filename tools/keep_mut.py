#!/usr/bin/env python3
"""tools/keep_mut.py <worktree> <m1|m2> <seed-id> <detected_by|missed> [note]
Copies a confirmed seeded change into /verif/seeded/<seed-id>/ (patch.diff, demonstration, meta.json)."""
import glob, json, os, shutil, sys
wt, m, sid, det = sys.argv[1:5]
note = sys.argv[5] if len(sys.argv) > 5 else ""
src = os.path.join(wt, "mutations")
dst = os.path.join("/verif/seeded", sid)
os.makedirs(dst, exist_ok=True)
shutil.copy(os.path.join(src, m + ".diff"), os.path.join(dst, "patch.diff"))
for f in glob.glob(os.path.join(src, m + "_demo*")):
    if os.path.isfile(f) and os.path.getsize(f) < 200000 and not os.access(f, os.X_OK) or f.endswith((".c", ".sh", ".py")):
        shutil.copy(f, os.path.join(dst, os.path.basename(f).replace(m + "_", "")))
j = json.load(open(os.path.join(src, m + ".json")))
conf = open(os.path.join(src, m + ".confirm")).read().splitlines() if os.path.exists(os.path.join(src, m + ".confirm")) else []
meta = {"property": j["property"], "summary": j["summary"], "needs": j["needs"], "demo_cmd": j["demo_cmd"],
        "suite_reported_by_author": j.get("suite"), "confirmed_by_me": conf,
        "checks_result": det, "note": note}
json.dump(meta, open(os.path.join(dst, "meta.json"), "w"), indent=1)
print("kept", dst)
