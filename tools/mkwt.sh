#!/bin/sh
# tools/mkwt.sh <dir>: scratch git worktree of /repo (HEAD) under <dir>, pre-populated with /repo's
# untracked build artefacts so that `make` there is incremental.  Remove with
#   git -C /repo worktree remove --force <dir>
set -e
d="$1"
mkdir -p "$(dirname "$d")"
git -C /repo worktree add --detach "$d" HEAD >/dev/null 2>&1
rsync -a --ignore-existing --exclude .git /repo/ "$d"/
cd "$d" && make -j16 >/dev/null 2>&1 || true
echo "$d"
