#!/bin/sh
# tools/confirm_mut.sh <worktree> <m1|m2> [nosuite]: confirms a seeded change in its scratch worktree:
#   with the patch: builds, demonstration FAILS, (pinned suite result recorded); without: demonstration PASSES.
# Writes <worktree>/mutations/<m>.confirm with one line per step.
wt="$1"; m="$2"; ns="$3"
cd "$wt" || exit 2
out="mutations/$m.confirm"; : > "$out"
cmd=$(python3 -c "import json,sys;print(json.load(open('mutations/$m.json'))['demo_cmd'])")
git checkout -- . ; git apply "mutations/$m.diff" || { echo "apply: FAILED" >> "$out"; exit 1; }
if make -j16 >/dev/null 2>&1; then echo "build-with-patch: ok" >> "$out"; else echo "build-with-patch: FAILED" >> "$out"; fi
if timeout 300 sh -c "$cmd" > "mutations/$m.demo_with.log" 2>&1; then echo "demo-with-patch: PASS (unexpected)" >> "$out"; else echo "demo-with-patch: FAIL (expected)" >> "$out"; fi
if [ -z "$ns" ]; then
  flock /tmp/mut/test.lock make -k -j8 check VERBOSE=1 > "mutations/$m.suite.log" 2>&1
  echo "suite-with-patch: $(grep -E '^(ok|not ok|PASS|FAIL)' "mutations/$m.suite.log" | wc -l) lines; failed: $(grep -aoE '(xcm|addr|attr_map|attr_path|attr_tree|slist):[a-z0-9_]+ +(FAILED|TIMED OUT)|\[ *FAILED *\].*|FAILED.*' "mutations/$m.suite.log" | sort -u | head -12 | tr '\n' ';')" >> "$out"
fi
git checkout -- . ; make -j16 >/dev/null 2>&1
if timeout 300 sh -c "$cmd" > "mutations/$m.demo_without.log" 2>&1; then echo "demo-without-patch: PASS (expected)" >> "$out"; else echo "demo-without-patch: FAIL (unexpected)" >> "$out"; fi
cat "$out"
