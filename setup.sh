#!/bin/sh
# MANIFEST.setup_cmd: offline build of the framework from files on disk only.
set -e
cd "$(dirname "$0")"
/usr/bin/env python3 extract/extract.py
cd lean
lake build XcmModel driver > ../.setup.log 2>&1 || { tail -40 ../.setup.log; exit 1; }
tail -3 ../.setup.log
