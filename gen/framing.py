"""Generators, builders and monitors for the framing layer (xcm_tp_tcp.c / xcm_tp_tls.c),
shared by C01 C03 C06 C07 C17."""
import os, re, struct
from gen import common
from gen.common import hexs

ERRS = ["ECONNRESET", "ETIMEDOUT", "EHOSTUNREACH", "ENETUNREACH", "ECONNREFUSED", "EPIPE"]
LENS = [1, 2, 3, 4, 5, 6, 7, 255, 256, 1000, 65534, 65535]


def includes_of(rel):
    src = open(os.path.join(common.REPO, rel)).read()
    flags = []
    for h in re.findall(r'^\s*#\s*include\s+"([^"]+)"', src, re.M):
        flags += ["-include", h]
    return flags


def build(variant):
    """variant: 'tcp' | 'tls'"""
    rel = "libxcm/tp/tcp/xcm_tp_tcp.c" if variant == "tcp" else "libxcm/tp/tls/xcm_tp_tls.c"
    flags = includes_of(rel) + (["-DFR_TLS"] if variant == "tls" else [])
    return common.build_harness("unit_framing_" + variant, ["unit_framing.c"], extra_flags=flags, link_lib=True,
                                libs=["ssl", "crypto", "cares"])


def frame(m):
    return struct.pack(">I", len(m)) + m


def rand_msg(rng, small=False):
    k = rng.below(10)
    if small or k < 5:
        n = rng.range(1, 6)
    elif k < 8:
        n = rng.choice(LENS)
    else:
        n = rng.range(1, 65535)
    if n <= 8:
        return bytes(rng.below(256) for _ in range(n))
    return rng.bytes(n)


def rand_sans(rng, total_hint=10, errs=True):
    """answer script for the lower send: mixes all/partial/1-byte/EAGAIN(by exhaustion)/errors"""
    k = rng.below(10)
    if k == 0:
        return "-"
    out = []
    for _ in range(rng.range(1, 5)):
        r = rng.below(12)
        if r < 4:
            out.append("A")
        elif r < 7:
            out.append("P%d" % rng.choice([1, 2, 3, 4, 5, rng.range(1, max(2, total_hint))]))
        elif r < 9:
            out.append("P1")
        elif r < 10 and errs:
            out.append("E" + rng.choice(ERRS))
        elif r < 11:
            out.append("EEAGAIN")
        else:
            out.append("A")
    return ",".join(out)


def gen_history(rng, nops, ctx, errs=True, small=False):
    """One connection: interleaved sends, receives, finishes, updates, arrivals of valid
    frames cut at arbitrary points (header splits forced), malformed input, EOF, errors."""
    ops = ["N"]
    pending = b""          # bytes of valid frames not yet 'arrived'
    force_hdr_split = rng.chance(1, 3)
    for _ in range(nops):
        r = rng.below(100)
        if r < 22:
            m = rand_msg(rng, small)
            if rng.chance(1, 12):
                m = rng.choice([b"", rng.bytes(65536), rng.bytes(70000)])
                ctx.count("framing.send.invalid_size")
            ops.append("S %s %s" % (hexs(m), rand_sans(rng, len(m) + 4, errs)))
            ctx.count("framing.send")
            if rng.chance(1, 10):
                # a claimed length beyond the maximum, up to and beyond the 32- and 63-bit boundaries (size_t is 64 bits wide)
                big = rng.choice([65536, 70000, 2 ** 31, 2 ** 32 - 1, 2 ** 32, 2 ** 32 + 1, 2 ** 32 + 7, 2 ** 32 + 65535, 2 ** 32 + 65536,
                                  2 ** 33 + 5, 2 ** 48 + 100, 2 ** 63 + 1, 2 ** 64 - 1])
                ops.append("SL %d %s" % (big, rand_sans(rng, 8, errs)))
                ctx.count("framing.send.huge_length")
        elif r < 45:
            cap = rng.choice([0, 1, 2, 3, 5, 100, 65535, 70000])
            ops.append("R %d %s" % (cap, rand_sans(rng, 10, errs) if rng.chance(1, 3) else "-"))
            ctx.count("framing.receive")
        elif r < 55:
            fin = "ok" if rng.chance(4, 5) or not errs else "E" + rng.choice(ERRS + ["EAGAIN"])
            ops.append("F %s %s" % (rand_sans(rng, 10, errs), fin))
            ctx.count("framing.finish")
        elif r < 60:
            ops.append("U %d" % rng.below(4))
        elif r < 90:
            if not pending:
                k = rng.below(20)
                if k == 0:
                    pending = rng.choice([b"\0\0\0\0", struct.pack(">I", 65536) + b"x" * 10, b"\xff\xff\xff\xff",
                                          struct.pack(">I", 0x80000000), rng.bytes(rng.range(1, 12))])
                    ctx.count("framing.arrive.malformed")
                else:
                    pending = b"".join(frame(rand_msg(rng, small)) for _ in range(rng.range(1, 3)))
            if force_hdr_split or rng.chance(1, 4):
                n = rng.range(1, 3)
            else:
                n = rng.choice([1, 2, 4, 5, 8, len(pending), len(pending), rng.range(1, len(pending))])
            n = min(n, len(pending))
            ops.append("A %s" % hexs(pending[:n]))
            pending = pending[n:]
            ctx.count("framing.arrive")
        elif r < 93:
            ops.append("Z")
            ctx.count("framing.eof")
        elif r < 95 and errs:
            ops.append("X %s" % rng.choice(ERRS))
            ctx.count("framing.rxerr")
        else:
            ops.append("R %d -" % rng.choice([1, 65535]))
    return ops


class Monitor:
    """Property oracles evaluated on the IMPLEMENTATION's output only (independent of the
    model): wire bytes vs accepted messages, delivered messages vs arrived bytes, counters,
    stickiness."""

    def __init__(self, ctx, harness):
        self.ctx = ctx
        self.h = harness

    def run(self, ops, out):
        st = None
        for i, (op, line) in enumerate(zip(ops, out)):
            w = op.split()
            if w[0] == "N":
                st = dict(accepted=[], wire=b"", wire_unknown=False, arrived=b"", consumed=0, delivered=[],
                          cnt=[0] * 8, sticky=None, eproto=False, closed_seen=False, eof=False, last=None, start=i)
                continue
            if st is None or w[0] in ("A", "Z", "X", "U"):
                if st is not None and w[0] == "A":
                    st["arrived"] += bytes.fromhex(w[1]) if w[1] != "-" else b""
                if st is not None and w[0] == "Z":
                    st["eof"] = True
                continue
            f = [x.strip() for x in line.split(" ## ")[0].split("|")]
            if len(f) < 5:
                continue
            rcw = f[0].split()
            rc = rcw[0]
            err = rcw[1] if len(rcw) > 1 else None
            cnt = [int(x) for x in f[2].split()]
            stt = f[3].split()
            txd = f[4][3:]
            viol = lambda sig, what: self.ctx.violation(
                "%s:monitor:%s" % (self.h, sig), what,
                {"harness": self.h, "ops": ops[st["start"]:i + 1], "impl_out": out[st["start"]:i + 1]})
            # --- counters: monotone and ordered (C17) ---------------------------------------
            if any(a < b for a, b in zip(cnt, st["cnt"])):
                viol("counter-decreased", "a traffic counter decreased")
            to_app_b, from_app_b, to_low_b, from_low_b, to_app_m, from_app_m, to_low_m, from_low_m = cnt
            if not (from_app_b >= to_low_b and from_app_m >= to_low_m and from_low_b >= to_app_b and from_low_m >= to_app_m):
                viol("counter-order", "from_app >= to_lower or from_lower >= to_app violated")
            prev = st["cnt"]
            # --- send -------------------------------------------------------------------------
            if w[0] == "S":
                m = bytes.fromhex(w[1]) if w[1] != "-" else b""
                if rc == "0":
                    st["accepted"].append(m)
                    if not (1 <= len(m) <= 65535):
                        viol("send-accepted-invalid-size", "a message of invalid size was accepted")
                    if cnt[1] - prev[1] != len(m) or cnt[5] - prev[5] != 1:
                        viol("from-app-count", "from_app counters do not reflect the accepted message")
                else:
                    if cnt[5] != prev[5]:
                        # buffered, then the connection failed: part of its frame may be on the wire, but the
                        # frame must never be completed (the lower layer's failure is terminal)
                        st["failed_tail"] = m
                    if err in ("EAGAIN", "EMSGSIZE", "EINVAL"):
                        # a refused send leaves no trace: counters from_app unchanged, and the only wire
                        # activity allowed is flushing of the previously accepted frame
                        if cnt[1] != prev[1] or cnt[5] != prev[5]:
                            viol("refused-send-counted", "a send refused with %s changed from_app counters" % err)
            # --- wire bytes are exactly the frames of accepted messages (C01/C03) -------------
            if txd.startswith("#"):
                st["wire_unknown"] = True      # long delta shown as length+hash: rebuild from expectation
                ln = int(txd[1:].split(":")[0])
                exp = b"".join(frame(m) for m in st["accepted"] + ([st["failed_tail"]] if st.get("failed_tail") is not None else []))
                st["wire"] = exp[:len(st["wire"]) + ln]
            elif txd != "-":
                st["wire"] += bytes.fromhex(txd)
            exp = b"".join(frame(m) for m in st["accepted"])
            if st.get("failed_tail") is not None:
                exp += frame(st["failed_tail"])[:-1]
            if not exp.startswith(st["wire"]):
                viol("wire-not-prefix-of-accepted-frames",
                     "bytes handed to the lower layer are not a prefix of the frames of the accepted messages")
            # --- receive (C01/C06/C07) ------------------------------------------------------------
            if w[0] == "R":
                cap = int(w[1])
                if rc == "0" and cap == 0 and cnt[4] - prev[4] == 1:
                    # capacity 0: a message was consumed and truncated to nothing; at the API this is
                    # indistinguishable from "closed" and the property does not decide it (DESIGN C01)
                    st["delivered"].append(0)
                elif rc not in ("0", "-1") and not rc.startswith("abort"):
                    n = int(rc)
                    pay = f[1]
                    # reference decoder on the arrived stream
                    ref, bad_at = ref_decode(st["arrived"])
                    k = len(st["delivered"])
                    if k >= len(ref):
                        viol("delivered-more-than-arrived", "receive returned a message that has not completely arrived")
                    else:
                        want = ref[k][:cap]
                        got_ok = (pay == common.hexs(want)) if len(want) <= 48 else pay.startswith("#%d:" % len(want))
                        if n != len(want) or not got_ok:
                            viol("delivered-wrong-message", "receive did not return the next arrived message (or its leading capacity bytes)")
                        if n > cap:
                            viol("receive-beyond-capacity", "receive returned more than capacity")
                    st["delivered"].append(n)
                    if cnt[0] - prev[0] != n or cnt[4] - prev[4] != 1:
                        viol("to-app-count", "to_app counters do not reflect the delivered bytes")
                    if st["sticky"] or st["eproto"]:
                        viol("receive-after-terminal", "a receive succeeded after a terminal condition was reported")
                elif rc == "-1" and err == "EPROTO":
                    st["eproto"] = True
                if rc == "-1" and st["eproto"] and err != "EPROTO":
                    viol("eproto-not-sticky", "a protocol error was not reported as EPROTO from then on")
            if st["eproto"] and w[0] in ("S", "F") and not (rc == "-1" and err in ("EPROTO", "EMSGSIZE", "EINVAL")):
                viol("eproto-not-sticky", "send/finish succeeded or reported another errno after EPROTO")
            if int(stt[2]) > 65539:
                viol("rbuf-too-large", "receive buffer larger than one maximum-size frame")
            st["cnt"] = cnt


def ref_decode(stream):
    """well-formed frames before the first malformed header"""
    out = []
    i = 0
    while i + 4 <= len(stream):
        ln = struct.unpack(">I", stream[i:i + 4])[0]
        if ln == 0 or ln > 65535:
            return out, i
        if i + 4 + ln > len(stream):
            break
        out.append(stream[i + 4:i + 4 + ln])
        i += 4 + ln
    return out, None
