"""Generator for the dispatch layer xcm_tp.c (unit_tp): wrapper call traces vs the Lean Tp model."""
from gen import common, framing

ANS = ["0", "0", "1", "5", "EEAGAIN", "EEAGAIN", "EECONNRESET", "EEPIPE"]


def build():
    flags = framing.includes_of("libxcm/tp/common/xcm_tp.c")
    return common.build_harness("unit_tp", ["unit_tp.c"], extra_flags=flags, link_lib=True, libs=["ssl", "crypto", "cares"])


def gen_history(rng, nops, ctx):
    au, ac = rng.below(4) != 0, rng.below(2)
    ops = ["N %d %d" % (au, ac)]
    ctx.count("tp.sock.auto%d.ctl%d" % (au, ac))
    ops.append(rng.choice(["C 0", "C 0", "A 0", "C EECONNREFUSED", "A EEAGAIN"]))
    if rng.chance(1, 3):
        ops.append("V 0")
    burst = rng.chance(1, 4)
    for _ in range(nops):
        r = rng.below(100)
        a = rng.choice(ANS) if not burst else rng.choice(["0", "1", "EEAGAIN"])
        if r < 35:
            ops.append("S " + a)
        elif r < 70:
            ops.append("R " + a)
        elif r < 88:
            ops.append("F " + a)
        elif r < 96:
            ops.append("A " + rng.choice(["0", "EEAGAIN", "EEAGAIN", "EEMFILE"]))
        else:
            ops.append("U")
    if burst:
        # enough successful operations to cross the 256-call threshold of consider_ctl
        ops += [rng.choice(["S 0", "R 3", "F 0"]) for _ in range(300)]
    return ops


def exhaustive():
    ops = []
    for au in (0, 1):
        for ac in (0, 1):
            for first in ("C 0", "A 0", "C EEAGAIN", "C EECONNREFUSED"):
                for op in "SRF":
                    for a in ("0", "7", "EEAGAIN", "EEPIPE"):
                        ops += ["N %d %d" % (au, ac), first, "%s %s" % (op, a), "%s %s" % (op, a)]
                for a in ("0", "EEAGAIN", "EEMFILE"):
                    ops += ["N %d %d" % (au, ac), "V 0", "A " + a, "A " + a]
    return ops


class Monitor:
    """on an auto_update socket every send/receive/finish - whatever it returned - and every successful connect/accept
    ends with the transport's update; the server socket is updated after every accept; ctl runs at most every 257th call"""

    def __init__(self, ctx):
        self.ctx = ctx

    def run(self, ops, out):
        auto = False
        start = 0
        for i, (op, line) in enumerate(zip(ops, out)):
            w = op.split()
            if w[0] == "N":
                auto = w[1] == "1"
                start = i
                continue
            f = [x.strip() for x in line.split("|")]
            if len(f) < 3:
                continue
            tr = f[1].split()
            rc = int(f[0][3:])

            def viol(sig, what):
                self.ctx.violation("unit_tp:monitor:" + sig, what, {"harness": "unit_tp", "ops": ops[start:i + 1], "impl_out": out[start:i + 1]})
            if auto and w[0] in ("S", "R", "F") and (not tr or tr[-1] != "update"):
                viol("no-update-after-" + w[0], "xcm_tp_socket_%s did not re-evaluate the socket's registrations (update) before returning %d"
                     % ({"S": "send", "R": "receive", "F": "finish"}[w[0]], rc))
            if auto and w[0] in ("C",) and rc == 0 and (not tr or tr[-1] != "update"):
                viol("no-update-after-connect", "a successful connect was not followed by update")
            if w[0] == "A" and (not tr or tr[-1] != "update_server"):
                viol("no-server-update-after-accept", "xcm_tp_socket_accept did not update the server socket")
            if auto and w[0] == "A" and rc == 0 and "update" not in tr:
                viol("no-update-after-accept", "a successfully accepted connection was not updated")
