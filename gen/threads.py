"""sys_threads: ThreadSanitizer build of the library, threads on distinct sockets."""
import os, re
from gen import common, sysattr


def build():
    return common.build_harness("sys_threads", ["sys_threads.c"], variant="tsan", link_lib=True, libs=["ssl", "crypto", "cares"], whole=True)


def run(exe, cmds, ctx, timeout=1200):
    e = dict(os.environ)
    e.update(sysattr.env(ctx))
    e["TSAN_OPTIONS"] = "halt_on_error=0 exitcode=0 report_signal_unsafe=0 history_size=4"
    rc, out, err = common.run_proc([exe], "\n".join(cmds) + "\n", env=e, timeout=timeout)
    return rc, out.splitlines(), err


def races(err):
    """ThreadSanitizer reports whose racing access (innermost frame that is not a sanitizer interceptor) lies in the library's
    own code; reports between two accesses made inside uninstrumented OpenSSL / c-ares are counted apart (their internal
    synchronisation is invisible to ThreadSanitizer; their thread safety is the environment's).  -> (in_library, foreign)"""
    lib, foreign = [], 0
    for rep in err.split("==================")[1:]:
        m = re.search(r"WARNING: ThreadSanitizer: ([^\n(]+)", rep)
        if not m:
            continue
        inner = []
        for block in re.split(r"\n\s*\n", rep):
            if not re.search(r"^\s*(Read|Write|Previous|Atomic)", block.strip(), re.I) and "WARNING" not in block:
                continue
            for fr in re.findall(r"#\d+ (\S+) (\S+?)(?::\d+)* \(", block):
                fn, where = fr
                if "sanitizer" in where or "tsan" in where or fn in ("malloc", "free", "calloc", "realloc", "memcmp", "memcpy", "memset", "strlen"):
                    continue
                inner.append((fn, where))
                break
        if any(w.startswith("/repo/") for _, w in inner):
            top = next("%s@%s" % (fn, os.path.basename(w)) for fn, w in inner if w.startswith("/repo/"))
            lib.append((m.group(1).strip(), top, rep[:2500]))
        elif any("/verif/harness" in w for _, w in inner):
            lib.append((m.group(1).strip(), "harness@" + inner[0][0], rep[:2500]))
        else:
            foreign += 1
    return lib, foreign
