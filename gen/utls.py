"""unit_utls: the real xcm_tp_utls.c over two logging mock sub-transports vs the Lean Utls model."""
from gen import common, framing

ERRS = ["ECONNREFUSED", "ECONNREFUSED", "EAGAIN", "ENOENT", "EACCES", "EMFILE", "ETIMEDOUT", "EPROTO"]


def build():
    flags = framing.includes_of("libxcm/tp/tls/xcm_tp_utls.c")
    return common.build_harness("unit_utls", ["unit_utls.c"], extra_flags=flags, link_lib=True, libs=["ssl", "crypto", "cares"],
                                ldflags=["-Wl,--wrap=xcm_tp_socket_destroy"])


def ans(rng, p_fail=3):
    return ("E" + rng.choice(ERRS)) if rng.chance(1, p_fail) else "ok"


def exhaustive():
    """every answer combination of every ladder"""
    ops = []
    A = ["ok", "EECONNREFUSED", "EEACCES"]
    for a1 in ("ok",):
        for a2 in ("ok", "EEMFILE"):
            ops.append("I conn %s %s" % (a1, a2))
    for x in A:
        for y in A:
            ops += ["I conn ok ok", "C %s %s" % (x, y), "SND ok", "RCV EEAGAIN", "FIN conn ok", "UPD conn 3", "CNT", "X conn 0"]
            ops += ["I server ok ok", "S 0 %s %s" % (x, y), "UPD server 4", "FIN server ok ok", "FIN server EEAGAIN ok", "FIN server ok EEPIPE",
                    "A %s %s" % (x, y), "SND ok", "UPD conn 1", "CNT", "X conn 1", "A ok", "X conn 0", "X server 0"]
            ops += ["I server ok ok", "S 1 %s %s" % (x, y), "X server 1"]
    ops += ["I conn ok ok", "CB", "I conn ok ok", "X conn 0", "I server ok ok", "X server 1"]
    return ops


def gen_history(rng, n, ctx):
    ops = []
    have_conn = have_srv = False
    for _ in range(n):
        r = rng.below(100)
        if r < 12:
            ops.append("I conn ok %s" % ans(rng, 6)); have_conn = True
        elif r < 22:
            ops.append("I server ok %s" % ans(rng, 8)); have_srv = True
        elif r < 34 and have_conn:
            ops.append("C %s %s" % (ans(rng, 2), ans(rng)))
        elif r < 44 and have_srv:
            ops.append("S %d %s %s" % (rng.below(2), ans(rng, 5), ans(rng, 5)))
        elif r < 56 and have_srv:
            ops.append("A %s %s" % (ans(rng, 2), ans(rng, 2)))
        elif r < 66:
            ops.append("%s %s" % (rng.choice(["SND", "RCV"]), ans(rng)))
        elif r < 74:
            ops.append("FIN %s %s %s" % (rng.choice(["conn", "server"]), ans(rng), ans(rng)))
        elif r < 84:
            ops.append("UPD %s %d" % (rng.choice(["conn", "server"]), rng.below(8)))
        elif r < 88:
            ops.append("CNT")
        elif r < 94:
            ops.append("X %s %d" % (rng.choice(["conn", "server"]), rng.below(2)))
        else:
            ops.append("CB")
        ctx.count("utls.op." + ops[-1].split()[0])
    return ops


def run_part(ctx, nhist, label="utls"):
    exe = build()
    ops = exhaustive()
    for k in range(nhist):
        ops += gen_history(ctx.rng.fork("%s%d" % (label, k)), 40, ctx)
    m, il = ctx.differential("unit_utls", "utls", exe, ops, label="utls")
    for o, l in zip(ops, il):
        ctx.nontriv(("utls", o.split()[0], l))
        if "LEDGER-VIOLATIONS" in l:
            i = ops.index(o)
            ctx.violation("unit_utls:monitor:sub-socket-ledger", "xcm_tp_utls.c broke the sub-transport contract (close before destroy for initialised "
                          "sockets, destroy only for failed ones, no use of a dead socket): %s -> %s" % (o, l),
                          {"harness": "unit_utls", "ops": ops[max(0, i - 8):i + 1], "impl_out": l})
            break
    ctx.sample({"harness": "unit_utls", "ops": ops[:8], "model_out": m[:8]}, cap=8)
    return len(ops)
