"""Shared driver code for the sys_attr harness (C10, C11)."""
import json, os, re
from gen import common, pki

PROTOS = ["ux", "uxf", "tcp", "tls", "utls", "btcp", "btls"]
FIXED = {"bool": 1, "int64": 8, "double": 8}


def build():
    return common.build_harness("sys_attr", ["sys_attr.c"], link_lib=True, libs=["ssl", "crypto", "cares"], whole=True)


def rundir(ctx):
    d = ctx.rundir
    os.makedirs(d, exist_ok=True)
    if not os.path.exists(os.path.join(d, "cert.pem")):
        pki.default_dir_simple(d)
    return d


def env(ctx):
    d = rundir(ctx)
    return {"XCM_TLS_CERT": d, "VERIF_RUNDIR": d}


def table():
    p = os.path.join(common.LEAN, "XcmModel", "Generated", "attrs.json")
    rows = json.load(open(p))
    by = {}
    for r in rows:
        by.setdefault(r["name"], r)
    return rows, by


def row_of(by, name):
    key = re.sub(r"\[\d+\]", "[]", name)
    return by.get(key)


def hexn(s):
    return s.encode().hex() if s else "-"


def run(exe, cmds, ctx, timeout=600):
    rc, out, err = common.run_proc([exe], "\n".join(cmds) + "\n", env=env(ctx), timeout=timeout)
    return rc, out.splitlines(), err


def listing(line):
    """'attrs name:type:size ...' -> [(name, type, size)]"""
    out = []
    for w in line.split()[1:]:
        name, t, sz = w.rsplit(":", 2)
        out.append((name, t, int(sz)))
    return out
