"""sys_fault: terminal conditions on live connections (C06): injected errno at every kernel call index, raw peers cut at
every byte offset, forked XCM peers killed at chosen moments."""
from gen import common, sysattr

TCPB = ("tcp", "tls", "btcp", "btls")
RECV_ERRS = ["ECONNRESET", "ETIMEDOUT", "EHOSTUNREACH", "ENETUNREACH"]
SEND_ERRS = ["EPIPE", "ECONNRESET", "ETIMEDOUT", "EHOSTUNREACH", "ENETUNREACH"]


def build():
    return common.build_harness("sys_fault", ["sys_fault.c"], link_lib=True, libs=["ssl", "crypto", "cares"], whole=True,
                                ldflags=["-Wl,--wrap=send,--wrap=recv"])


def toks(s):
    return [t for t in s.strip(",").split(",") if t and t != "-"]


def judge_post(ctx, proto, e, post, sig, what, rep):
    """every call after the terminal condition"""
    seen_zero = False
    for t in toks(post):
        op, r = t.split(":", 1)
        if proto in TCPB and e not in ("EPIPE", "0"):
            if r != "-" + e:
                ctx.violation("sys_fault:%s:errno-not-sticky:%s" % (sig, proto), "%s: after %s a later call reported %s instead of the same errno (%s)" % (what, e, t, post), rep)
                return
        else:
            # closed (or a local-socket transport): nothing ever succeeds again; receive says 0 / an error, send fails
            if op == "S" and not r.startswith("-"):
                ctx.violation("sys_fault:%s:send-after-terminal:%s" % (sig, proto), "%s: xcm_send succeeded after the terminal condition (%s)" % (what, post), rep)
                return
            if op == "S" and e in ("EPIPE", "0") and proto in TCPB and r != "-EPIPE":
                ctx.violation("sys_fault:%s:send-not-epipe:%s" % (sig, proto), "%s: after the close was seen xcm_send reported %s, not EPIPE (%s)" % (what, r, post), rep)
                return
            if op == "R":
                if r == "0":
                    seen_zero = True
                elif r == "ok" and seen_zero:
                    ctx.violation("sys_fault:%s:data-after-close:%s" % (sig, proto), "%s: xcm_receive returned data after it had returned 0 (%s)" % (what, post), rep)
                    return
                elif r.startswith("-") and seen_zero and proto in TCPB:
                    ctx.violation("sys_fault:%s:close-not-sticky:%s" % (sig, proto), "%s: xcm_receive returned 0 and later %s (%s)" % (what, r, post), rep)
                    return


def inj_cmds(ctx, quick):
    cmds = []
    for proto in sysattr.PROTOS:
        for d, errs in (("recv", RECV_ERRS), ("send", SEND_ERRS)):
            ks = list(range(0, 12)) + [15, 20, 30, 45] if quick else list(range(0, 80))
            for k in ks:
                errl = [errs[(k + len(proto)) % len(errs)]] if quick else errs
                for e in errl:
                    cmds.append("INJ %s %s %d %s %d" % (proto, d, k, e, ctx.vseed * 1000 + k))
    return cmds


def cut_cmds(ctx, quick):
    cmds = []
    for proto in ("tcp", "btcp"):
        total = 398 if proto == "tcp" else 400
        offs = range(0, total + 1, 7 if quick else 1)
        for mode in ("fin", "rst", "finlate", "rstlate"):
            for c in offs:
                cmds.append("CUT %s %s %d %d" % (proto, mode, c, (3, 64, 70000)[c % 3]))
    return cmds


def kill_cmds(ctx, quick):
    cmds = []
    for proto in sysattr.PROTOS:
        delays = [0, 300, 1500, 6000, 25000] if quick else [0, 100, 200, 400, 800, 1200, 2000, 3000, 5000, 8000, 12000, 20000, 40000, 80000]
        for d in delays:
            cmds.append("KILL %s %d -1" % (proto, d))
        for n in ((0, 3, 9) if quick else (0, 1, 2, 3, 5, 9, 17, 40)):
            cmds.append("KILL %s 0 %d" % (proto, n))
    return cmds


def kv(line):
    out = {}
    for w in line.split():
        if "=" in w:
            k, v = w.split("=", 1)
            out[k] = v
    return out


def run_part(ctx):
    quick = ctx.tier == "quick"
    exe = build()
    for name, cmds in (("inj", inj_cmds(ctx, quick)), ("cut", cut_cmds(ctx, quick)), ("kill", kill_cmds(ctx, quick))):
        rc, out, err = sysattr.run(exe, cmds, ctx, timeout=3000)
        ctx.traces += 1
        if rc != 0 or len(out) != len(cmds):
            at = cmds[min(len(out), len(cmds) - 1)]
            ctx.violation("sys_fault:crash:" + common.crash_site(err), "sys_fault died at %r" % at, {"harness": "sys_fault", "ops": [at], "stderr": err[-3000:]})
            continue
        for c, o in zip(cmds, out):
            ctx.evaluations += 1
            rep = {"harness": "sys_fault", "ops": [c], "impl_out": o}
            w = c.split()
            if o.startswith("fail"):
                ctx.corr_break("sys_fault", "%s: %s" % (c, o), rep)
                continue
            f = kv(o)
            if name == "inj":
                proto, d, k, e = w[1], w[2], w[3], w[4]
                ctx.count("inj.%s.%s.%s" % (proto, d, "fired" if f["fired"] == "1" else "not-reached"))
                if f["fired"] != "1":
                    continue
                ctx.nontriv(("inj", proto, d, e, f["during"], f["post"]))
                during = toks(f["during"])[0]
                op, r = during.split(":", 1)
                what = "errno %s injected into %s() call %s below %s" % (e, d, k, proto)
                ok = r == "-" + e
                if e == "EPIPE" and op == "R" and r in ("0", "ok"):
                    ok = True       # a broken pipe met while flushing inside xcm_receive is an orderly close; buffered messages first
                if proto not in TCPB and r.startswith("-") and r != "-EAGAIN":
                    ok = True       # local-socket transports: some failure is reported; which errno is not fixed by the statement
                if not ok:
                    ctx.violation("sys_fault:inj:discoverer:%s:%s:%s" % (proto, d, op), "%s: the XCM call that met it reported %s" % (what, during), rep)
                    continue
                if f["bad"] != "0":
                    ctx.violation("sys_fault:inj:wrong-delivery:%s" % proto, "%s: a delivered message / byte range was not the expected one" % what, rep)
                judge_post(ctx, proto, e if not (e == "EPIPE") else "EPIPE", f["post"], "inj", what, rep)
            elif name == "cut":
                proto, mode, cut = w[1], w[2], int(w[3])
                ctx.nontriv(("cut", proto, mode, f["delivered"], f["term"], f["post"]))
                ctx.count("cut.%s.%s.term_%s" % (proto, mode, f["term"]))
                what = "raw peer wrote %d bytes of the wire stream and went away (%s)" % (cut, mode)
                if f["partial"] != "0":
                    ctx.violation("sys_fault:cut:partial-delivered:%s:%s" % (proto, mode), "%s: something the peer had not sent completely was delivered: %s" % (what, o), rep)
                if f["wrong"] != "0":
                    ctx.violation("sys_fault:cut:wrong-delivery:%s:%s" % (proto, mode), "%s: a delivered message differs from what was sent: %s" % (what, o), rep)
                if f["term"] == "none":
                    ctx.violation("sys_fault:cut:no-terminal:%s:%s" % (proto, mode), "%s: the close/reset was never reported: %s" % (what, o), rep)
                    continue
                if mode.startswith("fin"):
                    exp = expected_complete(proto, cut)
                    got = int(f["delivered"]) if proto == "tcp" else int(f["got"])
                    if got != exp and f["term"] == "0":
                        ctx.violation("sys_fault:cut:lost-before-close:%s" % proto, "%s: the orderly close was reported after %d of the %d complete units that had arrived: %s" % (what, got, exp, o), rep)
                judge_post(ctx, proto, f["term"], f["post"], "cut", what, rep)
            else:
                proto = w[1]
                ctx.nontriv(("kill", proto, w[2], w[3], f["term"], f["post"]))
                ctx.count("kill.%s.term_%s" % (proto, f["term"]))
                what = "forked %s peer %s" % (proto, "killed after %s us" % w[2] if w[3] == "-1" else "sent %s units and closed" % w[3])
                if f["bad"] != "0":
                    ctx.violation("sys_fault:kill:wrong-delivery:%s" % proto, "%s: a delivered message was incomplete or not the one sent: %s" % (what, o), rep)
                if f["accepted"] == "1" and f["term"] == "none":
                    ctx.violation("sys_fault:kill:no-terminal:%s" % proto, "%s: the peer's death was never reported: %s" % (what, o), rep)
                    continue
                if w[3] != "-1":
                    # the peer's blocking sends all returned success and it closed gracefully: everything must be delivered, then 0
                    n = int(w[3])
                    exp = n
                    if proto in ("btcp", "btls"):
                        exp = 0
                        for _ in range(n):
                            exp += 1 + (exp * 7919) % 20000
                    if f["accepted"] != "1" or f["term"] != "0" or int(f["delivered"]) != exp:
                        ctx.violation("sys_fault:kill:graceful-close-not-faithful:%s" % proto,
                                      "%s (every xcm_send had returned success in blocking mode, then xcm_close): expected %d delivered and then 0 from "
                                      "xcm_receive, got: %s" % (what, exp, o), rep)
                        continue
                if f["accepted"] == "1":
                    judge_post(ctx, proto, f["term"], f["post"], "kill", what, rep)
        ctx.sample({"harness": "sys_fault", "cmds": cmds[:3], "impl_out": out[:3]}, cap=10)


def expected_complete(proto, cut):
    if proto == "btcp":
        return min(cut, 400)
    ends, n = [], 0
    for l in (1, 5, 300, 2, 70):
        n += 4 + l
        ends.append(n)
    return sum(1 for e in ends if e <= cut)


def replay(r):
    class C:
        rundir = common.RUN + "/replay"
    rc, out, err = sysattr.run(build(), r["ops"], C, timeout=600)
    print("impl (rc=%d):" % rc, *out, sep="\n  ")
    return 0
