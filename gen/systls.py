"""Environment and generators for sys_tls (real TLS sockets against the generated PKI)."""
import os, shutil
from gen import common, ctxstore


def build():
    return common.build_harness("sys_tls", ["sys_tls.c"], link_lib=True, libs=["ssl", "crypto", "cares"], whole=True)


def env(ctx, sub="systls"):
    d = os.path.join(ctx.rundir, sub)
    shutil.rmtree(d, ignore_errors=True)
    os.makedirs(d)
    return {"PKI_DIR": ctxstore.pki_dir(), "VERIF_RUNDIR": d, "ASAN_OPTIONS": "detect_leaks=0"}


def run(exe, cmds, ctx, timeout=900):
    e = dict(os.environ)
    e.update(env(ctx))
    rc, out, err = common.run_proc([exe], "\n".join(cmds) + "\n", env=e, timeout=timeout)
    return rc, out.splitlines(), err


CERTS = ["a1", "a2", "b1", "viaInter-chain", "viaInter", "viaRevokedInter-chain", "expired", "future", "revoked", "wrongname", "clientOnly", "serverOnly"]
TCS = ["rootA", "rootB", "rootA+rootB", "rootA+interA", "interA", "a2", "rootA+interX"]
CRLS = ["crlA", "crlA-empty", "crlB", "crlA+crlB", "crlA+crlInter", "crlA-empty+crlInter", "crlA+crlInterX", "crlA-empty+crlInterX"]


def side_attrs(rng, role, by_value_ok=True):
    """attributes of one socket; role: 'srv' | 'acc' | 'cli'"""
    a = []
    v = "v" if by_value_ok and rng.chance(1, 4) else ""
    if role != "acc" or rng.chance(1, 4):
        if rng.chance(4, 5) or role == "cli":
            a.append("cert%s=%s" % (v, rng.choice(CERTS[:6]) if rng.chance(2, 3) else rng.choice(CERTS)))
    if rng.chance(1, 5):
        a.append("auth=%d" % rng.below(2))
    if rng.chance(3, 5) and role != "acc":
        a.append("tc%s=%s" % (v, rng.choice(TCS[:3]) if rng.chance(2, 3) else rng.choice(TCS)))
    elif role == "acc" and rng.chance(1, 5):
        a.append("tc%s=%s" % (v, rng.choice(TCS)))
    if rng.chance(1, 4):
        a.append("time=%d" % rng.below(2))
    if rng.chance(1, 3):
        a.append("crlchk=%d" % (1 if rng.chance(3, 4) else 0))
        if rng.chance(4, 5):
            a.append("crl%s=%s" % (v, rng.choice(CRLS)))
    elif rng.chance(1, 10):
        a.append("crl=%s" % rng.choice(CRLS))
    if rng.chance(1, 4):
        a.append("vname=%d" % (1 if rng.chance(3, 4) else 0))
        if rng.chance(3, 4):
            a.append("names=%s" % rng.choice(["a1.verif", "a2.verif:b1.verif", "localhost", "a1", "other.verif", "viainter.verif:x.y", "none"]))
    elif rng.chance(1, 12):
        a.append("names=localhost")
    for i in range(len(a) - 1, 0, -1):
        j = rng.below(i + 1)
        a[i], a[j] = a[j], a[i]
    return ",".join(a) if a else "-"


def gen_matrix(rng, n, ctx):
    cmds = ["D a1 rootA crlA-empty"]
    for _ in range(n):
        if rng.chance(1, 15):
            cmds.append("D %s %s %s" % (rng.choice(CERTS[:4]), rng.choice(TCS[:3]), rng.choice(["-", "crlA", "crlA-empty", "crlA+crlB"])))
        proto = rng.choice(["btls", "tls", "btls"])   # utls connects over UX inside one host: no TLS involved
        host = "localhost" if rng.chance(1, 6) else "127.0.0.1"
        s, a, c = side_attrs(rng, "srv"), side_attrs(rng, "acc") if rng.chance(1, 3) else "-", side_attrs(rng, "cli")
        if rng.chance(1, 10):
            # role reversal: the accepted side acts as TLS client
            s = (s + ",client=1") if s != "-" else "client=1"
            if rng.chance(3, 4):
                c = (c + ",client=0") if c != "-" else "client=0"
        cmds.append("M %s %s %s %s %s" % (proto, host, s, a, c))
        ctx.count("tls.matrix." + proto)
    return cmds


def fields(line):
    return dict(x.split("=", 1) for x in line.split() if "=" in x)


def compare(ctx, cmd, model, impl, rep):
    """model: server=..., client=accepts|rejects|connect:E.., accepted=...; impl: the harness line"""
    m, f = fields(model), fields(impl)
    sig = "sys_tls:matrix:"

    def viol(kind, what):
        ctx.violation(sig + kind, "%s: %s | model: %s | impl: %s" % (what, cmd, model, impl), rep)

    def mism(what):
        ctx.corr_break("sys_tls", "%s: %s | model: %s | impl: %s" % (what, cmd, model, impl), rep)
    if m.get("server") != "ok" or f.get("server") != "ok":
        if m.get("server") != f.get("server"):
            if m.get("server") == "EINVAL":
                viol("invalid-combination-accepted:server", "an invalid policy combination was not refused with EINVAL at server creation")
            else:
                mism("server creation differs")
        return
    if m["client"].startswith("connect:") or f["client"].startswith("connect:"):
        if m["client"] != f["client"]:
            if m["client"] == "connect:EINVAL":
                viol("invalid-combination-accepted:connect", "an invalid policy combination was not refused with EINVAL by xcm_connect")
            else:
                mism("connect differs")
        return
    if f["accepted"] == "accept:EPROTO" and m["accepted"] == "rejects":
        f["accepted"] = "EPROTO"          # the handshake already failed inside xcm_accept
    if m["accepted"].startswith("accept:") or f["accepted"].startswith("accept:"):
        if m["accepted"] != f["accepted"]:
            if m["accepted"] == "accept:EINVAL":
                viol("invalid-combination-accepted:accept", "an invalid policy combination was not refused with EINVAL by xcm_accept")
            else:
                mism("accept differs")
        return
    c2s, s2c = f["c2s"][0], f["s2c"][0]
    cli_ok, acc_ok = f["client"] == "ok", f["accepted"] == "ok"
    if m["client"] == "rejects":
        if cli_ok or s2c != "0":
            viol("fail-open:client", "the connecting side became usable / was handed data although the peer's credentials do not satisfy its policy")
        elif c2s != "0":
            viol("fail-open:client-sent", "the connecting side transmitted application data although its policy is not met")
        elif f["client"] != "EPROTO":
            mism("policy failure not reported as EPROTO on the connecting side (%s)" % f["client"])
    if m["accepted"] == "rejects":
        if acc_ok or c2s != "0":
            viol("fail-open:accepted", "the accepting side became usable / was handed data although the peer's credentials do not satisfy its policy")
        elif s2c != "0":
            viol("fail-open:accepted-sent", "the accepting side transmitted application data although its policy is not met")
        elif f["accepted"] not in ("EPROTO", "none"):
            mism("policy failure not reported as EPROTO on the accepting side (%s)" % f["accepted"])
    if m["client"] == "accepts" and m["accepted"] == "accepts":
        if not (cli_ok and acc_ok and c2s == "1" and s2c == "1"):
            mism("both policies are met but the connection did not work")


def sweep(ctx, step=1):
    """structured matrix: every peer credential x check_time x CRL configuration x name verification, with the verifying side
    being the accepting side (policy on the server socket, or overridden at accept) or the connecting side"""
    cmds = ["D a1 rootA crlA-empty"]
    k = 0
    for cred in CERTS:
        for time in ("", "time=0"):
            for crl in ("", "crlchk=1,crl=crlA", "crlchk=1,crl=crlA-empty", "crlchk=1,crl=crlA+crlInter+crlInterX", "crlchk=1,crlv=crlA-empty+crlInter"):
                for name in ("", "vname=1,names=%s" % ("viainter.verif" if cred.startswith("viaInter") else cred.lower() + ".verif"), "vname=1,names=other.verif"):
                    for tc in ("tc=rootA", "tcv=rootA+rootB", "tc=rootB"):
                        k += 1
                        if k % step:
                            continue
                        pol = ",".join(x for x in (tc, time, crl, name) if x)
                        where = k % 3
                        if where == 0:      # policy on the server socket governs the accepted connection
                            cmds.append("M %s 127.0.0.1 cert=a1,%s - cert=%s,tc=rootA" % ("btls" if k % 2 else "tls", pol, cred))
                        elif where == 1:    # overridden at accept
                            cmds.append("M btls 127.0.0.1 cert=a1,tc=rootB %s cert=%s,tc=rootA" % (pol, cred))
                        else:               # the connecting side verifies the server
                            cmds.append("M %s 127.0.0.1 cert=%s,tc=rootA - cert=a1,%s" % ("btls" if k % 2 else "tls", cred, pol))
                        ctx.count("tls.sweep")
    return cmds


def gen_switch_history(rng, n, ctx):
    """credential updates interleaved with connection set-up and tear-down (C18): rewrite the default directory, switch
    XCM_TLS_CERT, per-socket overrides; established connections are pinged after every update"""
    cmds = ["D a1 rootA -", "D a2 rootA+rootB crlA-empty dirB", "D viaInter-chain rootA - dirLong", "ENV default", "SRV 0 %s -" % rng.choice(["btls", "tls"])]
    live = []      # (pair id, expected cli_sees, expected acc_sees)
    pid = 0
    valid = ["a1", "a2", "viaInter-chain"]
    for _ in range(n):
        r = rng.below(100)
        if r < 25:
            d = rng.choice(["default", "dirB", "dirLong"])      # dirLong: a directory path of 246 characters
            cmds.append("D %s %s %s%s" % (rng.choice(valid), rng.choice(["rootA", "rootA+rootB"]), rng.choice(["-", "crlA-empty"]), "" if d == "default" else " " + d))
            ctx.count("tls.switch.rewrite_dir")
        elif r < 35:
            cmds.append("ENV %s" % rng.choice(["default", "dirB", "dirLong"]))
            ctx.count("tls.switch.env")
        elif r < 45:
            cmds.append("SRV %d %s %s" % (rng.below(2), rng.choice(["btls", "tls"]), rng.choice(["-", "-", "cert=b1,tc=rootA+rootB", "certv=a1,tcv=rootA"])))
            ctx.count("tls.switch.new_server")
        elif r < 80:
            ca = rng.choice(["-", "-", "-", "cert=a2,tc=rootA+rootB", "certv=a1", "tc=rootA+rootB"])
            aa = rng.choice(["-", "-", "-", "cert=a1", "tcv=rootA+rootB"])
            cmds.append("CON %d %d 127.0.0.1 %s %s" % (pid % 16, rng.below(2), aa, ca))
            live.append(pid % 16)
            pid += 1
            ctx.count("tls.switch.connect")
        elif live:
            cmds.append("PING %d" % rng.choice(live))
        if len(live) > 12:
            # closed, or handed over to a forked child and dropped with xcm_cleanup (the forking-server pattern)
            cmds.append("%s %d" % ("FORKCLEAN" if rng.chance(1, 3) else "CLOSE", live.pop(0)))
    for p in live[-6:]:
        cmds.append("PING %d" % p)
    # tear everything down: once the last socket using it is gone, no cached TLS context may be left
    for i, p in enumerate(sorted(set(live))):
        cmds.append("%s %d" % ("FORKCLEAN" if i % 2 else "CLOSE", p))
    for p in range(16):
        cmds.append("CLOSE %d" % p)
    cmds += ["CLOSESRV 0", "CLOSESRV 1", "CTXLIVE"]
    return cmds


def gen_isolation_history(rng, ctx):
    """policy isolation (C09): sockets that share credentials - and therefore the cached SSL_CTX - but differ in policy.
    A lenient connection (validity time / CRL / authentication switched off for that socket alone) is set up and kept alive,
    then strict sockets on the same credentials must still refuse the same peer; both orders, accept side and connect side."""
    cmds = ["D a1 rootA crlA-empty", "ENV default"]
    proto = rng.choice(["btls", "tls"])
    dims = [("time=0", "expired", ""), ("time=0", "future", ""), ("crlchk=0", "revoked", "crlchk=1,crl=crlA,"), ("auth=0", "b1", "")]
    pid = 0
    for lenient, peer, strict in dims:
        order = rng.below(2)
        # the accepting side verifies: server socket strict, one accept lenient
        cmds.append("SRV 0 %s %scert=a1,tc=rootA" % (proto, strict))
        seq = [(lenient, True), ("-", False)] if order else [("-", False), (lenient, True), ("-", False)]
        for aa, keep in seq + [("-", False)]:
            cmds.append("CON %d 0 127.0.0.1 %s cert=%s,tc=rootA" % (pid % 16, aa, peer))
            pid += 1
        cmds.append("CLOSE %d" % ((pid - 2) % 16))
        cmds.append("CON %d 0 127.0.0.1 - cert=%s,tc=rootA" % (pid % 16, peer))
        pid += 1
        # the connecting side verifies: two clients on the same credentials, one lenient
        if lenient != "auth=0":
            cmds.append("SRV 1 %s cert=%s,tc=rootA" % (proto, peer))
            cl = "%scert=a1,tc=rootA" % strict
            for ca in ([cl + "," + lenient, cl] if order else [cl, cl + "," + lenient, cl]):
                cmds.append("CON %d 1 127.0.0.1 - %s" % (pid % 16, ca))
                pid += 1
        ctx.count("tls.isolation." + lenient)
    for p in range(min(pid, 16)):
        cmds.append("CLOSE %d" % p)
    return cmds


def check_switch(ctx, cmds, model, out):
    """CON lines: verdict + which certificate each side sees; PING lines: established connections keep working and keep
    seeing the certificate they were established with"""
    seen = {}
    ctxt = []
    for cmd, ml, il in zip(cmds, model, out):
        w = cmd.split()
        if w[0] in ("D", "ENV", "SRV", "CLOSESRV"):
            ctxt.append(cmd)
            if w[0] == "SRV" and ml != il:
                ctx.corr_break("sys_tls", "server creation differs: %s | model %s | impl %s" % (cmd, ml, il), {"harness": "sys_tls", "ops": ctxt[-12:]})
            continue
        rep = {"harness": "sys_tls", "ops": ctxt[-14:] + [cmd], "model_out": ml, "impl_out": il}
        ctx.evaluations += 1
        if w[0] == "CON":
            ctxt.append(cmd)
            if ml == "no-server" or il == "no-server":
                if ml != il:
                    ctx.corr_break("sys_tls", "CON without server differs: %s" % cmd, rep)
                continue
            m, f = fields(ml), fields(il)
            if m.get("server") == "ok" and m.get("client") == "accepts" and m.get("accepted") == "accepts" and \
                    f.get("server") == "ok" and not (f.get("client") == "ok" and f.get("accepted") == "ok"):
                # C18: the material designated at this moment is valid and sufficient, yet the connection was not established
                ctx.violation("sys_tls:switch:designated-credentials-not-used", "a connection whose designated credentials satisfy both sides' policy was "
                              "not established - the material in use is not the designated one: %s | expected certificates %s / %s | %s" % (
                                  cmd, m.get("cli_sees"), m.get("acc_sees"), il), rep)
                seen.pop(int(w[1]), None)
                continue
            compare(ctx, cmd, ml, il, rep)
            if m.get("client") == "accepts" and m.get("accepted") == "accepts" and f.get("client") == "ok" and f.get("accepted") == "ok":
                cs, as_ = f["cli_sees"].split(":")[0], f["acc_sees"].split(":")[0]
                want_acc = "-" if "auth=0" in w[4].split(",") else m["acc_sees"]      # without tls.auth no client certificate is requested
                if cs != m["cli_sees"] or as_ != want_acc:
                    ctx.violation("sys_tls:switch:wrong-credentials", "a new connection does not use the credentials designated at that moment: %s | expected server cert %s / client cert %s, "
                                  "observed %s / %s" % (cmd, m["cli_sees"], m["acc_sees"], cs, as_), rep)
                seen[int(w[1])] = (f["cli_sees"], f["acc_sees"])
                ctx.nontriv(("switch", m["cli_sees"], m["acc_sees"]))
            else:
                seen.pop(int(w[1]), None)
        elif w[0] == "PING":
            p = int(w[1])
            if p in seen:
                f = fields(il)
                if f["c2s"][0] != "1" or f["s2c"][0] != "1":
                    ctx.violation("sys_tls:switch:established-broken", "an established connection stopped working after credential updates: %s -> %s" % (cmd, il), rep)
                elif (f["cli_sees"], f["acc_sees"]) != seen[p]:
                    ctx.violation("sys_tls:switch:established-changed", "an established connection's peer credentials changed: %s -> %s (was %s)" % (cmd, il, seen[p]), rep)
        elif w[0] in ("CLOSE", "FORKCLEAN"):
            seen.pop(int(w[1]), None)
        elif w[0] == "CTXLIVE":
            if il != "live_ctx=0":
                ctx.violation("sys_tls:switch:contexts-not-released", "every TLS socket of the process has been closed or cleaned up, yet cached TLS "
                              "contexts (certificate, private key, trust store) are still alive: %s" % il,
                              {"harness": "sys_tls", "ops": cmds, "impl_out": il})
