"""Generator/monitor for the xcm.c wrappers (unit_api), shared by C02 C03 C04 C05."""
from gen import common, framing

ERR = ["EAGAIN", "EAGAIN", "EAGAIN", "EINTR", "ECONNRESET", "EPIPE", "ETIMEDOUT", "EINPROGRESS", "EMSGSIZE"]


def build():
    flags = framing.includes_of("libxcm/core/xcm.c") + ["-include", "stdarg.h"]
    return common.build_harness("unit_api", ["unit_api.c"], extra_flags=flags, link_lib=True,
                                libs=["ssl", "crypto", "cares"])


def rand_script(rng, maxlen=8, eintr=True):
    n = rng.below(maxlen + 1)
    if n == 0:
        return "-"
    out = []
    for _ in range(n):
        r = rng.below(10)
        if r < 5:
            out.append(str(rng.choice([0, 1, 2, 3, 10, 100, 1000, 3000, 70000])))
        else:
            e = rng.choice(ERR)
            if e == "EINTR" and not eintr:
                e = "EAGAIN"
            out.append(e)
    return ",".join(out)


def gen_history(rng, nops, ctx):
    ops = []
    blocking = rng.below(2)
    bs = rng.below(2)
    ops.append("N %d %d" % (blocking, bs))
    for _ in range(nops):
        r = rng.below(100)
        if r < 45:
            ln = rng.choice([1, 2, 3, 10, 100, 7000, 65535]) if rng.chance(3, 4) else rng.range(1, 100000)
            ops.append("S %d %s" % (ln, rand_script(rng)))
            ctx.count("api.send.%s.%s" % ("blocking" if blocking else "nonblocking", "bytes" if bs else "msg"))
        elif r < 70:
            ops.append("R %d %s" % (rng.choice([1, 5, 100, 65535]), rand_script(rng)))
            ctx.count("api.receive")
        elif r < 80:
            ops.append("F %s" % rand_script(rng, 2))
        elif r < 88:
            ops.append("A %d" % rng.choice([0, 1, 2, 3]))
        else:
            nb = rng.below(2)
            ops.append("B %d %s" % (nb, rand_script(rng, 5)))
            # the harness' socket follows; the generator tracks the mode only for statistics
            ctx.count("api.set_blocking")
    return ops


class Monitor:
    """Oracles on the implementation's trace alone."""

    def __init__(self, ctx):
        self.ctx = ctx

    def run(self, ops, out):
        blocking = True
        bs = False
        start = 0
        for i, (op, line) in enumerate(zip(ops, out)):
            w = op.split()
            if w[0] == "N":
                blocking, bs, start = w[1] == "1", w[2] == "1", i
                continue
            f = [x.strip() for x in line.split("|")]
            if len(f) < 2:
                continue
            rcw = f[0].split()
            rc = int(rcw[0])
            err = rcw[1] if len(rcw) > 1 else None
            calls = [] if f[1] == "-" else f[1].split()

            def viol(sig, what):
                self.ctx.violation("unit_api:monitor:" + sig, what,
                                   {"harness": "unit_api", "ops": ops[start:i + 1], "impl_out": out[start:i + 1]})
            was_blocking = blocking
            if w[0] == "B" and len(f) > 2:
                blocking = f[2].endswith("1")
            if any(c.startswith("!") for c in calls):
                viol("out-of-bounds-or-zero-timeout", "the wrapper handed the transport memory outside the caller's buffer or polled with timeout 0: " + f[1])
            if not was_blocking and w[0] in ("S", "R", "F", "A") and any(c.startswith("W(") for c in calls):
                viol("nonblocking-socket-waited", "a call on a non-blocking socket waited in poll(): %s" % f[1])
            if not was_blocking and w[0] == "B" and w[1] == "0" and any(c.startswith("W(") for c in calls):
                viol("nonblocking-socket-waited", "xcm_set_blocking(false) on a non-blocking socket waited")
            if w[0] == "S":
                ln = int(w[1])
                sends = [c for c in calls if c.startswith("S(")]
                script = [] if w[2] == "-" else w[2].split(",")
                # which transport sends succeeded: replay the script against the call sequence
                k = 0
                accepted = 0
                acc_msgs = 0
                for c in calls:
                    a = script[k] if k < len(script) else "1000000000"
                    k += 1
                    if c.startswith("S("):
                        off, l = [int(x) for x in c[2:-1].split(",")]
                        if bs and off != accepted:
                            viol("bsend-offset", "bytestream_bsend offered offset %d after %d bytes were accepted" % (off, accepted))
                        if off + l != ln:
                            viol("bsend-range", "transport send offered [%d,%d) of a %d-byte buffer" % (off, off + l, ln))
                        if not a.startswith("E"):
                            if bs:
                                accepted += max(1, min(int(a), l)) if l else 0
                            else:
                                acc_msgs += 1
                if rc < 0 and (accepted > 0 or acc_msgs > 0):
                    # only a failure of the *wait* counts: a transport never reports EINTR/EAGAIN-after-wait itself
                    if err == "EINTR" and calls and calls[-1].startswith("W("):
                        viol("send-failed-after-acceptance",
                             "xcm_send returned -1/%s although the transport had already accepted %s: a re-send duplicates it"
                             % (err, ("%d bytes" % accepted) if bs else "the message"))
                if rc >= 0 and bs and rc != accepted:
                    viol("bsend-accounting", "xcm_send reported %d accepted bytes, the transport accepted %d" % (rc, accepted))
                if rc >= 0 and bs and was_blocking and rc > ln:
                    viol("bsend-accounting", "xcm_send returned more than len")
                if rc >= 0 and not bs and acc_msgs != 1:
                    viol("msg-accounting", "xcm_send returned success but the transport accepted %d messages" % acc_msgs)
