"""unit_dnsq: the real xcm_dns_cares.c over the real timer_mgr.c (scripted c-ares, scripted clock, recorded timerfd/xpoll calls)
vs the Lean DnsQuery model, plus a monitor on the implementation's output alone (deadline honoured, completion sticky and
rung, no registration left on a completed query)."""
from gen import common, framing

TICK = 1953125
SOCKS = ["-", "r", "w", "rw", "r,r", "0,r", "r,0,w", "rw,r,w,0,r", ",".join(["r"] * 16), ",".join(["rw"] * 18), "0,0"]
TOS = ["-", "0", "8", "64", "512", "520", "1024"]


def build():
    flags = framing.includes_of("libxcm/tp/dns/xcm_dns_cares.c") + framing.includes_of("libxcm/core/timer_mgr.c")
    return common.build_harness("unit_dnsq", ["unit_dnsq.c"], extra_flags=flags, link_lib=True, libs=["ssl", "crypto", "cares"])


def exhaustive():
    ops = ["QF tfd", "QF efile"]
    for tmo in (1024, 0, -5, 512, 300):
        for sync in ("-", "ok1", "ok3", "fail", "canc", "ok40"):
            ops += ["Q 10 %d %s r 512" % (tmo, sync), "R 32", "R 1"]
            for cb in ("-", "ok2", "fail", "canc"):
                for when in (11, 10 + max(tmo, 0), 10 + max(tmo, 0) + 1, 10 + 5120, 10 + 5121):
                    ops += ["Q 10 %d %s r,w 520" % (tmo, sync), "P %d %s rw 8" % (when, cb), "R 32", "P %d - r -" % (when + 600), "R 2", "P %d ok1 - -" % (when + 6000), "R 1", "D"]
    ops += ["Q 0 512 - - -", "P 0 - - -", "P 512 - - 0", "P 513 - - 0", "R 5", "D",
            "Q 7 512 - r 64", "P 9 ok1 r 64", "R 0", "R 1", "D"]
    return ops


def gen_history(rng, n, ctx):
    now = rng.below(100)
    tmo = rng.choice([512, 1024, 300, 0, -1, 5120, rng.below(3000)])
    ops = ["Q %d %d %s %s %s" % (now, tmo, rng.choice(["-"] * 6 + ["ok1", "fail", "ok33", "canc"]), rng.choice(SOCKS), rng.choice(TOS))]
    for _ in range(n):
        now += rng.choice([0, 1, 8, 64, 100, 512, 600, 2000])
        r = rng.below(100)
        if r < 60:
            ops.append("P %d %s %s %s" % (now, rng.choice(["-"] * 10 + ["canc", "fail", "ok1", "ok2", "ok32", "ok33", "ok100"]), rng.choice(SOCKS), rng.choice(TOS)))
        elif r < 92:
            ops.append("R %d" % rng.choice([1, 1, 2, 32, 33, 5]))
        elif r < 95:
            ops.append("R 0")
        else:
            ops.append("D")
            now = now + 1
            ops.append("Q %d %d - %s %s" % (now, rng.choice([512, 1024, 0]), rng.choice(SOCKS), rng.choice(TOS)))
        ctx.count("dnsq.op." + ops[-1].split()[0])
    ops.append("D")
    return ops


def monitor(ctx, ops, out):
    st, deadline, start, results = None, None, 0, None
    for i, (op, line) in enumerate(zip(ops, out)):
        w = op.split()
        f = [x.strip() for x in line.split("|")]

        def viol(sig, what):
            ctx.violation("unit_dnsq:monitor:" + sig, what, {"harness": "unit_dnsq", "ops": ops[start:i + 1], "impl_out": out[start:i + 1]})
        if w[0] == "D":
            if line != "destroyed regs-left=0 closed=1 regdel=1":
                viol("destroy-leaves-something", "xcm_dns_query_destroy: %s" % line); return
            st = None
            continue
        if w[0] == "QF":
            continue
        if len(f) != 6:
            continue
        if "STALE" in line or "UNKNOWN-REG-DEL" in line:
            viol("registration-bookkeeping", "channel descriptor registrations inconsistent after '%s': %s" % (op, line)); return
        new = int(f[1][3:])
        armed = None if f[4] == "armed=off" else int(f[4][6:])
        if w[0] == "Q":
            start, st = i, None
            t = int(w[2])
            deadline = (int(w[1]) + (t if t > 0 else 5120)) * TICK
        if st in (1, 2) and new != st:
            viol("completed-not-sticky", "a completed query (state %d) changed to state %d on '%s'" % (st, new, op)); return
        if new != 0 and f[2] != "regs=-":
            viol("registration-left", "a completed query still has c-ares descriptors registered: %s" % line); return
        if w[0] in ("P", "Q"):
            now = int(w[1]) * TICK
            cb = w[2] if w[0] == "P" else w[3]
            if w[0] == "P" and st == 0:
                if now > deadline and not cb.startswith("ok") and new != 1:
                    viol("deadline-missed", "process at %d ns, after the overall deadline %d ns, left the query in state %d" % (now, deadline, new)); return
                if now <= deadline and cb in ("-", "canc") and new != 0:
                    viol("early-timeout", "process at %d ns, before the overall deadline %d ns and without an answer, ended the query (state %d)" % (now, deadline, new)); return
            if new == 0 and (armed is None or armed > max(deadline, 1)):
                viol("deadline-not-armed", "query in progress but the timerfd is set to %s, later than the overall deadline %d" % (armed, deadline)); return
            if new != 0 and st in (0, None) and (armed is None or armed > max(now, 1)):
                viol("completion-not-rung", "the query completed at %d ns but the timerfd is set to %s: the owner is not woken" % (now, armed)); return
        if w[0] == "R":
            want = {0: "rc=-1 EAGAIN", 1: "rc=-1 ENOENT"}.get(new)
            if want and f[0] != want:
                viol("wrong-result", "state %d but result says '%s'" % (new, f[0])); return
            if new == 2 and f[0].startswith("rc=") and not (1 <= int(f[0].split()[0][3:]) <= min(max(int(w[1]), 1), 32) and "WRONG" not in f[0]):
                viol("wrong-result", "successful query, capacity %s: %s" % (w[1], f[0])); return
        st = new


def run_part(ctx, nhist, label="dnsq"):
    exe = build()
    ops = exhaustive()
    for k in range(nhist):
        ops += gen_history(ctx.rng.fork("%s%d" % (label, k)), 14, ctx)
    m, il = ctx.differential("unit_dnsq", "dnsq", exe, ops, label=label)
    monitor(ctx, ops, il)
    for o, l in zip(ops, il):
        ctx.nontriv(("dnsq", o.split()[0], l.split("|")[0], l.split("|")[1] if "|" in l else ""))
    ctx.sample({"harness": "unit_dnsq", "ops": ops[2:10], "model_out": m[2:10]}, cap=8)
    return len(ops)
