"""A tiny DNS responder on 127.0.0.1:53/udp for the system harnesses (the sandbox has no resolver):
names map to (A list, AAAA list), NXDOMAIN, or silence."""
import socket, struct, threading


class Responder:
    def __init__(self, table=None):
        self.table = dict(table or {})        # name (lower, no dot) -> {"A": [...], "AAAA": [...]} | "nx" | "mute"
        self.sock = socket.socket(socket.AF_INET, socket.SOCK_DGRAM)
        self.sock.setsockopt(socket.SOL_SOCKET, socket.SO_REUSEADDR, 1)
        self.sock.bind(("127.0.0.1", 53))
        self.sock.settimeout(0.2)
        self.stop = False
        self.queries = 0
        self.th = threading.Thread(target=self.run, daemon=True)
        self.th.start()

    def close(self):
        self.stop = True
        self.th.join(2)
        self.sock.close()

    def run(self):
        while not self.stop:
            try:
                data, addr = self.sock.recvfrom(2048)
            except socket.timeout:
                continue
            except OSError:
                return
            try:
                rep = self.answer(data)
            except Exception:
                rep = None
            if rep:
                self.sock.sendto(rep, addr)

    def answer(self, q):
        self.queries += 1
        tid, flags, qd = struct.unpack(">HHH", q[:6])
        i = 12
        labels = []
        while q[i]:
            n = q[i]
            labels.append(q[i + 1:i + 1 + n].decode())
            i += 1 + n
        i += 1
        qtype, qclass = struct.unpack(">HH", q[i:i + 4])
        question = q[12:i + 4]
        name = ".".join(labels).lower()
        ent = self.table.get(name, "nx")
        if ent == "mute":
            return None
        if ent == "nx":
            return struct.pack(">HHHHHH", tid, 0x8183, 1, 0, 0, 0) + question
        rrs = b""
        cnt = 0
        if qtype == 1:
            for a in ent.get("A", []):
                rrs += b"\xc0\x0c" + struct.pack(">HHIH", 1, 1, 30, 4) + socket.inet_aton(a)
                cnt += 1
        elif qtype == 28:
            for a in ent.get("AAAA", []):
                rrs += b"\xc0\x0c" + struct.pack(">HHIH", 28, 1, 30, 16) + socket.inet_pton(socket.AF_INET6, a)
                cnt += 1
        return struct.pack(">HHHHHH", tid, 0x8180, 1, cnt, 0, 0) + question + rrs
