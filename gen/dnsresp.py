"""A tiny DNS responder on 127.0.0.1:53/udp for the system harnesses (the sandbox has no resolver):
names map to (A list, AAAA list), NXDOMAIN, or silence."""
import socket, struct, threading


class Responder:
    def __init__(self, table=None):
        self.table = dict(table or {})        # name (lower, no dot) -> {"A": [...], "AAAA": [...]} | "nx" | "mute"
        self.sock = socket.socket(socket.AF_INET, socket.SOCK_DGRAM)
        self.sock.setsockopt(socket.SOL_SOCKET, socket.SO_REUSEADDR, 1)
        self.sock.bind(("127.0.0.1", 53))
        self.sock.settimeout(0.2)
        self.stop = False
        self.queries = 0
        self.tcp_queries = 0
        self.tsock = socket.socket(socket.AF_INET, socket.SOCK_STREAM)
        self.tsock.setsockopt(socket.SOL_SOCKET, socket.SO_REUSEADDR, 1)
        self.tsock.bind(("127.0.0.1", 53))
        self.tsock.listen(16)
        self.tsock.settimeout(0.2)
        self.th = threading.Thread(target=self.run, daemon=True)
        self.th.start()
        self.tth = threading.Thread(target=self.run_tcp, daemon=True)
        self.tth.start()

    def close(self):
        self.stop = True
        self.th.join(2)
        self.tth.join(2)
        self.sock.close()
        self.tsock.close()

    def run_tcp(self):
        """answers over TCP (what a resolver falls back to after a truncated UDP reply)"""
        while not self.stop:
            try:
                c, _ = self.tsock.accept()
            except socket.timeout:
                continue
            except OSError:
                return
            try:
                c.settimeout(1.0)
                while True:
                    h = c.recv(2)
                    if len(h) < 2:
                        break
                    n = struct.unpack(">H", h)[0]
                    q = b""
                    while len(q) < n:
                        d = c.recv(n - len(q))
                        if not d:
                            break
                        q += d
                    rep = self.answer(q, tcp=True)
                    self.tcp_queries += 1
                    if rep:
                        c.sendall(struct.pack(">H", len(rep)) + rep)
            except Exception:
                pass
            finally:
                c.close()

    def run(self):
        while not self.stop:
            try:
                data, addr = self.sock.recvfrom(2048)
            except socket.timeout:
                continue
            except OSError:
                return
            try:
                rep = self.answer(data)
            except Exception:
                rep = None
            if rep:
                self.sock.sendto(rep, addr)

    def answer(self, q, tcp=False):
        self.queries += 1
        tid, flags, qd = struct.unpack(">HHH", q[:6])
        i = 12
        labels = []
        while q[i]:
            n = q[i]
            labels.append(q[i + 1:i + 1 + n].decode())
            i += 1 + n
        i += 1
        qtype, qclass = struct.unpack(">HH", q[i:i + 4])
        question = q[12:i + 4]
        name = ".".join(labels).lower()
        ent = self.table.get(name, "nx")
        if ent == "mute":
            return None
        if ent == "nx":
            return struct.pack(">HHHHHH", tid, 0x8183, 1, 0, 0, 0) + question
        rrs = b""
        cnt = 0
        if qtype == 1:
            for a in ent.get("A", []):
                rrs += b"\xc0\x0c" + struct.pack(">HHIH", 1, 1, 30, 4) + socket.inet_aton(a)
                cnt += 1
        elif qtype == 28:
            for a in ent.get("AAAA", []):
                rrs += b"\xc0\x0c" + struct.pack(">HHIH", 28, 1, 30, 16) + socket.inet_pton(socket.AF_INET6, a)
                cnt += 1
        full = struct.pack(">HHHHHH", tid, 0x8180, 1, cnt, 0, 0) + question + rrs
        if not tcp and len(full) > 512:
            # does not fit a classic UDP reply: truncated, the resolver has to come back over TCP
            return struct.pack(">HHHHHH", tid, 0x8380, 1, 0, 0, 0) + question
        return full
