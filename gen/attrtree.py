"""unit_attrtree: the real nested attribute tree (attr_tree.c, attr_node.c, attr_path.c) vs the flat Lean AttrTree model:
lookups of existing names, prefixes, kind-confused and out-of-range variants and malformed names; list lengths; get-all."""
from gen import common, framing

KEYS = ["a", "b", "tls", "peer", "san", "dns", "xcm", "x_y", "k-1", "0", "Z"]


def build():
    flags = ["-I" + common.REPO + "/libxcm/core", "-I" + common.REPO + "/include"]
    return common.build_harness("unit_attrtree", ["unit_attrtree.c"], extra_flags=flags, link_lib=True, libs=["ssl", "crypto", "cares"])


def pstr(p):
    s = ""
    for i, c in enumerate(p):
        if isinstance(c, int):
            s += "[%d]" % c
        else:
            s += ("." if i else "") + c
    return s


class Shape:
    """nested description used only to generate adds the C code's assertions allow"""

    def __init__(self):
        self.root = {}

    def gen_add(self, rng, nid):
        node, path = self.root, []
        for depth in range(rng.choice([1, 1, 2, 2, 3, 4])):
            last = depth == 0 and False
            if isinstance(node, dict):
                k = rng.choice(KEYS)
                path.append(k)
                if k not in node:
                    break
                if node[k] is None or isinstance(node[k], str):
                    return None                      # a value is in the way
                node = node[k]
            else:
                if node and rng.chance(1, 2):
                    i = rng.below(len(node)); path.append(i)
                    if node[i] is None or isinstance(node[i], str):
                        return None
                    node = node[i]
                else:
                    path.append(len(node))
                    break
        else:
            return None
        # path now names a fresh slot directly under `node`; maybe extend with fresh containers
        ext = []
        for _ in range(rng.choice([0, 0, 0, 1, 2])):
            ext.append(rng.choice(KEYS) if rng.chance(2, 3) else 0)
        full = path + ext
        kind = rng.choice(["V", "V", "V", "L"])
        # apply to the shape
        cur = node
        comps = [path[-1]] + ext
        for j, c in enumerate(comps):
            final = j == len(comps) - 1
            if final:
                new = "v" if kind == "V" else []
            else:
                new = {} if isinstance(comps[j + 1], str) else []
            if isinstance(cur, dict):
                cur[c] = new
            else:
                cur.append(new)
            cur = new
        if kind == "V":
            return "AV %s %d %d" % (pstr(full), nid, 0 if rng.chance(1, 6) else 1), full
        return "AL %s" % pstr(full), full


def variants(rng, p):
    out = [p, p[:-1], p + ["zz"], p + [0], p[:1]]
    q = list(p)
    j = rng.below(len(q))
    q[j] = 0 if isinstance(q[j], str) else "a"
    out.append(q)
    q = list(p)
    for j in range(len(q)):
        if isinstance(q[j], int):
            q2 = list(q); q2[j] += rng.choice([1, 5]); out.append(q2)
    return [x for x in out if x and isinstance(x[0], str)]


def gen_history(rng, n, ctx):
    ops = ["N"]
    sh = Shape()
    paths = []
    nid = 1
    for _ in range(n):
        r = sh.gen_add(rng, nid)
        if r is None:
            continue
        op, full = r
        ops.append(op); nid += 1; paths.append(full)
        ctx.count("attrtree.add." + op.split()[0])
        if rng.chance(1, 3):
            for v in variants(rng, rng.choice(paths))[:4]:
                ops.append("%s %s" % (rng.choice(["G", "G", "L"]), pstr(v)))
    for p in paths:
        for v in variants(rng, p):
            ops.append("G " + pstr(v)); ops.append("L " + pstr(v))
    ops += ["G a..b", "G [0]", "L a[", "G a[1", "G a[-1]", "L .a", "G a]", "G " + "a." * 70 + "a", "ALL"]
    return ops


def run_part(ctx, nhist, label="attrtree"):
    exe = build()
    ops = ["N", "G a", "L a", "ALL", "AV a.b 1 1", "AL a.l", "AV a.l[0] 2 1", "AV a.l[1].x 3 1", "AV a.m[0][0] 4 0", "G a.b", "G a", "L a.l", "L a.m", "L a.m[0]",
           "G a.l[0]", "G a.l[2]", "G a.l.x", "G a[0]", "G a.l[1]", "G a.l[1].x", "G a.m[0][0]", "L a.b", "L a.l[1]", "ALL"]
    for k in range(nhist):
        ops += gen_history(ctx.rng.fork("%s%d" % (label, k)), 12, ctx)
    m, il = ctx.differential("unit_attrtree", "attrtree", exe, ops, label=label)
    for o, l in zip(ops, il):
        ctx.nontriv(("attrtree", o.split()[0], l.split()[0], l.split()[1] if len(l.split()) > 1 and l.startswith("err") else ""))
    ctx.sample({"harness": "unit_attrtree", "ops": ops[4:14], "model_out": m[4:14]}, cap=10)
    return len(ops)
