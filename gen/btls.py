"""Generator/monitor for the TLS connection machine of xcm_tp_btls.c (unit_btls), shared by C09 C06 C02 C07 C16 C17."""
from gen import common, framing
from gen.common import hexs

ERRS = ["ECONNRESET", "ETIMEDOUT", "EHOSTUNREACH", "EPIPE", "0", "EINPROGRESS", "ENETUNREACH"]


def build():
    flags = framing.includes_of("libxcm/tp/tls/xcm_tp_btls.c")
    return common.build_harness("unit_btls", ["unit_btls.c"], extra_flags=flags, link_lib=True, libs=["ssl", "crypto", "cares"])


def rand_ev(rng):
    r = rng.below(12)
    if r < 4:
        return "wr"
    if r < 7:
        return "ww"
    if r < 8:
        return "zr"
    if r < 9:
        return "se"
    return "sc:%s:%d" % (rng.choice(ERRS), 1 if rng.chance(1, 5) else 0)


def rand_hs(rng):
    return "ok" if rng.chance(1, 2) else rand_ev(rng)


def gen_history(rng, nops, ctx):
    auth = rng.below(2)
    cert = rng.choice(["ok", "ok", "none", "rejected"])
    ops = ["N %d %d %s %s" % (auth, rng.below(2), cert, rand_hs(rng) if rng.chance(1, 3) else rng.choice(["wr", "ww"]))]
    ctx.count("btls.conn.auth%d.cert_%s" % (auth, cert))
    for _ in range(nops):
        r = rng.below(100)
        if r < 35:
            m = rng.bytes(rng.choice([0, 1, 2, 5, 100, 20000]) if rng.chance(1, 4) else rng.range(1, 12))
            def rw():
                return ("ok:%d" % rng.choice([1, 2, 3, len(m) or 1, 100000])) if rng.chance(1, 2) else ("z0" if rng.chance(1, 12) else rand_ev(rng))
            ops.append("S %s %s %s" % (hexs(m), rand_hs(rng), " ".join(rw() for _ in range(rng.range(1, 4)))))
        elif r < 68:
            d = ("d:" + hexs(rng.bytes(rng.choice([1, 2, 3, 10, 100, 1000])))) if rng.chance(1, 2) else rand_ev(rng)
            fw = " ".join((("ok:%d" % rng.choice([1, 2, 100000])) if rng.chance(1, 2) else ("z0" if rng.chance(1, 12) else rand_ev(rng))) for _ in range(rng.below(3)))
            ops.append(("R %d %s %s %s" % (rng.choice([1, 2, 3, 64, 100000]), rand_hs(rng), d, fw)).strip())
        elif r < 80:
            fw = " ".join((("ok:%d" % rng.choice([1, 2, 100000])) if rng.chance(1, 2) else rand_ev(rng)) for _ in range(rng.below(3)))
            ops.append(("F %s %s %s" % (rand_hs(rng), "ok" if rng.chance(2, 3) else rng.choice(["EAGAIN", "ECONNRESET"]), fw)).strip())
        else:
            ops.append("U %d %d" % (rng.below(4), rng.below(2)))
    return ops


class Monitor:
    """C09/C06/C02 oracles on the implementation's output alone"""

    def __init__(self, ctx):
        self.ctx = ctx

    def run(self, ops, out):
        st = None
        for i, (op, line) in enumerate(zip(ops, out)):
            w = op.split()
            if w[0] == "N":
                st = dict(start=i, auth=w[1] == "1", cert=w[3], hs_ok=w[4].startswith("ok"), terminal=None)
                state = line.split()[0]
                verified = st["hs_ok"] and (not st["auth"] or st["cert"] == "ok")
                if state == "ready" and not verified:
                    self.ctx.violation("unit_btls:monitor:ready-without-verification", "the connection became usable although the peer's certificate was not accepted",
                                       {"harness": "unit_btls", "ops": ops[i:i + 1], "impl_out": out[i:i + 1]})
                if state == "closed":
                    st["terminal"] = ("closed", None)
                elif state.startswith("bad:"):
                    st["terminal"] = ("bad", state[4:])
                continue
            if st is None or w[0] == "U":
                continue
            f = [x.strip() for x in line.split("|")]
            if len(f) < 5:
                continue
            rcw = f[0].split()
            rc = int(rcw[0])
            err = rcw[1] if len(rcw) > 1 else None
            state = f[3].split()[0]
            calls = dict(x.split("=") for x in f[4].split()[:3])

            def viol(sig, what):
                self.ctx.violation("unit_btls:monitor:" + sig, what,
                                   {"harness": "unit_btls", "ops": ops[st["start"]:i + 1], "impl_out": out[st["start"]:i + 1]})
            hs_tok = w[2] if w[0] in ("S", "R") else w[1]
            if calls["hs"] == "1" and hs_tok.startswith("ok"):
                st["hs_ok"] = True
            verified = st["hs_ok"] and (not st["auth"] or st["cert"] == "ok")
            if state == "ready" and not verified:
                viol("ready-without-verification", "the connection became usable although the handshake did not succeed or the peer's certificate was not accepted (auth=%s cert=%s)" % (st["auth"], st["cert"]))
            if (calls["wr"] != "0" or calls["rd"] != "0") and not verified:
                viol("data-before-verification", "SSL_write/SSL_read was called (application data handed over or fetched) before the peer was verified")
            if w[0] == "R" and rc > 0 and not verified:
                viol("data-before-verification", "received data was handed to the application before the peer was verified")
            if st["terminal"]:
                kind, e0 = st["terminal"]
                if kind == "closed":
                    ok = (w[0] == "R" and rc == 0) or (w[0] in ("S", "F") and rc == -1 and err == "EPIPE")
                    if not ok:
                        viol("closed-not-sticky", "after the close was seen: receive must return 0, send/finish EPIPE")
                elif not (rc == -1 and err == e0):
                    viol("bad-not-sticky", "after a connection error every call must report that same errno")
            else:
                if state == "closed":
                    st["terminal"] = ("closed", None)
                elif state.startswith("bad:"):
                    st["terminal"] = ("bad", state[4:])
                    if not (rc == -1 and err == state[4:]):
                        viol("discoverer-errno", "the call that discovered the failure (%s -> %s) reported %s" % (op[:40], state, f[0]))
            try:
                cnt = [int(x) for x in f[2].split()]      # to_app from_app to_lower from_lower
            except ValueError:
                cnt = None
            if cnt and len(cnt) == 4:
                prev = st.get("cnt", [0, 0, 0, 0])
                if any(a < b for a, b in zip(cnt, prev)):
                    viol("counter-decreased", "a byte counter decreased (%s -> %s)" % (prev, cnt))
                if not (cnt[1] >= cnt[2] and cnt[3] >= cnt[0]):
                    viol("counter-order", "from_app >= to_lower or from_lower >= to_app violated (%s)" % cnt)
                if w[0] == "S" and cnt[1] - prev[1] != max(rc, 0):
                    viol("from-app-count", "from_app grew by %d on an xcm_send that returned %d" % (cnt[1] - prev[1], rc))
                if w[0] == "R" and cnt[0] - prev[0] != max(rc, 0):
                    viol("to-app-count", "to_app grew by %d on an xcm_receive that returned %d" % (cnt[0] - prev[0], rc))
                if w[0] == "F" and (cnt[1] != prev[1] or cnt[0] != prev[0]):
                    viol("finish-counts-app-data", "xcm_finish changed an application-side counter")
                st["cnt"] = cnt
            if w[0] == "S" and rc >= 0:
                ln = 0 if w[1] == "-" else len(w[1]) // 2
                if rc > ln or (ln > 0 and rc == 0):
                    viol("send-rc-range", "xcm_send on a byte stream returned a value outside 1..len")
            if w[0] == "R" and rc > int(w[1]):
                viol("receive-beyond-capacity", "xcm_receive returned more than capacity")


EVS = ["wr", "ww", "zr", "se"] + ["sc:%s:0" % e for e in ERRS] + ["sc:ECONNRESET:1", "sc:EPIPE:0"]
FOLLOW = ["S 0102 ok ok:2", "R 10 ok d:0a0b", "F ok ok", "R 10 ok zr", "S 01 ok ww", "U 0 0", "U 1 0", "S 0304 ok ww", "R 5 ok wr ww", "U 1 0", "R 5 ok d:0c wr", "U 3 0",
          "F ok ok ok", "R 5 ok wr", "F ok EAGAIN", "U 3 0", "U 1 1", "U 0 0", "S 0506 ok wr", "R 5 ok wr ok", "U 1 0"]


def fault_enumeration(ctx):
    """every OpenSSL event x every first observer (send/receive/finish, in the handshake step or in SSL_write/SSL_read)
    x {handshaking, ready} x policy outcome, each followed twice by every kind of later call"""
    ops = []
    for auth in (0, 1):
        for cert in ("ok", "none", "rejected"):
            for ev in EVS + ["ok"]:
                # discovered by the handshake step of S / R / F, or already by connect/accept (N)
                for obs in ("N", "S", "R", "F"):
                    if obs == "N":
                        ops.append("N %d 1 %s %s" % (auth, cert, ev))
                    else:
                        ops.append("N %d 0 %s wr" % (auth, cert))
                        ops.append({"S": "S 0102 %s ok", "R": "R 10 %s d:01", "F": "F %s ok"}[obs] % ev)
                    ops += FOLLOW + FOLLOW
                    ctx.count("btls.enum.handshake")
    for ev in EVS + ["z0"]:
        for obs in ("S", "R"):
            if ev == "z0" and obs == "R":
                continue
            for pre in ([], ["S 0a0b0c ok ok:2", "R 4 ok d:01020304"]):
                ops.append("N 1 1 ok ok")
                ops += pre
                ops.append("S 0102 ok %s" % ev if obs == "S" else "R 10 ok %s" % ev)
                ops += FOLLOW + FOLLOW
                ctx.count("btls.enum.ready")
    return ops


def update_enumeration(ctx):
    """conn_update for every reachable (state, ssl_condition, ssl_wants, retained output, pending_write_wants) x awaited condition x SSL_has_pending"""
    ops = []
    setups = [["N 1 1 ok wr"], ["N 1 1 ok ww"], ["N 1 1 ok sc:EINPROGRESS:0"],
              ["N 1 1 ok ok"], ["N 1 1 ok ok", "S 01 ok wr"], ["N 1 1 ok ok", "S 01 ok ww"],
              ["N 1 1 ok ok", "R 9 ok wr"], ["N 1 1 ok ok", "R 9 ok ww"], ["N 1 1 ok ok", "S 01 ok sc:EINPROGRESS:0"],
              ["N 1 1 ok ok", "S 010203 ok ww", "F ok ok ok:1 wr"], ["N 1 1 ok ok", "S 010203 ok wr", "F ok ok ok:2 ww"],
              ["N 1 1 ok ok", "S 0102 ok ww", "F ok ok ok:2"], ["N 1 1 ok ok", "S 0102 ok ww", "R 9 ok wr"],
              ["N 1 1 ok ok", "S 0102 ok wr", "R 9 ok d:0a"], ["N 1 1 ok ok", "S 0102 ok ww", "S 0304 ok ok:2 ok:1"],
              ["N 1 1 ok ok", "S 0102 ok ww", "S 0304 ok ok:2 ww"], ["N 1 1 ok ok", "S 0102 ok ww", "F ok ok zr"],
              ["N 1 1 ok ok", "S 0102 ok ww", "R 9 ok wr ww"], ["N 1 1 ok ok", "S 0102 ok ww", "R 9 ok wr wr"],
              ["N 1 1 ok ok", "S 0102 ok wr", "R 9 ok ww ok:1 ww"], ["N 1 1 ok ok", "S 0102 ok ww", "R 9 ok wr ok"],
              ["N 1 1 ok ok", "S 0102 ok ww", "R 9 ok wr zr"], ["N 1 1 ok ok", "S 0102 ok ww", "R 9 ok wr sc:ECONNRESET:0"],
              ["N 1 1 ok ok", "R 9 ok zr"], ["N 1 1 ok ok", "R 9 ok se"], ["N 1 1 rejected ok"], ["N 1 1 ok sc:ECONNRESET:0"]]
    for su in setups:
        ops += su
        for cond in range(4):
            for hp in range(2):
                ops.append("U %d %d" % (cond, hp))
                ctx.count("btls.enum.update")
    return ops


def run_part(ctx, nhist, exhaustive=True, label="btls"):
    """differential + monitors on unit_btls; returns the number of ops run"""
    exe = build()
    mon = Monitor(ctx)
    total = 0
    if exhaustive:
        for name, ops in (("fault enumeration", fault_enumeration(ctx)), ("update enumeration", update_enumeration(ctx))):
            m, il = ctx.differential("unit_btls", "btls", exe, ops, label="btls " + name)
            mon.run(ops, il)
            for o, l in zip(ops, m):
                ctx.nontriv(("btls", o.split()[0], l))
            total += len(ops)
        ctx.sample({"harness": "unit_btls", "ops": ops[:10], "model_out": m[:10]})
    ops = []
    for k in range(nhist):
        ops += gen_history(ctx.rng.fork("%s%d" % (label, k)), 30, ctx)
        if len(ops) > 6000 or k == nhist - 1:
            m, il = ctx.differential("unit_btls", "btls", exe, ops, label="btls random")
            mon.run(ops, il)
            for o, l in zip(ops, m):
                ctx.nontriv(("btls", o.split()[0], l[-50:]))
            total += len(ops)
            ops = []
        if ctx.over_budget():
            break
    return total


def replay(r):
    exe = build()
    text = "\n".join(r["ops"]) + "\n"
    common.lake_build(["driver"])
    m = common.run_model("btls", text)
    rc, out, err = common.run_proc([exe], text)
    print("model:", *m, sep="\n  ")
    print("impl (rc=%d):" % rc, *out.splitlines(), sep="\n  ")
    if err:
        print(err[-2000:])
    ctx = common.Ctx("C09", "quick", 1)
    Monitor(ctx).run(r["ops"], out.splitlines())
    for v in ctx.violations:
        print("monitor:", v["signature"], v["what"])
    return 0 if m == out.splitlines() and rc == 0 and not ctx.violations else 1
