#!/usr/bin/env python3
"""Regenerates MANIFEST.json from the table below (kept in one place so that the manifest is
always valid and the not_applicable list is always the complement of the claimed checks)."""
import json, os
HERE = os.path.dirname(os.path.dirname(os.path.abspath(__file__)))
ALL = ["C%02d" % i for i in range(1, 21)]

CLAIMED = {
    "C19": dict(
        text="Lean 4 refinement proof: every history of xcm_attr_map operations on any number of maps "
             "(add/del/get/typed get/exists/clone/add_all/equal) produces the outputs of the mathematical "
             "finite-map specification (C19_refines, induction over the op list; equal_iff: equality is "
             "extensional, size/foreach characterised); attr_path parse/print round trip, canonical form, "
             "length and component bounds proved for all byte strings. The model is tied to the C code by "
             "differential execution of the real xcm_attr_map / attr_path code (ASan+UBSan) against the "
             "executable model on generated op histories and strings. The attribute tree itself (attr_tree.c over attr_node.c) has a flat Lean model (AttrTree) with theorems for every tree and path: an added value is found under its name, adding a node changes no unrelated lookup, get-all lists exactly the readable values added, and a name is listed iff it is found as that value (lookup_add_value_same, lookup_add_unrelated, listed_is_found, found_is_listed); tie: unit_attrtree - the real nested tree built with the library\'s add functions, queried with existing, prefix, kind-confused, out-of-range and malformed names.",
        note="Trusted: Lean kernel (axioms propext, Classical.choice, Quot.sound only), the hand-written "
             "model's correspondence harness (sampled differential testing, so a divergence on an "
             "unsampled input is possible), strtol/snprintf models validated against glibc through the "
             "same harness. Heap exhaustion is outside the model.",
        technique="Lean 4 refinement proof + model/implementation differential correspondence",
        ref="DESIGN.md §5 C19"),
    "C12": dict(
        text="Lean 4 proofs about a model of xcm_addr.c: make is total and honest for every capacity "
             "(C12_make_total: success iff the complete NUL-terminated address fits, never a truncated success, at most "
             "`capacity` bytes touched), parse∘make is the identity for every transport, every well-formed host and all "
             "ports 0..65535 (C12_roundtrip, relative to stated inet_pton/ntop laws which are proved for the IPv4 "
             "instance), every accepted string is inside the documented syntax with a plain decimal port ≤ 65535 "
             "(C12_parse_sound, C12_port_syntax), and is_valid agrees with the parsers (C12_is_valid_agrees). "
             "Tie: the real xcm_addr.c functions (ASan, exact-size heap buffers) vs the compiled model on all 65536 "
             "ports, every capacity 0..len+2, boundary/mutated/random strings; glibc strtol/inet_pton/regex models "
             "validated against glibc in the same run.",
        note="Trusted: Lean kernel (propext, Classical.choice, Quot.sound), the differential harness (sampled except "
             "the port/capacity sweeps), glibc inet_pton/inet_ntop(AF_INET6) as an environment table re-checked in the "
             "harness, the POSIX regex model validated by sampling. C-level memory safety only via ASan runs.",
        technique="Lean 4 proofs (round trip, soundness, totality) + differential correspondence",
        ref="DESIGN.md §5 C12"),
    "C01": dict(
        text="Lean 4 proof of exact delivery for the framing layer shared by tcp and tls (xcm_tp_tcp.c = xcm_tp_tls.c): "
             "for ANY op sequence of the sender and ANY op sequence of the receiver, under any short-write/short-read/"
             "EAGAIN/error/EOF behaviour of the byte-stream layer below and a FIFO channel, the complete messages "
             "consumed by successful receives are a prefix of the messages whose send returned success, each returned "
             "as its leading `capacity` bytes (C01_exact_delivery, C01_never_partial; induction over unbounded "
             "histories via a sender wire invariant and a receiver stream invariant, unique decodability "
             "frames_prefix). Tie: the real xcm_tp_tcp.c and xcm_tp_tls.c, #included unmodified over a scripted lower "
             "layer (ASan+UBSan), produce line by line the model's rc/errno/payload/8 counters/buffer state/bytes handed "
             "down on generated histories; an independent delivery monitor checks the implementation's output alone. "
             "ux/uxf: C01_ux_exact_delivery over the kernel's record queue (K-seqpacket), tied by unit_ux on the real xcm_tp_ux.c. utls: a connection "
             "keeps exactly one UX or TLS sub-connection and hands every data-path call to it unchanged (C01_utls_pure_delegation, "
             "C08_utls_connect_balanced on the Utls model, tied by unit_utls on the real xcm_tp_utls.c). The TLS byte stream below the tls "
             "transport (C02btls theorems, unit_btls) and the blocking wrappers of xcm.c (C03 blocking theorems, unit_api) are re-checked here.",
        note="Proof covers tcp and tls framing relative to the byte-stream contract of the layer below (FIFO, sticky "
             "failure = C02/C06 of btcp/btls). ux/uxf relative to K-seqpacket. The composition tls-over-btls and utls-over-ux/tls is by "
             "these interfaces (each layer proved against the contract of the one below), not one end-to-end theorem. "
             "Correspondence is sampled differential testing. Axioms: propext, Classical.choice, Quot.sound.",
        technique="Lean 4 invariant proof over unbounded histories + differential correspondence on the real framing code",
        ref="DESIGN.md §5 C01"),
    "C09": dict(
        text="Lean 4 invariant proof on a model of the TLS connection machine of xcm_tp_btls.c (try_finish_tls_handshake + "
             "verify_peer_cert, process_ssl_event, btls_send/receive/finish): for EVERY history of calls and EVERY answer OpenSSL "
             "can give, a connection is ready - xcm_finish succeeds, SSL_write/SSL_read are called at all, a byte is accepted from "
             "or delivered to the application - only if the handshake call returned success and, with tls.auth on, a certificate "
             "was presented and accepted (C09_usable_only_if_verified, run_inv; C09_no_write/read_unless_verified, "
             "C09_finish_success_only_if_verified); otherwise the completing call makes the connection bad(EPROTO), reports "
             "EPROTO itself and nothing is ever written or delivered in any continuation (C09_policy_failure_reports_EPROTO, "
             "C09_rejected_peer_never_served). Tie: the real xcm_tp_btls.c #included over scripted OpenSSL calls and a scripted "
             "btcp socket (ASan+UBSan) vs the compiled model, exhaustively over event x first observer x state x tls.auth x verdict "
             "plus random histories, with gating monitors on the implementation's output.",
        note="What OpenSSL itself decides for a given chain/validity/CRL/EKU/name under the flags set_verify configures is the "
             "environment (K-openssl-verify); the inheritance of policy attributes server->accepted socket and the EINVAL "
             "combinations are exercised on the real library by the sys_tls matrix when present in the check's rule text, not proved. "
             "Axioms: propext, Classical.choice, Quot.sound.",
        technique="Lean 4 invariant proof over unbounded call/answer histories + differential correspondence on the real btls code",
        ref="DESIGN.md §5 C09"),
    "C18": dict(
        text="Lean 4 proofs on a model of the TLS context cache ctx_store.c. (1) The byte sequence fed to SHA-256 as cache key is "
             "uniquely decodable: it determines item types, by-value data, file names and the stat identity of every file and of a "
             "symbolic link's target (C18_key_unambiguous, via a proved left-inverse decoder); F18a_old_key_ambiguous exhibits the "
             "collision of the encoding used before the repair F-18a. (2) For EVERY sequence of file-system snapshots a call may observe "
             "- files replaced between any two accesses - the context returned is cached under the identity observed in that call and "
             "holds exactly the material this identity designates (get_spec / C18_context_holds_designated_material: the "
             "hash-load-hash retry loop, induction over the fuel and the item list); one context, one identity (C18_no_mixing). "
             "(3) For every history of gets and puts by sockets, an entry's count equals the number of holders, a context is cached iff "
             "held, released exactly by its last holder's put and never while held (C18_released_with_last_user, run_inv). Tie: the "
             "real ctx_store.c on real OpenSSL and real files (rename-over, symlink flips, changes during loading, by-value/by-file "
             "mixes, malformed and mismatching material) vs the compiled model line by line, including what is inside each SSL_CTX.",
        note="Relative to K-stat (a replaced file has a new identity, no ABA during a call), K-sha256, and the fixture table saying which "
             "PEM material OpenSSL accepts. How xcm_tp_btls.c chooses the items (attributes first, else XCM_TLS_CERT directory and "
             "namespace naming) and that established connections keep their SSL_CTX is exercised on the real library by sys_tls "
             "when named in the check's rule text, not proved. Axioms: propext, Classical.choice, Quot.sound.",
        technique="Lean 4 proofs (unique decodability, invariant over snapshot sequences, reference counting) + differential correspondence on the real ctx_store.c",
        ref="DESIGN.md §5 C18"),
    "C20": dict(
        text="Lean 4 invariant proofs on a model of tools/xcmrelay/xrelay.c (two forwarders per relayed connection, one XCM call per fd "
             "event): for EVERY sequence of events and EVERY answer of the XCM calls (EAGAIN anywhere, partial acceptance on byte "
             "streams, errors, end of stream) the bytes received from a source equal the bytes accepted by xcm_send on the destination, "
             "in order, followed by what the forwarder still holds (C20_forwarder_exact), message boundaries are preserved on messaging "
             "transports (C20_messages_preserved), an end of stream is acted upon only by an empty forwarder (C20_eof_only_when_empty), "
             "and the awaited conditions always are RECEIVABLE on an empty forwarder's source / SENDABLE on a full one's destination "
             "(C20_awaits_what_it_needs). Tie: the real xrelay.c over scripted XCM calls vs the compiled model; the real relay "
             "(rserver.c + xrelay.c) in a thread with concurrent connections, all transport pairs, back-pressure, fault injection.",
        note="End-to-end transparency additionally rests on C01-C04 of the two legs. Found and fixed here: F-20a (bc0067c; messages accepted but not yet flushed on the other leg were lost when the source "
             "closed - the relay now drains before closing, C20_close_after_flush). "
             "Liveness of the libevent loop and real-time bounds are exercised (sys_relay), not proved. Axioms: propext, Classical.choice, Quot.sound.",
        technique="Lean 4 invariant proofs over unbounded event/answer sequences + differential correspondence on the real xrelay.c + system runs of the real relay",
        ref="DESIGN.md §5 C20"),
    "C08": dict(
        text="Lean 4 proofs on a model of the lifecycle ladders of xcm.c (xcm_connect_a, xcm_server_a, xcm_accept_a with its blocking "
             "restart and finish loops, xcm_close, xcm_cleanup): for EVERY script of failures (xpoll_create, transport init/connect/server/"
             "accept/finish failing at any step with any errno, a failing attribute, any number of EAGAIN restarts) a call that returns NULL "
             "leaves the ledger of socket structures, xpoll instances and transport states unchanged, a call that returns a socket holds "
             "exactly one of each, close/cleanup release exactly one of each, nothing not held is ever released, and after any history "
             "nothing is held once every socket is closed (C08_create_balanced, C08_accept_balanced, C08_close_balanced, "
             "C08_histories_balanced). Tie: the real xcm.c over a scripted xpoll/transport with a ledger vs the compiled model. The "
             "transports' own paths are covered by sys_life: every resource-creating system call of a full scenario on all seven "
             "transports fails in turn (exhaustive over the call index), with descriptor ledger, stray-close detection, file and heap "
             "checks, plus fork + xcm_cleanup and control-client scenarios. Cleanup locality: sys_life FORK compares the kernel-side epoll interest set of every owner socket (/proc/self/fdinfo) before the fork and after the child\'s xcm_cleanup, with control clients attached and a peer-closed connection in the set (found F-08f, fixed in /repo 10ab003); at the source level the table Generated/Owner.lean (every shared-object call inside a function with an owner parameter, regenerated on every run) satisfies C08_cleanup_sites_guarded and C08_cleanup_delegations_pass_owner.",
        note="Proved: the core ladders relative to the transport contract of xcm_tp.h, and the ladders of xcm_tp_utls.c over its two "
             "sub-sockets (C08_utls_init/connect/server/accept/close_balanced: for every answer of the sub-transports the contract 'close "
             "what holds resources, only destroy what failed, never use a dead socket' is kept and a failed call holds nothing; unit_utls). "
             "The other transports' internal ladders (btcp, btls, ux, tconnect, ctl, dns) are exercised exhaustively over single failures "
             "by sys_life on the real code, not proved; every pair of "
             "failures is swept in the thorough tier (a seeded sample of pairs in the quick tier); malloc failure is outside (the library "
             "aborts on memory exhaustion by design). Axioms: propext, Classical.choice, Quot.sound.",
        technique="Lean 4 proofs over all failure scripts of the xcm.c ladders + differential correspondence + exhaustive single-fault injection on the real library",
        ref="DESIGN.md §5 C08"),
    "C15": dict(
        text="Translator + Lean 4: on every run extract/ext_globals.py regenerates from the library sources the table of all process-wide "
             "mutable state (static variables; fields of the structures behind them: the wake-up descriptor pool, the TLS context cache) "
             "with every access site and its protection; the theorems decide over the whole table (kernel `decide`): every site is "
             "constructor-time, atomic, inside the critical section of a lock (directly or through all callers), a read of an init-only "
             "variable, a fresh object or one of two stated pinned-immutable reads (C15_every_access_protected); one lock per variable "
             "(C15_one_lock_per_variable); no update split into separate atomic load and store (C15_no_split_read_modify_write). "
             "Dynamic side: the whole library under ThreadSanitizer with 8 threads on distinct sockets of all transports in "
             "barrier-synchronised bursts, hand-off between threads, socket-id uniqueness.",
        note="The table is a syntactic extraction (trusted, checked against two seeded changes and the TSan runs); state inside OpenSSL, c-ares "
             "and glibc is the environment. ThreadSanitizer judges only the interleavings that occurred. Per-thread delivery guarantees are "
             "C01-C04 of each connection. Axioms: propext (and decide's reduction), no native_decide.",
        technique="source-to-table translator regenerated every run + Lean 4 theorems decided over the table + ThreadSanitizer system harness",
        ref="DESIGN.md §5 C15"),
    "C07": dict(
        text="Lean 4 proofs on the framing model for an ARBITRARY arrived byte stream in arbitrary segmentation: the "
             "receive buffer never exceeds one maximum-size frame and no mbuf.h assertion can fire (C07_bounded_buffer), "
             "the delivered messages are a prefix of the reference decoding of the stream (the well-formed frames before "
             "the first malformed header), each of legal length 1..65535 (C07_reference_decoder), an illegal length "
             "(0 or >max) yields EPROTO which is sticky for every later call (C07_illegal_length_eproto, "
             "C07_eproto_sticky). Tie: real xcm_tp_tcp.c/xcm_tp_tls.c under ASan+UBSan vs the model on hostile streams "
             "(len 0/65536/2^31/2^32-1, truncated, random, plain text) in four segmentations, plus a reference-decoder "
             "monitor on the implementation's output. Translator tie (T1b): mbuf_is_hdr_valid of mbuf.h is regenerated from clang AST of the working tree on every run and proved equal to Wire.hdrValid for every length field (mbuf_is_hdr_valid_tie).",
        note="TLS: garbage during the handshake or inside the record stream makes the meeting call report EPROTO, moves no application "
             "data and fires no assertion of xcm_tp_btls.c whatever OpenSSL answers (C07_btls_handshake_garbage, C07_btls_record_garbage, "
             "C07_btls_no_abort; tie unit_btls), and sys_tls sends real garbage to live TLS sockets next to a bystander connection "
             "(OpenSSL's own parsing is the environment). C memory "
             "safety itself is only covered by the model's explicit abort outcome and the sanitizer runs of the "
             "correspondence (sampled). Axioms: propext, Classical.choice, Quot.sound.",
        technique="Lean 4 invariant proof (arbitrary byte stream) + differential correspondence under ASan/UBSan",
        ref="DESIGN.md §5 C07"),
    "C03": dict(
        text="Lean 4 proofs on the framing model: size checks come first and change nothing in any state "
             "(C03_size_checks_first), a send failing with EAGAIN leaves exactly the state a finish call would have "
             "produced, independent of the message (C03_eagain_is_finish), a bad connection refuses without effect, and "
             "for all histories of both ends the i-th delivered message is the i-th message whose send returned 0 — so a "
             "failed send is never delivered and none is duplicated (C03_only_accepted_delivered_once, from "
             "C01_exact_delivery). Tie: unit_framing correspondence with send-focused generation (sizes 0,1,max,max+1,"
             "far larger; refusal before acceptance, between acceptance and flush, after k bytes) and a wire monitor. The size check is exercised with claimed lengths around 2^31, 2^32 (plus a valid remainder), 2^63 and 2^64-1 (SL op).",
        note="The blocking wrapper in xcm.c (poll() interrupted by a signal between acceptance and flush, defect "
             "F-03a, found and fixed here) is covered by C03_blocking_send_no_false_failure / _accepted_once on the Api model, tied by unit_api; ux/uxf: C03_ux_failed_send_no_trace + unit_ux; 'exactly once' is the "
             "safety half (at most once, in order) — eventual delivery is C04. Lower-layer failure is assumed terminal.",
        technique="Lean 4 proofs (state equalities, corollary of the delivery theorem) + differential correspondence",
        ref="DESIGN.md §5 C03"),
    "C17": dict(
        text="Lean 4 proofs on the framing model, for every history: no step decreases any of the eight counters "
             "(C17_monotone); to_app = number of successful receives and bytes they really returned (truncation "
             "counted as delivered), from_lower = complete messages taken from below, from_app = messages buffered by "
             "send, to_lower = from_app minus the frame still buffered (C17_counters_exact); from_app>=to_lower and "
             "from_lower>=to_app (C17_order); refused sends count nothing (C17_refused_counts_nothing); flushed sender "
             "and fully-read receiver agree (C17_idle_agreement). Tie: the counters (via the transport's get_cnt op) are "
             "part of every compared output line of unit_framing on tcp and tls.",
        note="ux/uxf counters: C17_ux_* theorems + unit_ux (this is where F-17a was found and fixed). btcp and btls byte counters are part of C02's compared lines and, for btls, of its invariant (counters = lengths of the accepted / written / delivered streams, C02_btls_accepted_is_written_plus_retained); utls delegates to its sub-socket. Sampled "
             "correspondence. Axioms: propext, Classical.choice, Quot.sound.",
        technique="Lean 4 invariant proofs over unbounded histories + differential correspondence",
        ref="DESIGN.md §5 C17"),
    "C02": dict(
        text="Lean 4 proofs for both byte-stream transports. btcp (model of xcm_tp_btcp.c's connection machine), for every kernel "
             "behaviour: for len>0 send returns 1..len or -1 (C02_rc_range), receive never exceeds capacity (C02_capacity), the bytes "
             "handed to the kernel are exactly the concatenation of the accepted ranges over any history (inv_run), a failed call "
             "(EAGAIN included, any state) hands nothing down (C02_failed_call_no_trace), hence under the kernel's FIFO contract the "
             "received bytes are a prefix of / equal to the accepted bytes (C02_btcp_prefix). btls (model of xcm_tp_btls.c with its "
             "retained-output buffer), for every history of calls and every answer OpenSSL can give: the accepted stream equals the "
             "bytes SSL_write took followed by the bytes XCM retains, in order, and the four counters are the lengths of these streams "
             "(C02_btls_accepted_is_written_plus_retained); xcm_send returns 1..len and appends exactly that prefix of this call's "
             "buffer, a failing call appends nothing (C02_btls_send_accepts_prefix); a new buffer is offered to OpenSSL only when "
             "nothing is retained, so an incomplete SSL_write is always repeated with the same bytes whatever the application offers "
             "next (C02_btls_retry_discipline); receive is bounded by capacity and leaves the output streams alone (C02_btls_capacity, "
             "C02_btls_receive_keeps_accepted). Tie: the real xcm_tp_btcp.c / xcm_tp_btls.c #included with scripted kernel / OpenSSL "
             "answers vs the compiled models line by line, plus sys_stream: live btcp and btls connections under back-pressure with "
             "four retry policies after a refusal (same, longer, different, shorter data) and the receiver's stream compared byte for "
             "byte with the accepted one.",
        note="Found here and fixed in /repo (9630e6f): F-02a/F-02b (btls reported EAGAIN after OpenSSL had consumed part of the buffer; "
             "a retry with other data corrupted the stream or killed the connection). OpenSSL delivering in order what SSL_write "
             "accepted (K-openssl-stream) and the kernel's FIFO (K-stream) are assumptions, probed end to end by sys_stream. "
             "Blocking mode: C02_bsend_accounting on the Api model of xcm.c (bytestream_bsend) tied by unit_api. "
             "Axioms: propext, Classical.choice, Quot.sound.",
        technique="Lean 4 invariant proofs over unbounded histories (btcp, btls) + differential correspondence + live back-pressure runs",
        ref="DESIGN.md §5 C02, §9"),
    "C06": dict(
        category="proof",
        text="Lean 4 proofs: in the btcp connection machine closed and bad(e) are absorbing under every later operation "
             "and every environment answer (C06_btcp_sticky), closed => receive 0 / send,finish EPIPE, bad => the same "
             "errno from all three (C06_closed_behaviour, C06_bad_same_errno), the discovering call reports the kernel's "
             "errno (C06_discoverer_reports), establishment failures surface their errno (C06_establish_failure); at the "
             "framing layer the lower layer's EOF/errno is passed up unchanged and repeatably, EPROTO is sticky, and no "
             "partially sent message is ever delivered (C06_framing_passes_up, C07_eproto_sticky, C01_never_partial). "
             "btls: closed and bad(e) are absorbing (C06_btls_sticky), closed => receive 0 / send,finish EPIPE, bad => the same errno "
             "and no further OpenSSL call (C06_btls_closed_behaviour, C06_btls_bad_same_errno), whichever of send / receive / finish - "
             "in its handshake step, its flush of retained output or its own SSL_write/SSL_read - meets the failure reports exactly the "
             "errno that becomes sticky (C06_btls_*_discovers), and process_ssl_event maps protocol errors to EPROTO, orderly or early "
             "closes to closed and any other errno to itself (C06_btls_classification). "
             "Tie: exhaustive fault enumeration (every errno x every first observer x every start state) on the real "
             "xcm_tp_btcp.c, xcm_tp_tcp.c/xcm_tp_tls.c and xcm_tp_btls.c (every OpenSSL event) vs the models; sys_fault on live sockets of all seven "
             "transports: an errno injected at every send()/recv() index below XCM and below OpenSSL (the descriptor then answers as "
             "Linux does once the error was consumed, so only XCM can remember it), a raw TCP peer cut at every byte offset of a "
             "wire stream with FIN or RST, a forked XCM peer killed during the handshake / mid-message or closing gracefully after "
             "n messages - oracle: discoverer's errno, stickiness, only complete messages, everything sent before a graceful close.",
        note="Found and fixed here: F-06a (btls_send reported EAGAIN for a handshake failure it discovered itself), F-06b (a TLS client that "
             "sends and closes without reading lost its messages: unread TLS 1.3 session tickets turned the close into a reset). Not inside this "
             "check: which errno tconnect.c selects for a failed multi-address connect (C13). Axioms: propext, Classical.choice, "
             "Quot.sound.",
        technique="Lean 4 proofs (absorbing states, case analysis) + exhaustive fault enumeration correspondence",
        ref="DESIGN.md §5 C06"),
    "C10": dict(
        text="Lean 4 proofs on a model of the attribute access path (xcm.c typed/formatted getters, attr_tree_get_value/"
             "set_value, attr_node_value_get) over the attribute table that the extractor REGENERATES from the preprocessed "
             "sources on every run (one row per attr_tree_add_value_node site, getter classified by its bounded-copy idiom): "
             "every row is safe (C10_table_safe, decided over the whole table), hence for every lookup outcome, value size and "
             "capacity xcm_attr_get and all typed/formatted variants write at most `capacity` bytes and return exactly the "
             "bytes written (C10_get_within_capacity, C10_rc_is_written, C10_typed_within_capacity), a value that does not fit "
             "is EOVERFLOW / ENOENT through a typed getter (C10_overflow_reported), xcm_attr_set rejects unknown, read-only, "
             "wrong-type and wrong-length requests before any setter runs (C10_set_rejects_without_effect), and no name string "
             "can overrun the path parser (C10_names_total, from C19). Tie: sys_attr on live sockets of all seven transports "
             "in five socket states: every attribute x every access function x capacities 0..size+2 into canary-framed "
             "buffers (bytes written and bytes beyond capacity measured), every name x type x length for set with a state "
             "snapshot before/after, malformed and over-long names; rc/errno/written compared with the model. Translator tie (T1b): valid_set_attr_len of attr_tree.c is regenerated from clang AST on every run and proved equal to AttrAccess.validSetLen for every type code (valid or not) and every length (valid_set_attr_len_tie). The attribute tree itself (attr_tree.c over attr_node.c) has a flat Lean model (AttrTree) with theorems for every tree and path: an added value is found under its name, adding a node changes no unrelated lookup, get-all lists exactly the readable values added, and a name is listed iff it is found as that value (lookup_add_value_same, lookup_add_unrelated, listed_is_found, found_is_listed); tie: unit_attrtree - the real nested tree built with the library\'s add functions, queried with existing, prefix, kind-confused, out-of-range and malformed names.",
        note="Found and fixed here: F-10a (fixed-size getters ignored capacity), F-10c (out-of-bounds read of the caller's "
             "buffer when a string getter returns 0 bytes). Attribute values are abstracted to their size. The getter "
             "classification is a translator over preprocessed C (extract/ext_attrs.py) and is trusted together with the "
             "harness; C-level memory safety is observed (canaries, ASan), not proved. Axioms: propext, Quot.sound.",
        technique="Lean 4 proofs over a table regenerated from source (decide over the whole table + case analysis) + "
                  "exhaustive capacity sweep correspondence on live sockets",
        ref="DESIGN.md §5 C10"),
    "C11": dict(
        text="Lean 4 proofs on a model of tcp_attr.c and of how xcm_tp_btcp.c/tconnect.c carry the five TCP options through "
             "establishment: for ANY list of sets before connect, ANY list while connecting (after tconnect's snapshot) and ANY "
             "list afterwards, the options applied to the connection's kernel socket equal the options XCM stores and reports "
             "(C11_tcp_opts_in_force, by induction over the op lists; needs tcp_opts_equal a b <-> a = b, optsEqual_iff), same "
             "for accepted connections; accepted sets read back, refused ones change nothing (C11_readback_*). Tie: the real "
             "attribute setters + try_finish_connect of xcm_tp_btcp.c over tcp_attr.c with setsockopt wrapped (unit_btcp) vs the "
             "model, single-field differences forced; sys_attr on live tcp/tls/btcp/btls connections reads the kernel's "
             "SO_KEEPALIVE/TCP_KEEP*/TCP_USER_TIMEOUT of both ends after sets in all three phases and in the accept map and "
             "compares them with xcm_attr_get and the model. Observed on live sockets (monitors, no theorem): xcm.local_addr is "
             "the source address seen by the peer, xcm.service admits exactly the transports of that service, xcm.blocking and "
             "xcm_set_blocking are one switch, TLS policy booleans are inherited by accepted connections unless overridden, "
             "creation-only attributes are refused with EACCES on established connections without changing anything. Translator tie (T1b): tcp_opts_equal of tcp_attr.c is regenerated from clang AST on every run and proved equal to TcpOpts.optsEqual, hence to equality of the option sets (tcp_opts_equal_tie, optsEqual_iff).",
        note="Found and fixed here: F-11a (tcp_opts_equal '&&'). The theorem covers the TCP options; the remaining clauses of the "
             "property are checked as runtime monitors on the real library (sampled), not proved; the generic set path "
             "(ENOENT/EACCES/EINVAL before the setter) is C10's treeSet theorem. Kernel honouring setsockopt is assumed.",
        technique="Lean 4 invariant proof over unbounded set histories (TCP options) + differential correspondence (unit and live sockets) + runtime monitors",
        ref="DESIGN.md §5 C11"),
    "C05": dict(
        text="Lean 4 proofs: (i) on a model of the xcm.c wrappers (socket_wait, socket_finish, msg_bsend, bytestream_bsend, "
             "xcm_send/receive/finish/await/set_blocking) no call on a socket in non-blocking mode produces a wait, whatever the "
             "transport answers, and EAGAIN is reported instead (C05_nonblocking_no_wait, C05_eagain_is_reported); (ii) over tables "
             "REGENERATED from the source on every run: every poll/ppoll/select/epoll_wait/sleep site of the library either has "
             "timeout 0 or lives in socket_wait / xcm_dns_resolve_sync (C05_wait_sites), every descriptor is created with "
             "SOCK_NONBLOCK (C05_sock_sites_nonblocking), and every call of a blocking helper is guarded by is_blocking except "
             "the xcm_dns_resolve_sync call in btcp_server, which only xcm_server(_a) reaches (C05_helper_calls_guarded; before the "
             "repair F-05a the table also held an unguarded call in begin_connect and the theorem needed that site carved out). Tie: unit_api (real xcm.c over scripted transport/poll, "
             "call traces compared with the model) and sys_nowait: real sockets of all seven transports in the phases idle, "
             "back-pressure, peer closed, server idle, TLS handshake against a mute peer, SYN_SENT against a full accept queue, "
             "resolving against a mute resolver, with link-time wrappers reporting any wait with a non-zero timeout, any sleep, "
             "and any I/O on a blocking descriptor during an API call.",
        note="proof-partial in one respect: the guard analysis of call sites is a syntactic translator (extract/ext_sites.py); "
             "what the transports do below xcm.c is covered by the table of wait sites plus the wrapped runs, not by a model of "
             "every transport function. Found and fixed here: F-05a (a DNS name in xcm.local_addr was resolved synchronously on a "
             "non-blocking connect; now asynchronous, 7230325). OpenSSL/c-ares internals are assumed not to sleep on non-blocking descriptors.",
        technique="Lean 4 proofs (wrapper model; decide over site tables regenerated from source) + differential correspondence + wrapped live-socket runs",
        ref="DESIGN.md §5 C05"),
    "C14": dict(
        text="Lean 4 proofs on a model of ctl.c's request handling, for EVERY attribute set (any count, names, value sizes), every "
             "request (any size, type number, any 64 bytes in the name field), any previous content of the session's reused reply "
             "buffer and any sequence of session events: the get-all reply builder stays within attrs[64] x name[64] x "
             "any_value[512] (C14_getall_bounded), tls.key is never disclosed (C14_key_never_disclosed), a get is answered with "
             "exactly the in-process result or a rejection carrying its errno (C14_reply_equals_inprocess), get-all is the "
             "in-process listing minus tls.key and minus what the wire format cannot carry, cut at capacity "
             "(C14_getall_equals_inprocess), the reply type does not depend on the session's earlier replies "
             "(C14_first_request_any), malformed requests are dropped (C14_malformed_dropped), the client-supplied name is read "
             "only inside its field (C14_name_within_field), at most MAX_CLIENTS sessions exist (C14_sessions_bounded). "
             "Constants and sizeof(struct ctl_proto_msg) are regenerated from the source. Tie: sys_ctl - raw SEQPACKET client and "
             "the libxcmctl client against live sockets of six transports plus TLS with by-value credentials and a 30-SAN peer, "
             "every reply compared with the in-process answer of the same run and with the model, ASan in the owner, a message "
             "flow with requests in flight, control files gone after close. MIX2: a session is removed while another session\'s reply is built but not yet sent; that session must receive its own answer.",
        note="Found and fixed here: F-14a..d (four fix: commits). 'Passive' is checked as a runtime monitor (the data path keeps "
             "delivering in order while requests are in flight), not as a theorem about the whole library state. utls sockets "
             "delegate their control interface to their ux/tls sub-sockets, which are covered as such. C memory safety is "
             "observed under ASan, the theorems are about the bounded-array model.",
        technique="Lean 4 proofs (bounded reply builder, filter characterisation by induction, case analysis) + differential correspondence on live sockets",
        ref="DESIGN.md §5 C14"),
    "C13": dict(
        text="Lean 4 proofs on a model of tconnect.c (tracks, per-family descriptor reuse, bind-once, timers, the three "
             "algorithms) whose environment is an adversarial script, so every timing and every per-address behaviour is "
             "covered: an invariant `Good` holds of every track that tconnect_connect creates and any number of polls leaves "
             "(reachable_good, induction over polls and over the recursion of track_connect_next); from it: a connected track is "
             "connected to the first address whose attempt succeeded, every earlier usable address was attempted and failed "
             "(C13_sequential_first_accepting); a failed track reports the errno of its last failed attempt, ENOENT when nothing "
             "could be attempted, and only after all usable addresses failed (C13_errno_of_last_failure); a timer expiry is "
             "ETIMEDOUT (C13_timeout_is_etimedout); `single` attempts only address 0 (C13_single_first_only); a waiting track is "
             "always registered for EPOLLOUT with its timer armed (C13_waiting_is_watched); the synchronous resolution loop stops "
             "at the first non-EAGAIN answer with its errno (C13_resolve_sync_terminates). Tie: unit_tconnect (real tconnect.c, "
             "scripted kernel/timers, kernel-faithful bind, dead-stack local address under ASan) vs the model incl. the trace of "
             "environment calls; sys_dns: the whole library against a scripted DNS responder and accepting/refusing/ignoring "
             "loopback listeners, checked against the property's oracle (address, errno, local address, elapsed time). The layers that turn deadlines into wake-ups are modelled and proved too: TimerMgr (timer_mgr.c: for every history of schedule/cancel/ack/reschedule the timerfd is armed exactly at the earliest live deadline, ids are never reused, a cancel removes exactly the timer named - timer_inv_run, ids_never_reused, cancel_exact) and DnsQuery (xcm_dns_cares.c composed with TimerMgr: for every behaviour of c-ares no call aborts or dereferences a missing timer, dns.timeout fails the query with ENOENT at the first process call after the deadline and not before, a completed query never changes - dns_inv_run, C13_dns_timeout_enoent, C13_dns_no_early_timeout, C13_dns_completed_sticky, C13_dns_deadline_value); tie: unit_timer and unit_dnsq (the real timer_mgr.c / xcm_dns_cares.c with scripted clock and c-ares, recorded timerfd_settime and xpoll calls, K-timerfd probed on the real kernel).",
        note="Found and fixed here: F-13a (resolve_sync never ended on failure), F-13b (dangling local address), F-13c (re-bind). "
             "Happy Eyeballs at the level of the tconnect instance: one track per address family, each confined to its family's descriptor "
             "(C13_happy_one_track_per_family), and a failure is reported only when every track has failed - a track still connecting "
             "yields EAGAIN, a connected one is handed out (C13_tc_fails_only_when_all_tracks_failed); 'connects whenever some address of "
             "either family accepts' over real time is observed end-to-end by sys_dns; time bounds are observed, not "
             "proved; c-ares' ordering of mixed A/AAAA answers is not modelled. K-connect is an assumption.",
        technique="Lean 4 invariant proof over unbounded poll sequences and address lists + differential correspondence (unit) + live-socket oracle runs",
        ref="DESIGN.md §5 C13"),
    "C16": dict(
        text="Lean 4 proofs on a model of xpoll.c (registrations, bells, the shared always-readable eventfd) for EVERY history of "
             "operations the library performs (Reach, an inductive definition; reach_good by induction over it): the kernel's epoll "
             "interest list is exactly the registrations with a non-zero event mask - the ADD/MOD/DEL decisions never leave a stale "
             "or missing entry (C16_kernel_matches_registrations); the eventfd is watched for input exactly while some bell rings "
             "and held exactly while bells exist (C16_active_fd_iff_bell); hence, under level-triggered epoll semantics, the "
             "socket's fd is NOT readable when no bell rings and no registered descriptor has a requested event that is true "
             "(C16_quiet_when_idle) and IS readable as soon as a bell rings or a requested event is true (C16_readable_when_met); "
             "what the transports request: btcp/ux/server update tables (condition 0 -> nothing, RECEIVABLE -> EPOLLIN only, "
             "terminal states ring the bell). Tie: unit_xpoll runs the real xpoll.c/active_fd.c on the real kernel (epoll, "
             "eventfd, pipes) against the model incl. measured readability; exhaustive update tables on the real transports; "
             "sys_quiet measures the property itself on live connections of all seven transports. Timers: the timerfd is readable only while a live timer is due and disarmed when none is live, for every history (C16_timer_quiet, C16_no_timers_quiet, C16_wakeup_confirmed on the TimerMgr model; C16_dns_quiet on DnsQuery); tie: unit_timer, unit_dnsq. Translator tie (T1b): conn_event / server_event of xcm_tp_ux.c regenerated from clang AST on every run and proved equal to the model functions (conn_event_tie, server_event_tie).",
        note="'one stable descriptor' has no theorem (the model has no field that could change); it is sampled on the "
             "implementation after every operation. The composition 'idle framing/TLS connection => the lower transport's "
             "condition is 0' is proved for tcp/tls framing by tcp_update (C04 file) and for btls by the C16_btls_* theorems on the "
             "conn_update model (idle and nothing retained -> silent; retained output -> only what its flush needs; bell only for a "
             "stated reason), tied by unit_btls's exhaustive conn_update table. Found and fixed here: F-16a (9630e6f). K-epoll is an assumption. Axioms: propext, Classical.choice, Quot.sound.",
        technique="Lean 4 invariant proof by induction over reachable xpoll states + differential correspondence against the real kernel + live-socket measurement",
        ref="DESIGN.md §5 C16"),
    "C04": dict(
        category="proof",
        text="Lean 4 proofs of the wake-up invariant layer by layer (the safety form of 'no lost wake-up'), for every state/history: "
             "framing (tcp, tls): while any byte of an accepted message is buffered the lower socket is asked for SENDABLE whatever "
             "the application awaits, the application's own condition is always passed down, and nothing extra is asked when idle "
             "(C04_pending_flush_is_watched, C04_condition_passed_down, C04_idle_asks_nothing_extra); each write the lower layer "
             "accepts strictly decreases the bytes left (C04_flush_progress); btcp: awaited input/output is registered, terminal "
             "states and a completed resolution ring the bell (C04_btcp_wake); connect phase: a waiting track always has its "
             "descriptor registered and timer armed (C04_connect_phase_watched, from the Tconnect invariant); xpoll: a ringing "
             "bell or a true requested event makes the socket fd readable (C16_readable_when_met); xcm.c: the blocking forms "
             "return at the first success after any number of refusals each followed by a wake-up (msgBsend_returns, "
             "socketFinish_returns, C04_blocking_send_returns). Tie: the unit correspondences of these models, plus sys_loop: "
             "two applications following the documented protocol to the letter on all seven transports while send()/recv() "
             "below XCM and OpenSSL return EAGAIN/short counts at random, with a stall watchdog; the blocking forms in threads. Deadlines: an expired live timer makes the timerfd readable for every history of the timer manager (C04_expired_timer_wakes on the TimerMgr model of timer_mgr.c), the overall DNS deadline is a live timer while a query is in progress and a completed query rings (C04_dns_deadline_wakes, C04_dns_completion_rings on the DnsQuery model of xcm_dns_cares.c); tie: unit_timer, unit_dnsq. Translator tie (T1b): conn_event and server_event of xcm_tp_ux.c are translated on every run from clang AST of the working tree into Generated/Funcs.lean and proved equal to Ux.connEvent / Ux.serverEvent for every condition word (conn_event_tie, server_event_tie).",
        note="proof-partial: (1) liveness over real time needs K-epoll and K-progress (assumptions) and is measured by sys_loop "
             "(watchdog 4 s / 40 s), not proved; (2) the per-layer invariants are composed along the tcp stack for the pending-flush wake-up "
             "(C04_tcp_stack_wakeup: framing + btcp + xpoll: buffered message and writable kernel socket => readable descriptor) and along "
             "the tls stack down to a source of wake-up (C04_tls_stack_has_source); the Link-level statement 'every accepted message is "
             "eventually delivered' over real time is not mechanised; (3) btls: the per-layer invariant is proved on the conn_update model "
             "(C04_btls_handshake_watched, C04_btls_waiter_has_source, C04_btls_retained_output_watched, C04_btls_terminal_rings, "
             "C04_btls_pending_rings) and xcm_tp.c's re-evaluation after every call on the Tp model (C04_registrations_refreshed); "
             "the resolver's own descriptors are covered by sys_loop only.",
        technique="Lean 4 per-layer wake-up invariants and decreasing measures + differential correspondence + fault-injected live event loops with a stall watchdog",
        ref="DESIGN.md §5 C04"),
}

PENDING_REASON = "not yet built in this round: no check is claimed for it (the design in DESIGN.md §5 stands; " \
                 "it is listed here only so that the manifest never claims a check that does not exist)"


def main():
    checks = []
    for p in ALL:
        if p not in CLAIMED:
            continue
        c = CLAIMED[p]
        checks.append({
            "property_id": p,
            "quick_cmd": "./check %s --tier quick" % p,
            "thorough_cmd": "./check %s --tier thorough" % p,
            "evidence_file": "/verif/evidence/%s.json" % p,
            "replay_cmd_template": "./check %s --replay {path}" % p,
            "engine": "lean4-proof+correspondence",
            "level_claimed": {"category": c.get("category", "proof"), "text": c["text"], "design_ref": c["ref"]},
            "level_note": c["note"],
            "technique": c["technique"],
        })
    m = {
        "version": 1,
        "setup_cmd": "./setup.sh",
        "hooks": {
            "guard": "XCM_VERIF",
            "enable": "harnesses compile the library sources of /repo's working tree directly with -DXCM_VERIF "
                      "(gen/common.py BASE_CFLAGS); no hook code exists in /repo so far: internals are reached by "
                      "#include of the original .c files and link-time --wrap",
            "baseline_off_cmd": "cd /repo && make -j16 >/dev/null && make -k -j8 check VERBOSE=1",
            "source_commits": [],
            "add_only": True,
        },
        "engines": [{
            "name": "lean4-proof+correspondence", "path": "/verif/check",
            "serves_properties": sorted(CLAIMED),
            "kind_free_text": "Lean 4 theorems about a hand-written executable model (lean/XcmModel), re-checked on "
                              "every run together with an axiom audit; constants/enums/tables regenerated from "
                              "/repo (extract/); the model is tied to the code by differential execution of the "
                              "real C functions (harness/) against the compiled model driver on generated inputs, "
                              "plus property monitors on the implementation as failing-input search"}],
        "checks": checks,
        "not_applicable": [{"property_id": p, "reason": PENDING_REASON} for p in ALL if p not in CLAIMED],
        "notes": "Genuine defects found are listed in known_findings.json (fixed ones with their /repo commit).",
    }
    with open(os.path.join(HERE, "MANIFEST.json"), "w") as f:
        json.dump(m, f, indent=1)
        f.write("\n")


if __name__ == "__main__":
    main()
