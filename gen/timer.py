"""unit_timer: the real libxcm/core/timer_mgr.c (scripted clock, recorded timerfd_settime) vs the Lean TimerMgr model, plus a
monitor that judges the implementation's output alone: after every call the timerfd is armed at the earliest live deadline
(disarmed when none is live), ids are fresh, a cancel removes exactly the timer named."""
from gen import common, framing

TICK = 1953125


def build():
    flags = framing.includes_of("libxcm/core/timer_mgr.c")
    return common.build_harness("unit_timer", ["unit_timer.c"], extra_flags=flags, link_lib=True, libs=["ssl", "crypto", "cares"])


def exhaustive():
    """every short history over two users' timers with equal / earlier / later deadlines"""
    ops = ["KERN"]
    for a in (0, 3, 7):
        for b in (0, 3, 7):
            for fin in (["C 0"], ["C 1"], ["K 0", "K 1"], ["C 1", "C 1", "K 0"], ["R 5 2 0"], ["R 5 -4 1"], ["R 9 1 -1"]):
                ops += ["N", "S 1 %d" % a, "P 1", "S 2 %d" % b, "P 2", "E 4 0", "E 4 1", "P 4"] + fin + ["P 8", "P 100", "S 8 0", "P 8"]
    ops += ["N", "K 0", "E 3 5", "S 0 0", "P 0", "E 0 0", "E 1 0", "K 0", "K 0", "C 0", "C -1", "K -1", "P 1000"]
    return ops


def gen_history(rng, n, ctx):
    ops = ["N"]
    now = rng.below(50)
    live, dead, nxt = [], [], 0
    for _ in range(n):
        now += rng.choice([0, 0, 1, 1, 2, 5, 40])
        r = rng.below(100)
        if r < 30 or not live:
            rel = rng.choice([0, 1, 2, 3, 3, 10, 100, 102, -1, -50, rng.below(2000)])
            ops.append("S %d %d" % (now, rel)); live.append(nxt); nxt += 1
        elif r < 45:
            i = rng.choice(live); ops.append("C %d" % i); live.remove(i); dead.append(i)
        elif r < 58:
            i = rng.choice(live); ops.append("K %d" % i); live.remove(i); dead.append(i)
        elif r < 70:
            i = rng.choice(live + [-1]); ops.append("R %d %d %d" % (now, rng.choice([0, 1, 5, 100, -3]), i))
            if i >= 0:
                live.remove(i); dead.append(i)
            live.append(nxt); nxt += 1
        elif r < 82:
            ops.append("E %d %d" % (now + rng.choice([0, 0, 1, 3, 100]), rng.choice(live)))
        elif r < 92:
            ops.append("P %d" % (now + rng.choice([0, 0, 1, 2, 3, 10, 100, 2000])))
        elif r < 96 and dead:
            # a stale id: cancel is harmless, ack asserts, has_expired dereferences NULL
            ops.append("%s %d" % (rng.choice(["C", "C", "K", "E %d" % now]), rng.choice(dead)))
        else:
            ops.append("C %d" % rng.choice([-1, nxt + 3, 2 ** 31, 2 ** 40]))
        ctx.count("timer.op." + ops[-1].split()[0])
    return ops


def monitor(ctx, ops, out):
    """the property's own observation on the implementation's output"""
    prev, start = None, 0
    seen = set()
    for i, (op, line) in enumerate(zip(ops, out)):
        w = op.split()
        if w[0] == "N":
            seen, start = set(), i
        f = [x.strip() for x in line.split("|")]
        if len(f) != 3:
            prev = None
            continue
        armed = None if f[1] == "armed=off" else int(f[1][6:])
        lst = [] if f[2] == "-" else [tuple(int(x) for x in e.split(":")) for e in f[2].split(",")]

        def viol(sig, what):
            ctx.violation("unit_timer:monitor:" + sig, what, {"harness": "unit_timer", "ops": ops[start:i + 1], "impl_out": out[start:i + 1]})
        want = None if not lst else max(1, min(e for _, e in lst))
        if armed != want:
            viol("armed-not-earliest", "after '%s' the timerfd is set to %s although the earliest live deadline is %s (live: %s): a deadline "
                 "would be missed or the descriptor would be readable for nothing" % (op, armed, want, f[2]))
            return
        ids = [a for a, _ in lst]
        if len(set(ids)) != len(ids):
            viol("duplicate-id", "two live timers carry the same id after '%s': %s" % (op, f[2])); return
        if w[0] in ("S", "R") and f[0].startswith("id="):
            nid = int(f[0][3:])
            if nid in seen:
                viol("id-reused", "'%s' returned id %d, which had been handed out before" % (op, nid)); return
            seen.add(nid)
        if w[0] in ("C", "K") and prev is not None and f[0] != "abort":
            gone = int(w[1])
            if [e for e in prev if e[0] != gone] != lst:
                viol("cancel-not-exact", "'%s' changed the timer list from %s to %s" % (op, prev, lst)); return
        if w[0] == "P":
            now = int(w[1]) * TICK
            rd = f[0] == "readable=1"
            due = any(max(1, e) <= now for _, e in lst)
            if rd != due:
                viol("readable-mismatch", "at %d ns: fd readable=%s but a live timer is due=%s (%s)" % (now, rd, due, f[2])); return
        prev = lst


def run_part(ctx, nhist, label="timer"):
    exe = build()
    ops = exhaustive()
    for k in range(nhist):
        ops += gen_history(ctx.rng.fork("%s%d" % (label, k)), 40, ctx)
    m, il = ctx.differential("unit_timer", "timer", exe, ops, label=label)
    monitor(ctx, ops, il)
    for o, l in zip(ops, il):
        ctx.nontriv(("timer", o.split()[0], l.split("|")[0], l.count(":")))
    if "kern ok" not in il[:1]:
        ctx.violation("unit_timer:K-timerfd", "the kernel's timerfd does not behave as the model assumes (readable from the deadline until set again): %s" % il[:1],
                      {"harness": "unit_timer", "ops": ["KERN"], "impl_out": il[:1]})
    ctx.sample({"harness": "unit_timer", "ops": ops[1:9], "model_out": m[1:9]}, cap=8)
    return len(ops)
