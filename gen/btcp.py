"""Generators/monitor for the btcp connection state machine (unit_btcp), shared by C02 C06 C16."""
import os
from gen import common, framing
from gen.common import hexs

ERRS = framing.ERRS


def build():
    flags = framing.includes_of("libxcm/tp/tcp/xcm_tp_btcp.c")
    return common.build_harness("unit_btcp", ["unit_btcp.c"], extra_flags=flags, link_lib=True,
                                libs=["ssl", "crypto", "cares"], ldflags=["-Wl,--wrap=setsockopt"])


def rand_est(rng):
    k = rng.below(8)
    if k < 3:
        return "-"
    out = []
    for _ in range(rng.range(1, 4)):
        r = rng.below(10)
        out.append("a" if r < 3 else "o" if r < 8 else "E" + rng.choice(ERRS + ["ENOENT"]))
    return ",".join(out)


def rand_ksend(rng, n):
    r = rng.below(12)
    if r < 4:
        return "A"
    if r < 8:
        return "P%d" % rng.choice([1, 2, 3, max(1, n // 2), max(1, n - 1), n + 5])
    if r < 10:
        return "EEAGAIN"
    return "E" + rng.choice(ERRS)


def rand_krecv(rng):
    r = rng.below(12)
    if r < 6:
        return "D" + hexs(rng.bytes(rng.choice([1, 2, 3, 10, 100, 1000])))
    if r < 9:
        return "EEAGAIN"
    if r < 10:
        return "Z"
    return "E" + rng.choice(ERRS)


def gen_history(rng, nops, ctx, start=None):
    start = start or rng.choice(["ready", "ready", "ready", "ready", "connecting", "resolving", "resolving-local", "resolving-local+remote"])
    ops = ["N " + start]
    for _ in range(nops):
        r = rng.below(100)
        if r < 40:
            m = rng.bytes(rng.choice([0, 1, 2, 3, 5, 17, 100, 1000, 70000]) if rng.chance(1, 6) else rng.range(1, 12))
            ops.append("S %s %s %s" % (hexs(m), rand_est(rng), rand_ksend(rng, len(m))))
            ctx.count("btcp.send")
        elif r < 75:
            ops.append("R %d %s %s" % (rng.choice([0, 1, 2, 3, 64, 100000]) if rng.chance(1, 3) else rng.range(1, 50),
                                       rand_est(rng), rand_krecv(rng)))
            ctx.count("btcp.receive")
        elif r < 88:
            ops.append("F %s" % rand_est(rng))
            ctx.count("btcp.finish")
        else:
            ops.append("U %d %d" % (rng.below(4), rng.below(2)))
            ctx.count("btcp.update")
    return ops


class Monitor:
    """Property oracles on the implementation's output alone."""

    def __init__(self, ctx):
        self.ctx = ctx

    def run(self, ops, out):
        st = None
        for i, (op, line) in enumerate(zip(ops, out)):
            w = op.split()
            if w[0] == "N":
                st = dict(start=i, accepted=b"", wire=b"", terminal=None, cnt=[0, 0, 0, 0])
                continue
            if st is None or w[0] in ("U", "SU"):
                continue
            f = [x.strip() for x in line.split("|")]
            if len(f) < 5:
                continue
            rcw = f[0].split()
            rc = int(rcw[0]) if rcw[0].lstrip("-").isdigit() else None
            err = rcw[1] if len(rcw) > 1 else None
            cnt = [int(x) for x in f[2].split()]
            state = f[3]
            txd = f[4][3:]

            def viol(sig, what):
                self.ctx.violation("unit_btcp:monitor:" + sig, what,
                                   {"harness": "unit_btcp", "ops": ops[st["start"]:i + 1], "impl_out": out[st["start"]:i + 1]})
            if any(a < b for a, b in zip(cnt, st["cnt"])):
                viol("counter-decreased", "a byte counter decreased")
            if not (cnt[1] >= cnt[2] and cnt[3] >= cnt[0]):
                viol("counter-order", "from_app >= to_lower or from_lower >= to_app violated")
            if w[0] == "S":
                buf = bytes.fromhex(w[1]) if w[1] != "-" else b""
                if rc is not None and rc >= 0:
                    if rc > len(buf) or (len(buf) > 0 and rc == 0):
                        viol("send-rc-range", "xcm_send on a byte stream returned a value outside 1..len")
                    st["accepted"] += buf[:rc]
                    if cnt[1] - st["cnt"][1] != rc:
                        viol("from-app-count", "from_app does not grow by the accepted byte count")
                elif cnt[1] != st["cnt"][1]:
                    viol("failed-send-counted", "a failed send changed from_app")
                if rc is not None and rc >= 0 and st["terminal"]:
                    viol("send-after-terminal", "a send succeeded after a terminal condition")
            if txd.startswith("#"):
                ln = int(txd[1:].split(":")[0])
                st["wire"] = st["accepted"][:len(st["wire"]) + ln] if len(st["accepted"]) >= len(st["wire"]) + ln else st["wire"] + b"?" * ln
            elif txd != "-":
                st["wire"] += bytes.fromhex(txd)
            if st["wire"] != st["accepted"]:
                viol("wire-not-accepted-bytes",
                     "bytes handed to the kernel differ from the concatenation of the accepted ranges "
                     "(bytes of a failed call on the wire, or accepted bytes missing)")
                st["wire"] = st["accepted"]
            if w[0] == "R":
                cap = int(w[1])
                if rc is not None and rc > cap:
                    viol("receive-beyond-capacity", "xcm_receive returned more than capacity")
                if rc is not None and rc > 0 and st["terminal"]:
                    viol("receive-after-terminal", "a receive succeeded after a terminal condition")
            # stickiness (C06)
            if st["terminal"]:
                kind, e0 = st["terminal"]
                if kind == "closed":
                    ok = (w[0] == "R" and rc == 0) or (w[0] in ("S", "F") and rc == -1 and err == "EPIPE")
                    if not ok:
                        viol("closed-not-sticky", "after the close was seen: receive must return 0, send/finish EPIPE")
                else:
                    if not (rc == -1 and err == e0):
                        viol("bad-not-sticky", "after a connection error every call must report that same errno")
            else:
                if state == "closed":
                    st["terminal"] = ("closed", None)
                elif state.startswith("bad:"):
                    st["terminal"] = ("bad", state[4:])
                    if not (rc == -1 and err == state[4:]):
                        viol("discoverer-errno", "the call that discovered the failure did not report its errno")
            st["cnt"] = cnt
