"""Generic replay of a differential (unit) replay file: runs the recorded ops on the compiled model and on the real code and prints
both; exit 0 iff they agree.  Used by ./check for the unit harnesses that need no special environment, whatever property
the replay file was written under (a harness serves several properties)."""
import json
from gen import common


def _reg():
    from gen import api, btcp, btls, framing, life, relay, tconnect, tp, ux, xpoll, utls, timer, dnsq, attrtree
    return {
        "unit_api": ("api", api.build), "unit_btcp": ("btcp", btcp.build), "unit_btls": ("btls", btls.build),
        "unit_framing_tcp": ("framing", lambda: framing.build("tcp")), "unit_framing_tls": ("framing", lambda: framing.build("tls")),
        "unit_life": ("life", life.build_unit), "unit_relay": ("relay", relay.build_unit), "unit_tconnect": ("tconnect", tconnect.build),
        "unit_tp": ("tp", tp.build), "unit_ux": ("ux", ux.build), "unit_xpoll": ("xpoll", xpoll.build), "unit_utls": ("utls", utls.build),
        "unit_timer": ("timer", timer.build), "unit_dnsq": ("dnsq", dnsq.build), "unit_attrtree": ("attrtree", attrtree.build),
    }


def try_generic(path):
    """returns an exit code, or None when the replay file is not a plain unit differential"""
    r = json.load(open(path))
    h = r.get("harness")
    reg = _reg()
    if h not in reg or not r.get("ops"):
        return None
    comp, build = reg[h]
    if h == "unit_btls":
        from gen import btls
        return btls.replay(r)
    exe = build()
    text = "\n".join(r["ops"]) + "\n"
    common.lake_build(["driver"])
    m = common.run_model(comp, text)
    rc, out, err = common.run_proc([exe], text)
    print("model:", *m, sep="\n  ")
    print("impl (rc=%d):" % rc, *out.splitlines(), sep="\n  ")
    if err:
        print(err[-2000:])
    return 0 if m == out.splitlines() and rc == 0 else 1
