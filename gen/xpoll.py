"""Generator for xpoll.c / active_fd.c (unit_xpoll), used by C16 C04 (and C08/C15 for the pool)."""
from gen import common, framing


def build():
    flags = framing.includes_of("libxcm/core/xpoll.c") + framing.includes_of("libxcm/tp/common/active_fd.c")
    return common.build_harness("unit_xpoll", ["unit_xpoll.c"], extra_flags=flags, link_lib=False,
                                extra_objs_from_repo=["common/util.c", "libxcm/core/log.c"], libs=[])


def gen_history(rng, nops, ctx):
    ops = ["N"]
    regs = {}        # reg id -> pipe   (ids predicted like the code: first free slot)
    slots = []       # model of slot occupancy to predict ids (None free / 'A' / pipe)
    bells = []
    nbells = 0
    active = None

    def alloc(tbl, val):
        used = sum(1 for s in tbl if s is not None)
        if used == len(tbl):
            idx = len(tbl)
            tbl.extend([None] * ((len(tbl) + 1) * 2 - len(tbl)))
        else:
            idx = tbl.index(None)
        tbl[idx] = val
        return idx

    def upd_active():
        nonlocal active
        nb = sum(1 for b in bells if b is not None)
        if nb == 0 and active is not None:
            slots[active] = None
            active = None
        elif nb > 0 and active is None:
            active = alloc(slots, "A")

    for _ in range(nops):
        r = rng.below(100)
        free_pipes = [p for p in range(8) if p not in slots]
        user = [i for i, s in enumerate(slots) if s is not None and s != "A"]
        live_bells = [i for i, b in enumerate(bells) if b is not None]
        if r < 18 and free_pipes:
            p = rng.choice(free_pipes)
            ops.append("FA %d %d" % (p, rng.below(2)))
            alloc(slots, p)
            ctx.count("xpoll.fd_add")
        elif r < 32 and user:
            ops.append("FM %d %d" % (rng.choice(user), rng.below(2)))
        elif r < 42 and user:
            i = rng.choice(user)
            ops.append("FD %d" % i)
            slots[i] = None
        elif r < 56:
            ops.append("BA %d" % rng.below(2))
            alloc(bells, 1)
            upd_active()
            ctx.count("xpoll.bell_add")
        elif r < 72 and live_bells:
            ops.append("BM %d %d" % (rng.choice(live_bells), rng.below(2)))
        elif r < 82 and live_bells:
            i = rng.choice(live_bells)
            ops.append("BD %d" % i)
            bells[i] = None
            upd_active()
        elif r < 92:
            ops.append("W %d" % rng.below(8))
        else:
            ops.append("C %d" % rng.below(8))
    return ops


def gen_pool(rng, ctx, big=False):
    ops = ["N"]          # a fresh xpoll holds no descriptor of the pool
    n = 0
    for _ in range(rng.range(20, 400 if big else 120)):
        if n == 0 or rng.chance(3, 5):
            ops.append("PG")
            n += 1
        else:
            ops.append("PP %d" % rng.below(n))
    # return everything so that the next history starts from an empty pool
    for k in range(n):
        ops.append("PP %d" % k)
    return ops
