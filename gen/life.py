"""sys_life: lifecycle paths under failing resource-creating system calls; fork + xcm_cleanup."""
import os
from gen import common, sysattr

WRAP = ["socket", "accept4", "epoll_create1", "eventfd", "timerfd_create", "connect", "bind", "listen", "fopen", "close"]


def build():
    return common.build_harness("sys_life", ["sys_life.c"], link_lib=True, libs=["ssl", "crypto", "cares"], whole=True,
                                ldflags=["-Wl,--wrap=" + w for w in WRAP])


ERRNOS = {"socket": ["EMFILE", "ENFILE", "ENOBUFS", "ENOMEM"], "accept4": ["EMFILE", "ENFILE", "ENOBUFS", "ECONNABORTED"],
          "epoll_create1": ["EMFILE", "ENFILE", "ENOMEM"], "eventfd": ["EMFILE", "ENFILE", "ENOMEM"],
          "timerfd_create": ["EMFILE", "ENFILE", "ENOMEM"], "connect": ["EACCES", "ENETUNREACH", "EADDRNOTAVAIL"],
          "bind": ["EADDRINUSE", "EACCES"], "listen": ["EADDRINUSE"], "fopen": ["EMFILE", "EACCES", "ENOENT"]}


def fields(line):
    return dict(x.split("=", 1) for x in line.split(" after=")[0].split() if "=" in x)


def sweep(ctx, exe, protos, variants, all_errnos):
    """every resource-creating call of the scenario fails in turn"""
    counts = [("COUNT %s %d" % (p, v)) for p in protos for v in variants]
    rc, out, err = sysattr.run(exe, counts, ctx, timeout=600)
    cases = []
    for c, o in zip(counts, out):
        _, p, v = c.split()
        n = int(o.split("=")[1])
        cases.append("CASE %s %s -1 EMFILE" % (p, v))
        for k in range(1, n + 1):
            cases.append("CASE %s %s %d EMFILE" % (p, v, k))
    # double faults: every pair k < k2 in the thorough tier, a seeded sample of pairs otherwise
    rng = ctx.rng.fork("pairs")
    for c, o in zip(counts, out):
        _, p, v = c.split()
        n = int(o.split("=")[1])
        for k in range(1, n):
            for k2 in range(k + 1, n + 1):
                if all_errnos or rng.chance(1, 40):
                    cases.append("CASE %s %s %d EMFILE %d %s" % (p, v, k, k2, "EMFILE" if (k + k2) % 3 else "ENOMEM"))
                    ctx.count("life.double_fault_cases")
    rc, out, err = sysattr.run(exe, cases, ctx, timeout=3000)
    results = list(zip(cases, out))
    if all_errnos:
        # second round: the other plausible errnos of the call that was hit
        more = []
        for c, o in results:
            if o.startswith("failed_call=") and len(c.split()) == 5:
                name = fields(o)["failed_call"].split(":")[0]
                for e in ERRNOS.get(name, [])[1:]:
                    more.append(c.rsplit(" ", 1)[0] + " " + e)
        rc2, out2, err2 = sysattr.run(exe, more, ctx, timeout=3000)
        results += list(zip(more, out2))
    return results


def judge(ctx, cmd, line):
    w = cmd.split()
    rep = {"harness": "sys_life", "ops": [cmd], "impl_out": line}
    ctx.evaluations += 1
    if line.startswith("crash"):
        ctx.violation("sys_life:abort:%s:%s" % (w[1], line.replace(" ", ":")),
                      "the process terminated instead of reporting the error: %s -> %s" % (cmd, line), rep)
        return
    f = fields(line)
    name = f["failed_call"].split(":")[0]
    ctx.count("life.fail." + name)
    ctx.nontriv((w[1], name, f["trace"]))
    sig = "sys_life:%%s:%s:%s" % (w[1], name)
    a, b = f["fds"].split("/")
    if a != b or f["lib_fds_left"] != "0":
        ctx.violation(sig % "fd-leak", "descriptors are left open after every socket was closed (%s before, %s after): %s -> %s" % (a, b, cmd, line), rep)
    if f["stray_close"] != "0":
        ctx.violation(sig % "stray-close", "the library closed a descriptor it had not created: %s -> %s" % (cmd, line), rep)
    if f["uxf_left"] != "0" or f["ctl_left"] != "0":
        ctx.violation(sig % "file-left", "a UXF socket file or control-interface file is left behind: %s -> %s" % (cmd, line), rep)
    if f["heap_leak"] != "0":
        ctx.violation(sig % "heap-leak", "heap memory is left unreachable after every socket was closed: %s -> %s" % (cmd, line), rep)
    if f["bad_errno"] != "0":
        ctx.violation(sig % "errno-unset", "an API call failed without setting errno: %s -> %s" % (cmd, line), rep)


def judge_fork(ctx, cmd, line):
    rep = {"harness": "sys_life", "ops": [cmd], "impl_out": line}
    ctx.evaluations += 1
    proto = cmd.split()[1]
    if line.startswith(("crash", "fail")):
        ctx.violation("sys_life:fork:%s:%s" % (proto, line.split()[0]), "fork + xcm_cleanup scenario died: %s -> %s" % (cmd, line), rep)
        return
    f = fields(line)
    ctx.nontriv(("fork", proto, f["pending"]))
    if f["child_ok"] != "1":
        ctx.violation("sys_life:fork:child-died:" + proto, "xcm_cleanup in the forked child did not complete: " + line, rep)
    if f["c2s"] != "1" or f["s2c"] != "1":
        ctx.violation("sys_life:fork:owner-connection-broken:" + proto, "after xcm_cleanup in a forked child the owner's connection no longer carries messages: " + line, rep)
    if f["file_ok"] != "1" or f["ctl"].split("/")[0] != f["ctl"].split("/")[1]:
        ctx.violation("sys_life:fork:owner-files-removed:" + proto, "xcm_cleanup in the child removed the owner's UXF socket file or control files: " + line, rep)
    if f["accepts_again"] != "1":
        ctx.violation("sys_life:fork:owner-server-broken:" + proto, "after xcm_cleanup in the child the owner's server socket no longer accepts: " + line, rep)
    if f.get("epoll_same", "1") != "1":
        ctx.violation("sys_life:fork:owner-epoll-changed:" + proto, "xcm_cleanup in the forked child changed the kernel-side interest set of one of the owner's "
                      "sockets (the epoll instance is shared through fork): " + line, rep)
    if f.get("dead_signalled", "-1") == "0":
        ctx.violation("sys_life:fork:owner-closed-connection-silenced:" + proto, "after xcm_cleanup in the forked child the owner's closed connection is no longer "
                      "signalled on its fd: " + line, rep)
    ctx.count("life.fork.dead%s" % f.get("dead_signalled", "?"))
    if f["pending"] not in ("-", "ETIMEDOUT"):
        ctx.violation("sys_life:fork:owner-timer-lost:" + proto, "the owner's pending connect was not woken by its connect timeout after the child's xcm_cleanup "
                      "(%s after %s s): %s" % (f["pending"], f["waited"], line), rep)


def judge_ctl(ctx, cmd, line):
    rep = {"harness": "sys_life", "ops": [cmd], "impl_out": line}
    ctx.evaluations += 1
    if line.startswith(("crash", "fail")):
        ctx.violation("sys_life:ctl:" + line.split()[0], "control-client scenario died: %s -> %s" % (cmd, line), rep)
        return
    f = fields(line)
    n = int(f["clients"])
    ctx.nontriv(("ctl", n, f["eof_seen"]))
    a, b = f["fds"].split("/")
    if a != b:
        ctx.violation("sys_life:ctl:fd-leak:%d-clients" % n, "closing a socket with %d control clients attached leaves descriptors open: %s" % (n, line), rep)
    if int(f["eof_seen"]) < min(n, 2):
        ctx.violation("sys_life:ctl:client-not-disconnected:%d-clients" % n, "a control client of a closed socket is not disconnected: " + line, rep)
    if f["ctl_file_left"] != "0":
        ctx.violation("sys_life:ctl:file-left:%d-clients" % n, "the control file of a closed socket is left behind: " + line, rep)


def build_unit():
    from gen import framing
    flags = framing.includes_of("libxcm/core/xcm.c")
    return common.build_harness("unit_life", ["unit_life.c"], extra_flags=flags, link_lib=True, libs=["ssl", "crypto", "cares"])


FAILS = ["EMFILE", "ENFILE", "ENOMEM", "ECONNREFUSED", "EADDRINUSE", "EPROTO", "ETIMEDOUT", "EAGAIN"]


def unit_exhaustive():
    """every failure point of every ladder, blocking and not, with and without a failing attribute"""
    ops = []
    slot = 0
    for kind in ("CONNECT", "SERVER"):
        for bl in (0, 1):
            for bad in (0, 1):
                for fail_at in range(0, 5):
                    for e in ("EMFILE", "ECONNREFUSED"):
                        ans = ["ok"] * 4
                        if fail_at < 4:
                            ans[fail_at] = e
                        ops.append("%s %d %d %d %s" % (kind, slot % 16, bl, bad, " ".join(ans)))
                        ops.append("CLOSE %d" % (slot % 16))
                        slot += 1
    for bl in (0, 1):
        ops.append("SERVER 15 %d 0 ok ok ok" % bl)
        for bad in (0, 1):
            for fail_at in range(0, 5):
                for e in ("EMFILE", "EAGAIN", "ECONNABORTED"):
                    ans = ["ok"] * 4
                    if fail_at < 4:
                        ans[fail_at] = e
                    # a blocking accept that met EAGAIN restarts: give the second round its answers too
                    ops.append("ACCEPT 3 15 %d %s ok ok ok ok" % (bad, " ".join(ans)))
                    ops.append("CLEANUP 3" if fail_at % 2 else "CLOSE 3")
        ops.append("CLOSE 15")
    return ops


def unit_history(rng, n, ctx):
    ops = []
    live = {}
    for _ in range(n):
        r = rng.below(100)
        free = [s for s in range(16) if s not in live]
        if r < 45 and free:
            kind = rng.choice(["CONNECT", "SERVER"])
            bl = rng.below(2)
            ans = [("ok" if rng.chance(4, 5) else rng.choice(FAILS)) for _ in range(4)]
            s = rng.choice(free)
            ops.append("%s %d %d %d %s" % (kind, s, bl, 1 if rng.chance(1, 8) else 0, " ".join(ans)))
            live[s] = None   # may or may not exist: the model decides; closing an empty slot is xcm_close(NULL)
        elif r < 65 and free and any(True for _ in live):
            srv = rng.choice(list(live))
            ans = [("ok" if rng.chance(3, 4) else rng.choice(FAILS)) for _ in range(10)]
            s = rng.choice(free)
            ops.append("ACCEPT %d %d %d %s" % (s, srv, 1 if rng.chance(1, 8) else 0, " ".join(ans)))
            live[s] = None
        elif live:
            s = rng.choice(list(live))
            ops.append("%s %d" % (rng.choice(["CLOSE", "CLEANUP"]), s))
            del live[s]
    for s in list(live):
        ops.append("CLOSE %d" % s)
    return ops


def judge_resolving(ctx, cmd, line):
    rep = {"harness": "sys_life", "ops": [cmd], "impl_out": line}
    ctx.evaluations += 1
    if line.startswith("skip"):
        ctx.notes.append("sys_life %s: %s" % (cmd, line))
        return
    if line.startswith(("crash", "fail")):
        ctx.violation("sys_life:resolving:" + line.split()[0], "close during name resolution died: %s -> %s" % (cmd, line), rep)
        return
    f = fields(line)
    proto = cmd.split()[1]
    ctx.nontriv(("resolving", proto, f["made"], f["fds"]))
    a, b = f["fds"].split("/")
    if a != b:
        ctx.violation("sys_life:resolving:fd-leak:" + proto, "closing sockets whose DNS queries are still outstanding leaves descriptors open (%s before, %s after): %s" % (a, b, line), rep)
    if f["heap_leak"] != "0":
        ctx.violation("sys_life:resolving:heap-leak:" + proto, "closing sockets whose DNS queries are still outstanding leaks heap: " + line, rep)
    child = int(f["child_fds"].split("(")[0])
    if child >= 0 and child > int(a):
        ctx.violation("sys_life:resolving:child-fds-left:" + proto, "xcm_cleanup in a forked child during name resolution leaves the resolver's descriptors open in the child: " + line, rep)

