"""A small PKI fixture made with the openssl CLI (offline): root CA, leaf certificates."""
import os, subprocess


def sh(cmd, **kw):
    r = subprocess.run(cmd, capture_output=True, text=True, **kw)
    if r.returncode != 0:
        raise RuntimeError("%s failed: %s" % (cmd, r.stderr[-2000:]))
    return r


def make_ca(d, name="ca", days=3650):
    key = os.path.join(d, name + "-key.pem")
    crt = os.path.join(d, name + ".pem")
    sh(["openssl", "req", "-x509", "-newkey", "rsa:2048", "-nodes", "-keyout", key, "-out", crt, "-days", str(days),
        "-subj", "/CN=verif-%s" % name, "-addext", "basicConstraints=critical,CA:TRUE",
        "-addext", "keyUsage=critical,keyCertSign,cRLSign"])
    return crt, key


def make_leaf(d, name, ca_crt, ca_key, sans=("DNS:localhost",), days=365, cn=None, start=None, eku=None, ec=False):
    key = os.path.join(d, name + "-key.pem")
    csr = os.path.join(d, name + ".csr")
    crt = os.path.join(d, name + ".pem")
    ext = os.path.join(d, name + ".ext")
    alg = ["-newkey", "ec", "-pkeyopt", "ec_paramgen_curve:prime256v1"] if ec else ["-newkey", "rsa:2048"]
    sh(["openssl", "req"] + alg + ["-nodes", "-keyout", key, "-out", csr, "-subj", "/CN=%s" % (cn or name)])
    with open(ext, "w") as f:
        f.write("basicConstraints=CA:FALSE\nsubjectKeyIdentifier=hash\n")
        if sans:
            f.write("subjectAltName=%s\n" % ",".join(sans))
        if eku:
            f.write("extendedKeyUsage=%s\n" % eku)
    cmd = ["openssl", "x509", "-req", "-in", csr, "-CA", ca_crt, "-CAkey", ca_key, "-CAcreateserial", "-out", crt,
           "-days", str(days), "-extfile", ext]
    sh(cmd)
    return crt, key


def default_dir(d):
    """a directory usable as XCM_TLS_CERT: cert.pem, key.pem, tc.pem"""
    os.makedirs(d, exist_ok=True)
    ca, cak = make_ca(d)
    crt, key = make_leaf(d, "leaf", ca, cak, sans=("DNS:localhost", "DNS:verif.example", "email:a@verif.example",
                                                     "dirName:dn"), cn="verif-leaf")
    return d


def default_dir_simple(d):
    os.makedirs(d, exist_ok=True)
    ca, cak = make_ca(d)
    crt, key = make_leaf(d, "leaf", ca, cak, sans=("DNS:localhost", "DNS:verif.example", "email:a@verif.example"),
                         cn="verif-leaf")
    for src, dst in ((crt, "cert.pem"), (key, "key.pem"), (ca, "tc.pem")):
        with open(src) as f, open(os.path.join(d, dst), "w") as g:
            g.write(f.read())
    return d
