"""A small PKI fixture made with the openssl CLI (offline): root CA, leaf certificates."""
import os, subprocess


def sh(cmd, **kw):
    r = subprocess.run(cmd, capture_output=True, text=True, **kw)
    if r.returncode != 0:
        raise RuntimeError("%s failed: %s" % (cmd, r.stderr[-2000:]))
    return r


def make_ca(d, name="ca", days=3650):
    key = os.path.join(d, name + "-key.pem")
    crt = os.path.join(d, name + ".pem")
    sh(["openssl", "req", "-x509", "-newkey", "rsa:2048", "-nodes", "-keyout", key, "-out", crt, "-days", str(days),
        "-subj", "/CN=verif-%s" % name, "-addext", "basicConstraints=critical,CA:TRUE",
        "-addext", "keyUsage=critical,keyCertSign,cRLSign"])
    return crt, key


def make_leaf(d, name, ca_crt, ca_key, sans=("DNS:localhost",), days=365, cn=None, start=None, eku=None, ec=False):
    key = os.path.join(d, name + "-key.pem")
    csr = os.path.join(d, name + ".csr")
    crt = os.path.join(d, name + ".pem")
    ext = os.path.join(d, name + ".ext")
    alg = ["-newkey", "ec", "-pkeyopt", "ec_paramgen_curve:prime256v1"] if ec else ["-newkey", "rsa:2048"]
    sh(["openssl", "req"] + alg + ["-nodes", "-keyout", key, "-out", csr, "-subj", "/CN=%s" % (cn or name)])
    with open(ext, "w") as f:
        f.write("basicConstraints=CA:FALSE\nsubjectKeyIdentifier=hash\n")
        if sans:
            f.write("subjectAltName=%s\n" % ",".join(sans))
        if eku:
            f.write("extendedKeyUsage=%s\n" % eku)
    cmd = ["openssl", "x509", "-req", "-in", csr, "-CA", ca_crt, "-CAkey", ca_key, "-CAcreateserial", "-out", crt,
           "-days", str(days), "-extfile", ext]
    sh(cmd)
    return crt, key


def default_dir(d):
    """a directory usable as XCM_TLS_CERT: cert.pem, key.pem, tc.pem"""
    os.makedirs(d, exist_ok=True)
    ca, cak = make_ca(d)
    crt, key = make_leaf(d, "leaf", ca, cak, sans=("DNS:localhost", "DNS:verif.example", "email:a@verif.example",
                                                     "dirName:dn"), cn="verif-leaf")
    return d


def default_dir_simple(d):
    os.makedirs(d, exist_ok=True)
    ca, cak = make_ca(d)
    crt, key = make_leaf(d, "leaf", ca, cak, sans=("DNS:localhost", "DNS:verif.example", "email:a@verif.example"),
                         cn="verif-leaf")
    for src, dst in ((crt, "cert.pem"), (key, "key.pem"), (ca, "tc.pem")):
        with open(src) as f, open(os.path.join(d, dst), "w") as g:
            g.write(f.read())
    return d


CA_CNF = """
[ ca ]
default_ca = CA_default
[ CA_default ]
dir = %(dir)s
database = %(dir)s/index.txt
new_certs_dir = %(dir)s/newcerts
serial = %(dir)s/serial
crlnumber = %(dir)s/crlnumber
default_md = sha256
policy = policy_any
default_days = 365
default_crl_days = 3650
unique_subject = no
copy_extensions = copy
[ policy_any ]
commonName = supplied
[ v3_leaf ]
basicConstraints = CA:FALSE
subjectKeyIdentifier = hash
authorityKeyIdentifier = keyid
[ v3_ca ]
basicConstraints = critical,CA:TRUE
keyUsage = critical,keyCertSign,cRLSign
subjectKeyIdentifier = hash
"""


class Ca:
    """a CA driven through `openssl ca` so that certificates can be dated and revoked"""

    def __init__(self, d, name, parent=None):
        self.name = name
        self.dir = os.path.join(d, "ca-" + name)
        os.makedirs(os.path.join(self.dir, "newcerts"), exist_ok=True)
        open(os.path.join(self.dir, "index.txt"), "w").close()
        with open(os.path.join(self.dir, "serial"), "w") as f:
            f.write("1000\n")
        with open(os.path.join(self.dir, "crlnumber"), "w") as f:
            f.write("01\n")
        self.cnf = os.path.join(self.dir, "ca.cnf")
        with open(self.cnf, "w") as f:
            f.write(CA_CNF % {"dir": self.dir})
        self.key = os.path.join(d, name + "-key.pem")
        self.crt = os.path.join(d, name + ".pem")
        if parent is None:
            sh(["openssl", "req", "-x509", "-newkey", "ec", "-pkeyopt", "ec_paramgen_curve:prime256v1", "-nodes", "-keyout", self.key,
                "-out", self.crt, "-days", "3650", "-subj", "/CN=verif-%s" % name, "-addext", "basicConstraints=critical,CA:TRUE",
                "-addext", "keyUsage=critical,keyCertSign,cRLSign", "-addext", "subjectKeyIdentifier=hash"])
        else:
            csr = os.path.join(d, name + ".csr")
            sh(["openssl", "req", "-newkey", "ec", "-pkeyopt", "ec_paramgen_curve:prime256v1", "-nodes", "-keyout", self.key, "-out", csr,
                "-subj", "/CN=verif-%s" % name])
            parent.sign(csr, self.crt, ext="v3_ca", days=3000)
        self.d = d

    def sign(self, csr, out, ext="v3_leaf", days=365, start=None, end=None):
        cmd = ["openssl", "ca", "-batch", "-config", self.cnf, "-cert", self.crt, "-keyfile", self.key, "-in", csr, "-out", out,
               "-extensions", ext, "-notext"]
        if start:
            cmd += ["-startdate", start]
        if end:
            cmd += ["-enddate", end]
        else:
            cmd += ["-days", str(days)]
        sh(cmd)

    def leaf(self, name, sans=("DNS:localhost",), eku=None, start=None, end=None):
        key = os.path.join(self.d, name + "-key.pem")
        csr = os.path.join(self.d, name + ".csr")
        crt = os.path.join(self.d, name + ".pem")
        cmd = ["openssl", "req", "-newkey", "ec", "-pkeyopt", "ec_paramgen_curve:prime256v1", "-nodes", "-keyout", key, "-out", csr,
               "-subj", "/CN=%s" % name]
        if sans:
            cmd += ["-addext", "subjectAltName=%s" % ",".join(sans)]
        if eku:
            cmd += ["-addext", "extendedKeyUsage=%s" % eku]
        sh(cmd)
        self.sign(csr, crt, start=start, end=end)
        return crt, key

    def revoke(self, crt):
        sh(["openssl", "ca", "-config", self.cnf, "-cert", self.crt, "-keyfile", self.key, "-revoke", crt])

    def crl(self, out):
        sh(["openssl", "ca", "-config", self.cnf, "-cert", self.crt, "-keyfile", self.key, "-gencrl", "-out", out])
        return out


def cat(out, *files):
    with open(out, "w") as g:
        for f in files:
            g.write(open(f).read())
    return out


def make_pki(d):
    """The fixture of the TLS checks.  Files <name>.pem / <name>-key.pem in d:
    CAs rootA, rootB, interA (by rootA), interX (by rootA, then revoked);
    leaves a1 a2 (rootA), b1 (rootB), viaInter (interA; viaInter-chain.pem = leaf+interA), viaRevokedInter (interX),
    expired, future, revoked (rootA), wrongname, clientOnly (EKU clientAuth), serverOnly (EKU serverAuth);
    CRLs crlA.pem (revoked, interX), crlA-empty.pem (made before the revocations), crlB.pem, crlInter.pem."""
    os.makedirs(d, exist_ok=True)
    if os.path.exists(os.path.join(d, ".done")):
        return d
    ra = Ca(d, "rootA")
    rb = Ca(d, "rootB")
    ia = Ca(d, "interA", parent=ra)
    ix = Ca(d, "interX", parent=ra)
    for n in ("a1", "a2"):
        ra.leaf(n, sans=("DNS:%s.verif" % n, "DNS:localhost"))
    rb.leaf("b1", sans=("DNS:b1.verif", "DNS:localhost"))
    crt, _ = ia.leaf("viaInter", sans=("DNS:viainter.verif", "DNS:localhost"))
    cat(os.path.join(d, "viaInter-chain.pem"), crt, ia.crt)
    crt, _ = ix.leaf("viaRevokedInter", sans=("DNS:viarevokedinter.verif", "DNS:localhost"))
    cat(os.path.join(d, "viaRevokedInter-chain.pem"), crt, ix.crt)
    ra.leaf("expired", start="20200101000000Z", end="20210101000000Z")
    ra.leaf("future", start="20400101000000Z", end="20410101000000Z")
    ra.leaf("wrongname", sans=("DNS:somebody.else",))
    ra.leaf("clientOnly", eku="clientAuth")
    ra.leaf("serverOnly", eku="serverAuth")
    ra.crl(os.path.join(d, "crlA-empty.pem"))
    rcrt, _ = ra.leaf("revoked")
    ra.revoke(rcrt)
    ra.revoke(ix.crt)
    ra.crl(os.path.join(d, "crlA.pem"))
    rb.crl(os.path.join(d, "crlB.pem"))
    ia.crl(os.path.join(d, "crlInter.pem"))
    ix.crl(os.path.join(d, "crlInterX.pem"))
    with open(os.path.join(d, "garbage.pem"), "w") as f:
        f.write("-----BEGIN CERTIFICATE-----\nbm90IGEgY2VydGlmaWNhdGU=\n-----END CERTIFICATE-----\n")
    with open(os.path.join(d, "empty.pem"), "w") as f:
        f.write("\n")
    open(os.path.join(d, ".done"), "w").close()
    return d
