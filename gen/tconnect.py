"""Generator/monitor for tconnect.c (unit_tconnect), used by C13 (and the wake invariants of C04/C16)."""
from gen import common, framing

ERRS = ["ECONNREFUSED", "EHOSTUNREACH", "ENETUNREACH", "ETIMEDOUT", "ECONNRESET", "EADDRNOTAVAIL"]


def build():
    flags = framing.includes_of("libxcm/tp/tcp/tconnect.c") + ["-include", "stdarg.h", "-include", "common_tp.h"]
    return common.build_harness("unit_tconnect", ["unit_tconnect.c"], extra_flags=flags, link_lib=True,
                                libs=["ssl", "crypto", "cares"])


def rand_tok(rng):
    r = rng.below(20)
    if r < 6:
        return "-"
    if r < 9:
        return "ip"
    if r < 13:
        return "ok"
    if r < 16:
        return "x"
    return "E" + rng.choice(ERRS)


def rand_script(rng, n):
    k = rng.below(n + 1)
    return ",".join(rand_tok(rng) for _ in range(k)) if k else "-"


def gen_history(rng, ctx):
    alg = rng.choice(["single", "sequential", "sequential", "happy_eyeballs", "happy_eyeballs"])
    n = rng.choice([1, 2, 3, 4, 6, 10]) if rng.chance(5, 6) else rng.range(1, 32)
    mix = rng.below(4)
    fams = [("4" if mix == 0 else "6" if mix == 1 else rng.choice("46")) for _ in range(n)]
    local = rng.below(2)
    lport = rng.choice([0, 0, 5555])
    ops = ["N %s %s %d %d %s" % (alg, ",".join(fams), local, lport, rand_script(rng, 6))]
    ctx.count("tconnect.alg." + alg)
    ctx.count("tconnect.local%d" % local)
    for _ in range(rng.range(1, 12)):
        ops.append("P %s" % rand_script(rng, 8))
    return ops


def truncate_after_terminal(ops, out):
    """a tconnect must not be polled again after it handed out its descriptor (btcp destroys it): cut histories there"""
    keep = []
    done = False
    for o, l in zip(ops, out):
        if o.startswith("N "):
            done = False
        if done:
            continue
        keep.append(o)
        if o.startswith("P ") and l.startswith("0 fd="):
            done = True
    return keep
