"""Shared machinery of the checks: build, run, diff, shrink, report, evidence.

Everything is rebuilt from /repo's *working tree*: harness objects are cached under
/verif/.build keyed by a hash of every source file of the repository plus the compiler
flags, so an unchanged tree is not recompiled and a changed one always is.
"""
import fcntl, hashlib, json, os, re, shutil, subprocess, sys, time, tempfile
from concurrent.futures import ThreadPoolExecutor

VERIF = os.path.dirname(os.path.dirname(os.path.abspath(__file__)))
REPO = os.environ.get("XCM_REPO", "/repo")
LEAN = os.path.join(VERIF, "lean")
BUILD = os.path.join(VERIF, ".build")
RUN = os.path.join(VERIF, ".run")
DRIVER = os.path.join(LEAN, ".lake", "build", "bin", "driver")
NPROC = os.cpu_count() or 4

INC_DIRS = ["include", "common", "libxcm/core", "libxcm/tp/common", "libxcm/tp/ux",
            "libxcm/tp/tcp", "libxcm/tp/dns", "libxcm/tp/tls", "libxcm/ctl", "libxcmctl",
            "tools/common", "tools/xcmrelay"]
SAN = ["-fsanitize=address,undefined", "-fno-sanitize-recover=undefined", "-fno-omit-frame-pointer",
       "-fno-sanitize=shift-base"]   # c-ares' own ARES_GETSOCK_WRITABLE macro shifts 1 << 31
BASE_CFLAGS = ["-std=gnu99", "-O1", "-g", "-w", "-D_GNU_SOURCE", "-DXCM_VERIF",
               '-DSYSCONFDIR="/usr/local/etc"']
ALLOWED_AXIOMS = {"propext", "Classical.choice", "Quot.sound"}
FORBIDDEN_RE = re.compile(r"\b(sorry|admit|native_decide|bv_decide|implemented_by)\b|^\s*axiom\s|\bunsafe\s|maxHeartbeats\s+0\b", re.M)


class SplitMix64:
    def __init__(self, seed):
        self.s = seed & 0xFFFFFFFFFFFFFFFF

    def next(self):
        self.s = (self.s + 0x9E3779B97F4A7C15) & 0xFFFFFFFFFFFFFFFF
        z = self.s
        z = ((z ^ (z >> 30)) * 0xBF58476D1CE4E5B9) & 0xFFFFFFFFFFFFFFFF
        z = ((z ^ (z >> 27)) * 0x94D049BB133111EB) & 0xFFFFFFFFFFFFFFFF
        return z ^ (z >> 31)

    def below(self, n):
        return self.next() % n if n > 0 else 0

    def range(self, lo, hi):  # inclusive
        return lo + self.below(hi - lo + 1)

    def choice(self, xs):
        return xs[self.below(len(xs))]

    def chance(self, num, den):
        return self.below(den) < num

    def bytes(self, n):
        out = bytearray()
        while len(out) < n:
            out += self.next().to_bytes(8, "little")
        return bytes(out[:n])

    def fork(self, tag):
        h = hashlib.sha256(("%d/%s" % (self.s, tag)).encode()).digest()
        return SplitMix64(int.from_bytes(h[:8], "little"))


def hexs(b):
    return b.hex() if len(b) else "-"


class Lock:
    def __init__(self, name):
        os.makedirs(BUILD, exist_ok=True)
        self.path = os.path.join(BUILD, name + ".lock")

    def __enter__(self):
        self.f = open(self.path, "w")
        fcntl.flock(self.f, fcntl.LOCK_EX)
        return self

    def __exit__(self, *a):
        fcntl.flock(self.f, fcntl.LOCK_UN)
        self.f.close()


def repo_sources():
    out = []
    for top in ("libxcm", "common", "include", "tools", "libxcmctl"):
        for d, _, fs in os.walk(os.path.join(REPO, top)):
            for f in fs:
                if f.endswith((".c", ".h", ".vs")):
                    out.append(os.path.join(d, f))
    out.append(os.path.join(REPO, "Makefile.am"))
    return sorted(out)


_tree_hash = None


def tree_hash():
    global _tree_hash
    if _tree_hash is None:
        h = hashlib.sha256()
        for p in repo_sources():
            h.update(p.encode())
            try:
                with open(p, "rb") as f:
                    h.update(hashlib.sha256(f.read()).digest())
            except OSError:
                h.update(b"?")
        _tree_hash = h.hexdigest()[:20]
    return _tree_hash


def lib_sources():
    """libxcm_la_SOURCES as configured in this sandbox (TLS, CTL, c-ares on; SCTP, LTTng off),
    re-read from Makefile.am on every run."""
    am = open(os.path.join(REPO, "Makefile.am")).read()
    am = am.replace("\\\n", " ")
    srcs = []
    stack = []
    on = {"CARES": True, "TLS": True, "SCTP": False, "CTL": True, "LTTNG": False,
          "XCM_TOOL": True, "EXAMPLES": False, "PYTHON": False}
    for line in am.splitlines():
        s = line.strip()
        m = re.match(r"if\s+(\w+)", s)
        if m:
            stack.append(on.get(m.group(1), False))
            continue
        if s == "else":
            stack[-1] = not stack[-1]
            continue
        if s == "endif":
            stack.pop()
            continue
        if not all(stack):
            continue
        m = re.match(r"libxcm_la_SOURCES\s*\+?=\s*(.*)", s)
        if m:
            srcs += m.group(1).split()
    return srcs


def sh(cmd, **kw):
    return subprocess.run(cmd, capture_output=True, text=True, **kw)


def cache_dir(kind, extra=""):
    key = hashlib.sha256((tree_hash() + kind + extra).encode()).hexdigest()[:16]
    d = os.path.join(BUILD, "%s-%s" % (kind, key))
    return d


def prune_cache(keep=24):
    try:
        ents = [os.path.join(BUILD, e) for e in os.listdir(BUILD)
                if os.path.isdir(os.path.join(BUILD, e))]
    except OSError:
        return
    ents.sort(key=lambda p: os.path.getmtime(p), reverse=True)
    for p in ents[keep:]:
        shutil.rmtree(p, ignore_errors=True)


def inc_flags():
    return ["-I" + os.path.join(REPO, i) for i in INC_DIRS]


def compile_objs(srcs, outdir, cflags, cc="gcc"):
    os.makedirs(outdir, exist_ok=True)
    jobs = []
    for s in srcs:
        o = os.path.join(outdir, re.sub(r"[^A-Za-z0-9_]", "_", os.path.relpath(s, "/")) + ".o")
        jobs.append((s, o))

    def one(j):
        s, o = j
        r = sh([cc] + cflags + ["-c", s, "-o", o])
        return (s, o, r)

    with ThreadPoolExecutor(NPROC) as ex:
        res = list(ex.map(one, jobs))
    errs = [(s, r.stderr) for s, o, r in res if r.returncode != 0]
    return [o for _, o, _ in res], errs


class BuildError(Exception):
    pass


def build_lib(variant="asan", extra_flags=()):
    """Compile the library sources of the working tree into a static archive."""
    flags = list(BASE_CFLAGS) + inc_flags() + list(extra_flags)
    if variant == "asan":
        flags += SAN
    elif variant == "tsan":
        flags += ["-fsanitize=thread", "-fno-omit-frame-pointer"]
    elif variant == "plain":
        pass
    d = cache_dir("lib-" + variant, " ".join(flags))
    a = os.path.join(d, "libxcm_verif.a")
    with Lock("lib-" + variant):
        if os.path.exists(a):
            os.utime(d)
            return a
        tmp = d + ".tmp%d" % os.getpid()
        shutil.rmtree(tmp, ignore_errors=True)
        srcs = [os.path.join(REPO, s) for s in lib_sources()]
        objs, errs = compile_objs(srcs, tmp, flags)
        if errs:
            shutil.rmtree(tmp, ignore_errors=True)
            raise BuildError("library does not compile:\n" + "\n".join(e for _, e in errs)[:4000])
        r = sh(["ar", "rcs", os.path.join(tmp, "libxcm_verif.a")] + objs)
        if r.returncode != 0:
            raise BuildError(r.stderr)
        shutil.rmtree(d, ignore_errors=True)
        os.rename(tmp, d)
        prune_cache()
    return a


def build_harness(name, sources, variant="asan", libs=(), extra_flags=(), link_lib=False,
                  extra_objs_from_repo=(), ldflags=(), whole=False):
    """Build harness `name` from /verif/harness/<sources> (+ chosen repo sources compiled
    with the same flags).  Returns the path of the executable."""
    flags = list(BASE_CFLAGS) + inc_flags() + ["-I" + os.path.join(VERIF, "harness"),
                                               '-DREPO="%s"' % REPO] + list(extra_flags)
    if variant == "asan":
        flags += SAN
    elif variant == "tsan":
        flags += ["-fsanitize=thread", "-fno-omit-frame-pointer"]
    hsrcs = [os.path.join(VERIF, "harness", s) for s in sources]
    hh = hashlib.sha256()
    for dpath, _, fs in os.walk(os.path.join(VERIF, "harness")):
        for f in sorted(fs):
            with open(os.path.join(dpath, f), "rb") as fh:
                hh.update(f.encode() + hashlib.sha256(fh.read()).digest())
    d = cache_dir("h-%s-%s" % (name, variant), hh.hexdigest() + " ".join(flags) + " ".join(ldflags) + str(whole))
    exe = os.path.join(d, name)
    lib = build_lib(variant) if link_lib else None
    with Lock("h-" + name + variant):
        if os.path.exists(exe):
            os.utime(d)
            return exe
        tmp = d + ".tmp%d" % os.getpid()
        shutil.rmtree(tmp, ignore_errors=True)
        srcs = hsrcs + [os.path.join(REPO, s) for s in extra_objs_from_repo]
        objs, errs = compile_objs(srcs, tmp, flags)
        if errs:
            shutil.rmtree(tmp, ignore_errors=True)
            raise BuildError("harness %s does not compile:\n%s" % (name, "\n".join(e for _, e in errs)[:6000]))
        cmd = ["gcc"] + [f for f in flags if f.startswith("-fsanitize") or f == "-g"] + \
              ["-o", os.path.join(tmp, name)] + objs + list(ldflags)
        if lib:
            # system harnesses need the transports' constructor-registered objects: whole archive
            cmd += (["-Wl,--whole-archive", lib, "-Wl,--no-whole-archive"] if whole else [lib])
        cmd += ["-l" + l for l in libs] + ["-lpthread", "-lm"]
        r = sh(cmd)
        if r.returncode != 0:
            shutil.rmtree(tmp, ignore_errors=True)
            raise BuildError("harness %s does not link:\n%s" % (name, r.stderr[:6000]))
        shutil.rmtree(d, ignore_errors=True)
        os.rename(tmp, d)
        prune_cache()
    return exe


ASAN_ENV = {"ASAN_OPTIONS": "detect_leaks=0:abort_on_error=1:detect_stack_use_after_return=1",
            "UBSAN_OPTIONS": "print_stacktrace=1:halt_on_error=1"}


def run_proc(cmd, inp, env=None, timeout=600):
    e = dict(os.environ)
    e.update(ASAN_ENV)
    if env:
        e.update(env)
    try:
        r = subprocess.run(cmd, input=inp, capture_output=True, text=True, env=e, timeout=timeout)
        return r.returncode, r.stdout, r.stderr
    except subprocess.TimeoutExpired as ex:
        so = ex.stdout.decode(errors="replace") if isinstance(ex.stdout, bytes) else (ex.stdout or "")
        return -999, so, "TIMEOUT after %ss" % timeout


def run_model(component, ops_text, timeout=600):
    rc, out, err = run_proc([DRIVER, component], ops_text, timeout=timeout)
    if rc != 0:
        raise BuildError("model driver failed (%s): rc=%s %s" % (component, rc, err[:2000]))
    return out.splitlines()


def split_detail(line):
    """An output line is `<observable part> ## <model detail>`; the part before ` ## ` is what
    the property speaks about, the rest is implementation detail that the model also predicts."""
    i = line.find(" ## ")
    if i < 0:
        return line, ""
    return line[:i], line[i + 4:]


def first_diff(model_lines, impl_lines):
    """Returns (index, kind) with kind 'observable' | 'detail' | 'length', or None."""
    detail_at = None
    for i in range(min(len(model_lines), len(impl_lines))):
        a, da = split_detail(model_lines[i])
        b, db = split_detail(impl_lines[i])
        if a != b:
            return i, "observable"
        if da != db and detail_at is None:
            detail_at = i
    if len(model_lines) != len(impl_lines):
        if detail_at is not None and detail_at < min(len(model_lines), len(impl_lines)):
            return detail_at, "detail"
        return min(len(model_lines), len(impl_lines)), "length"
    if detail_at is not None:
        return detail_at, "detail"
    return None


def ddmin(items, fails, budget=200):
    """Delta debugging: smallest sublist (order kept) on which `fails` is still true."""
    n = 2
    calls = 0
    while len(items) >= 2 and calls < budget:
        chunk = max(1, len(items) // n)
        reduced = False
        for i in range(0, len(items), chunk):
            cand = items[:i] + items[i + chunk:]
            calls += 1
            if cand and fails(cand):
                items = cand
                n = max(n - 1, 2)
                reduced = True
                break
            if calls >= budget:
                break
        if not reduced:
            if chunk == 1:
                break
            n = min(len(items), n * 2)
    return items


# ---------------------------------------------------------------------------------------------
# Lean side
# ---------------------------------------------------------------------------------------------

def extract():
    with Lock("lean"):
        r = sh([sys.executable, os.path.join(VERIF, "extract", "extract.py")])
    if r.returncode != 0:
        raise BuildError("extractor failed: " + r.stderr[-3000:] + r.stdout[-1000:])
    return r.stdout.strip()


def lake_build(targets):
    with Lock("lean"):
        t0 = time.time()
        r = sh(["lake", "build"] + list(targets), cwd=LEAN)
        return r.returncode == 0, (r.stdout + r.stderr), time.time() - t0


def strip_lean_comments(src):
    out = []
    i = 0
    depth = 0
    n = len(src)
    while i < n:
        if src.startswith("/-", i):
            depth += 1
            i += 2
        elif depth > 0 and src.startswith("-/", i):
            depth -= 1
            i += 2
        elif depth > 0:
            i += 1
        elif src.startswith("--", i):
            while i < n and src[i] != "\n":
                i += 1
        else:
            out.append(src[i])
            i += 1
    return "".join(out)


def lean_imports_closure(module):
    """Files of our own library reachable from `module` (for the textual audit)."""
    seen = {}
    todo = [module]
    while todo:
        m = todo.pop()
        if m in seen:
            continue
        p = os.path.join(LEAN, m.replace(".", "/") + ".lean")
        if not os.path.exists(p):
            continue
        src = open(p).read()
        seen[m] = p
        for im in re.findall(r"^import\s+([\w.]+)", src, re.M):
            if im.startswith("XcmModel"):
                todo.append(im)
    return seen


def _mods(module):
    return list(module) if isinstance(module, (list, tuple)) else [module]


def text_audit(module):
    bad = []
    files = {}
    for mod in _mods(module):
        files.update(lean_imports_closure(mod))
    for m, p in files.items():
        src = strip_lean_comments(open(p).read())
        for mm in FORBIDDEN_RE.finditer(src):
            bad.append("%s: %s" % (m, mm.group(0).strip()))
    return bad


def axioms_audit(module, theorems):
    """`#print axioms` for each theorem; returns {theorem: [axioms] | 'ERROR: ...'}."""
    os.makedirs(RUN, exist_ok=True)
    res = {}
    with tempfile.NamedTemporaryFile("w", suffix=".lean", dir=RUN, delete=False) as f:
        for mod in _mods(module):
            f.write("import %s\n" % mod)
        for t in theorems:
            f.write("#print axioms %s\n" % t)
        path = f.name
    try:
        with Lock("lean"):
            r = sh(["lake", "env", "lean", path], cwd=LEAN)
        out = r.stdout + r.stderr
        # parse: "'name' depends on axioms: [a, b]" / "'name' does not depend on any axioms"
        flat = out.replace("\n", " ")
        for t in theorems:
            m = re.search(r"'" + re.escape(t) + r"' depends on axioms: \[([^\]]*)\]", flat)
            if m:
                res[t] = [a.strip() for a in m.group(1).split(",") if a.strip()]
                continue
            if re.search(r"'" + re.escape(t) + r"' does not depend on any axioms", flat):
                res[t] = []
                continue
            res[t] = "ERROR: " + out[-600:]
    finally:
        os.unlink(path)
    return res


# ---------------------------------------------------------------------------------------------
# Check context: collects what a run covered and decides the verdict
# ---------------------------------------------------------------------------------------------

class Ctx:
    def __init__(self, prop, tier, seed):
        self.prop = prop
        self.tier = tier
        self.seed = seed
        self.t0 = time.time()
        self.rng = SplitMix64(seed * 1000003 + int(prop[1:]))
        self.round = 0        # thorough tier: the generators are re-run with fresh randomness until the time target is reached
        self.evaluations = 0
        self.nontrivial = set()
        self.samples = []
        self.traces = 0
        self.exhaustive = None
        self.obligations = []
        self.discharged = []
        self.axioms = {}
        self.proof_breaks = []      # theorem names / build errors
        self.corr_breaks = []       # dicts
        self.violations = []        # dicts with signature, what, replay
        self.notes = []
        self.dist = {}
        self.assumptions = []
        self.trusted = []
        self.rule = ""
        self.rundir = os.path.join(RUN, "%s-%d" % (prop, os.getpid()))
        os.makedirs(self.rundir, exist_ok=True)
        os.makedirs(os.path.join(VERIF, "replays"), exist_ok=True)
        self.replay_n = 0

    # -- bookkeeping -------------------------------------------------------------------------
    @property
    def vseed(self):
        """seed handed to the harnesses' own generators: differs per round of a thorough run"""
        return self.seed + 1009 * self.round

    def next_round(self):
        self.round += 1
        self.rng = SplitMix64((self.seed * 1000003 + int(self.prop[1:])) * 31 + self.round * 0x9E3779B1)

    def over_budget(self):
        """generators stop producing new cases when the tier's wall-clock budget is used up"""
        limit = float(os.environ.get("VERIF_BUDGET_S", "100" if self.tier == "quick" else "800"))
        return time.time() - self.t0 > limit

    def count(self, key, n=1):
        self.dist[key] = self.dist.get(key, 0) + n

    def sample(self, s, cap=6):
        if len(self.samples) < cap:
            self.samples.append(s)

    def nontriv(self, key):
        if len(self.nontrivial) < 2000000:
            self.nontrivial.add(hashlib.blake2b(repr(key).encode(), digest_size=8).digest())

    def write_replay(self, payload):
        self.replay_n += 1
        p = os.path.join(VERIF, "replays", "%s-%d-%d.json" % (self.prop, self.seed, self.replay_n))
        payload = dict(payload)
        payload.setdefault("property", self.prop)
        payload.setdefault("tier", self.tier)
        payload.setdefault("seed", self.seed)
        payload.setdefault("repo_tree_hash", tree_hash())
        with open(p, "w") as f:
            json.dump(payload, f, indent=1)
        return p

    def violation(self, signature, what, replay):
        """A concrete failing input against the implementation."""
        for v in self.violations:
            if v["signature"] == signature:
                v["count"] += 1
                return
        path = self.write_replay(dict(replay, signature=signature, what=what))
        self.violations.append({"signature": signature, "what": what, "replay": path, "count": 1})

    def corr_break(self, harness, what, replay):
        if len(self.corr_breaks) >= 5:
            return
        path = self.write_replay(dict(replay, broken={"correspondence": harness, "what": what}))
        self.corr_breaks.append({"harness": harness, "what": what, "replay": path})

    # -- proof step ---------------------------------------------------------------------------
    def prove(self, module, theorems):
        self.obligations = list(theorems)
        mods = _mods(module)
        module = " ".join(mods)
        self.checker_cmd = "cd /verif/lean && lake build %s && lake env lean <#print axioms of each theorem>" % module
        ok, log, dt = lake_build(mods + ["driver"])
        self.notes.append("lake build %s: %s in %.1fs" % (module, "ok" if ok else "FAILED", dt))
        if not ok:
            errs = re.findall(r"error: [^\n]*", log)
            self.build_log = log[-6000:]
            # which theorems still check?  the module failed, so none is discharged
            self.proof_breaks.append({"module": module, "errors": errs[:12]})
            # the driver may still be buildable (model ok, proofs broken)
            ok2, log2, _ = lake_build(["driver"])
            if not ok2:
                raise BuildError("model driver does not build:\n" + log2[-3000:])
            return False
        bad = text_audit(mods)
        if bad:
            self.proof_breaks.append({"module": module, "errors": ["forbidden construct: " + b for b in bad]})
            return False
        ax = axioms_audit(mods, theorems)
        self.axioms = ax
        for t in theorems:
            a = ax.get(t)
            if isinstance(a, list) and set(a) <= ALLOWED_AXIOMS:
                self.discharged.append(t)
            else:
                self.proof_breaks.append({"theorem": t, "errors": [str(a)]})
        if self.tier == "thorough":
            # independent re-check of the compiled property modules (and everything they import) by leanchecker
            for m in mods:
                with Lock("lean"):
                    r = sh(["lake", "env", "leanchecker", m], cwd=LEAN)
                out = (r.stdout or "") + (r.stderr or "")
                ok = r.returncode == 0 and "exception" not in out and "error" not in out.lower()
                self.notes.append("leanchecker %s: %s" % (m, "ok" if ok else "FAILED"))
                if not ok:
                    self.proof_breaks.append({"module": m, "errors": ["leanchecker: " + out[-600:]]})
        return not self.proof_breaks

    # -- differential run ---------------------------------------------------------------------
    def differential(self, harness_name, component, exe, ops, impl_env=None, shrink=True,
                     impl_args=(), label=None, timeout=600):
        """Run ops on the model driver and the implementation harness and compare.
        Returns (model_lines, impl_lines)."""
        text = "\n".join(ops) + "\n"
        m = run_model(component, text, timeout=timeout)
        rc, out, err = run_proc([exe] + list(impl_args), text, env=impl_env, timeout=timeout)
        il = out.splitlines()
        self.evaluations += len(ops)
        self.traces += 1
        crashed = rc != 0
        d = first_diff(m, il)
        if d is None and not crashed:
            return m, il
        if crashed and (d is None or d[0] >= len(il)):
            # the implementation died while executing op number len(il)
            at = len(il)
            sig = "%s:crash:%s" % (harness_name, crash_site(err))
            small = ops[:at + 1]
            if shrink:
                def fails(c):
                    r2, o2, e2 = run_proc([exe] + list(impl_args), "\n".join(c) + "\n", env=impl_env, timeout=timeout)
                    return r2 != 0 and crash_site(e2) == crash_site(err)
                small = ddmin(small, fails)
            self.violation(sig, "implementation crashed/aborted: " + crash_site(err),
                           {"harness": harness_name, "component": component, "ops": small,
                            "stderr": err[-3000:], "label": label})
            return m, il
        at, kind = d
        def still(c):
            t2 = "\n".join(c) + "\n"
            try:
                m2 = run_model(component, t2, timeout=timeout)
            except BuildError:
                return False
            r2, o2, e2 = run_proc([exe] + list(impl_args), t2, env=impl_env, timeout=timeout)
            i2 = o2.splitlines()
            if any(l.startswith("bad-op") for l in i2):
                return False
            d2 = first_diff(m2, i2)
            return d2 is not None and d2[1] == kind
        small = ops[:at + 1]
        if shrink and len(small) > 1:
            small = ddmin(small, still)
        t2 = "\n".join(small) + "\n"
        m2 = run_model(component, t2)
        r2, o2, e2 = run_proc([exe] + list(impl_args), t2, env=impl_env)
        i2 = o2.splitlines()
        d2 = first_diff(m2, i2) or (at, kind)
        rep = {"harness": harness_name, "component": component, "ops": small, "model_out": m2,
               "impl_out": i2, "first_diff_line": d2[0], "label": label}
        if kind == "observable" or kind == "length":
            opname = small[min(d2[0], len(small) - 1)].split()[0] if small else "?"
            self.violation("%s:diff:%s" % (harness_name, opname),
                           "implementation differs from the proved model in a property observable "
                           "(op %r: model %r, impl %r)" % (
                               small[min(d2[0], len(small) - 1)][:120] if small else "",
                               m2[d2[0]][:160] if d2[0] < len(m2) else None,
                               i2[d2[0]][:160] if d2[0] < len(i2) else None), rep)
        else:
            self.corr_break(harness_name, "model detail differs at op %d" % d2[0], rep)
        return m, il

    # -- verdict ------------------------------------------------------------------------------
    def finish(self, level="proof"):
        known = load_known()
        unknown = []
        lines = []
        for v in self.violations:
            k = match_known(known, self.prop, v["signature"])
            if k is not None:
                lines.append("KNOWN-FINDING: property=%s %s [%s]" % (self.prop, k["what"], k["id"]))
            else:
                unknown.append(v)
        rc = 0
        for v in unknown:
            lines.append("VIOLATION property=%s replay=%s" % (self.prop, v["replay"]))
            sys.stderr.write("  violation %s: %s\n" % (v["signature"], v["what"]))
            rc = 1
        if not unknown and (self.proof_breaks or self.corr_breaks):
            # the property is no longer *shown* to hold and the search found no failing input
            p = self.write_replay({"broken": {"theorems": self.proof_breaks,
                                              "correspondence": self.corr_breaks},
                                   "build_log": getattr(self, "build_log", None),
                                   "note": "no failing input found within this tier's budget"})
            lines.append("VIOLATION property=%s replay=%s no-failing-input-found" % (self.prop, p))
            rc = 1
        ev = {
            "property_id": self.prop, "tier": self.tier, "seed": self.seed, "level": level,
            "coverage": {
                "obligations": len(self.obligations), "discharged": len(self.discharged),
                "checker_cmd": getattr(self, "checker_cmd", ""),
                "trusted_base": self.trusted + [
                    "Lean 4.33.0 kernel; axioms per theorem listed under 'axioms' (allowed: propext, Classical.choice, Quot.sound; no native_decide/bv_decide)",
                    "T1 extractor (extract/*.py) and T2 correspondence harnesses (harness/*.c, gen/*.py): the model is hand-written; its tie to /repo is differential execution, i.e. sampled unless 'exhaustive' says otherwise",
                    "gcc 12 + ASan/UBSan, glibc, the Linux kernel and OpenSSL as the implementation side of the correspondence"],
                "theorems": self.obligations, "axioms": self.axioms,
                "evaluations": self.evaluations, "distinct_nontrivial": len(self.nontrivial),
                "traces_validated_against_impl": self.traces,
                "rule": self.rule, "samples": self.samples[:8],
                "input_distribution": self.dist,
                "proof_breaks": self.proof_breaks, "correspondence_breaks": self.corr_breaks,
                "violations_found": [{k: v[k] for k in ("signature", "what", "count")} for v in self.violations],
                "notes": self.notes, "repo_tree_hash": tree_hash(), "rounds": self.round + 1,
            },
            "assumptions": list(dict.fromkeys(self.assumptions)),
            "wall_s": round(time.time() - self.t0, 2),
            "violations": len(unknown) + (1 if rc and not unknown else 0),
        }
        if self.exhaustive is not None:
            ev["coverage"]["exhaustive"] = self.exhaustive
        # tools that run the checks against a deliberately changed tree (tools/try_mut.sh, run_seeded.py, revert_test.sh) set
        # VERIF_EVIDENCE_DIR so that the committed evidence always describes /repo itself
        evdir = os.environ.get("VERIF_EVIDENCE_DIR") or os.path.join(VERIF, "evidence")
        os.makedirs(evdir, exist_ok=True)
        tmp = os.path.join(evdir, ".%s.%d.tmp" % (self.prop, os.getpid()))
        with open(tmp, "w") as f:
            json.dump(ev, f, indent=1, sort_keys=False)
        os.replace(tmp, os.path.join(evdir, self.prop + ".json"))
        shutil.rmtree(self.rundir, ignore_errors=True)
        for l in lines:
            print(l)
        print("%s tier=%s seed=%d: obligations %d/%d, evaluations %d, distinct-nontrivial %d, %s (%.1fs)" % (
            self.prop, self.tier, self.seed, len(self.discharged), len(self.obligations),
            self.evaluations, len(self.nontrivial), "FAIL" if rc else "ok", time.time() - self.t0))
        return rc


def crash_site(err):
    m = re.search(r"ERROR: AddressSanitizer: ([\w-]+)", err)
    kind = m.group(1) if m else None
    if kind is None:
        m = re.search(r"runtime error: ([^\n]{0,60})", err)
        kind = ("ubsan " + m.group(1)) if m else None
    if kind is None:
        m = re.search(r'Assertion "([^"]*)" failed', err) or re.search(r"Assertion `([^']*)' failed", err)
        kind = ("assert " + m.group(1)) if m else "crash"
    fn = None
    for m in re.finditer(r"#\d+ 0x[0-9a-f]+ in (\w+)", err):
        f = m.group(1)
        if f.startswith("__") or f in ("memcpy", "strlen", "abort", "raise", "main", "printf", "vsnprintf",
                                       "snprintf", "strcmp", "memcmp", "strcpy", "strdup", "malloc", "free"):
            continue
        fn = f
        break
    kind = re.sub(r"\d+", "N", kind)
    return "%s@%s" % (kind, fn or "?")


def load_known():
    p = os.path.join(VERIF, "known_findings.json")
    if not os.path.exists(p):
        return []
    with open(p) as f:
        return json.load(f).get("findings", [])


def match_known(known, prop, signature):
    for k in known:
        if k.get("status") != "known" or k.get("property") != prop:
            continue
        if re.fullmatch(k["match"], signature):
            return k
    return None
