"""sys_relay: the real xcmrelay code (rserver.c, xrelay.c) in a thread, clients and a backend around it."""
from gen import common, sysattr


def build():
    return common.build_harness("sys_relay", ["sys_relay.c"], link_lib=True, libs=["ssl", "crypto", "cares", "event", "event_pthreads"], whole=True,
                                extra_flags=["-I" + common.REPO + "/tools/xcmrelay", "-I" + common.REPO + "/tools/common"],
                                extra_objs_from_repo=["tools/xcmrelay/rserver.c", "tools/xcmrelay/xrelay.c"],
                                ldflags=["-Wl,--wrap=send", "-Wl,--wrap=recv"])


def run(exe, cmds, ctx, timeout=900):
    """each command answers with a summary line, optional '  conn ...' detail lines and a terminating '.'"""
    rc, out, err = sysattr.run(exe, cmds, ctx, timeout=timeout)
    res, cur = [], None
    for l in out:
        if l == ".":
            if cur is not None:
                res.append(cur)
            cur = None
        elif l.startswith("  conn"):
            if cur is not None:
                cur[1].append(l.strip())
        else:
            if l.startswith("fail") or l == "bad-op":
                res.append((l, []))
                cur = None
            else:
                cur = (l, [])
    return rc, res, err


def build_unit():
    return common.build_harness("unit_relay", ["unit_relay.c"], link_lib=True, libs=["ssl", "crypto", "cares", "event"],
                                extra_flags=["-I" + common.REPO + "/tools/xcmrelay"])


def gen_history(rng, nops, ctx):
    from gen.common import hexs
    bs = rng.below(3) == 0
    ops = ["N %d" % bs]
    ctx.count("relay.unit.bytestream%d" % bs)
    for _ in range(nops):
        f = rng.below(2)
        conn = rng.choice([1, 2])
        r = rng.below(100)
        if r < 45:
            a = "d:" + hexs(rng.bytes(rng.choice([1, 2, 5, 40, 200, 3000])))
        elif r < 72:
            a = "ok" if not bs or rng.chance(1, 2) else "ok:%d" % rng.choice([1, 2, 3, 10, 100000])
        elif r < 95:
            a = "EEAGAIN"
        elif r < 97:
            a = "eof"
        else:
            a = "E" + rng.choice(["EPIPE", "ECONNRESET", "ETIMEDOUT", "EPROTO"])
        if a == "eof" and rng.chance(2, 3):
            a += " " + rng.choice(["EEAGAIN", "EEAGAIN", "ok", "EEPIPE"])
        ops.append("E %d %d %s" % (f, conn, a))
    return ops
