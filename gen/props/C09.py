"""C09 - TLS never fails open."""
import json
from gen import common, btls

LEAN_MODULE = "XcmModel.Props.C09"
THEOREMS = [
    "XcmModel.Btls.run_inv",
    "XcmModel.C09.C09_usable_only_if_verified", "XcmModel.C09.C09_finish_success_only_if_verified",
    "XcmModel.C09.C09_no_write_unless_verified", "XcmModel.C09.C09_no_read_unless_verified",
    "XcmModel.C09.C09_policy_failure_bad", "XcmModel.C09.C09_policy_failure_reports_EPROTO",
    "XcmModel.C09.C09_rejected_peer_never_served",
]


def run(ctx):
    quick = ctx.tier == "quick"
    ctx.rule = ("unit_btls: the real xcm_tp_btls.c with OpenSSL's calls (SSL_connect/accept/read/write/get_error/has_pending, "
                "peer certificate + verify result) and the btcp socket below as a scripted environment.  Exhaustive: every OpenSSL "
                "event x every first observer x {handshaking, ready} x tls.auth x certificate verdict {accepted, none, rejected}, "
                "each followed twice by every kind of later call; then seeded random histories.  Every line compared with the Lean "
                "Btls model; monitors on the implementation's output: ready only after a successful handshake call AND an accepted "
                "certificate (tls.auth on), SSL_write/SSL_read never called before that, no data returned before that.")
    n = btls.run_part(ctx, 150 if quick else 6000)
    ctx.exhaustive = True
    ctx.assumptions += [
        "K-openssl-verify: OpenSSL's chain/validity/CRL/EKU/name checks themselves are the environment; what set_verify configures and "
        "what real OpenSSL then decides for generated credentials is observed by sys_tls (policy matrix), not proved",
        "K-openssl-eagain: OpenSSL reports would-block as WANT_READ/WANT_WRITE (the code asserts it)"]


def replay(path):
    r = json.load(open(path))
    return btls.replay(r)
