"""C09 - TLS never fails open."""
import json
from gen import common, btls, systls, ctxstore

LEAN_MODULE = "XcmModel.Props.C09"
THEOREMS = [
    "XcmModel.Btls.run_inv",
    "XcmModel.C09.C09_usable_only_if_verified", "XcmModel.C09.C09_finish_success_only_if_verified",
    "XcmModel.C09.C09_no_write_unless_verified", "XcmModel.C09.C09_no_read_unless_verified",
    "XcmModel.C09.C09_policy_failure_bad", "XcmModel.C09.C09_policy_failure_reports_EPROTO",
    "XcmModel.C09.C09_rejected_peer_never_served",
    "XcmModel.C09pol.C09_finalize_sound", "XcmModel.C09pol.C09_invalid_combinations_refused",
    "XcmModel.C09pol.C09_name_verification_needs_auth_and_names", "XcmModel.C09pol.C09_inherited_policy_governs",
    "XcmModel.C09pol.C09_accepts_only_if_policy_met", "XcmModel.C09pol.C09_each_failure_rejects",
    "XcmModel.C09pol.C09_revocation_cases", "XcmModel.C09pol.C09_checks_only_restrict",
]

RESUME = [
    # (command, why server 2 must refuse the raw client)
    ("RESUME btls cert=a1,tc=rootA vname=1,names=a2.verif wrongname", "its certificate does not carry an expected name"),
    ("RESUME tls cert=a1,tc=rootA vname=1,names=a2.verif:b1.verif wrongname", "its certificate does not carry an expected name"),
    ("RESUME btls cert=a1,tc=rootA,crlchk=1,crl=crlA-empty time=1 a2", None),    # same policy: must simply work or refuse consistently
]


def matrix_part(ctx):
    quick = ctx.tier == "quick"
    exe = systls.build()
    cmds = systls.sweep(ctx, 7 if quick else 1)
    for k in range(1 if quick else 12):
        cmds += systls.gen_matrix(ctx.rng.fork("mx%d" % k), 120 if quick else 400, ctx)[1:] if k else systls.gen_matrix(ctx.rng.fork("mx0"), 120 if quick else 400, ctx)
    # the default directory state must be replayed in order: one harness run
    rc, out, err = systls.run(exe, cmds, ctx, timeout=3000)
    ctx.traces += 1
    model = common.run_model("tlspolicy", "\n".join(cmds) + "\n")
    if rc != 0 or len(out) != len(cmds):
        at = cmds[min(len(out), len(cmds) - 1)]
        ctx.violation("sys_tls:crash:" + common.crash_site(err), "sys_tls died at %r" % at, {"harness": "sys_tls", "ops": cmds[:len(out) + 1][-6:], "stderr": err[-3000:]})
        return
    last_d = "D a1 rootA crlA-empty"
    for cmd, ml, il in zip(cmds, model, out):
        if cmd.startswith("D "):
            last_d = cmd
            continue
        ctx.evaluations += 1
        ctx.nontriv((ml, cmd.split()[1]))
        systls.compare(ctx, cmd, ml, il, {"harness": "sys_tls", "ops": [last_d, cmd], "model_out": ml, "impl_out": il})
        ctx.count("tls.verdict." + ml.replace("server=ok ", "").replace(" ", "/"))
    ctx.sample({"harness": "sys_tls", "cmds": cmds[1:4], "model_out": model[1:4], "impl_out": out[1:4]}, cap=8)
    # policy isolation between sockets that share credentials (and therefore the cached SSL_CTX)
    for k in range(2 if quick else 24):
        icmds = systls.gen_isolation_history(ctx.rng.fork("iso%d" % k), ctx)
        rc, iout, err = systls.run(exe, icmds, ctx, timeout=1200)
        ctx.traces += 1
        if rc != 0 or len(iout) != len(icmds):
            ctx.violation("sys_tls:crash:" + common.crash_site(err), "sys_tls died at %r" % icmds[min(len(iout), len(icmds) - 1)],
                          {"harness": "sys_tls", "ops": icmds[:len(iout) + 1], "stderr": err[-3000:]})
            break
        imodel = common.run_model("tlspolicy", "\n".join(icmds) + "\n")
        systls.check_switch(ctx, icmds, imodel, iout)
    # session resumption must not bypass a socket's policy
    rcmds = ["D a1 rootA crlA-empty"] + [c for c, _ in RESUME]
    rc, out, err = systls.run(exe, rcmds, ctx)
    for (cmd, why), il in zip(RESUME, out[1:]):
        ctx.evaluations += 1
        f = systls.fields(il)
        rep = {"harness": "sys_tls", "ops": ["D a1 rootA crlA-empty", cmd], "impl_out": il}
        if il.startswith("fail"):
            ctx.corr_break("sys_tls", "%s: %s" % (cmd, il), rep)
        elif why and (f.get("s2") == "ok" or f.get("delivered") == "1"):
            ctx.violation("sys_tls:resume:policy-bypassed", "a peer that resumed a TLS session obtained from another server socket was served although %s: %s -> %s" % (why, cmd, il), rep)
        elif f.get("resumed") == "1" and why:
            ctx.violation("sys_tls:resume:resumed", "a TLS session was resumed across server sockets with different policies: %s -> %s" % (cmd, il), rep)
        ctx.nontriv(("resume", il))


def run(ctx):
    quick = ctx.tier == "quick"
    ctx.rule = ("unit_btls: the real xcm_tp_btls.c with OpenSSL's calls (SSL_connect/accept/read/write/get_error/has_pending, "
                "peer certificate + verify result) and the btcp socket below as a scripted environment.  Exhaustive: every OpenSSL "
                "event x every first observer x {handshaking, ready} x tls.auth x certificate verdict {accepted, none, rejected}, "
                "each followed twice by every kind of later call; then seeded random histories.  Every line compared with the Lean "
                "Btls model; monitors on the implementation's output: ready only after a successful handshake call AND an accepted "
                "certificate (tls.auth on), SSL_write/SSL_read never called before that, no data returned before that.  "
                "sys_tls: real btls/tls sockets, real OpenSSL, a generated PKI (two roots, intermediates incl. a revoked one, leaves that "
                "are valid / from an untrusted root / via an intermediate with or without the chain sent / expired / not yet valid / "
                "revoked / wrongly named / client-only and server-only key usage, CRLs per issuer): a structured sweep peer credential x "
                "check_time x CRL configuration x name verification x trust anchors with the policy on the server socket, overridden at "
                "accept, or on the connecting side, by file and by value, plus random combinations incl. role reversal and the default "
                "directory; each outcome (EINVAL at creation, per-side verdict, whether application data crossed in either direction) "
                "compared with the Lean TlsPolicy model; a raw OpenSSL peer re-offering a session obtained from another server socket.  "
                "unit_ctxstore: the context used holds the designated trust anchors and CRLs (see C18).")
    btls.run_part(ctx, 150 if quick else 6000)
    matrix_part(ctx)
    ctxstore.run_part(ctx, 8 if quick else 300)
    ctx.exhaustive = False
    ctx.assumptions += [
        "K-openssl-verify: given the flags set_verify/enable_hostname_validation configure, OpenSSL's verdict is what TlsPolicy.accepts "
        "says for the abstract facts of a credential (chain, validity, revocation, key usage, names); validated by the sys_tls sweep, not proved",
        "K-openssl-eagain: OpenSSL reports would-block as WANT_READ/WANT_WRITE (the code asserts it)",
        "utls connects over UX inside one host, so its TLS leg is exercised through tls/btls only"]


def replay(path):
    r = json.load(open(path))
    if r.get("harness") == "sys_tls":
        class C:
            rundir = common.RUN + "/replay"
        rc, out, err = systls.run(systls.build(), r["ops"], C)
        m = common.run_model("tlspolicy", "\n".join(r["ops"]) + "\n")
        print("model:", *m, sep="\n  ")
        print("impl (rc=%d):" % rc, *out, sep="\n  ")
        return 0
    if r.get("harness") == "unit_ctxstore":
        return ctxstore.replay(r)
    return btls.replay(r)
