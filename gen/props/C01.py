"""C01 - messaging transports deliver exactly the accepted messages, whole, in order."""
import json
from gen import common, framing, ux

LEAN_MODULE = "XcmModel.Props.C01"
THEOREMS = [
    "XcmModel.Wire.frames_prefix", "XcmModel.Wire.eq_frame_of_complete",
    "XcmModel.Framing.tfs_spec", "XcmModel.Framing.bufferMsg_spec",
    "XcmModel.C01.sendInv_run", "XcmModel.C01.recvInv_run",
    "XcmModel.C01.C01_exact_delivery", "XcmModel.C01.C01_no_more_than_accepted",
    "XcmModel.C01.C01_never_partial",
    "XcmModel.Ux.inv_run", "XcmModel.C01.C01_ux_exact_delivery",
]


def run(ctx):
    quick = ctx.tier == "quick"
    ctx.rule = ("unit_framing(tcp|tls): the real xcm_tp_tcp.c / xcm_tp_tls.c over a scripted byte-stream lower layer; "
                "random histories of send/receive/finish/update with adversarial lower answers (all, k bytes, 1 byte, "
                "EAGAIN, errors), valid frames arriving cut at arbitrary points (header splits forced in a third of the "
                "histories), malformed input, EOF and errors; every output line (rc, errno, payload, 8 counters, buffer "
                "state, bytes handed to the lower layer) compared with the Lean model and checked by the delivery "
                "monitor.  non-trivial+distinct = distinct (op, model output) pairs")
    for variant in ("tcp", "tls"):
        exe = framing.build(variant)
        mon = framing.Monitor(ctx, "unit_framing_" + variant)
        nh = 60 if quick else 1500
        for k in range(nh):
            rng = ctx.rng.fork("%s%d" % (variant, k))
            ops = framing.gen_history(rng, 120 if quick else 200, ctx, errs=(k % 3 != 0), small=(k % 2 == 0))
            m, il = ctx.differential("unit_framing_" + variant, "framing", exe, ops, label="hist%d" % k)
            mon.run(ops, il)
            for o, l in zip(ops, m):
                if not l.startswith(("ok", "lower")):
                    ctx.nontriv((o, l))
            if k == 0 and variant == "tcp":
                ctx.sample({"harness": "unit_framing_tcp", "ops": ops[:10], "model_out": m[:10]})
    ux.run_part(ctx, 30 if quick else 1500, "c01")
    ctx.rule += "; unit_ux: the real ux_send/ux_receive/ux_update of xcm_tp_ux.c with scripted kernel send()/recv() (record accepted / EAGAIN / EINTR / errors; records of any size against any capacity) vs the Lean Ux model + monitor"


def replay(path):
    r = json.load(open(path))
    variant = "tls" if r.get("harness", "").endswith("tls") else "tcp"
    exe = framing.build(variant)
    text = "\n".join(r["ops"]) + "\n"
    common.lake_build(["driver"])
    m = common.run_model("framing", text)
    rc, out, err = common.run_proc([exe], text)
    print("model:", *m, sep="\n  ")
    print("impl (rc=%d):" % rc, *out.splitlines(), sep="\n  ")
    if err:
        print(err[-2000:])
    return 0 if m == out.splitlines() and rc == 0 else 1
