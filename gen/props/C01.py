"""C01 - messaging transports deliver exactly the accepted messages, whole, in order."""
import json
from gen import common, framing, ux, api

# the framing theorems (C01) are relative to the byte-stream contract of the layer below and speak about the non-blocking calls:
# the TLS byte stream's side of that contract (C02btls) and the blocking wrappers of xcm.c (C03) are re-checked here too
LEAN_MODULE = ["XcmModel.Props.C01", "XcmModel.Props.C02", "XcmModel.Props.C03", "XcmModel.Props.Utls"]
THEOREMS = [
    "XcmModel.Wire.frames_prefix", "XcmModel.Wire.eq_frame_of_complete",
    "XcmModel.Framing.tfs_spec", "XcmModel.Framing.bufferMsg_spec",
    "XcmModel.C01.sendInv_run", "XcmModel.C01.recvInv_run",
    "XcmModel.C01.C01_exact_delivery", "XcmModel.C01.C01_no_more_than_accepted",
    "XcmModel.C01.C01_never_partial",
    "XcmModel.Ux.inv_run", "XcmModel.C01.C01_ux_exact_delivery",
    "XcmModel.C02btls.C02_btls_accepted_is_written_plus_retained", "XcmModel.C02btls.C02_btls_send_accepts_prefix",
    "XcmModel.C02btls.C02_btls_retry_discipline", "XcmModel.C03btls.C03_btls_finish_success_means_flushed",
    "XcmModel.C03.C03_blocking_send_no_false_failure", "XcmModel.C03.C03_blocking_send_accepted_once",
    "XcmModel.UtlsProps.C01_utls_pure_delegation", "XcmModel.UtlsProps.utls_active_is_the_one_left", "XcmModel.UtlsProps.C08_utls_connect_balanced",
]


def run(ctx):
    quick = ctx.tier == "quick"
    ctx.rule = ("unit_framing(tcp|tls): the real xcm_tp_tcp.c / xcm_tp_tls.c over a scripted byte-stream lower layer; "
                "random histories of send/receive/finish/update with adversarial lower answers (all, k bytes, 1 byte, "
                "EAGAIN, errors), valid frames arriving cut at arbitrary points (header splits forced in a third of the "
                "histories), malformed input, EOF and errors; every output line (rc, errno, payload, 8 counters, buffer "
                "state, bytes handed to the lower layer) compared with the Lean model and checked by the delivery "
                "monitor.  non-trivial+distinct = distinct (op, model output) pairs")
    for variant in ("tcp", "tls"):
        exe = framing.build(variant)
        mon = framing.Monitor(ctx, "unit_framing_" + variant)
        nh = 60 if quick else 1500
        for k in range(nh):
            rng = ctx.rng.fork("%s%d" % (variant, k))
            ops = framing.gen_history(rng, 120 if quick else 200, ctx, errs=(k % 3 != 0), small=(k % 2 == 0))
            m, il = ctx.differential("unit_framing_" + variant, "framing", exe, ops, label="hist%d" % k)
            mon.run(ops, il)
            for o, l in zip(ops, m):
                if not l.startswith(("ok", "lower")):
                    ctx.nontriv((o, l))
            if k == 0 and variant == "tcp":
                ctx.sample({"harness": "unit_framing_tcp", "ops": ops[:10], "model_out": m[:10]})
    # below the tls transport: the TLS byte stream (accepts, retains, re-offers; nothing lost, duplicated or reordered)
    from gen import btls as _btls
    _btls.run_part(ctx, 10 if quick else 300, exhaustive=True)
    ctx.rule += "; unit_btls: the real xcm_tp_btls.c with scripted OpenSSL answers (partial SSL_write of retained output included) vs the Lean Btls model"
    # above the transports: the blocking forms of xcm_send / xcm_receive in xcm.c
    aexe = api.build()
    amon = api.Monitor(ctx)
    aops = []
    for k in range(120 if quick else 4000):
        aops += api.gen_history(ctx.rng.fork("api%d" % k), 25, ctx)
        if len(aops) > 3000 or k == (120 if quick else 4000) - 1:
            m, il = ctx.differential("unit_api", "api", aexe, aops, label="api")
            amon.run(aops, il)
            for o, l in zip(aops, m):
                ctx.nontriv(("api", o.split()[0], l[:100]))
            aops = []
        if ctx.over_budget():
            break
    ctx.rule += "; unit_api: the real xcm.c wrappers in blocking and non-blocking mode over a scripted transport and poll() (EINTR between acceptance and flush included) vs the Lean Api model"
    # utls: a connection is exactly one UX or TLS sub-connection; every data-path call is handed to it unchanged
    from gen import utls as _utls
    _utls.run_part(ctx, 30 if quick else 1500, label="c01utls")
    ctx.rule += "; unit_utls: the real xcm_tp_utls.c over logging mock sub-transports vs the Lean Utls model (pure delegation to the one sub-socket left)"
    ux.run_part(ctx, 30 if quick else 1500, "c01")
    ctx.rule += "; unit_ux: the real ux_send/ux_receive/ux_update of xcm_tp_ux.c with scripted kernel send()/recv() (record accepted / EAGAIN / EINTR / errors; records of any size against any capacity) vs the Lean Ux model + monitor"


def replay(path):
    r = json.load(open(path))
    variant = "tls" if r.get("harness", "").endswith("tls") else "tcp"
    exe = framing.build(variant)
    text = "\n".join(r["ops"]) + "\n"
    common.lake_build(["driver"])
    m = common.run_model("framing", text)
    rc, out, err = common.run_proc([exe], text)
    print("model:", *m, sep="\n  ")
    print("impl (rc=%d):" % rc, *out.splitlines(), sep="\n  ")
    if err:
        print(err[-2000:])
    return 0 if m == out.splitlines() and rc == 0 else 1
