"""C11 - attribute values take effect and are inherited as documented."""
import json
from gen import common, btcp, sysattr
from gen.sysattr import hexn

LEAN_MODULE = ["XcmModel.Props.C11", "XcmModel.Props.Funcs"]
THEOREMS = [
    "XcmModel.C11.optsEqual_iff", "XcmModel.C11.C11_readback_field", "XcmModel.C11.C11_readback_keepalive",
    "XcmModel.C11.applyOps_inForce", "XcmModel.C11.finishConnect_inForce",
    "XcmModel.C11.C11_tcp_opts_in_force", "XcmModel.C11.C11_tcp_opts_in_force_accepted",
    "XcmModel.FuncsTie.tcp_opts_equal_tie",
]

FIELDS = ["keepalive", "time", "interval", "count", "user_timeout"]
DEFAULT = {"keepalive": 1, "time": 1, "interval": 1, "count": 3, "user_timeout": 3}


def rand_set(rng):
    f = rng.choice(FIELDS)
    if f == "keepalive":
        return "O keepalive %d" % rng.below(2)
    k = rng.below(12)
    if k < 7:
        v = rng.range(1, 30)
    elif k < 8:
        v = DEFAULT[f]
    elif k < 9:
        v = rng.choice([0, -1, -5])
    elif k < 10:
        v = rng.choice([2147483647, 2147483648, 2147483, 2147484, 4294967296 + 5])
    else:
        v = rng.range(1, 100000)
    return "O %s %d" % (f, v)


def gen_unit(rng, ctx):
    """sets in every phase: before tconnect's snapshot, while connecting, after establishment;
    single-field differences are forced so that each conjunct of tcp_opts_equal decides alone"""
    start = rng.choice(["resolving", "connecting", "ready"])
    ops = ["N " + start]
    def sets(n):
        for _ in range(n):
            ops.append(rand_set(rng))
    if start == "resolving":
        sets(rng.below(3))
        ops.append("F o,o,a")         # resolution ok, tconnect_connect ok, fd not yet: -> connecting (snapshot taken)
        ctx.count("c11.phase.pre")
    if start != "ready":
        if rng.chance(1, 2):
            # exactly one field differs from the snapshot
            f = rng.choice(FIELDS)
            ops.append("O %s %d" % (f, 0 if f == "keepalive" else rng.range(4, 20)))
            ctx.count("c11.single_field_diff." + f)
        else:
            sets(rng.below(4))
        ops.append("A")
        ops.append(rng.choice(["F o", "S 6162 o A", "R 10 o EEAGAIN"]))      # establishment discovered by any call
        ctx.count("c11.phase.during")
    ops.append("A")
    sets(rng.below(4))
    ops.append("A")
    return ops


def run(ctx):
    quick = ctx.tier == "quick"
    ctx.rule = ("unit_btcp: the real attribute setters of tcp.keepalive/keepalive_time/_interval/_count/user_timeout and "
                "try_finish_connect of xcm_tp_btcp.c with tcp_attr.c below them (setsockopt wrapped at link time: the options "
                "last applied to the connection's kernel socket are recorded); sets placed before tconnect's snapshot, while "
                "connecting and after establishment, with single-field differences forced so each conjunct of "
                "tcp_opts_equal decides alone, boundary/illegal values (0, negative, INT_MAX scale overflow); stored options "
                "and kernel-applied options after every step compared with the Lean TcpOpts model; monitor: once established, "
                "applied == stored.  sys_attr: on live sockets every writable attribute is set and read back, creation-only "
                "attributes are refused with EACCES after creation, xcm.local_addr/xcm.service/xcm.blocking/inheritance cases")
    exe = btcp.build()
    allops = []
    for k in range(400 if quick else 20000):
        allops += gen_unit(ctx.rng.fork("c11u%d" % k), ctx)
        if len(allops) > 3000 or k == (400 if quick else 20000) - 1:
            m, il = ctx.differential("unit_btcp", "btcp", exe, allops, label="tcpopts")
            monitor(ctx, allops, il)
            for o, l in zip(allops, m):
                if o[0] in "OA":
                    ctx.nontriv((o.split()[1] if o[0] == "O" else "A", l))
            if not ctx.samples:
                ctx.sample({"harness": "unit_btcp", "ops": allops[:12], "model_out": m[:12]})
            allops = []
        if ctx.over_budget():
            break
    # tconnect.c's side of the hand-over: it applies, and hands back, the options as they were when tconnect_connect() was called,
    # whatever the caller does to its own structure afterwards (the TcpOpts model's `snapshot`)
    from gen import tconnect as _tc
    texe = _tc.build()
    tops = []
    for k in range(40 if quick else 1500):
        tops += _tc.gen_history(ctx.rng.fork("c11tc%d" % k), ctx)
    tops = _tc.truncate_after_terminal(tops, common.run_model("tconnect", "\n".join(tops) + "\n"))
    tm, til = ctx.differential("unit_tconnect", "tconnect", texe, tops, label="tconnect snapshot")
    for o2, l2 in zip(tops, til):
        if "not-the-snapshot" in l2:
            ctx.violation("unit_tconnect:monitor:options-not-snapshot", "tconnect.c applied or handed back options other than those given to "
                          "tconnect_connect() (the caller changed its own structure afterwards): %s -> %s" % (o2, l2),
                          {"harness": "unit_tconnect", "ops": tops[:tops.index(o2) + 1][-6:], "impl_out": l2})
            break
    ctx.rule += (" unit_tconnect: the real tconnect.c; the caller's option structure is changed right after tconnect_connect() returned; "
                 "every tcp_opts_effectuate call and the options handed back with the connected descriptor must be the snapshot.")
    sys_part(ctx)
    ctx.assumptions += ["setsockopt succeeds and the kernel then holds the value (K-setsockopt)"]


def monitor(ctx, ops, out):
    """once the connection has its kernel socket, the applied options must equal the stored ones"""
    start = 0
    for i, (o, l) in enumerate(zip(ops, out)):
        if o.startswith("N "):
            start = i
        if o[0] in "OA" and " a=" in l:
            d = l.split("d=")[1].split()[0]
            a = l.split("a=")[1].split()[0]
            if a != "-" and a != d:
                ctx.violation("unit_btcp:monitor:tcp-opts-not-in-force",
                              "the TCP options applied to the connection's socket (%s) differ from the values XCM stores and reports (%s)" % (a, d),
                              {"harness": "unit_btcp", "ops": ops[start:i + 1], "impl_out": out[start:i + 1]})


def replay(path):
    import json as _json
    h = _json.load(open(path)).get("harness")
    if h == "unit_tconnect":
        from gen.props.C13 import replay as r13
        return r13(path)
    from gen.props.C02 import replay as r
    return r(path)


# ---------------------------------------------------------------------------------------------
# system part: live sockets
# ---------------------------------------------------------------------------------------------
CREATION_ONLY = ["dns.timeout", "dns.algorithm", "tcp.connect_timeout", "ipv6.scope", "xcm.local_addr",
                 "tls.client", "tls.auth", "tls.check_crl", "tls.check_time", "tls.verify_peer_name", "tls.peer_names",
                 "tls.cert_file", "tls.key_file", "tls.tc_file", "tls.crl_file", "tls.cert", "tls.key", "tls.tc", "tls.crl"]
VAL = {"bool": "00", "int64": "0500000000000000", "double": "000000000000f03f", "str": "61627900", "bin": "0102"}
MSG = {"ux", "uxf", "tcp", "tls", "utls"}
SHORT = {"keepalive": "keepalive", "time": "time", "interval": "interval", "count": "count", "user_timeout": "user_timeout"}


def rand_list(rng, n):
    if n == 0:
        return "-", []
    items = []
    for _ in range(n):
        f = rng.choice(FIELDS)
        v = rng.below(2) if f == "keepalive" else rng.range(1, 40)
        items.append((f, v))
    return ",".join("%s=%d" % it for it in items), items


def sys_part(ctx):
    quick = ctx.tier == "quick"
    exe = sysattr.build()
    rows, by = sysattr.table()
    cmds, exp = [], []
    # (1) TCP options in every phase, both ends; expectation from the Lean TcpOpts model via the btcp driver
    model_ops, model_at = [], []
    for k in range(24 if quick else 400):
        rng = ctx.rng.fork("k%d" % k)
        proto = rng.choice(["tcp", "btcp", "tls", "btls"])
        pre, ipre = rand_list(rng, rng.below(3))
        dur, idur = rand_list(rng, rng.below(3))
        post, ipost = rand_list(rng, rng.below(3))
        acc, iacc = rand_list(rng, rng.below(3))
        cmds.append("K %s %s %s %s %s" % (proto, pre, dur, post, acc))
        model_ops.append("N resolving")
        model_ops += ["O %s %d" % it for it in ipre] + ["F o,o,a"] + ["O %s %d" % it for it in idur] + ["F o"]
        model_ops += ["O %s %d" % it for it in ipost] + ["A"]
        ia = len(model_ops) - 1
        model_ops.append("N ready")          # accepted side: options of the accept map are applied at accept
        model_ops += ["O %s %d" % it for it in iacc] + ["A"]
        exp.append(("K", ia, len(model_ops) - 1))
        ctx.count("c11.sys.K." + proto)
    # (2) xcm.local_addr
    for k in range(6 if quick else 60):
        rng = ctx.rng.fork("la%d" % k)
        proto = rng.choice(["tcp", "btcp", "tls"])
        host = "127.0.0.%d" % rng.range(2, 200)
        port = 0
        if rng.chance(1, 3):
            # an explicit source port: one the kernel reports free right now (a seed-derived constant would
            # collide with TIME_WAIT leftovers of an earlier run)
            import socket
            with socket.socket() as sk:
                sk.bind((host, 0))
                port = sk.getsockname()[1]
        cmds.append("LA %s %s:%s:%d" % (proto, proto, host, port))
        exp.append(("LA", proto, host, port))
    # (3) xcm.service
    n = 0
    for proto in sysattr.PROTOS:
        for svc in ("messaging", "bytestream", "any", "bogus"):
            n += 1
            addr = {"ux": "ux:verif-svc-%d-%d" % (ctx.vseed, n), "uxf": "uxf:%s/svc%d" % (sysattr.rundir(ctx), n)}.get(proto, proto + ":127.0.0.1:0")
            cmds.append("SV server %s %s" % (addr, svc))
            ok = svc == "any" or (svc == "messaging") == (proto in MSG) and svc in ("messaging", "bytestream")
            exp.append(("SV", proto, svc, ok))
    # (4) blocking switch, (6) read-back and creation-only attributes on established connections
    for proto in (["tcp", "tls", "ux"] if quick else sysattr.PROTOS):
        cmds.append("E " + proto)
        exp.append(("E",))
        for sock in ("client", "accepted", "server"):
            for api in ("api", "attr"):
                cmds.append("BL %s %s 0" % (sock, api))
                exp.append(("BL",))
        for sock in ("client", "accepted"):
            for name in CREATION_ONLY:
                row = by.get(name)
                if row is None:
                    continue
                val = VAL[row["type"]]
                if name == "xcm.local_addr":     # a well-formed address of the socket's own transport
                    la = {"ux": "ux:verif-x", "uxf": "uxf:/tmp/verif-x", "utls": "utls:127.0.0.1:0"}.get(proto, proto + ":127.0.0.1:0")
                    val = la.encode().hex() + "00"
                elif name == "dns.algorithm":
                    val = b"single".hex() + "00"
                cmds.append("T %s %s %s %s" % (sock, hexn(name), row["type"], val))
                exp.append(("CO", proto, sock, name))
            for name, typ, v in (("tcp.keepalive_time", "int64", "0700000000000000"), ("tcp.keepalive", "bool", "00"),
                                 ("tcp.keepalive_interval", "int64", "0200000000000000"), ("tcp.keepalive_count", "int64", "0900000000000000"),
                                 ("tcp.user_timeout", "int64", "0b00000000000000"), ("xcm.service", "str", "616e7900")):
                cmds.append("T %s %s %s %s" % (sock, hexn(name), typ, v))
                exp.append(("RB", proto, sock, name))
        cmds.append("X")
        exp.append(("X",))
    # (4b) switching to blocking mode finishes outstanding work - through the function and through the attribute alike
    for proto in (["tcp", "tls"] if quick else ["tcp", "tls", "btcp", "btls"]):
        for api in ("api", "attr"):
            cmds.append("BLK %s %s" % (proto, api))
            exp.append(("BLK", proto, api))
    # (5) inheritance of the TLS policy booleans, with and without override at accept
    for proto in ("tls", "btls"):
        for name in ("tls.auth", "tls.check_time"):
            for sv in (0, 1):
                for ov in (None, 0, 1):
                    cmds.append("IN %s %s=%d %s" % (proto, name, sv, "-" if ov is None else "%s=%d" % (name, ov)))
                    exp.append(("IN", name, sv, ov))
    rc, out, err = sysattr.run(exe, cmds, ctx, timeout=900)
    if rc != 0 or len(out) != len(cmds):
        ctx.violation("sys_attr:crash:" + common.crash_site(err), "sys_attr died at %r" % (cmds[len(out)] if len(out) < len(cmds) else "?"),
                      {"harness": "sys_attr", "ops": cmds[max(0, len(out) - 3):len(out) + 1], "stderr": err[-3000:]})
        return
    mo = common.run_model("btcp", "\n".join(model_ops) + "\n")
    ctx.traces += 1
    for c, e, o in zip(cmds, exp, out):
        ctx.evaluations += 1
        rep = {"harness": "sys_attr", "ops": [c] if e[0] in ("K", "LA", "SV", "IN", "BLK") else ["E " + e[1], c] if len(e) > 1 else [c], "impl_out": o}
        ctx.nontriv((e[0], c[:60], o[:80]))
        if e[0] == "K":
            if o.startswith("fail"):
                ctx.corr_break("sys_attr", "K failed: " + o, rep)
                continue
            f = o.split()
            cx, ck, ax, ak = f[1][4:], f[2][7:], f[4][4:], f[5][7:]
            md, ma = mo[e[1]].split("d=")[1].split()[0], mo[e[2]].split("d=")[1].split()[0]
            rep["model_out"] = [mo[e[1]], mo[e[2]]]
            if ck != cx or ak != ax:
                ctx.violation("sys_attr:monitor:tcp-opts-not-in-force",
                              "kernel socket options differ from what xcm_attr_get reports: client xcm=%s kernel=%s, accepted xcm=%s kernel=%s (%s)" % (cx, ck, ax, ak, c), rep)
            elif cx != md or ax != ma:
                ctx.violation("sys_attr:diff:K", "TCP options after %r: model client %s accepted %s, implementation %s / %s" % (c, md, ma, cx, ax), rep)
        elif e[0] == "LA":
            want = "%s:%s:" % (e[1], e[2])
            if not (o.startswith("local=" + want) and o.split()[0][6:] == o.split()[1][13:] and (e[3] == 0 or o.split()[0].endswith(":%d" % e[3]))):
                ctx.violation("sys_attr:monitor:local-addr-not-source", "xcm.local_addr=%s%d is not the source address of the connection: %s" % (want, e[3], o), rep)
        elif e[0] == "SV":
            if o.startswith("ok") != e[3] or (not e[3] and "EINVAL" not in o):
                ctx.violation("sys_attr:monitor:service-restriction", "xcm.service=%s on a %s socket: %s" % (e[2], e[1], o), rep)
            if o.startswith("ok") and o.split("=")[1] != ("messaging" if e[1] in MSG else "bytestream"):
                ctx.violation("sys_attr:monitor:service-readback", "xcm.service reads back %s on %s" % (o, e[1]), rep)
        elif e[0] == "BL":
            if o != "0 is_blocking=0 attr=0":
                ctx.violation("sys_attr:monitor:blocking-switch", "xcm.blocking and xcm_set_blocking/xcm_is_blocking disagree: %s -> %s" % (c, o), rep)
        elif e[0] == "BLK":
            f = dict(x.split("=") for x in o.split()[1:] if "=" in x)
            if o.startswith("fail"):
                ctx.corr_break("sys_attr", "BLK failed: " + o, rep)
            elif not (f.get("rc") == "0" and f.get("pending_after") == "0" and f.get("blocking") == "1"):
                ctx.violation("sys_attr:monitor:blocking-switch-leaves-work",
                              "switching a %s connection with buffered data to blocking mode through the %s did not finish the outstanding work: %s"
                              % (e[1], "attribute xcm.blocking" if e[2] == "attr" else "function xcm_set_blocking", o), rep)
            elif f.get("pending_before") == "0":
                ctx.count("c11.blk.nothing-pending")
        elif e[0] == "CO":
            f = o.split()
            if not (f[0] == "-1" and f[1] == "EACCES" and f[2] == "0") and not (f[1] == "ENOENT"):
                ctx.violation("sys_attr:monitor:creation-only-not-refused",
                              "%s is writable only at creation but xcm_attr_set on an established %s %s gave rc=%s %s changed=%s" % (e[3], e[1], e[2], f[0], f[1], f[2]), rep)
        elif e[0] == "RB":
            f = o.split()
            if f[1] == "ENOENT":
                continue
            if not (f[0] == "0" and (f[3] == "1" or e[3] == "xcm.service")):
                ctx.violation("sys_attr:monitor:readback", "accepted value of %s is not what xcm_attr_get reports afterwards (%s %s): %s" % (e[3], e[1], e[2], o), rep)
        elif e[0] == "IN":
            name, sv, ov = e[1], e[2], e[3]
            want = sv if ov is None else ov
            got = [w for w in o.split() if w.startswith(name + ":")]
            if not got or got[0] != "%s:%d/%d" % (name, sv, want):
                ctx.violation("sys_attr:monitor:inheritance", "%s server=%d accept-override=%s: expected the accepted connection to report %d: %s" % (name, sv, ov, want, o), rep)
    ctx.sample({"harness": "sys_attr", "cmds": cmds[:3], "impl_out": out[:3]}, cap=8)
