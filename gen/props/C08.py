"""C08 - no resource leaks, stray closes or aborts on any lifecycle path."""
import json
from gen import common, life, sysattr

LEAN_MODULE = ["XcmModel.Props.C08", "XcmModel.Props.Utls"]
THEOREMS = [
    "XcmModel.C08.finishLoop_neutral", "XcmModel.C08.C08_create_balanced", "XcmModel.C08.C08_accept_balanced",
    "XcmModel.C08.C08_close_balanced", "XcmModel.C08.sysStep_inv", "XcmModel.C08.C08_histories_balanced",
    "XcmModel.UtlsProps.C08_utls_init_balanced", "XcmModel.UtlsProps.C08_utls_connect_balanced", "XcmModel.UtlsProps.C08_utls_connect_badaddr_balanced",
    "XcmModel.UtlsProps.C08_utls_server_balanced", "XcmModel.UtlsProps.C08_utls_accept_balanced", "XcmModel.UtlsProps.C08_utls_close_balanced",
    "XcmModel.C08.C08_cleanup_sites_guarded", "XcmModel.C08.C08_cleanup_delegations_pass_owner", "XcmModel.C08.C08_cleanup_entries_pass_false",
]
PROTOS = ["ux", "uxf", "tcp", "tls", "utls", "btcp", "btls"]


def run(ctx):
    quick = ctx.tier == "quick"
    ctx.rule = ("unit_life: the real xcm.c creation/teardown ladders (xcm_connect_a, xcm_server_a, xcm_accept_a with its blocking restart, "
                "xcm_close, xcm_cleanup) over a scripted xpoll and transport that keep a ledger: every failure point x blocking x failing "
                "attribute (exhaustive) and random histories; events and ledger compared with the Lean Life model.  sys_life: the real library; server + connect + accept + message exchange + close (three close orders) on all seven "
                "transports; every call the library (or OpenSSL / c-ares below it) makes to socket, accept4, epoll_create1, eventfd, "
                "timerfd_create, connect, bind, listen and fopen(*.pem) is failed in turn (EXHAUSTIVE over the call index of the "
                "scenario; EMFILE, and in the thorough tier every other plausible errno of that call; then two calls fail in one run - every "
                "pair of call indices in the thorough tier, a seeded sample of pairs otherwise), each case in a forked child; "
                "oracle: no abort/crash, every failed API call has errno set, after closing all sockets the descriptor table equals the "
                "baseline, every descriptor the library created was closed and none it did not create (ledger in the wrappers), UXF "
                "socket file and control files gone, LeakSanitizer finds no unreachable heap.  FORK: established pair + server + a "
                "connect still in progress with its timeout armed; a forked child calls xcm_cleanup on everything; the owner's "
                "connection, server socket, socket files and connect timeout must be intact.  RESOLVING: non-blocking connects whose DNS queries "
                "(for the remote name and for a DNS name in xcm.local_addr) are kept pending by a silent name server are closed, and cleaned "
                "up in a forked child, in mid-resolution: no descriptor and no heap block may be left.  CTL: 0-3 control clients attached when the "
                "socket is closed.")
    uexe = life.build_unit()
    uops = life.unit_exhaustive()
    for k in range(100 if quick else 4000):
        uops += life.unit_history(ctx.rng.fork("ul%d" % k), 40, ctx)
    m, il = ctx.differential("unit_life", "life", uexe, uops, label="life")
    for o2, l2 in zip(uops, m):
        ctx.nontriv(("life", o2.split()[0], l2.split("|")[1][:60] if "|" in l2 else l2))
    ctx.sample({"harness": "unit_life", "ops": uops[:8], "model_out": m[:8]})
    # the one transport with ladders of its own over other transports: utls and its two sub-sockets
    from gen import utls as _utls
    _utls.run_part(ctx, 60 if quick else 3000)
    ctx.rule += ("  unit_utls: the real xcm_tp_utls.c over two logging mock sub-transports ('ux', 'tls') reached through the real xcm_tp.c: "
                 "every answer combination of init / connect (fallback on ECONNREFUSED) / server (fixed and kernel-allocated port) / accept / "
                 "close / cleanup, then random histories; the trace of sub-socket calls and the two sub-socket pointers compared with the Lean "
                 "Utls model; a ledger in the harness checks the sub-transport contract (close before destroy of anything that holds "
                 "resources, destroy only after a failed connect/server/accept, no use of a dead sub-socket).")
    exe = life.build()
    res = life.sweep(ctx, exe, PROTOS, [ctx.seed % 3] if quick else [0, 1, 2], not quick)
    ctx.traces += 1
    for cmd, line in res:
        life.judge(ctx, cmd, line)
    ctx.exhaustive = True
    extra = ["FORK " + p for p in PROTOS] + ["CTL %d" % n for n in range(4)] + ["RESOLVING " + p for p in ("tcp", "tls", "btcp", "btls")]
    rc, out, err = sysattr.run(exe, extra, ctx, timeout=900)
    for cmd, line in zip(extra, out):
        if cmd.startswith("RESOLVING"):
            life.judge_resolving(ctx, cmd, line)
            continue
        (life.judge_fork if cmd.startswith("FORK") else life.judge_ctl)(ctx, cmd, line)
    if len(out) != len(extra):
        ctx.violation("sys_life:crash:" + common.crash_site(err), "sys_life died at %r" % extra[len(out)], {"harness": "sys_life", "ops": [extra[len(out)]], "stderr": err[-2000:]})
    ctx.sample({"harness": "sys_life", "cmds": [c for c, _ in res[:3]], "impl_out": [l for _, l in res[:3]]}, cap=8)
    ctx.assumptions += ["one failing call per case (pairs are not enumerated); failures of malloc are outside (the library aborts on memory exhaustion by design: ut_mem_exhausted)",
                        "heap: LeakSanitizer's unreachable-block check at the end of each case"]


def replay(path):
    r = json.load(open(path))
    if r.get("harness") == "unit_life":
        text = "\n".join(r["ops"]) + "\n"
        common.lake_build(["driver"])
        m = common.run_model("life", text)
        rc, out, err = common.run_proc([life.build_unit()], text)
        print("model:", *m, sep="\n  ")
        print("impl (rc=%d):" % rc, *out.splitlines(), sep="\n  ")
        return 0 if m == out.splitlines() and rc == 0 else 1
    class C:
        rundir = common.RUN + "/replay"
    rc, out, err = sysattr.run(life.build(), r["ops"], C, timeout=300)
    print("impl (rc=%d):" % rc, *out, sep="\n  ")
    print(err[-1500:])
    return 0
