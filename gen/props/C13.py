"""C13 - name resolution and multi-address connect follow the selected algorithm."""
import json, socket
from gen import common, tconnect, sysattr, dnsresp

LEAN_MODULE = ["XcmModel.Props.C13", "XcmModel.Props.Timer", "XcmModel.Props.Dns"]
THEOREMS = [
    "XcmModel.Tconnect.connectNext_good", "XcmModel.Tconnect.trackGetFd_good", "XcmModel.C13.reachable_good",
    "XcmModel.C13.C13_sequential_first_accepting", "XcmModel.C13.C13_errno_of_last_failure",
    "XcmModel.C13.C13_timeout_is_etimedout", "XcmModel.C13.C13_single_first_only",
    "XcmModel.C13.C13_waiting_is_watched", "XcmModel.C13.C13_resolve_sync_terminates",
    "XcmModel.C13tc.C13_tc_fails_only_when_all_tracks_failed", "XcmModel.C13tc.C13_happy_one_track_per_family",
    "XcmModel.TimerProps.timer_inv_run", "XcmModel.TimerProps.C04_expired_timer_wakes", "XcmModel.TimerProps.C13_has_expired_implies_readable", "XcmModel.TimerProps.ids_never_reused", "XcmModel.TimerProps.cancel_exact", "XcmModel.TimerProps.other_calls_keep_timer", "XcmModel.TimerProps.ack_live_no_abort", "XcmModel.TimerProps.reschedule_replaces",
    "XcmModel.DnsProps.dns_inv_run", "XcmModel.DnsProps.process_inv", "XcmModel.DnsProps.result_safe", "XcmModel.DnsProps.C13_dns_completed_sticky", "XcmModel.DnsProps.C13_dns_timeout_enoent", "XcmModel.DnsProps.C13_dns_no_early_timeout", "XcmModel.DnsProps.C13_dns_deadline_value", "XcmModel.DnsProps.C13_dns_times_out_in_every_history", "XcmModel.DnsProps.process_keeps_deadline", "XcmModel.DnsProps.C04_dns_deadline_wakes",
]


def build_sys():
    return common.build_harness("sys_dns", ["sys_dns.c"], link_lib=True, libs=["ssl", "crypto", "cares"], whole=True)


def monitor_unit(ctx, ops, out):
    """on the implementation's trace alone: addresses are attempted in list order, each at most once, a
    descriptor is bound at most once, a connect in progress is always watched (registration + timer)"""
    start = 0
    seen = set()
    last = -1
    fams = []
    alg = ""
    for i, (o, l) in enumerate(zip(ops, out)):
        w = o.split()
        if w[0] == "N":
            start, seen, last, fams, alg = i, set(), {"4": -1, "6": -1}, w[2].split(","), w[1]
        f = l.split("|")
        if len(f) < 2:
            continue

        def viol(sig, what):
            ctx.violation("unit_tconnect:monitor:" + sig, what, {"harness": "unit_tconnect", "ops": ops[start:i + 1], "impl_out": out[start:i + 1]})
        for tok in f[1].split():
            if tok.startswith("C("):
                idx = int(tok[2:tok.index(")")])
                fam = fams[idx] if idx < len(fams) else "?"
                if idx in seen:
                    viol("address-tried-twice", "address #%d was attempted twice" % idx)
                if alg != "happy_eyeballs" and idx < max(last.values()):
                    viol("out-of-order", "address #%d attempted after #%d" % (idx, max(last.values())))
                if alg == "happy_eyeballs" and idx < last.get(fam, -1):
                    viol("out-of-order", "address #%d attempted after a later address of its family" % idx)
                if alg == "single" and idx != 0:
                    viol("single-tried-other", "dns.algorithm single attempted address #%d" % idx)
                seen.add(idx)
                last[fam] = idx
            if tok.endswith("=EINVAL") and tok.startswith("B("):
                viol("rebind", "a descriptor was bound a second time (bind fails with EINVAL): " + tok)
        if len(f) > 2 and l.startswith("-1 EAGAIN"):
            regs = int(f[2].split("regs=")[1].split()[0])
            timers = int(f[2].split("timers=")[1].split()[0])
            if timers == 0 or (regs == 0 and "T?" not in f[1].split()[0:1]):
                if timers == 0:
                    viol("waiting-unwatched", "the connect is in progress (EAGAIN) but no timer is armed and/or no descriptor is registered: " + f[2])


def run(ctx):
    quick = ctx.tier == "quick"
    ctx.rule = ("unit_tconnect: the real tconnect.c with socket/bind/connect/ut_established/tcp_opts_effectuate/timers/xpoll "
                "scripted (bind follows the kernel: a bound socket cannot be bound again; the local address is handed over from "
                "a stack frame that is dead afterwards, as begin_connect does - ASan stack-use-after-return armed); random "
                "address lists (1..32, v4/v6/mixed), all three algorithms, with/without local address, scripts of accept / "
                "in-progress / refuse(errno) / timer-expiry tokens per poll; return code, errno, descriptor family, trace of "
                "environment calls, live registrations and timers compared with the Lean Tconnect model; order/once/rebind/"
                "watched monitors on the trace.  sys_dns: the whole library against a scripted DNS responder on 127.0.0.1:53 "
                "and listeners on distinct loopback addresses that accept / refuse / ignore: outcome, remote and local address, "
                "errno and elapsed time checked against the property's oracle; xcm_server and connect on an unresolvable name.")
    exe = tconnect.build()
    ops = []
    nh = 700 if quick else 20000
    for k in range(nh):
        ops += tconnect.gen_history(ctx.rng.fork("tc%d" % k), ctx)
        if len(ops) > 4000 or k == nh - 1:
            m0 = common.run_model("tconnect", "\n".join(ops) + "\n")
            ops = tconnect.truncate_after_terminal(ops, m0)
            m, il = ctx.differential("unit_tconnect", "tconnect", exe, ops, label="tconnect")
            monitor_unit(ctx, ops, il)
            for o, l in zip(ops, m):
                ctx.nontriv((o.split()[1] if o[0] == "N" else "P", l[:120]))
            if not ctx.samples:
                ctx.sample({"harness": "unit_tconnect", "ops": ops[:8], "model_out": m[:8]})
            ops = []
        if ctx.over_budget():
            break
    sys_part(ctx, quick)
    ctx.assumptions += ["the kernel's per-attempt report (connect()/SO_ERROR/timer) reflects what the remote address does (K-connect)",
                        "c-ares hands the addresses over in the order of the DNS answer (checked for A-only answers by sys_dns)",
                        "time bounds are observed on live runs, not proved"]


def sys_part(ctx, quick):
    exe = build_sys()
    try:
        resp = dnsresp.Responder()
    except OSError as e:
        ctx.notes.append("sys_dns skipped: cannot bind 127.0.0.1:53 (%s)" % e)
        return
    try:
        with socket.socket() as sk:
            sk.bind(("127.0.2.250", 0))
            port = sk.getsockname()[1]
        rng = ctx.rng.fork("sysdns")
        cases = []
        cmds = ["SRV tcp:nonexistent-%d.verif.test:0" % ctx.vseed, "SRV tls:nonexistent-%d.verif.test:0" % ctx.vseed]
        exp = [("SRV",), ("SRV",)]
        n = 0
        for k in range(10 if quick else 120):
            n += 1
            cnt = rng.choice([1, 2, 3, 4]) if k else 3
            # distinct addresses per case so that TIME_WAIT/backlog leftovers cannot interfere
            addrs = ["127.0.%d.%d" % (10 + k % 200, i + 1) for i in range(cnt)]
            beh = [rng.choice(["accept", "refuse", "silent", "refuse"]) for _ in addrs]
            if k == 0:
                beh = ["refuse", "silent", "accept"]
            alg = rng.choice(["single", "sequential", "sequential", "happy_eyeballs"])
            proto = rng.choice(["tcp", "tcp", "btcp"])     # tls: same btcp/tconnect code below, but the handshake needs a TLS peer
            name = "c%d-%d.verif.test" % (ctx.vseed, n)
            v6 = alg == "happy_eyeballs" and rng.chance(1, 2)
            resp.table[name] = {"A": addrs, "AAAA": ["::1"] if v6 else []}
            local = local_arg = "-"
            if rng.chance(1, 3) or k in (1, 2):
                lip4 = "127.0.3.%d" % rng.range(1, 250)
                local = local_arg = "%s:%s:0" % (proto, lip4)
                if rng.chance(1, 2) or k in (1, 2):
                    # the local address given as a DNS name: resolved (asynchronously) alongside the remote name
                    lname = "l%d-%d.verif.test" % (ctx.vseed, n)
                    resp.table[lname] = {"A": [lip4], "AAAA": []}
                    local_arg = "%s:%s:0" % (proto, lname)
                    ctx.count("sysdns.named_local_addr")
            for a, b in zip(addrs, beh):
                if b != "refuse":
                    cmds.append("LISTEN %s %d %s" % (a, port, b))
                    exp.append(("L",))
            cmds.append("CON %s %s %s %d %s 0.25" % (proto, alg, name, port, local_arg if not v6 else "-"))
            exp.append(("CON", alg, addrs, beh, local if not v6 else "-", proto, v6))
            cmds.append("RESET")
            exp.append(("L",))
        cmds.append("CON tcp sequential nonexistent-%d.verif.test %d - 0.25" % (ctx.vseed, port))
        exp.append(("NX",))
        # an answer too large for a UDP reply (truncated -> the resolver retries over TCP): 40 addresses, the 40th accepts
        big = ["127.0.240.%d" % (i + 1) for i in range(40)]
        bname = "big%d.verif.test" % ctx.vseed
        resp.table[bname] = {"A": big, "AAAA": []}
        cmds.append("LISTEN %s %d accept" % (big[0], port))
        exp.append(("L",))
        cmds.append("CON tcp sequential %s %d - 0.25" % (bname, port))
        exp.append(("CON", "sequential", big[:1], ["accept"], "-", "tcp", False))
        cmds.append("SRV tcp:%s:0" % bname)
        exp.append(("SRVOK",))
        cmds.append("RESET")
        exp.append(("L",))
        rc, out, err = sysattr.run(exe, cmds, ctx, timeout=150)
        ctx.traces += 1
        if rc == -999:
            ctx.violation("sys_dns:hang:no-termination", "sys_dns did not finish: a call never returned, at %r" % (cmds[len(out)] if len(out) < len(cmds) else "?"),
                          {"harness": "sys_dns", "ops": cmds[max(0, len(out) - 3):len(out) + 1]})
            return
        if rc != 0 or len(out) != len(cmds):
            ctx.violation("sys_dns:crash:" + common.crash_site(err), "sys_dns died at %r" % (cmds[len(out)] if len(out) < len(cmds) else "?"),
                          {"harness": "sys_dns", "ops": cmds[max(0, len(out) - 6):len(out) + 1], "stderr": err[-3000:]})
            return
        for i, (c, e, o) in enumerate(zip(cmds, exp, out)):
            ctx.evaluations += 1
            if e[0] == "L":
                if not o.startswith("ok"):
                    ctx.notes.append("listener setup failed: %s -> %s" % (c, o))
                continue
            # replay context: the listeners of this case
            j = i
            while j > 0 and cmds[j - 1].startswith("LISTEN"):
                j -= 1
            rep = {"harness": "sys_dns", "ops": cmds[j:i + 1], "impl_out": o,
                   "dns": {k: v for k, v in resp.table.items() if k in c}}
            t = float(o.split("t=")[1].split()[0])
            ctx.nontriv((e[0], c.split()[1:3], o.split(" t=")[0][:60]))
            if e[0] == "SRV":
                if not o.startswith("server NULL ENOENT") or t > 3.0:
                    ctx.violation("sys_dns:monitor:server-unresolvable", "xcm_server on an unresolvable name: %s" % o, rep)
            elif e[0] == "SRVOK":
                if not o.startswith("server ok"):
                    ctx.violation("sys_dns:monitor:server-resolvable-failed", "xcm_server on a name whose (large) answer needs DNS over TCP: %s" % o, rep)
            elif e[0] == "NX":
                if "ENOENT" not in o or t > 3.0:
                    ctx.violation("sys_dns:monitor:connect-unresolvable", "connect to an unresolvable name: %s" % o, rep)
            else:
                _, alg, addrs, beh, local, proto, v6 = e
                ctx.count("sysdns.%s" % alg)
                errno_of = {"refuse": "ECONNREFUSED", "silent": "ETIMEDOUT"}
                acc = [a for a, b in zip(addrs, beh) if b == "accept"]
                if alg == "single":
                    want = addrs[0] if beh[0] == "accept" else None
                    werr = errno_of.get(beh[0])
                elif alg == "sequential":
                    want = acc[0] if acc else None
                    werr = errno_of[beh[-1]] if not acc else None
                else:
                    want = None
                    werr = None
                bound = 0.25 * len(addrs) + 0.2 + 1.0 + 1.0
                if t > bound:
                    ctx.violation("sys_dns:monitor:time-bound", "the outcome took %.2f s, bound %.2f s: %s" % (t, bound, c), rep)
                if o.startswith("connected"):
                    remote = o.split("remote=")[1].split()[0]
                    rip = remote.split(":", 1)[1].rsplit(":", 1)[0]
                    lip = o.split("local=")[1].split()[0]
                    if alg == "happy_eyeballs":
                        if rip not in acc and not (v6 and rip in ("[::1]", "::1")):
                            ctx.violation("sys_dns:monitor:connected-to-non-accepting", "happy_eyeballs connected to %s, accepting: %s" % (rip, acc), rep)
                    elif rip != want:
                        ctx.violation("sys_dns:monitor:wrong-address", "%s over %s with behaviours %s: connected to %s, expected %s" % (
                            alg, addrs, beh, rip, want or "a failure with " + str(werr)), rep)
                    if local != "-" and not lip.startswith(local.rsplit(":", 1)[0] + ":"):
                        ctx.violation("sys_dns:monitor:local-addr-not-source", "xcm.local_addr=%s but the connection's local address is %s" % (local, lip), rep)
                else:
                    # "failed <errno> by=..." or, when xcm_connect_a itself reported the failure, "connect_a NULL <errno> t=..."
                    got = o.split()[2] if o.startswith("connect_a NULL") else o.split()[1]
                    if alg == "happy_eyeballs":
                        if acc or v6:
                            # ::1 has no listener on this port -> refuses; an accepting v4 address must win
                            if acc:
                                ctx.violation("sys_dns:monitor:no-connect-although-accepting", "happy_eyeballs failed (%s) although %s accept" % (got, acc), rep)
                    elif want is not None:
                        ctx.violation("sys_dns:monitor:no-connect-although-accepting",
                                      "%s over %s with behaviours %s: failed with %s, expected a connection to %s" % (alg, addrs, beh, got, want), rep)
                    elif got != werr:
                        ctx.violation("sys_dns:monitor:wrong-errno", "%s over %s with behaviours %s: errno %s, expected %s (the last failed attempt)" % (
                            alg, addrs, beh, got, werr), rep)
        ctx.sample({"harness": "sys_dns", "cmds": cmds[2:6], "impl_out": out[2:6]}, cap=8)
        ctx.dist["dns_queries_answered"] = resp.queries
        ctx.dist["dns_tcp_queries_answered"] = resp.tcp_queries
    finally:
        resp.close()

    # the timer manager behind connect timeouts, the Happy Eyeballs delay and dns.timeout
    from gen import timer as _timer
    _timer.run_part(ctx, 40 if ctx.tier == "quick" else 1500, label="c13timer")
    ctx.rule += " unit_timer: the real timer_mgr.c (scripted clock, recorded timerfd_settime, K-timerfd probed on the real kernel) vs the Lean TimerMgr model on every short two-user history and on random histories with stale ids; monitor: the timerfd is always armed at the earliest live deadline, ids are never reused, a cancel removes exactly the timer named."
    # the asynchronous resolver front end on top of the timer manager
    from gen import dnsq as _dnsq
    _dnsq.run_part(ctx, 60 if ctx.tier == "quick" else 2500, label="c13dnsq")
    ctx.rule += " unit_dnsq: the real xcm_dns_cares.c over the real timer_mgr.c with c-ares scripted (callback kind, descriptor set, timeout per call), clock scripted, timerfd and xpoll calls recorded, vs the Lean DnsQuery model: state, channel registrations, timer ids, timerfd setting, timer list, result and tries after every call, for every (dns.timeout, synchronous answer, later answer, time relative to the deadline) combination and random histories; monitor: deadline honoured and not anticipated, completion sticky and rung, no registration left, failure ladders leave nothing."

def replay(path):
    r = json.load(open(path))
    if r.get("harness") == "sys_dns":
        exe = build_sys()
        resp = dnsresp.Responder(r.get("dns", {}))

        class C:
            rundir = common.RUN + "/replay"
        try:
            rc, out, err = sysattr.run(exe, r["ops"], C)
        finally:
            resp.close()
        print("impl (rc=%d):" % rc, *out, sep="\n  ")
        return 0
    exe = tconnect.build()
    text = "\n".join(r["ops"]) + "\n"
    common.lake_build(["driver"])
    m = common.run_model("tconnect", text)
    rc, out, err = common.run_proc([exe], text)
    print("model:", *m, sep="\n  ")
    print("impl (rc=%d):" % rc, *out.splitlines(), sep="\n  ")
    if err:
        print(err[-2000:])
    return 0 if m == out.splitlines() and rc == 0 else 1
