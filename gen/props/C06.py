"""C06 - terminal conditions are reported faithfully and stick."""
import json
from gen import common, btcp, framing
from gen.common import hexs

LEAN_MODULE = ["XcmModel.Props.C06", "XcmModel.Props.Utls"]
THEOREMS = [
    "XcmModel.UtlsProps.C06_utls_connect_errno", "XcmModel.UtlsProps.C13_utls_fallback_rule", "XcmModel.UtlsProps.C01_utls_pure_delegation",
    "XcmModel.C06.C06_closed_behaviour", "XcmModel.C06.C06_bad_same_errno", "XcmModel.C06.C06_discoverer_reports",
    "XcmModel.C06.C06_establish_failure", "XcmModel.C06.C06_btcp_sticky", "XcmModel.C06.C06_no_success_after_terminal",
    "XcmModel.C06.C06_framing_passes_up", "XcmModel.C06.C06_framing_send_errno",
    "XcmModel.C07.C07_eproto_sticky", "XcmModel.C01.C01_never_partial",
    "XcmModel.C06btls.C06_btls_closed_behaviour", "XcmModel.C06btls.C06_btls_bad_same_errno", "XcmModel.C06btls.C06_btls_send_discovers", "XcmModel.C06btls.C06_btls_receive_discovers", "XcmModel.C06btls.C06_btls_finish_discovers", "XcmModel.C06btls.C06_btls_sticky", "XcmModel.C06btls.C06_btls_classification",
]
ERRS = ["ECONNRESET", "ETIMEDOUT", "EHOSTUNREACH", "ENETUNREACH", "ECONNREFUSED", "EPIPE"]
FOLLOW = ["S 0102 - A", "R 10 - D0a0b", "F -", "R 10 - Z", "S 01 - EEAGAIN", "R 5 - EEAGAIN", "F o", "U 3 0"]


def btcp_enumeration(ctx):
    """every errno x every first observer x every start state, then every follow-up call twice"""
    ops = []
    for start in ("ready", "connecting", "resolving", "resolving-local", "resolving-local+remote"):
        for e in ERRS + ["ENOENT"]:
            observers = []
            if start == "ready":
                observers += ["S 0102 - E" + e, "R 10 - E" + e]
                if e == "EPIPE":
                    observers += ["R 10 - Z"]
            else:
                for call in ("S 0102 %s A", "R 10 %s D01", "F %s"):
                    observers.append(call % ("E" + e))
                    if start.startswith("resolving"):
                        # one answer per pending query (the local name's first), then tconnect_connect, then get_connected_fd
                        nq = 2 if start == "resolving-local+remote" else 1
                        for j in range(1, nq + 2):
                            observers.append(call % (",".join(["o"] * j + ["E" + e])))
                        observers.append(call % ("o,a") if nq == 2 else call % ("a"))
                    observers.append(call % ("a"))
            for ob in observers:
                for pre in ([], ["S 0a0b0c - P2", "R 4 - D01020304"] if start == "ready" else ["F a", "S 01 a A"]):
                    ops.append("N " + start)
                    ops += pre
                    ops.append(ob)
                    ops += FOLLOW + FOLLOW
                    ctx.count("c06.btcp.scenario")
    return ops


def framing_enumeration(ctx):
    """lower-layer errno at every flush index / read index; EOF at every byte offset"""
    ops = []
    msgs = [b"\x01\x02\x03", b"\x04\x05"]
    stream = b"".join(framing.frame(m) for m in msgs)
    follow = ["S 0909 A", "R 100 -", "F - ok", "R 100 A", "S 08 P1", "F A ok"]
    for e in ERRS:
        # send side: error after k bytes of a 7-byte frame have been accepted, discovered by S / F / R
        for k in range(0, 7):
            for disc in ("S", "F", "R"):
                ops.append("N")
                pre = ",".join(["P1"] * k) if k else ""
                if disc == "S":
                    ops.append("S 010203 %s" % (pre + ("," if pre else "") + "E" + e))
                else:
                    ops.append("S 010203 %s" % (pre if pre else "-"))
                    ops.append("F E%s ok" % e if disc == "F" else "R 100 E%s" % e)
                ops += follow + follow
                ctx.count("c06.framing.send_fault")
        # receive side: error / EOF when exactly k bytes of the stream have arrived
        for k in range(0, len(stream) + 1):
            for end in ("X " + e, "Z"):
                ops.append("N")
                if k:
                    ops.append("A %s" % hexs(stream[:k]))
                ops.append(end)
                ops += ["R 100 -"] * 4 + follow
                ctx.count("c06.framing.recv_fault")
    return ops


def run(ctx):
    exe_b = btcp.build()
    mon_b = btcp.Monitor(ctx)
    ctx.rule = ("fault enumeration (exhaustive over the listed space): unit_btcp - every errno {ECONNRESET, ETIMEDOUT, "
                "EHOSTUNREACH, ENETUNREACH, ECONNREFUSED, EPIPE, ENOENT} x every first observer (send/receive/finish; "
                "kernel error, EOF, resolver failure, tconnect_connect failure, connect failure) x start state {ready, "
                "connecting, resolving} x with/without preceding traffic, each followed twice by every kind of later call; "
                "unit_framing(tcp|tls) - the lower layer failing after k=0..6 accepted bytes of a frame discovered by "
                "send/finish/receive, the stream ending (EOF or errno) after k=0..len bytes of a two-frame stream; plus "
                "seeded random histories.  Every line compared with the Lean model, stickiness/errno monitors on the "
                "implementation's output.")
    ops = btcp_enumeration(ctx)
    m, il = ctx.differential("unit_btcp", "btcp", exe_b, ops, label="btcp fault enumeration")
    mon_b.run(ops, il)
    for o, l in zip(ops, m):
        ctx.nontriv((o, l))
    ctx.sample({"harness": "unit_btcp", "ops": ops[:12], "model_out": m[:12]})
    fops = framing_enumeration(ctx)
    for variant in ("tcp", "tls"):
        exe_f = framing.build(variant)
        mon_f = framing.Monitor(ctx, "unit_framing_" + variant)
        m, il = ctx.differential("unit_framing_" + variant, "framing", exe_f, fops, label="framing fault enumeration")
        mon_f.run(fops, il)
        for o, l in zip(fops, m):
            ctx.nontriv((variant, o, l))
    ctx.sample({"harness": "unit_framing_tcp", "ops": fops[:10], "model_out": m[:10]})
    ctx.exhaustive = True
    # seeded random histories on top (not part of the exhaustive claim)
    n = 60 if ctx.tier == "quick" else 3000
    allops = []
    for k in range(n):
        allops += btcp.gen_history(ctx.rng.fork("c06b%d" % k), 50, ctx)
        if ctx.over_budget():
            break
    m, il = ctx.differential("unit_btcp", "btcp", exe_b, allops, label="btcp random")
    mon_b.run(allops, il)
    ctx.assumptions += ["the connect-phase errno selection inside tconnect.c is C13's subject",
                        "peer death at every byte offset is represented at the framing layer by EOF/errno after k arrived bytes, and "
                        "on live tcp/btcp connections by a raw peer cut at every byte offset (sys_fault CUT)",
                        "sys_fault INJ: after the injected errno the descriptor answers as Linux does once the error was consumed "
                        "(recv 0, send EPIPE); which errno a local-socket transport reports is not fixed by the statement"]
    # the TLS connection machine (xcm_tp_btls.c) against the Lean Btls model, with its monitors
    from gen import btls as _btls
    _btls.run_part(ctx, 40 if ctx.tier == "quick" else 2000, exhaustive=True)
    ctx.rule += (" unit_btls: the real xcm_tp_btls.c with scripted OpenSSL answers vs the Lean Btls model: every OpenSSL event x first observer x state x verdict, conn_update for every reachable (state, ssl_condition, ssl_wants) x condition x SSL_has_pending, seeded random histories; stickiness/discoverer/rc-range/gating monitors.")
    # utls: the errno of a failed UX connect other than ECONNREFUSED is the result; afterwards a connection is its sub-connection
    from gen import utls as _utls
    _utls.run_part(ctx, 20 if ctx.tier == "quick" else 800, label="c06utls")
    ctx.rule += " unit_utls: connect fallback (TLS tried iff UX said ECONNREFUSED, any other errno reported as is) and pure delegation vs the Lean Utls model."
    # live connections of every transport
    from gen import fault as _fault
    _fault.run_part(ctx)
    ctx.rule += (" sys_fault (live sockets, all seven transports): INJ - one send()/recv() below XCM or below OpenSSL fails with "
                 "each errno at each call index of a mixed traffic scenario, the descriptor then answers like Linux after the error "
                 "was consumed; the XCM call that was running must report that errno and every later send/receive/finish the same "
                 "(closed: receive 0, send EPIPE; local-socket transports: nothing succeeds again). CUT - a raw TCP peer writes the "
                 "first n bytes of a five-frame wire stream (tcp) or byte stream (btcp), every n, then FIN or RST, before or after "
                 "XCM started reading: only complete messages are delivered, all of them before an orderly close is reported. KILL - "
                 "a forked XCM peer is SIGKILLed after 0..80 ms (handshake, mid-message, between messages) or closes after n messages.")


def replay(path):
    r = json.load(open(path))
    if r.get("harness") == "sys_fault":
        from gen import fault as _fault
        return _fault.replay(r)
    if r.get("harness") == "unit_btls":
        from gen import btls as _btls
        return _btls.replay(r)
    if "btcp" in r.get("harness", ""):
        from gen.props import C02
        return C02.replay(path)
    from gen.props import C01
    return C01.replay(path)
