"""C14 - the control interface is passive and safe."""
import json, os, re, shutil
from gen import common, sysattr, pki

LEAN_MODULE = "XcmModel.Props.C14"
THEOREMS = [
    "XcmModel.C14.foldl_addAttr_spec", "XcmModel.C14.C14_getall_bounded", "XcmModel.C14.C14_key_never_disclosed",
    "XcmModel.C14.C14_reply_equals_inprocess", "XcmModel.C14.C14_getall_equals_inprocess",
    "XcmModel.C14.C14_first_request_any", "XcmModel.C14.C14_malformed_dropped", "XcmModel.C14.C14_name_within_field",
    "XcmModel.C14.C14_sessions_bounded", "XcmModel.C14.C14_remove_keeps_sessions_apart",
]


def build():
    return common.build_harness("sys_ctl", ["sys_ctl.c"], link_lib=True, libs=["ssl", "crypto", "cares"], whole=True,
                                extra_flags=["-I" + os.path.join(common.REPO, "libxcmctl"), "-include", "sys/wait.h"],
                                extra_objs_from_repo=["libxcmctl/xcmc.c"])


def hx(s):
    return s.encode().hex() if s else "-"


def parse_list(txt):
    """'[name:type:len:hash,...]' -> list of (name, type, len, hash)"""
    out = []
    for it in txt.strip().strip("[]").split(","):
        if not it:
            continue
        name, t, l, h = it.rsplit(":", 3)
        out.append((name, int(t), int(l), h))
    return out


def run(ctx):
    quick = ctx.tier == "quick"
    exe = build()
    d = sysattr.rundir(ctx)
    ctl = os.path.join(d, "ctl")
    shutil.rmtree(ctl, ignore_errors=True)
    os.makedirs(ctl)
    sand = os.path.join(d, "san")
    os.makedirs(sand, exist_ok=True)
    if not os.path.exists(os.path.join(sand, "cert.pem")):
        crt, key = pki.make_leaf(sand, "many", os.path.join(d, "ca.pem"), os.path.join(d, "ca-key.pem"),
                                 sans=tuple("DNS:h%d.verif.example" % i for i in range(30)), cn="many")
        shutil.copy(crt, os.path.join(sand, "cert.pem"))
        shutil.copy(key, os.path.join(sand, "key.pem"))
        shutil.copy(os.path.join(d, "ca.pem"), os.path.join(sand, "tc.pem"))
    ecd = os.path.join(d, "ec")
    os.makedirs(ecd, exist_ok=True)
    if not os.path.exists(os.path.join(ecd, "cert.pem")):
        crt, key = pki.make_leaf(ecd, "ecleaf", os.path.join(d, "ca.pem"), os.path.join(d, "ca-key.pem"), cn="ec-leaf", ec=True)
        shutil.copy(crt, os.path.join(ecd, "cert.pem"))
        shutil.copy(key, os.path.join(ecd, "key.pem"))
        shutil.copy(os.path.join(d, "ca.pem"), os.path.join(ecd, "tc.pem"))
    env = dict(sysattr.env(ctx), XCM_CTL=ctl, VERIF_SANDIR=sand, VERIF_ECDIR=ecd)
    ctx.rule = ("sys_ctl: live sockets (server, client, accepted) of every transport with their control interfaces; a raw "
                "SEQPACKET client sends, each on a fresh session: get-all as FIRST request, get of existing / non-existent / "
                "tls.key / oversize attributes, a name field without NUL, unknown and reply type numbers, short and empty "
                "messages, a request followed by an immediate hang-up, 5 simultaneous sessions; the libxcmctl client (get and "
                "get-all as first request) from a forked process; a message flow client->accepted with get-all requests "
                "in flight; TLS connections with credentials by value (values > 512 bytes) and with a 30-SAN peer certificate "
                "(> 64 attributes); every reply is compared with the in-process xcm_attr_get / xcm_attr_get_all answer taken in "
                "the same run and with the Lean Ctl model (filtering, truncation, reply type); ASan+UBSan in the owner; control "
                "files must be gone after close. distinct = (transport, socket, request kind, outcome)")
    names = ["xcm.type", "xcm.local_addr", "xcm.blocking", "no.such", "tls.key", "tls.cert", "xcm.to_app_bytes", "tcp.rtt",
             "tls.peer.cert.san.dns[1]", "a" * 63, ""]
    scenarios = []
    for proto in sysattr.PROTOS:
        scenarios.append((proto, ""))
    scenarios = [x for x in scenarios if x[0] != "utls"]     # utls delegates its control interface to its sub-sockets (ux / tls)
    scenarios += [("tls", "byvalue"), ("btls", "byvalue"), ("tls", "manysan"), ("tls", "byvalue-ec")]
    for proto, extra in scenarios:
        cmds = ["E %s %s" % (proto, extra) if extra else "E " + proto]
        for s in ("server", "client", "accepted"):
            cmds.append("Q %s getall -" % s)                      # first request of a fresh session
        for s in ("client", "accepted", "server"):
            for nm in (names if not quick or s == "client" else names[:5]):
                cmds.append("Q %s get %s" % (s, hx(nm)))
        cmds += ["Q client unterminated " + hx("xcm.type"), "Q accepted unterminated " + hx("b" * 64),
                 "Q client get2 " + hx("xcm.type"), "Q client badtype -", "Q accepted cfmtype -", "Q server short -",
                 "Q client empty -", "Q accepted hangup -", "M client 5", "M server 3", "MIX client", "MIX accepted", "MIX2 client", "MIX2 accepted", "MIX2 server",
                 "L client " + hx("xcm.transport"), "L accepted ALL", "L server ALL", "L client " + hx("tls.key"),
                 "D %d" % (30 if quick else 300), "Q client getall -", "X"]
        rc, out, err = common.run_proc([exe], "\n".join(cmds) + "\n", env=env, timeout=300)
        lines = out.splitlines()
        ctx.traces += 1
        if rc != 0 or len(lines) != len(cmds):
            at = cmds[len(lines)] if len(lines) < len(cmds) else "?"
            ctx.violation("sys_ctl:crash:" + common.crash_site(err),
                          "the socket owner crashed/aborted while serving the control interface (%s %s): request %r" % (proto, extra, at),
                          {"harness": "sys_ctl", "ops": [cmds[0], at], "stderr": err[-3000:]})
            continue
        if not lines[0].startswith("ok"):
            ctx.corr_break("sys_ctl", "cannot establish %s %s: %s" % (proto, extra, lines[0]), {"ops": cmds[:1]})
            continue
        if lines[0] != "ok ctl=1,1,1":
            ctx.violation("sys_ctl:monitor:no-control-file", "a socket has no control file: " + lines[0], {"harness": "sys_ctl", "ops": cmds[:1]})
        model_in, model_at = [], []
        for c, l in zip(cmds[1:], lines[1:]):
            ctx.evaluations += 1
            w = c.split()
            rep = {"harness": "sys_ctl", "ops": [cmds[0], c], "impl_out": l[:2000]}
            kind = w[2] if w[0] == "Q" else w[0]
            ctx.nontriv((proto, extra, w[1] if len(w) > 1 else "", kind, re.sub(r"h=\d+|\[.*", "", l)[:80]))
            ctx.count("req." + kind)
            if "!KEY-DISCLOSED" in l:
                ctx.violation("sys_ctl:monitor:tls-key-disclosed", "a control reply carries the value of tls.key (%s)" % c, rep)
            if "!malformed" in l or "!value_len" in l:
                ctx.violation("sys_ctl:monitor:malformed-reply", "a control reply is outside the wire format's bounds (%s): %s" % (c, l[:200]), rep)
            if w[0] == "Q" and kind in ("getall", "get2"):
                if " | inproc " not in l or "noreply" in l or "closed" in l:
                    ctx.violation("sys_ctl:monitor:getall-unanswered", "get-all got no reply (%s %s): %s" % (proto, c, l[:120]), rep)
                    continue
                a, b = l.split(" | inproc ")
                rtype = int(a.split("type=")[1].split()[0])
                got = parse_list(a[a.index("["):])
                inproc = parse_list(b[b.index("["):])
                model_in.append("GA %d %s" % (ctx.rng.below(5), ",".join("%s:%d:%d" % x[:3] for x in inproc) or "-"))
                model_at.append(("GA", c, rtype, got, inproc, rep))
            elif w[0] == "Q" and kind in ("get", "unterminated"):
                if " | inproc " not in l:
                    ctx.violation("sys_ctl:monitor:get-unanswered", "a well-formed get got no reply (%s %s): %s" % (proto, c, l[:120]), rep)
                    continue
                a, b = l.split(" | inproc ")
                name = bytes.fromhex(w[3]) if w[3] != "-" else b""
                if kind == "unterminated":
                    name = (name + b"a" * 64)[:63]
                else:
                    name = name[:63]
                ip = b.split()
                inp = "ok:%s:%s" % (ip[1][2:], ip[2][4:]) if ip[0] == "cfm" else "err:" + ip[1]
                model_in.append("G %s %s" % (name.hex() or "-", inp))
                model_at.append(("G", c, a, b, rep))
            elif w[0] == "Q" and kind in ("badtype", "cfmtype", "short", "empty"):
                if not (l.endswith("closed") or l.endswith("noreply")):
                    ctx.violation("sys_ctl:monitor:malformed-request-answered", "a malformed request (%s) was answered: %s" % (kind, l[:100]), rep)
            elif w[0] == "M":
                conn, ans, after = [int(x.split("=")[1]) for x in l.split()[1:]]
                if ans > 2 or after != 1:
                    ctx.violation("sys_ctl:monitor:sessions", "session handling: %s" % l, rep)
            elif w[0] == "MIX":
                f = dict(x.split("=") for x in l.split()[1:])
                if f["unsolicited"] != "0" or f["answered"] != "1" or f["matches"] != "1":
                    ctx.violation("sys_ctl:monitor:session-mixup",
                                  "two simultaneous control sessions: after the flooding session hung up, the idle session got an "
                                  "unsolicited or foreign reply (%s)" % l, rep)
            elif w[0] == "MIX2":
                if l.startswith("mix2 a_answered"):
                    f = dict(x.split("=") for x in l.split()[1:])
                    ctx.count("ctl.mix2.window%s" % f["window"])
                    if f["answered"] != "1" or f["matches"] != "1":
                        ctx.violation("sys_ctl:monitor:pending-reply-mixup",
                                      "two simultaneous control sessions: the first one hung up while the second one's reply was waiting to be "
                                      "sent; the second session then received no answer or one that is not the answer to its request (%s)" % l, rep)
            elif w[0] == "L":
                if " | inproc " not in l:
                    continue
                a, b = l.split(" | inproc ")
                if w[2] == "ALL":
                    if not a.startswith("xcmc getall n="):
                        ctx.violation("sys_ctl:monitor:xcmc-getall-failed", "xcmc_attr_get_all as first request of a session failed: " + a[:80], rep)
                    else:
                        got = parse_list(a[a.index("["):])
                        inproc = parse_list(b[b.index("["):])
                        model_in.append("GA 0 %s" % (",".join("%s:%d:%d" % x[:3] for x in inproc) or "-"))
                        model_at.append(("GA", c, 4, got, inproc, rep))
                else:
                    name = bytes.fromhex(w[2])
                    aa = a.replace("xcmc get ", "")
                    if name == b"tls.key":
                        if not aa.startswith("rej EACCES"):
                            ctx.violation("sys_ctl:monitor:tls-key-disclosed", "xcmc get tls.key: " + aa, rep)
                    elif aa.split("h=")[0] != b.split("h=")[0] or (("*" not in aa) and aa != b and not name.startswith(b"tcp.")):
                        ctx.violation("sys_ctl:diff:xcmc-get", "xcmc get %r: %s, in-process: %s" % (name, aa, b), rep)
            elif w[0] == "D":
                f = dict(x.split("=") for x in l.split()[1:])
                if not (f["sent"] == f["got"] and f["bad"] == "0"):
                    ctx.violation("sys_ctl:monitor:data-path-disturbed", "message flow with control requests in flight: " + l, rep)
            elif w[0] == "X":
                if l != "closed ctl_files_left=0":
                    ctx.violation("sys_ctl:monitor:control-files-left", "after closing every socket: " + l, rep)
        if model_in:
            mo = common.run_model("ctl", "\n".join(model_in) + "\n")
            for mi, ml, at in zip(model_in, mo, model_at):
                if at[0] == "GA":
                    _, c, rtype, got, inproc, rep = at
                    mtype = int(ml.split("type=")[1].split()[0])
                    mlist = ml.split(" ", 2)[2] if ml.count(" ") >= 2 else "-"
                    want = [] if mlist == "-" else [tuple(x.rsplit(":", 2)) for x in mlist.split(",")]
                    have = [(n, str(t), str(l)) for n, t, l, h in got]
                    rep = dict(rep, model_in=mi, model_out=ml)
                    if rtype != mtype:
                        ctx.violation("sys_ctl:diff:getall-type", "get-all reply has type %d, the model (and ctl_proto.h) say %d (%s)" % (rtype, mtype, c), rep)
                    if have != want:
                        ctx.violation("sys_ctl:diff:getall-list", "get-all reply lists %d attributes, model %d (first difference: %s)" % (
                            len(have), len(want), next((x for x in zip(have, want) if x[0] != x[1]), "length")), rep)
                    # values: every reported attribute equals the in-process one
                    ip = {n: h for n, t, l, h in inproc}
                    for n, t, l, h in got:
                        if h != "*" and ip.get(n) not in (h, "*"):
                            ctx.violation("sys_ctl:diff:getall-value", "get-all reports another value for %s than xcm_attr_get_all in-process" % n, rep)
                else:
                    _, c, a, b, rep = at
                    rep = dict(rep, model_in=mi, model_out=ml)
                    aa = a.split(" ", 1)[1]
                    got = re.sub(r" h=\S+", "", aa)
                    if got != ml:
                        ctx.violation("sys_ctl:diff:get", "get reply %r, model %r (in-process: %s) for %s" % (got, ml, b, c), rep)
                    elif ml.startswith("cfm") and "h=" in aa and aa.split("h=")[1] != b.split("h=")[1] and "tcp." not in c and "bytes" not in bytes.fromhex(c.split()[3]).decode(errors="replace"):
                        ctx.violation("sys_ctl:diff:get-value", "get reply carries another value than xcm_attr_get in-process (%s)" % c, rep)
        if not ctx.samples:
            ctx.sample({"harness": "sys_ctl", "cmds": cmds[:4], "impl_out": [l[:200] for l in lines[:4]]})
        if ctx.over_budget():
            break
    ctx.assumptions += ["in-process xcm_attr_get/xcm_attr_get_all are the reference (their own safety is C10)",
                        "the client side libxcmctl is exercised, its memory safety against a hostile *server* is not part of C14"]


def replay(path):
    r = json.load(open(path))
    exe = build()

    class C:
        rundir = common.RUN + "/replay"
    d = sysattr.rundir(C)
    ctl = os.path.join(d, "ctl")
    os.makedirs(ctl, exist_ok=True)
    env = dict(sysattr.env(C), XCM_CTL=ctl, VERIF_SANDIR=os.path.join(d, "san"))
    rc, out, err = common.run_proc([exe], "\n".join(r["ops"] + ["X"]) + "\n", env=env)
    print("impl (rc=%d):" % rc, *out.splitlines(), sep="\n  ")
    if err:
        print(err[-2000:])
    return 0
