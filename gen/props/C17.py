"""C17 - traffic counters tell the truth."""
from gen import common, framing, ux
from gen.props.C01 import replay

LEAN_MODULE = "XcmModel.Props.C17"
THEOREMS = [
    "XcmModel.C17.C17_monotone", "XcmModel.C17.rcnt_run", "XcmModel.C17.C17_counters_exact",
    "XcmModel.C17.C17_order", "XcmModel.C17.C17_refused_counts_nothing", "XcmModel.C17.C17_idle_agreement",
    "XcmModel.C17.C17_ux_monotone", "XcmModel.C17.C17_ux_refused_counts_nothing", "XcmModel.C17.C17_ux_truncated_counts_delivered", "XcmModel.C17.C17_ux_counters_exact",
]


def run(ctx):
    quick = ctx.tier == "quick"
    ctx.rule = ("unit_framing(tcp|tls): the eight counters (read through the transport's get_cnt op) are part of every "
                "compared output line of random histories with partial writes/reads, truncating receives (capacities "
                "0,1,2,3,5..), refused and oversized sends, errors and closes; the monitor checks monotonicity, "
                "from_app>=to_lower, from_lower>=to_app, exact deltas on accept/deliver and no change on refusal, on the "
                "implementation's output alone")
    for variant in ("tcp", "tls"):
        exe = framing.build(variant)
        mon = framing.Monitor(ctx, "unit_framing_" + variant)
        for k in range(50 if quick else 1500):
            rng = ctx.rng.fork("c17%s%d" % (variant, k))
            ops = framing.gen_history(rng, 150, ctx, errs=(k % 4 != 0), small=(k % 3 != 0))
            m, il = ctx.differential("unit_framing_" + variant, "framing", exe, ops, label="hist%d" % k)
            mon.run(ops, il)
            for o, l in zip(ops, m):
                f = l.split("|")
                if len(f) > 2:
                    ctx.nontriv(f[2])           # distinct counter vectors reached
            if k == 0 and variant == "tcp":
                ctx.sample({"harness": "unit_framing_tcp", "ops": ops[:8], "model_out": m[:8]})
            if ctx.over_budget():
                break
    ctx.assumptions += ["byte counters of btcp are checked under C02; btls and the utls delegation are not inside this unit check yet"]
    ux.run_part(ctx, 40 if quick else 2000, "c17")
    ctx.rule += "; unit_ux: the eight counters of the real xcm_tp_ux.c after every scripted send/receive (truncating capacities included) vs the Lean Ux model + monitor"
