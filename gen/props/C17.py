"""C17 - traffic counters tell the truth."""
from gen import common, framing, ux
from gen.props.C01 import replay

LEAN_MODULE = ["XcmModel.Props.C17", "XcmModel.Props.Utls"]
THEOREMS = [
    "XcmModel.C17.C17_monotone", "XcmModel.C17.rcnt_run", "XcmModel.C17.C17_counters_exact",
    "XcmModel.C17.C17_order", "XcmModel.C17.C17_refused_counts_nothing", "XcmModel.C17.C17_idle_agreement",
    "XcmModel.C17btcp.C17_btcp_counters_exact", "XcmModel.C17btcp.C17_btcp_refused_counts_nothing",
    "XcmModel.C17btls.C17_btls_counters_exact", "XcmModel.C17btls.C17_btls_monotone", "XcmModel.C17btls.C17_btls_refused_counts_nothing",
    "XcmModel.UtlsProps.C01_utls_pure_delegation",
    "XcmModel.C17.C17_ux_monotone", "XcmModel.C17.C17_ux_refused_counts_nothing", "XcmModel.C17.C17_ux_truncated_counts_delivered", "XcmModel.C17.C17_ux_counters_exact",
]


def run(ctx):
    quick = ctx.tier == "quick"
    ctx.rule = ("unit_framing(tcp|tls): the eight counters (read through the transport's get_cnt op) are part of every "
                "compared output line of random histories with partial writes/reads, truncating receives (capacities "
                "0,1,2,3,5..), refused and oversized sends, errors and closes; the monitor checks monotonicity, "
                "from_app>=to_lower, from_lower>=to_app, exact deltas on accept/deliver and no change on refusal, on the "
                "implementation's output alone")
    for variant in ("tcp", "tls"):
        exe = framing.build(variant)
        mon = framing.Monitor(ctx, "unit_framing_" + variant)
        for k in range(50 if quick else 1500):
            rng = ctx.rng.fork("c17%s%d" % (variant, k))
            ops = framing.gen_history(rng, 150, ctx, errs=(k % 4 != 0), small=(k % 3 != 0))
            m, il = ctx.differential("unit_framing_" + variant, "framing", exe, ops, label="hist%d" % k)
            mon.run(ops, il)
            for o, l in zip(ops, m):
                f = l.split("|")
                if len(f) > 2:
                    ctx.nontriv(f[2])           # distinct counter vectors reached
            if k == 0 and variant == "tcp":
                ctx.sample({"harness": "unit_framing_tcp", "ops": ops[:8], "model_out": m[:8]})
            if ctx.over_budget():
                break
    # byte-stream transports: the four byte counters are part of every compared line of unit_btcp and unit_btls
    from gen import btcp as _btcp, btls as _btls
    bexe = _btcp.build()
    bmon = _btcp.Monitor(ctx)
    bops = []
    for k in range(60 if quick else 3000):
        bops += _btcp.gen_history(ctx.rng.fork("c17b%d" % k), 50, ctx)
        if ctx.over_budget():
            break
    bm, bil = ctx.differential("unit_btcp", "btcp", bexe, bops, label="btcp counters")
    bmon.run(bops, bil)
    for o, l in zip(bops, bm):
        f = l.split("|")
        if len(f) > 2:
            ctx.nontriv(("btcp", f[2]))
    _btls.run_part(ctx, 30 if quick else 1500, exhaustive=True, label="c17btls")
    ctx.rule += ("; unit_btcp / unit_btls: the four byte counters of the real xcm_tp_btcp.c (short writes, refusals, errors) and "
                 "xcm_tp_btls.c (retained output: counted in from_app when accepted, in to_lower when SSL_write takes it) after every "
                 "call vs the Lean models + monitors (monotone, order, exact deltas)")
    from gen import utls as _utls
    _utls.run_part(ctx, 20 if quick else 800, label="c17utls")
    ctx.rule += "; unit_utls: utls_get_cnt asks exactly the active sub-socket (C01_utls_pure_delegation)"
    ux.run_part(ctx, 40 if quick else 2000, "c17")
    ctx.rule += "; unit_ux: the eight counters of the real xcm_tp_ux.c after every scripted send/receive (truncating capacities included) vs the Lean Ux model + monitor"
