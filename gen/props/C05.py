"""C05 - non-blocking sockets never put the calling thread to sleep."""
import json
from gen import common, api, sysattr

LEAN_MODULE = "XcmModel.Props.C05"
THEOREMS = [
    "XcmModel.C05.C05_nonblocking_no_wait", "XcmModel.C05.C05_eagain_is_reported",
    "XcmModel.C05.C05_await_finish_refused_when_blocking", "XcmModel.C05.C05_wait_sites",
    "XcmModel.C05.C05_sock_sites_nonblocking", "XcmModel.C05.C05_helper_calls_guarded",
]
LEVEL = "proof"
WRAPS = ["poll", "ppoll", "select", "epoll_wait", "nanosleep", "usleep", "sleep", "connect", "accept4", "send", "recv",
         "sendmsg", "recvmsg"]


def build_nowait():
    return common.build_harness("sys_nowait", ["sys_nowait.c"], link_lib=True, libs=["ssl", "crypto", "cares"], whole=True,
                                extra_flags=["-include", "stdarg.h"],
                                ldflags=["-Wl," + ",".join("--wrap=" + w for w in WRAPS)])


def run(ctx):
    quick = ctx.tier == "quick"
    ctx.rule = ("unit_api: the real xcm.c wrappers over a scripted transport and a scripted poll(): histories on non-blocking "
                "(and blocking) sockets, every line (rc, errno, trace of transport calls and waits) compared with the Lean Api "
                "model; monitor: no W() in the trace of any call on a non-blocking socket.  sys_nowait: real sockets of all "
                "seven transports; phases idle/back-pressure/peer-closed/server-with-nothing-pending, TCP established against a "
                "peer that never speaks (TLS handshake stuck), SYN_SENT against a full accept queue, name resolution against a "
                "resolver that never answers; every API call (connect_a, accept, send, receive, finish, await, fd, attribute "
                "get/set, set_blocking(false), close) issued with link-time wrappers armed that report poll/ppoll/select/"
                "epoll_wait with timeout != 0, nanosleep/usleep/sleep, and connect/accept4/send/recv/sendmsg/recvmsg on a "
                "descriptor without O_NONBLOCK; plus the wall-clock duration of the slowest call. distinct = (transport, phase, offences)")
    # (1) wrappers
    exe = api.build()
    mon = api.Monitor(ctx)
    allops = []
    for k in range(150 if quick else 5000):
        allops += api.gen_history(ctx.rng.fork("api%d" % k), 25, ctx)
        if len(allops) > 3000:
            m, il = ctx.differential("unit_api", "api", exe, allops, label="api")
            mon.run(allops, il)
            for o, l in zip(allops, m):
                ctx.nontriv((o.split()[0], l[:100]))
            if not ctx.samples:
                ctx.sample({"harness": "unit_api", "ops": allops[:8], "model_out": m[:8]})
            allops = []
        if ctx.over_budget():
            break
    if allops:
        m, il = ctx.differential("unit_api", "api", exe, allops, label="api")
        mon.run(allops, il)
    # (2) live sockets
    nexe = build_nowait()
    cmds = []
    for proto in sysattr.PROTOS:
        cmds.append("EST " + proto)
        cmds.append("BPC " + proto)
    for proto in ("ux", "tcp", "tls"):
        cmds.append("CTLFLOOD " + proto)
    for proto in ("tcp", "tls", "btcp", "btls", "utls"):
        cmds.append("MUTE " + proto)
        cmds.append("SYN " + proto)
        cmds.append("DNS %s verif-silent-%d.test" % (proto, ctx.vseed))
    cmds.append("LNAME tcp localhost")
    if not quick:
        cmds.append("LNAME btcp verif-silent.test")
    import os, shutil, subprocess
    ctld = os.path.join(sysattr.rundir(ctx), "ctl")
    shutil.rmtree(ctld, ignore_errors=True)
    os.makedirs(ctld)
    e = dict(sysattr.env(ctx), XCM_CTL=ctld)
    rc, o_, err = common.run_proc([nexe], "\n".join(cmds) + "\n", env=e, timeout=600)
    out = o_.splitlines()
    ctx.traces += 1
    if rc != 0:
        ctx.violation("sys_nowait:crash:" + common.crash_site(err), "sys_nowait died", {"harness": "sys_nowait", "ops": cmds, "stderr": err[-3000:]})
        return
    # map output lines back to commands (EST prints four lines)
    i = 0
    for c in cmds:
        n = 4 if c.startswith("EST") else 1
        lines = out[i:i + n]
        i += n
        for l in lines:
            ctx.evaluations += 1
            if l.startswith("fail"):
                ctx.corr_break("sys_nowait", "%s: %s" % (c, l), {"ops": [c]})
                continue
            phase = l.split(" offences=")[0].split()[-1]
            offs = int(l.split("offences=")[1].split()[0])
            slow = float(l.split("slowest=")[1].split("@")[0])
            ctx.nontriv((c, phase, offs))
            ctx.count("phase." + phase)
            rep = {"harness": "sys_nowait", "ops": [c], "impl_out": lines}
            if offs:
                what = l.split("[", 1)[1][:300] if "[" in l else ""
                ctx.violation("sys_nowait:wait:%s:%s" % (phase, c.split()[1]),
                              "on a non-blocking %s socket in phase '%s' an API call waited: %s" % (c.split()[1], phase, what), rep)
            elif slow > 0.5:
                ctx.violation("sys_nowait:slow:%s:%s" % (phase, c.split()[1]),
                              "a call on a non-blocking socket took %.2f s (%s)" % (slow, l), rep)
    ctx.sample({"harness": "sys_nowait", "cmds": cmds[:3], "impl_out": out[:6]}, cap=8)
    ctx.assumptions += ["a thread can only be put to sleep by the wrapped primitives (futexes/OpenSSL internals are not wrapped)",
                        "c-ares and OpenSSL do not wait internally on non-blocking descriptors"]


def replay(path):
    r = json.load(open(path))
    if r.get("harness") == "unit_api":
        exe = api.build()
        text = "\n".join(r["ops"]) + "\n"
        common.lake_build(["driver"])
        m = common.run_model("api", text)
        rc, out, err = common.run_proc([exe], text)
        print("model:", *m, sep="\n  ")
        print("impl (rc=%d):" % rc, *out.splitlines(), sep="\n  ")
        return 0 if m == out.splitlines() and rc == 0 else 1
    nexe = build_nowait()

    class C:
        rundir = common.RUN + "/replay"
    rc, out, err = sysattr.run(nexe, r["ops"], C)
    print("impl (rc=%d):" % rc, *out, sep="\n  ")
    return 0
