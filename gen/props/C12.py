"""C12 - address strings: make and parse are exact inverses with honest bounds."""
import ctypes, json, os, socket
from gen import common
from gen.common import hexs

LEAN_MODULE = "XcmModel.Props.C12"
THEOREMS = [
    "XcmModel.C12.C12_make_total", "XcmModel.C12.C12_make_ux_total",
    "XcmModel.C12.C12_roundtrip", "XcmModel.C12.C12_roundtrip_ux",
    "XcmModel.C12.C12_parse_sound", "XcmModel.C12.C12_parse_ux_sound",
    "XcmModel.C12.C12_is_valid_agrees", "XcmModel.C12.C12_port_syntax",
    "XcmModel.C12.ip4_roundtrip",
]

PROTOS = ["tcp", "tls", "utls", "sctp", "btcp", "btls"]
_libc = ctypes.CDLL(None)


def pton6(text):
    if b"\0" in text:
        return None
    buf = ctypes.create_string_buffer(16)
    r = _libc.inet_pton(socket.AF_INET6, ctypes.c_char_p(text), buf)
    return buf.raw if r == 1 else None


def ntop6(a):
    return socket.inet_ntop(socket.AF_INET6, a).encode()


class Oracle:
    """Collects the inet_pton/inet_ntop(AF_INET6) answers the model needs as environment
    input; they come from the same libc the implementation calls and are re-checked
    against it inside the harness (the `p6`/`n6` lines print `oracle-mismatch` otherwise)."""

    def __init__(self):
        self.lines = []
        self.seen_t = set()
        self.seen_a = set()

    def text(self, t):
        if t in self.seen_t or t == b"*":
            return
        self.seen_t.add(t)
        a = pton6(t)
        self.lines.append("p6 %s %s" % (hexs(t), a.hex() if a else "none"))

    def addr(self, a):
        if a in self.seen_a:
            return
        self.seen_a.add(a)
        t = ntop6(a)
        self.lines.append("n6 %s %s" % (a.hex(), hexs(t)))
        self.text(t)

    def for_addr_string(self, s):
        """register the text that host_parse would hand to inet_pton(AF_INET6)"""
        i = s.find(b":")
        if i < 0:
            return
        paddr = s[i + 1:]
        j = paddr.rfind(b":")
        if j < 0:
            return
        host = paddr[:j]
        if len(host) >= 2 and host[:1] == b"[" and host[-1:] == b"]":
            self.text(host[1:-1])


IP6_POOL = [bytes(16), bytes(15) + b"\1", bytes.fromhex("fe80000000000000021122fffe334455"),
            bytes.fromhex("00000000000000000000ffff7f000001"), bytes.fromhex("20010db8000000000000000000000001"),
            b"\xff" * 16, bytes.fromhex("0001000200030004000500060007000a"),
            bytes.fromhex("20010db800000000000100000000abcd"), bytes.fromhex("00000000000000000000000001020304")]
IP4_POOL = [0, 1, 0x7f000001, 0xffffffff, 0x01020304, 0xc0a80001, 0x0a000001, 0xff00ff00, 0x64646464, 10, 256, 65536]
NAMES = [b"a", b"localhost", b"a.b", b"example.com.", b"xn--abc.de", b"a-b.c-d", b"A.B.C", b"1.2.3", b"1.2.3.4.5",
         b"256.1.1.1", b"01.2.3.4", b"a" * 63 + b".com", (b"a" * 60 + b".") * 4 + b"abcdefgh", b"a.b..c", b"0"]


def rand_host(rng, orc):
    k = rng.below(10)
    if k < 3:
        a = rng.choice(IP4_POOL) if rng.chance(2, 3) else rng.below(2 ** 32)
        return "4%d" % a
    if k < 6:
        a = rng.choice(IP6_POOL) if rng.chance(2, 3) else rng.bytes(16)
        orc.addr(a)
        return "6" + a.hex()
    n = rng.choice(NAMES)
    if rng.chance(1, 5):
        n = bytes(rng.choice(b"abcxyz019-.") for _ in range(rng.range(1, 30)))
    if len(n) > 253:
        n = n[:253]
    return "n" + hexs(n)


def host_text(h):
    if h[0] == "4":
        return socket.inet_ntoa(int(h[1:]).to_bytes(4, "big")).encode()
    if h[0] == "6":
        return b"[" + ntop6(bytes.fromhex(h[1:])) + b"]"
    return bytes.fromhex(h[1:]) if h[1:] != "-" else b""


PORT_TEXTS = [b"", b"0", b"1", b"80", b"65535", b"65536", b"99999", b"+80", b"-0", b"-1", b"0080", b"00000000080",
              b"4294967297", b"4294967296", b"18446744073709551617", b"9223372036854775807", b"9223372036854775808",
              b"99999999999999999999999999", b"0x10", b"8o", b"80a", b"a80", b"8 0", b" 80", b"80 ", b"1e3", b"\xd9\xa3"]

HOST_TEXTS = [b"", b"*", b"[*]", b"[]", b"[", b"]", b"[::1]", b"[::1", b"::1", b"[::]", b"[1::2::3]", b"[fe80::1%lo]",
              b"127.0.0.1", b"127.0.0.01", b"127.0.0.256", b"127.0.0", b"1.2.3.4.5", b"0.0.0.0", b"255.255.255.255",
              b"a", b"a.", b".a", b"a..b", b"a.b.", b"a.b..", b"a_b", b"a b", b"-", b"a" * 253, b"a" * 254,
              b"a" * 512, b"a" * 513, b"[" + b"1" * 600 + b"]", b"*.*", b"**", b"[::ffff:1.2.3.4]", b"1.2.3.4:5"]


def gen_parse_strings(rng, n, ctx, orc):
    out = []
    for _ in range(n):
        k = rng.below(12)
        proto = rng.choice(PROTOS + ["ux", "uxf"]).encode()
        if k < 4:
            host = rng.choice(HOST_TEXTS)
            port = rng.choice(PORT_TEXTS)
            s = proto + b":" + host + b":" + port
            ctx.count("parse.grammar_boundary")
        elif k < 6:
            h = rand_host(rng, orc)
            s = proto + b":" + host_text(h) + b":" + str(rng.choice([0, 1, 80, 65535, rng.below(65536)])).encode()
            ctx.count("parse.valid")
        elif k < 8:
            h = rand_host(rng, orc)
            s = bytearray(proto + b":" + host_text(h) + b":" + str(rng.below(70000)).encode())
            if s:
                i = rng.below(len(s))
                m = rng.below(4)
                if m == 0:
                    del s[i]
                elif m == 1:
                    s[i:i] = bytes([rng.choice(b":[]*. \t+-0a\xff")])
                elif m == 2:
                    s[i] = rng.range(1, 255)
                else:
                    s += bytes([rng.choice(b":[]*. 0")])
            s = bytes(s)
            ctx.count("parse.mutated")
        elif k < 9:
            s = bytes(rng.range(1, 255) for _ in range(rng.choice([0, 1, 5, 40, 577, 578, 579, 700])))
            ctx.count("parse.random_bytes")
        elif k < 10:
            # long protos / long everything around the limits
            pl = rng.choice([0, 1, 31, 32, 33, 34, 100])
            s = b"p" * pl + b":" + rng.choice(HOST_TEXTS) + b":" + rng.choice(PORT_TEXTS)
            ctx.count("parse.proto_len")
        else:
            name = rng.choice([b"", b"a", b"a" * 106, b"a" * 107, b"a" * 108, b"a" * 109, b"x y", b"dir/file", b"a:b:c",
                               b"\xc3\xa5", b"a" * 577])
            s = rng.choice([b"ux", b"uxf", b"uxx", b""]) + b":" + name
            ctx.count("parse.ux")
        out.append(s)
    return out


def ops_for_string(s, rng, orc):
    orc.for_addr_string(s)
    ops = []
    h = hexs(s)
    proto = s.split(b":")[0].decode("latin-1")
    ps = [proto] if proto in PROTOS else [rng.choice(PROTOS)]
    if rng.chance(1, 6):
        ps.append(rng.choice(PROTOS))
    for p in ps:
        ops.append("parse %s %s" % (p, h))
    ops.append("parseux %s %s %d" % (rng.choice(["ux", "uxf"]) if proto not in ("ux", "uxf") else proto, h,
                                     rng.choice([0, 1, 2, 107, 108, 109, 579])))
    ops.append("valid %s" % h)
    if rng.chance(1, 3):
        ops.append("proto %s %d" % (h, rng.choice([0, 1, 2, 3, 4, 5, 32, 33, 64])))
    return ops


def libc_ops(rng, n):
    ops = []
    for t in PORT_TEXTS + [b"\t\n\v\f\r 12", b"- 1", b"+-1", b"--1", b"++1", b"-9223372036854775808", b"-9223372036854775809",
                           b"\xa0" + b"1", b"12]3", b"007]"]:
        if b"\0" not in t:
            ops.append("strtol %s" % hexs(t))
    for t in HOST_TEXTS + [b"1.2.3.4", b"1.2.3.04", b"1.2.3.4 ", b" 1.2.3.4", b"1..2.3", b"1.2.3.", b".1.2.3", b"0.0.0.00",
                           b"0x1.2.3.4", b"1.2.3.4.", b"999.1.1.1", b"1.2.3.1234", b"255.255.255.255", b"256.0.0.0", b"1,2.3.4"]:
        ops.append("pton4 %s" % hexs(t))
        ops.append("dns %s" % hexs(t))
    for a in IP4_POOL:
        ops.append("ntop4 %d" % a)
    for _ in range(n):
        ops.append("ntop4 %d" % rng.below(2 ** 32))
        t = ".".join(str(rng.choice([0, 1, 9, 10, 99, 100, 199, 255, 256, 300, rng.below(260)])) for _ in range(rng.choice([3, 4, 4, 4, 5]))).encode()
        if rng.chance(1, 4):
            t = t.replace(b".", rng.choice([b"..", b".0", b",", b". "]), 1)
        ops.append("pton4 %s" % hexs(t))
        ops.append("dec %d" % rng.choice([0, 9, 10, 99, 100, 65535, rng.below(2 ** 63), 2 ** 63 - 1]))
        s = bytes(rng.choice(b"0123456789+- \t9a") for _ in range(rng.range(0, 24)))
        ops.append("strtol %s" % hexs(s))
        d = bytes(rng.choice(b"abcXYZ019-..") for _ in range(rng.range(0, 20)))
        ops.append("dns %s" % hexs(d))
    return ops


def build():
    return common.build_harness("unit_addr", ["unit_addr.c"],
                                extra_objs_from_repo=["libxcm/core/xcm_addr.c", "libxcm/core/xcm_addr_compat.c",
                                                      "libxcm/tp/dns/xcm_dns.c", "common/util.c"],
                                extra_flags=["-DUT_STD_ASSERT"])


def monitor(ctx, ops, impl):
    """Property oracle on the implementation alone (no model involved):
    (1) make never reports success with a buffer that is not the complete NUL-terminated
        address; (2) parse(make(x)) = x; (3) is_valid agrees with the parsers;
    (4) a successful parse has a port in 0..65535 written in plain decimal."""
    made = {}
    last_parse_ok = {}
    for i, (op, out) in enumerate(zip(ops, impl)):
        w = op.split()
        if w[0] == "make" and out.startswith("ok "):
            buf = bytes.fromhex(out[3:]) if out[3:] != "-" else b""
            exp = w[1].encode() + b":" + host_text(w[2]) + b":" + w[3].encode() + b"\0"
            if buf != exp:
                ctx.violation("unit_addr:monitor:make-success-not-complete",
                              "xcm_addr_make_%s returned 0 but the buffer is not the complete NUL-terminated address" % w[1],
                              {"harness": "unit_addr", "ops": [op], "impl_out": [out], "expected_buffer": exp.hex()})
            elif len(buf) > int(w[4]):
                ctx.violation("unit_addr:monitor:make-beyond-capacity", "buffer longer than capacity",
                              {"harness": "unit_addr", "ops": [op], "impl_out": [out]})
            made[i] = (w[1], w[2], w[3], buf[:-1])
        elif w[0] == "makeux" and out.startswith("ok "):
            buf = bytes.fromhex(out[3:]) if out[3:] != "-" else b""
            name = bytes.fromhex(w[2]) if w[2] != "-" else b""
            exp = w[1].encode() + b":" + name + b"\0"
            if buf != exp:
                ctx.violation("unit_addr:monitor:makeux-success-not-complete",
                              "xcm_addr_make_%s returned 0 but the buffer is not the complete NUL-terminated address" % w[1],
                              {"harness": "unit_addr", "ops": [op], "impl_out": [out], "expected_buffer": exp.hex()})
        elif w[0] == "parse" and out.startswith("ok "):
            s = bytes.fromhex(w[2]) if w[2] != "-" else b""
            port_txt = s[s.rfind(b":") + 1:]
            port = int(out.split()[2])
            if not (port_txt.isdigit() and port_txt.isascii() and int(port_txt) == port and 0 <= port <= 65535):
                ctx.violation("unit_addr:monitor:port-syntax",
                              "xcm_addr_parse_%s accepted a port field that is not a plain decimal number in 0..65535" % w[1],
                              {"harness": "unit_addr", "ops": [op], "impl_out": [out], "port_field": port_txt.hex()})
            last_parse_ok[w[2]] = True
        elif w[0] == "parseux" and out.startswith("ok ") and int(w[3]) >= 109:
            last_parse_ok[w[2]] = True
        elif w[0] == "valid":
            # ops_for_string emits the parse ops of the string's own protocol just before `valid`
            s = bytes.fromhex(w[1]) if w[1] != "-" else b""
            proto = s.split(b":")[0].decode("latin-1")
            if proto in PROTOS or proto in ("ux", "uxf"):
                # find this string's own-proto parse result among the preceding ops
                j = i - 1
                own = None
                while j >= 0 and j >= i - 5:
                    wj = ops[j].split()
                    if wj[0] == "parse" and wj[1] == proto and wj[2] == w[1]:
                        own = impl[j].startswith("ok ")
                    if wj[0] == "parseux" and wj[1] == proto and wj[2] == w[1] and int(wj[3]) >= 579:
                        own = impl[j].startswith("ok ")
                    j -= 1
                if own is not None and own != (out == "1"):
                    ctx.violation("unit_addr:monitor:is-valid-disagrees",
                                  "xcm_addr_is_valid disagrees with xcm_addr_parse_%s" % proto,
                                  {"harness": "unit_addr", "ops": ops[max(0, i - 4):i + 1], "impl_out": impl[max(0, i - 4):i + 1]})
    return made


def run(ctx):
    quick = ctx.tier == "quick"
    exe = build()
    ctx.rule = ("unit_addr: (a) libc models (strtol, inet_pton/ntop AF_INET, %d, DNS regex) vs glibc on boundary and "
                "generated strings; (b) make for ALL 65536 ports at exact-fit/one-short capacity and every capacity "
                "0..len+2 for representative hosts of every kind and all six host:port transports + ux/uxf, on "
                "exact-size heap buffers under ASan; (c) every parser + is_valid on grammar-boundary, valid, mutated, "
                "over-long and random byte strings; (d) parse(make(x)) round trips.  Outputs of the real code are "
                "compared with the Lean model and independently checked by the property monitor.  non-trivial+distinct "
                "= distinct (op, output) pairs")
    rng = ctx.rng.fork("libc")
    ops = libc_ops(rng, 400 if quick else 20000)
    m, il = ctx.differential("unit_addr.libc", "addr", exe, ops, label="libc models")
    for o, l in zip(ops, m):
        ctx.nontriv((o, l))
    ctx.sample({"harness": "unit_addr", "what": "libc model validation", "ops": ops[:6], "model_out": m[:6]})

    # ---- make: exhaustive over ports and capacities -----------------------------------------
    orc = Oracle()
    ops = []
    hosts = ["4%d" % 0x7f000001, "6" + IP6_POOL[1].hex(), "n" + hexs(b"a.b")]
    for a in IP6_POOL:
        orc.addr(a)
    step = 1 if not quick else 1
    for hi, h in enumerate(hosts):
        proto = PROTOS[hi % len(PROTOS)]
        ht = host_text(h)
        for port in range(0, 65536, step):
            ln = len(proto) + 1 + len(ht) + 1 + len(str(port))
            if quick and port % 16 != hi and port not in (0, 9, 10, 99, 100, 999, 1000, 9999, 10000, 65535):
                continue
            ops.append("make %s %s %d %d" % (proto, h, port, ln + 1))
            ops.append("make %s %s %d %d" % (proto, h, port, ln))
            ops.append("parse %s %s" % (proto, hexs(proto.encode() + b":" + ht + b":" + str(port).encode())))
            ctx.count("make.port_sweep")
    rng = ctx.rng.fork("make")
    for proto in PROTOS:
        for h in hosts + [rand_host(rng, orc) for _ in range(4 if quick else 40)]:
            for port in (0, 7, 65535, rng.below(65536)):
                ln = len(proto) + 1 + len(host_text(h)) + 1 + len(str(port))
                for cap in range(0, ln + 3):
                    ops.append("make %s %s %d %d" % (proto, h, port, cap))
                    ctx.count("make.cap_sweep")
    for p in ("ux", "uxf"):
        for name in (b"", b"a", b"a" * 106, b"a" * 107, b"a" * 108, b"a" * 200, b"dir/f", b"\xc3\xa5b"):
            ln = len(p) + 1 + len(name)
            for cap in list(range(0, min(ln, 12) + 3)) + [ln - 1, ln, ln + 1, ln + 2]:
                if cap >= 0:
                    ops.append("makeux %s %s %d" % (p, hexs(name), cap))
                    ctx.count("makeux.cap_sweep")
            ops.append("parseux %s %s %d" % (p, hexs(p.encode() + b":" + name), 600))
    allops = orc.lines + ops
    m, il = ctx.differential("unit_addr.make", "addr", exe, allops, label="make sweep")
    monitor(ctx, allops, il)
    for o, l in zip(allops, m):
        if not o.startswith(("p6", "n6")):
            ctx.nontriv((o, l))
    ctx.sample({"harness": "unit_addr", "what": "make capacity sweep", "ops": ops[-40:-34], "model_out": m[-40:-34]})

    # ---- parsers -------------------------------------------------------------------------------
    nstr = 4000 if quick else 150000
    for part in range(4 if quick else 16):
        rng = ctx.rng.fork("parse%d" % part)
        orc = Oracle()
        ops = []
        for s in gen_parse_strings(rng, nstr // 4 if quick else nstr // 16, ctx, orc):
            if b"\0" in s:
                continue
            ops += ops_for_string(s, rng, orc)
        allops = orc.lines + ops
        m, il = ctx.differential("unit_addr.parse", "addr", exe, allops, label="parsers %d" % part)
        monitor(ctx, allops, il)
        for o, l in zip(allops, m):
            if not l.startswith("err") and l != "0" and not o.startswith(("p6", "n6")):
                ctx.nontriv((o, l))
        if part == 0:
            ctx.sample({"harness": "unit_addr", "what": "parsers", "ops": ops[:8], "model_out": m[len(orc.lines):len(orc.lines) + 8]})
    ctx.assumptions += ["inet_pton/inet_ntop(AF_INET6) are environment functions: the theorems assume the round-trip and "
                        "alphabet laws of IpText.Laws; the harness re-checks every table entry the model used against glibc",
                        "address strings are C strings (no interior NUL)"]


def replay(path):
    r = json.load(open(path))
    exe = build()
    text = "\n".join(r["ops"]) + "\n"
    common.lake_build(["driver"])
    m = common.run_model("addr", text)
    rc, out, err = common.run_proc([exe], text)
    print("model:", *m, sep="\n  ")
    print("impl (rc=%d):" % rc, *out.splitlines(), sep="\n  ")
    if err:
        print(err[-2000:])
    return 0 if m == out.splitlines() and rc == 0 else 1
