"""C03 - a failed send leaves no trace; a successful send is delivered exactly once."""
from gen import common, framing, ux, api
from gen.common import hexs
from gen.props.C01 import replay

LEAN_MODULE = "XcmModel.Props.C03"
THEOREMS = [
    "XcmModel.C03.C03_size_checks_first", "XcmModel.C03.C03_eagain_is_finish",
    "XcmModel.C03.C03_bad_refuses", "XcmModel.C03.C03_only_accepted_delivered_once",
    "XcmModel.C03.accepted_only_ok", "XcmModel.C01.C01_exact_delivery",
    "XcmModel.C03.C03_ux_failed_send_no_trace", "XcmModel.C03.C03_ux_size_checks_first",
    "XcmModel.C03btls.C03_btls_finish_success_means_flushed", "XcmModel.C03btls.C03_btls_retained_means_not_finished",
    "XcmModel.Api.msgBsend_acc", "XcmModel.C03.C03_blocking_send_no_false_failure", "XcmModel.C03.C03_blocking_send_accepted_once",
]


def gen(rng, ctx):
    """send-heavy histories: every size class, refusals at every point of the flush"""
    ops = ["N"]
    for _ in range(rng.range(5, 40)):
        r = rng.below(10)
        if r < 6:
            k = rng.below(10)
            if k == 0:
                m = b""
            elif k == 1:
                m = rng.bytes(rng.choice([65536, 65537, 100000]))
            elif k == 2:
                m = rng.bytes(rng.choice([65535, 65534]))
            else:
                m = framing.rand_msg(rng, small=True)
            # answers: refuse before acceptance, between acceptance and flush, partial, errors
            a = rng.choice(["-", "EEAGAIN", "P1", "P1,EEAGAIN", "P4", "P5,P1", "A", "A,A", "P2,EECONNRESET", "EEPIPE",
                            "EETIMEDOUT", "A,EEAGAIN", "P3,P3,P3", framing.rand_sans(rng, len(m) + 4)])
            ops.append("S %s %s" % (hexs(m), a))
            ctx.count("c03.send.%s" % ("zero" if not m else "over" if len(m) > 65535 else "max" if len(m) > 65000 else "small"))
            if rng.chance(1, 6):
                # a length the size check must refuse whatever its width: around 2^31, 2^32 (+ a valid remainder), 2^63, 2^64-1
                big = rng.choice([2 ** 31, 2 ** 32 - 1, 2 ** 32, 2 ** 32 + 1, 2 ** 32 + 9, 2 ** 32 + 65535, 2 ** 32 + 65536, 2 ** 33 + 3,
                                  2 ** 40 + 1, 2 ** 63, 2 ** 63 + 2, 2 ** 64 - 1])
                ops.append("SL %d %s" % (big, a))
                ctx.count("c03.send.huge")
        elif r < 8:
            ops.append("F %s ok" % rng.choice(["-", "A", "P1", "P2,P2", "EEAGAIN"]))
        elif r < 9:
            ops.append("R 100 %s" % rng.choice(["-", "A", "P1"]))
        else:
            ops.append("U %d" % rng.below(4))
    ops.append("F A,A,A ok")
    return ops


def run(ctx):
    quick = ctx.tier == "quick"
    ctx.rule = ("unit_framing(tcp|tls), send side: messages of size 0, 1..small, 65534/65535, 65536+, lower layer refusing "
                "(EAGAIN) or failing before acceptance, between acceptance and flush, after 1..k bytes; wire bytes handed "
                "down are checked by the monitor to be exactly the frames of the messages whose send returned 0 (no trace "
                "of refused ones, no duplicate), counters unchanged on refusal; all lines compared with the Lean model. "
                "The blocking wrapper of xcm.c (EINTR between acceptance and flush) is NOT exercised by this unit check.")
    for variant in ("tcp", "tls"):
        exe = framing.build(variant)
        mon = framing.Monitor(ctx, "unit_framing_" + variant)
        allops = []
        for k in range(300 if quick else 8000):
            allops += gen(ctx.rng.fork("%s%d" % (variant, k)), ctx)
            if len(allops) > 3000:
                m, il = ctx.differential("unit_framing_" + variant, "framing", exe, allops, label="sends")
                mon.run(allops, il)
                for o, l in zip(allops, m):
                    if not l.startswith(("ok", "lower")):
                        ctx.nontriv((o[:40], l))
                if not ctx.samples:
                    ctx.sample({"harness": "unit_framing_" + variant, "ops": allops[:10], "model_out": m[:10]})
                allops = []
            if ctx.over_budget():
                break
        if allops:
            m, il = ctx.differential("unit_framing_" + variant, "framing", exe, allops, label="sends")
            mon.run(allops, il)
    ctx.assumptions += ["lower-layer failure is terminal (C06 of btcp/btls); blocking-mode xcm_send (poll/EINTR) is outside this check"]
    ux.run_part(ctx, 40 if quick else 2000, "c03")
    ctx.rule += "; unit_ux: ux_send refused by the size checks or by the kernel (EAGAIN, EINTR, EPIPE...) vs model: nothing handed to the kernel, counters unchanged"
    # the TLS byte stream below the tls transport: what btls_send / btls_finish report about retained output
    from gen import btls as _btls
    _btls.run_part(ctx, 10 if quick else 300, exhaustive=True)
    ctx.rule += ("; unit_btls: the real xcm_tp_btls.c with scripted OpenSSL answers vs the Lean Btls model (send accepts and retains, "
                 "finish reports success only once nothing is retained)")
    # blocking-mode wrappers of xcm.c (bytestream_bsend / msg_bsend / socket_finish)
    aexe = api.build()
    amon = api.Monitor(ctx)
    aops = []
    for k in range(120 if quick else 4000):
        aops += api.gen_history(ctx.rng.fork("api%d" % k), 25, ctx)
        if len(aops) > 3000:
            m, il = ctx.differential("unit_api", "api", aexe, aops, label="api")
            amon.run(aops, il)
            for o, l in zip(aops, m):
                ctx.nontriv(("api", o.split()[0], l[:100]))
            aops = []
        if ctx.over_budget():
            break
    if aops:
        m, il = ctx.differential("unit_api", "api", aexe, aops, label="api")
        amon.run(aops, il)
    ctx.rule += "; unit_api: the real xcm.c wrappers (blocking and non-blocking xcm_send/xcm_receive/xcm_finish/xcm_set_blocking) over a scripted transport and poll(), traces of transport calls and waits compared with the Lean Api model; monitor: offered ranges stay inside the caller's buffer, reported byte count = bytes the transport accepted, no -1/EINTR after acceptance"
