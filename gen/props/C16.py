"""C16 - readiness is sound: one stable descriptor that is quiet when idle."""
import json
from gen import common, xpoll, sysattr, btcp, ux, framing

LEAN_MODULE = ["XcmModel.Props.C16", "XcmModel.Props.Utls", "XcmModel.Props.Timer", "XcmModel.Props.Dns", "XcmModel.Props.Funcs"]
THEOREMS = [
    "XcmModel.Xpoll.kinv_fdRegMod", "XcmModel.Xpoll.kinv_fdRegAdd", "XcmModel.Xpoll.kinv_fdRegDel",
    "XcmModel.Xpoll.updateActive_post", "XcmModel.C16.reach_good",
    "XcmModel.C16.C16_kernel_matches_registrations", "XcmModel.C16.C16_active_fd_iff_bell",
    "XcmModel.C16.C16_quiet_when_idle", "XcmModel.C16.C16_readable_when_met",
    "XcmModel.C16.C16_btcp_ready_events", "XcmModel.C16.C16_btcp_terminal_rings",
    "XcmModel.C16.C16_server_events", "XcmModel.C16.C16_ux_events",
    "XcmModel.UtlsProps.C04_utls_condition_passed_down",
    "XcmModel.C16btls.C16_btls_idle_silent", "XcmModel.C16btls.C16_btls_idle_flush_only", "XcmModel.C16btls.C16_btls_blocked_send_is_accepted", "XcmModel.C16btls.C16_btls_quiet_after_eagain", "XcmModel.C16btls.C16_btls_quiet_after_eagain_retained", "XcmModel.C16btls.C16_btls_bell_reason",
    "XcmModel.TimerProps.timer_inv_run", "XcmModel.TimerProps.C16_timer_quiet", "XcmModel.TimerProps.C16_no_timers_quiet", "XcmModel.TimerProps.C16_wakeup_confirmed",
    "XcmModel.DnsProps.dns_inv_run", "XcmModel.DnsProps.C16_dns_quiet",
    "XcmModel.FuncsTie.conn_event_tie", "XcmModel.FuncsTie.server_event_tie",
    "XcmModel.FuncsTie.next_capacity_tie",
]


def build_quiet():
    return common.build_harness("sys_quiet", ["sys_quiet.c"], link_lib=True, libs=["ssl", "crypto", "cares"], whole=True)


def run(ctx):
    quick = ctx.tier == "quick"
    ctx.rule = ("unit_xpoll: the real xpoll.c + active_fd.c on the REAL kernel (epoll, eventfd), pipes as user descriptors whose "
                "readability the script controls; random histories of registration and bell operations (ids as the code "
                "allocates them); after every operation the registration table, bell table, whether the shared eventfd is held, "
                "and poll(epoll fd, POLLIN|POLLOUT|POLLPRI, 0) are compared with the Lean Xpoll model (K-epoll readability); the "
                "active-fd pool with more than MAX_USERS_PER_FD users.  unit_btcp/unit_ux: every (state, condition) of the "
                "transports' update operations (exhaustive).  sys_quiet: live connections of all seven transports after mixed "
                "traffic with partial I/O, globally quiescent; the socket fd sampled over a settle window for condition 0, for "
                "RECEIVABLE after receive reported EAGAIN, for a server awaiting ACCEPTABLE; readable at once when the condition is "
                "already met (SENDABLE idle, message/connection already there); only POLLIN ever reported; xcm_fd constant.  STUCK: a byte-stream send blocked under back-pressure and not retried; RONLY: "
                "after xcm_send reported EAGAIN the sender awaits RECEIVABLE only and answers every wake-up with xcm_receive - its fd "
                "must be quiet while the peer does not read (300 ms) and after everything was delivered.")
    exe = xpoll.build()
    ops = []
    nh = 150 if quick else 5000
    for k in range(nh):
        ops += xpoll.gen_history(ctx.rng.fork("xp%d" % k), 60, ctx)
        if k % 10 == 0:
            ops += xpoll.gen_pool(ctx.rng.fork("pool%d" % k), ctx, big=(k % 30 == 0))
        if len(ops) > 4000 or k == nh - 1:
            m, il = ctx.differential("unit_xpoll", "xpoll", exe, ops, label="xpoll")
            for o, l in zip(ops, il):
                if "!epoll-fd-changed" in l:
                    ctx.violation("unit_xpoll:monitor:fd-changed", "the epoll descriptor of an xpoll changed", {"harness": "unit_xpoll", "ops": ops[:50]})
                if " other=1" in l:
                    ctx.violation("unit_xpoll:monitor:not-only-readable", "the epoll fd reported an event other than POLLIN", {"harness": "unit_xpoll", "ops": ops[:50]})
            for o, l in zip(ops, m):
                ctx.nontriv((o.split()[0], l[-60:]))
            if not ctx.samples:
                ctx.sample({"harness": "unit_xpoll", "ops": ops[:8], "model_out": m[:8]})
            ops = []
        if ctx.over_budget():
            break
    # exhaustive: update decisions of the transports
    bexe = btcp.build()
    ops = []
    for st in ("ready", "connecting", "resolving", "resolving-local", "resolving-local+remote"):
        ops.append("N " + st)
        for cond in range(4):
            for q in range(2):
                ops.append("U %d %d" % (cond, q))
    for cond in range(8):
        ops.append("SU %d" % cond)
    for e in ("EECONNRESET", "EEPIPE"):           # terminal states
        ops += ["N ready", "S 6162 - " + e] + ["U %d 0" % c for c in range(4)]
    ops += ["N ready", "R 10 - Z"] + ["U %d 0" % c for c in range(4)]
    # established through the connect phase (every call that can complete it): the connect-phase helpers are gone
    for start, est in (("connecting", "o"), ("connecting", "a"), ("resolving", "o,o,o"), ("resolving", "o,o,a"), ("resolving-local", "o,o,o"), ("resolving-local+remote", "o,o,o,o"), ("resolving-local+remote", "o,a")):
        for call in ("F %s", "S 6162 %s A", "R 10 %s EEAGAIN"):
            ops += ["N " + start, call % est, "F o"] + ["U %d %d" % (c, q) for c in range(4) for q in range(2)]
    ctx.differential("unit_btcp", "btcp", bexe, ops, label="btcp-update-exhaustive")
    uexe = ux.build()
    ops = ["N"] + ["U %d" % c for c in range(8)] + ["SU %d" % c for c in range(8)]
    ctx.differential("unit_ux", "ux", uexe, ops, label="ux-update-exhaustive")
    for variant in ("tcp", "tls"):
        fexe = framing.build(variant)
        ops = ["N"] + ["U %d" % c for c in range(4)] + ["S 616263 P2"] + ["U %d" % c for c in range(4)] + ["F A ok"] + ["U %d" % c for c in range(4)]
        ctx.differential("unit_framing_" + variant, "framing", fexe, ops, label="framing-update")
    ctx.exhaustive = False
    # live sockets
    qexe = build_quiet()
    cmds = []
    for proto in sysattr.PROTOS:
        for sd in range(1 if quick else 8):
            cmds.append("Q %s %d %d" % (proto, ctx.vseed * 100 + sd, 2 if quick else 6))
    for proto in ("btcp", "btls"):
        cmds.append("STUCK " + proto)
    for proto in sysattr.PROTOS:
        cmds.append("RONLY " + proto)
    rc, out, err = sysattr.run(qexe, cmds, ctx, timeout=900)
    ctx.traces += 1
    if rc != 0 or len(out) != len(cmds):
        ctx.violation("sys_quiet:crash:" + common.crash_site(err), "sys_quiet died at %r" % (cmds[len(out)] if len(out) < len(cmds) else "?"),
                      {"harness": "sys_quiet", "ops": cmds[max(0, len(out) - 1):len(out) + 1], "stderr": err[-3000:]})
        return
    for c, o in zip(cmds, out):
        ctx.evaluations += 1
        rep = {"harness": "sys_quiet", "ops": [c], "impl_out": o}
        if o.startswith("fail"):
            ctx.corr_break("sys_quiet", "%s: %s" % (c, o), rep)
            continue
        if c.startswith("RONLY"):
            f = dict(x.split("=") for x in o.split())
            proto = c.split()[1]
            ctx.nontriv((c, f["refused"], int(f["wakeA"]) > 3, f["accepted"] == f["delivered"]))
            ctx.count("ronly.%s.wakeups_while_blocked" % proto, int(f["wakeA"]))
            if f["refused"] != "1" or f["rerr"] != "0":
                ctx.notes.append("sys_quiet %s: scenario not reached: %s" % (c, o))
            else:
                if int(f["wakeA"]) > 3:
                    ctx.violation("sys_quiet:monitor:spurious-readable:receive-only-after-backpressure:%s" % proto,
                                  "after xcm_send reported EAGAIN the application awaits RECEIVABLE only and answers every wake-up with "
                                  "xcm_receive (EAGAIN); while the peer is not reading its fd was readable %s times in 300 ms: %s" % (f["wakeA"], o), rep)
                if f["accepted"] != f["delivered"]:
                    ctx.notes.append("sys_quiet %s: accepted output not delivered (C04's subject): %s" % (c, o))
                if f["spin_after"] != "0":
                    ctx.violation("sys_quiet:monitor:spurious-readable:receive-only-after-flush:%s" % proto,
                                  "everything was delivered, RECEIVABLE awaited, xcm_receive says EAGAIN, yet the fd stays readable: %s" % o, rep)
            continue
        if c.startswith("STUCK"):
            f = dict(x.split("=") for x in o.split())
            ctx.nontriv((c, f["spin_client"] != "0", f["spin_accepted"] != "0", f["receive"]))
            if f["finish"] == "0,0" and f["accepted"] == f["delivered"] and f["receive"] == "EAGAIN":
                for side in ("client", "accepted"):
                    if f["spin_" + side] != "0":
                        ctx.violation("sys_quiet:monitor:spurious-readable:refused-send-not-retried:%s:%s" % (c.split()[1], side),
                                      "after a byte-stream xcm_send was refused with EAGAIN and not retried, every accepted byte was delivered and "
                                      "xcm_finish succeeded on both ends, yet the %s socket's fd stays readable while RECEIVABLE is awaited and "
                                      "xcm_receive reports EAGAIN (an event loop spins): %s" % (side, o), rep)
            else:
                ctx.notes.append("sys_quiet %s: not quiescent: %s" % (c, o))
            continue
        f = dict(x.split("=") for x in o.replace("(", " r=").replace(")", "").split())
        ctx.nontriv((c.split()[1], o))
        proto = c.split()[1]
        if f["eagain"] != "1":
            ctx.notes.append("sys_quiet %s: the pair was not quiescent (receive did not report EAGAIN)" % proto)
            continue
        for key, what in (("quiet0pre", "condition 0 standing while a buffered message was flushed by xcm_finish alone (and after the connect timeout)"),
                          ("quiet0", "condition 0 on idle sockets"), ("quietR", "RECEIVABLE after xcm_receive reported EAGAIN"),
                          ("quietS", "a server awaiting ACCEPTABLE with no connection pending"),
                          ("quiet0data", "condition 0 while a message is waiting"), ("quiet0conn", "condition 0 on a server with a pending connection")):
            if f[key] != "0":
                ctx.violation("sys_quiet:monitor:spurious-readable:%s:%s" % (key, proto),
                              "the %s socket's fd was readable %s times although it must be quiet: %s" % (proto, f[key], what), rep)
        for key, what in (("metS", "SENDABLE awaited on an idle connection"), ("metR", "RECEIVABLE awaited with a message already there"),
                          ("metA", "ACCEPTABLE awaited with a connection already pending")):
            if f[key] != "1":
                ctx.violation("sys_quiet:monitor:not-readable-when-met:%s:%s" % (key, proto),
                              "the %s socket's fd was not readable right after xcm_await although the condition was met: %s" % (proto, what), rep)
        if f["other"] != "0":
            ctx.violation("sys_quiet:monitor:not-only-readable:" + proto, "xcm_fd reported an event other than POLLIN", rep)
        if f["fdchanged"] != "0":
            ctx.violation("sys_quiet:monitor:fd-changed:" + proto, "xcm_fd returned a different descriptor during the socket's life", rep)
    ctx.sample({"harness": "sys_quiet", "cmds": cmds[:2], "impl_out": out[:2]}, cap=8)
    ctx.assumptions += ["K-epoll: level-triggered epoll semantics; an eventfd(1) that is never read stays readable",
                        "the control interface's descriptors are idle (no ctl client) during sys_quiet"]
    # the dispatch layer xcm_tp.c: every call re-evaluates the registrations (update is the last transport call)
    from gen import tp as _tp
    texe = _tp.build()
    tops = _tp.exhaustive()
    for k in range(30 if ctx.tier == "quick" else 800):
        tops += _tp.gen_history(ctx.rng.fork("tp%d" % k), 40, ctx)
    m, il = ctx.differential("unit_tp", "tp", texe, tops, label="tp")
    _tp.Monitor(ctx).run(tops, il)
    ctx.rule += (" unit_tp: the real xcm_tp.c wrappers over a logging transport vs the Lean Tp model (update follows every send/receive/finish).")
    from gen import utls as _utls
    _utls.run_part(ctx, 20 if ctx.tier == "quick" else 800, label="c16utls")
    ctx.rule += " unit_utls: utls passes exactly the awaited condition (0 included) to its active sub-socket / both sub-servers."
    # the TLS connection machine (xcm_tp_btls.c) against the Lean Btls model, with its monitors
    from gen import btls as _btls
    _btls.run_part(ctx, 10 if ctx.tier == "quick" else 300, exhaustive=True)
    ctx.rule += (" unit_btls: the real xcm_tp_btls.c with scripted OpenSSL answers vs the Lean Btls model: every OpenSSL event x first observer x state x verdict, conn_update for every reachable (state, ssl_condition, ssl_wants) x condition x SSL_has_pending, seeded random histories; stickiness/discoverer/rc-range/gating monitors.")

    # the timer manager behind connect timeouts, the Happy Eyeballs delay and dns.timeout
    from gen import timer as _timer
    _timer.run_part(ctx, 40 if ctx.tier == "quick" else 1500, label="c16timer")
    ctx.rule += " unit_timer: the real timer_mgr.c (scripted clock, recorded timerfd_settime, K-timerfd probed on the real kernel) vs the Lean TimerMgr model on every short two-user history and on random histories with stale ids; monitor: the timerfd is always armed at the earliest live deadline, ids are never reused, a cancel removes exactly the timer named."
    # the asynchronous resolver front end on top of the timer manager
    from gen import dnsq as _dnsq
    _dnsq.run_part(ctx, 60 if ctx.tier == "quick" else 2500, label="c16dnsq")
    ctx.rule += " unit_dnsq: the real xcm_dns_cares.c over the real timer_mgr.c with c-ares scripted (callback kind, descriptor set, timeout per call), clock scripted, timerfd and xpoll calls recorded, vs the Lean DnsQuery model: state, channel registrations, timer ids, timerfd setting, timer list, result and tries after every call, for every (dns.timeout, synchronous answer, later answer, time relative to the deadline) combination and random histories; monitor: deadline honoured and not anticipated, completion sticky and rung, no registration left, failure ladders leave nothing."

def replay(path):
    r = json.load(open(path))
    if r.get("harness") == "unit_tp":
        from gen.props import C04
        return C04.replay(path)
    if r.get("harness") == "unit_btls":
        from gen import btls as _btls
        return _btls.replay(r)
    h = r.get("harness", "")
    if h == "sys_quiet":
        class C:
            rundir = common.RUN + "/replay"
        rc, out, err = sysattr.run(build_quiet(), r["ops"], C)
        print("impl (rc=%d):" % rc, *out, sep="\n  ")
        return 0
    comp = {"unit_xpoll": ("xpoll", xpoll.build), "unit_btcp": ("btcp", btcp.build), "unit_ux": ("ux", ux.build)}.get(h)
    if comp is None:
        comp = ("framing", lambda: framing.build("tls" if h.endswith("tls") else "tcp"))
    exe = comp[1]()
    text = "\n".join(r["ops"]) + "\n"
    common.lake_build(["driver"])
    m = common.run_model(comp[0], text)
    rc, out, err = common.run_proc([exe], text)
    print("model:", *m, sep="\n  ")
    print("impl (rc=%d):" % rc, *out.splitlines(), sep="\n  ")
    return 0 if m == out.splitlines() and rc == 0 else 1
