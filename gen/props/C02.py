"""C02 - byte-stream transports deliver exactly the accepted bytes, in order."""
import json
from gen import common, btcp, api

LEAN_MODULE = "XcmModel.Props.C02"
THEOREMS = [
    "XcmModel.C02.C02_rc_range", "XcmModel.C02.C02_capacity", "XcmModel.C02.inv_run",
    "XcmModel.C02.C02_failed_call_no_trace", "XcmModel.C02.C02_btcp_prefix",
    "XcmModel.Api.bsend_acc", "XcmModel.Api.finishAfter_spec", "XcmModel.C02.C02_bsend_accounting",
    "XcmModel.C02btls.C02_btls_accepted_is_written_plus_retained", "XcmModel.C02btls.C02_btls_send_accepts_prefix", "XcmModel.C02btls.C02_btls_retry_discipline", "XcmModel.C02btls.C02_btls_capacity", "XcmModel.C02btls.C02_btls_receive_keeps_accepted",
]


def run(ctx):
    quick = ctx.tier == "quick"
    exe = btcp.build()
    mon = btcp.Monitor(ctx)
    ctx.rule = ("unit_btcp: the real xcm_tp_btcp.c connection state machine (resolving/connecting/ready/closed/bad) with "
                "scripted kernel send()/recv() answers (all, k bytes, EAGAIN, EPIPE, ECONNRESET..., EOF), scripted resolver/"
                "tconnect answers while establishing; each line (rc, errno, payload, 4 byte counters, state, bytes handed to "
                "the kernel) is compared with the Lean model; the monitor checks rc range, capacity, wire = accepted "
                "ranges, counters and stickiness on the implementation's output alone")
    allops = []
    for k in range(120 if quick else 4000):
        rng = ctx.rng.fork("btcp%d" % k)
        allops += btcp.gen_history(rng, 60, ctx)
        if len(allops) > 3000:
            m, il = ctx.differential("unit_btcp", "btcp", exe, allops, label="btcp")
            mon.run(allops, il)
            for o, l in zip(allops, m):
                ctx.nontriv((o.split()[0], l))
            if not ctx.samples:
                ctx.sample({"harness": "unit_btcp", "ops": allops[:10], "model_out": m[:10]})
            allops = []
        if ctx.over_budget():
            break
    if allops:
        m, il = ctx.differential("unit_btcp", "btcp", exe, allops, label="btcp")
        mon.run(allops, il)
    # blocking-mode wrappers of xcm.c (bytestream_bsend / msg_bsend / socket_finish)
    aexe = api.build()
    amon = api.Monitor(ctx)
    aops = []
    for k in range(120 if quick else 4000):
        aops += api.gen_history(ctx.rng.fork("api%d" % k), 25, ctx)
        if len(aops) > 3000:
            m, il = ctx.differential("unit_api", "api", aexe, aops, label="api")
            amon.run(aops, il)
            for o, l in zip(aops, m):
                ctx.nontriv(("api", o.split()[0], l[:100]))
            aops = []
        if ctx.over_budget():
            break
    if aops:
        m, il = ctx.differential("unit_api", "api", aexe, aops, label="api")
        amon.run(aops, il)
    ctx.rule += "; unit_api: the real xcm.c wrappers (blocking and non-blocking xcm_send/xcm_receive/xcm_finish/xcm_set_blocking) over a scripted transport and poll(), traces of transport calls and waits compared with the Lean Api model; monitor: offered ranges stay inside the caller's buffer, reported byte count = bytes the transport accepted, no -1/EINTR after acceptance"
    stream_part(ctx)
    # the TLS connection machine (xcm_tp_btls.c) against the Lean Btls model, with its monitors
    from gen import btls as _btls
    _btls.run_part(ctx, 60 if ctx.tier == "quick" else 3000, exhaustive=True)
    ctx.rule += (" unit_btls: the real xcm_tp_btls.c with scripted OpenSSL answers vs the Lean Btls model: every OpenSSL event x first observer x state x verdict, conn_update for every reachable (state, ssl_condition, ssl_wants) x condition x SSL_has_pending, seeded random histories; stickiness/discoverer/rc-range/gating monitors.")


def build_stream():
    return common.build_harness("sys_stream", ["sys_stream.c"], link_lib=True, libs=["ssl", "crypto", "cares"], whole=True)


def stream_part(ctx):
    """real btcp/btls connections: accepted ranges vs received bytes under every retry policy"""
    from gen import sysattr
    exe = build_stream()
    cmds = []
    for proto in ("btcp", "btls"):
        for pol in ("same", "longer", "different", "shorter"):
            for sd in range(1 if ctx.tier == "quick" else 6):
                for side in "ca":
                    cmds.append("STREAM %s %d %s %d %s" % (proto, ctx.vseed * 100 + sd, pol, 60 if ctx.tier == "quick" else 400, side))
    rc, out, err = sysattr.run(exe, cmds, ctx, timeout=1500)
    ctx.traces += 1
    if rc != 0 or len(out) != len(cmds):
        ctx.violation("sys_stream:crash:" + common.crash_site(err), "sys_stream died at %r" % (cmds[min(len(out), len(cmds) - 1)]),
                      {"harness": "sys_stream", "ops": [cmds[min(len(out), len(cmds) - 1)]], "stderr": err[-3000:]})
        return
    for c, o in zip(cmds, out):
        ctx.evaluations += 1
        w = c.split()
        rep = {"harness": "sys_stream", "ops": [c], "impl_out": o}
        if o.startswith("fail"):
            ctx.corr_break("sys_stream", "%s: %s" % (c, o), rep)
            continue
        f = dict(x.split("=", 1) for x in o.split())
        ctx.count("stream.%s.%s" % (w[1], w[3]))
        ctx.count("stream.refused_calls", int(f["refused"]))
        ctx.count("stream.bytes", int(f["accepted"]))
        ctx.nontriv((w[1], w[3], f["equal"], f["fail"]))
        if f["bad_rc"] != "0":
            ctx.violation("sys_stream:monitor:rc-range:%s" % w[1], "xcm_send returned 0 or more than len for len > 0: " + o, rep)
        if f["over_cap"] != "0":
            ctx.violation("sys_stream:monitor:capacity:%s" % w[1], "xcm_receive returned more than capacity: " + o, rep)
        if f["fail"] != "-":
            ctx.violation("sys_stream:monitor:failed:%s:%s:%s" % (w[1], w[3], f["fail"]),
                          "an undisturbed %s connection failed (%s) with retry policy '%s' after a refused xcm_send: %s" % (w[1], f["fail"], w[3], o), rep)
        elif f["prefix_broken"] != "0" or f["equal"] != "1" or f["eof"] != "1":
            size = "within-one-record" if 0 < int(f["worst_span"]) <= 16384 else "beyond-one-record"
            ctx.violation("sys_stream:monitor:stream-mismatch:%s:%s:%s" % (w[1], w[3], size),
                          "%s, retry policy '%s': the received bytes are not the concatenation of the accepted ranges (bytes of a refused call "
                          "reached the stream / accepted bytes were lost): %s" % (w[1], w[3], o), rep)
    ctx.sample({"harness": "sys_stream", "cmds": cmds[:2], "impl_out": out[:2]}, cap=8)
    ctx.rule += ("; sys_stream: real btcp and btls connections in one process, generated cuts and receive capacities, a slow reader so "
                 "that xcm_send is refused with EAGAIN, and after a refusal the next offer is the same bytes / the same and more / "
                 "different bytes of the same length / a shorter different buffer; received bytes compared with the accepted ranges at "
                 "every receive and after flush + graceful close")


def replay(path):
    r = json.load(open(path))
    if r.get("harness") == "sys_stream":
        from gen import sysattr
        class C:
            rundir = common.RUN + "/replay"
        rc, out, err = sysattr.run(build_stream(), r["ops"], C, timeout=600)
        print("impl (rc=%d):" % rc, *out, sep="\n  ")
        return 0
    if r.get("harness") == "unit_btls":
        from gen import btls as _btls
        return _btls.replay(r)
    exe = btcp.build()
    text = "\n".join(r["ops"]) + "\n"
    common.lake_build(["driver"])
    m = common.run_model("btcp", text)
    rc, out, err = common.run_proc([exe], text)
    print("model:", *m, sep="\n  ")
    print("impl (rc=%d):" % rc, *out.splitlines(), sep="\n  ")
    if err:
        print(err[-2000:])
    return 0 if m == out.splitlines() and rc == 0 else 1
