"""C18 - each TLS connection uses the credentials designated at that moment."""
import json
from gen import common, ctxstore, systls

LEAN_MODULE = "XcmModel.Props.C18"
THEOREMS = [
    "XcmModel.CtxKey.dec_enc", "XcmModel.CtxStore.sandwich_item", "XcmModel.CtxStore.passes", "XcmModel.CtxStore.get_spec",
    "XcmModel.CtxStore.put_spec", "XcmModel.CtxStore.get_cnt",
    "XcmModel.C18.C18_key_unambiguous", "XcmModel.C18.F18a_old_key_ambiguous", "XcmModel.C18.C18_context_holds_designated_material",
    "XcmModel.C18.C18_get_keeps_invariant", "XcmModel.C18.C18_no_mixing", "XcmModel.C18.run_inv",
    "XcmModel.C18.C18_released_with_last_user", "XcmModel.C18.C18_last_put_releases",
]


def run(ctx):
    quick = ctx.tier == "quick"
    ctx.rule = ("unit_ctxstore: the real ctx_store.c against real OpenSSL and real files (a generated PKI: two roots, an intermediate, "
                "leaves, CRLs, malformed and mismatching material): histories of file replacement by rename, symlink flips, "
                "ctx_store_get_ctx by file / by value / mixed with files replaced WHILE the context is being loaded (after the k-th "
                "item load), repeated configurations, ctx_store_put; configurations whose undelimited concatenations coincide.  Each "
                "line (context id, created or reused, number of loads, the certificate / chain / trust anchors / CRLs actually inside "
                "the SSL_CTX, cache listing with reference counts, contexts released) is compared with the Lean CtxStore model; "
                "monitors on the implementation's output: reference counts = holders, release exactly by the last holder.")
    ctxstore.run_part(ctx, 25 if quick else 1200)
    # real sockets: credential updates interleaved with connection set-up; established connections pinged
    exe = systls.build()
    for k in range(3 if quick else 60):
        cmds = systls.gen_switch_history(ctx.rng.fork("sw%d" % k), 60, ctx)
        rc, out, err = systls.run(exe, cmds, ctx, timeout=1200)
        ctx.traces += 1
        if rc != 0 or len(out) != len(cmds):
            ctx.violation("sys_tls:crash:" + common.crash_site(err), "sys_tls died at %r" % cmds[min(len(out), len(cmds) - 1)],
                          {"harness": "sys_tls", "ops": cmds[:len(out) + 1], "stderr": err[-3000:]})
            break
        model = common.run_model("tlspolicy", "\n".join(cmds) + "\n")
        systls.check_switch(ctx, cmds, model, out)
        if k == 0:
            ctx.sample({"harness": "sys_tls", "cmds": cmds[:10], "model_out": model[:10], "impl_out": out[:10]}, cap=8)
    ctx.rule += ("  sys_tls: real tls/btls sockets: the default XCM_TLS_CERT directory rewritten by rename, the variable switched to another "
                 "directory, new server sockets, per-socket overrides on connect and accept, in random interleavings with connection "
                 "set-up; for every new connection the certificate each side sees is compared with the model (server sockets keep the "
                 "file names resolved at their creation, the content is read per connection; clients resolve the variable when they "
                 "connect); established connections are pinged after updates and must keep working with unchanged peer certificates.")
    ctx.assumptions += [
        "K-stat: replacing a file changes (dev, ino, size, mtime) and identities are not reused while a call is in progress (no ABA); "
        "lstat+stat of one item are treated as one access",
        "K-sha256: no SHA-256 collisions (the cache key is modelled as the decoded digest input; C18_key_unambiguous shows the input "
        "determines the configuration)",
        "K-openssl-parse: which PEM material OpenSSL accepts is the fixture table of the driver, validated by this correspondence",
        "a file that changes for ever makes ctx_store_get_ctx loop for ever (the model's fuel); not a safety matter",
    ]


def replay(path):
    r = json.load(open(path))
    if r.get("harness") == "sys_tls":
        from gen.props import C09
        return C09.replay(path)
    return ctxstore.replay(r)
