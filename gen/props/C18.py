"""C18 - each TLS connection uses the credentials designated at that moment."""
import json
from gen import common, ctxstore

LEAN_MODULE = "XcmModel.Props.C18"
THEOREMS = [
    "XcmModel.CtxKey.dec_enc", "XcmModel.CtxStore.sandwich_item", "XcmModel.CtxStore.passes", "XcmModel.CtxStore.get_spec",
    "XcmModel.CtxStore.put_spec", "XcmModel.CtxStore.get_cnt",
    "XcmModel.C18.C18_key_unambiguous", "XcmModel.C18.F18a_old_key_ambiguous", "XcmModel.C18.C18_context_holds_designated_material",
    "XcmModel.C18.C18_get_keeps_invariant", "XcmModel.C18.C18_no_mixing", "XcmModel.C18.run_inv",
    "XcmModel.C18.C18_released_with_last_user", "XcmModel.C18.C18_last_put_releases",
]


def run(ctx):
    quick = ctx.tier == "quick"
    ctx.rule = ("unit_ctxstore: the real ctx_store.c against real OpenSSL and real files (a generated PKI: two roots, an intermediate, "
                "leaves, CRLs, malformed and mismatching material): histories of file replacement by rename, symlink flips, "
                "ctx_store_get_ctx by file / by value / mixed with files replaced WHILE the context is being loaded (after the k-th "
                "item load), repeated configurations, ctx_store_put; configurations whose undelimited concatenations coincide.  Each "
                "line (context id, created or reused, number of loads, the certificate / chain / trust anchors / CRLs actually inside "
                "the SSL_CTX, cache listing with reference counts, contexts released) is compared with the Lean CtxStore model; "
                "monitors on the implementation's output: reference counts = holders, release exactly by the last holder.")
    ctxstore.run_part(ctx, 25 if quick else 1200)
    ctx.assumptions += [
        "K-stat: replacing a file changes (dev, ino, size, mtime) and identities are not reused while a call is in progress (no ABA); "
        "lstat+stat of one item are treated as one access",
        "K-sha256: no SHA-256 collisions (the cache key is modelled as the decoded digest input; C18_key_unambiguous shows the input "
        "determines the configuration)",
        "K-openssl-parse: which PEM material OpenSSL accepts is the fixture table of the driver, validated by this correspondence",
        "a file that changes for ever makes ctx_store_get_ctx loop for ever (the model's fuel); not a safety matter",
    ]


def replay(path):
    r = json.load(open(path))
    return ctxstore.replay(r)
