"""C19 - attribute maps are finite maps; attribute paths are canonical."""
import json, os
from gen import common
from gen.common import hexs

LEAN_MODULE = ["XcmModel.Props.C19", "XcmModel.Props.Funcs", "XcmModel.Props.AttrTree"]
THEOREMS = [
    "XcmModel.C19.abs_add", "XcmModel.C19.abs_del", "XcmModel.C19.inv_add", "XcmModel.C19.inv_del",
    "XcmModel.C19.getTyped_spec", "XcmModel.C19.exists_spec", "XcmModel.C19.size_spec",
    "XcmModel.C19.foreach_spec", "XcmModel.C19.abs_addAll", "XcmModel.C19.abs_clone",
    "XcmModel.C19.inv_addAll", "XcmModel.C19.equal_iff", "XcmModel.C19.C19_refines",
    "XcmModel.C19.C19_stored_bytes_exact",
    "XcmModel.C19.C19_path_roundtrip", "XcmModel.C19.C19_path_canonical",
    "XcmModel.C19.C19_path_no_longer", "XcmModel.C19.C19_path_rejects_long",
    "XcmModel.C19.C19_path_comp_bound", "XcmModel.C19.C19_path_parse_wf",
    "XcmModel.FuncsTie.is_special_tie", "XcmModel.FuncsTie.is_key_char_tie",
    "XcmModel.AttrTreeProps.listed_is_found", "XcmModel.AttrTreeProps.found_is_listed", "XcmModel.AttrTreeProps.walk_found_is_listed", "XcmModel.AttrTreeProps.allValues_add_readable",
]


def gen_value(rng, t):
    if t == 1:
        return bytes([rng.below(2)])
    if t in (2, 5):
        k = rng.below(6)
        if k == 0:
            return bytes(8)
        if k == 1:
            return b"\xff" * 8
        return rng.bytes(8)
    if t == 3:
        n = rng.choice([0, 1, 2, 5, 17, 300])
        return bytes(rng.range(1, 255) for _ in range(n)) + b"\0"
    k = rng.below(10)
    if k == 0:
        return b""
    if k == 1:
        return rng.bytes(65536)
    if k == 2:
        return bytes(rng.range(1, 9))
    return rng.bytes(rng.range(1, 40))


def gen_name(rng, pool):
    k = rng.below(20)
    if k == 0:
        return b""
    if k == 1:
        return bytes(rng.range(1, 255) for _ in range(rng.choice([1, 2, 64, 300, 1500])))
    return rng.choice(pool)


def gen_attrmap_session(rng, nops, ctx):
    small = rng.chance(1, 2)
    if small:
        pool = [b"a", b"b", b"ab", b"xcm.blocking"]
    else:
        pool = [("k%d" % i).encode() for i in range(150)] + [b"tls.cert", b"A" * 200]
    ops = ["new"]
    live = [0]
    nmaps = 1
    for _ in range(nops):
        if not live:
            ops.append("new")
            live.append(nmaps)
            nmaps += 1
            continue
        r = rng.below(100)
        i = rng.choice(live)
        if r < 35:
            t = rng.range(1, 5)
            v = gen_value(rng, t)
            ops.append("add %d %d %s %s" % (i, t, hexs(gen_name(rng, pool)), hexs(v)))
            ctx.count("attrmap.add.t%d" % t)
            if len(v) == 0:
                ctx.count("attrmap.add.zero_len")
            if len(v) > 60000:
                ctx.count("attrmap.add.64k")
        elif r < 45:
            ops.append("del %d %s" % (i, hexs(gen_name(rng, pool))))
        elif r < 55:
            ops.append("get %d %s" % (i, hexs(gen_name(rng, pool))))
        elif r < 65:
            ops.append("gett %d %d %s" % (i, rng.range(1, 5), hexs(gen_name(rng, pool))))
        elif r < 70:
            ops.append("exists %d %s" % (i, hexs(gen_name(rng, pool))))
        elif r < 75:
            ops.append("size %d" % i)
        elif r < 80:
            ops.append("each %d" % i)
        elif r < 85 and nmaps < 4000:
            ops.append("clone %d" % i)
            live.append(nmaps)
            nmaps += 1
        elif r < 90:
            ops.append("addall %d %d" % (i, rng.choice(live)))
        elif r < 97:
            ops.append("equal %d %d" % (i, rng.choice(live)))
        elif r < 98 and nmaps < 4000:
            ops.append("new")
            live.append(nmaps)
            nmaps += 1
        elif len(live) > 1:
            ops.append("destroy %d" % i)
            live.remove(i)
        ctx.count("attrmap.op." + ops[-1].split()[0])
    # observe every live map at the end, plus pairwise equality against permuted rebuilds
    for i in live[:6]:
        ops.append("each %d" % i)
        ops.append("size %d" % i)
    return ops


SPECIALS = [b"[", b"]", b".", b"[0]", b"[1]", b"[01]", b"[ 1]", b"[+1]", b"[-0]", b"[-1]", b"[1 ]",
            b"[9223372036854775806]", b"[9223372036854775807]", b"[9223372036854775808]",
            b"[99999999999999999999999]", b"[0x10]", b"[]", b"[\t7]", b"..", b".a", b"a", b"xcm",
            b"tls.peer.cert.san.dns[3]", b"[1a]", b"[ ]", b"[+]", b"[-]"]


def gen_path(rng, ctx):
    k = rng.below(12)
    if k == 0:
        n = rng.range(0, 400)
        s = bytes(rng.range(1, 255) for _ in range(n))
        ctx.count("attrpath.random_bytes")
        return s
    if k == 1:
        # many components: around and beyond ATTR_PATH_COMP_MAX
        n = rng.choice([1, 2, 63, 64, 65, 66, 84, 85, 100, 127])
        comp = rng.choice([b"[0]", b".a", b"[7]", b".b"])
        first = rng.choice([b"a", b"", b"[0]"])
        ctx.count("attrpath.many_comps")
        return first + comp * n
    if k == 2:
        # around ATTR_PATH_NAME_MAX
        n = rng.choice([253, 254, 255, 256, 257, 300, 1000])
        ctx.count("attrpath.long")
        body = rng.choice([b"a", b"ab.", b"a[1]"])
        return (body * n)[:n]
    # grammar based, then maybe mutated
    parts = []
    if rng.chance(4, 5):
        parts.append(bytes(rng.choice(b"abcxyz_019") for _ in range(rng.range(1, 6))))
    for _ in range(rng.below(6)):
        r = rng.below(10)
        if r < 4:
            parts.append(b"." + bytes(rng.choice(b"abcxyz_-019 ") for _ in range(rng.range(1, 6))))
        elif r < 8:
            parts.append(b"[" + str(rng.choice([0, 1, 7, 10, 99, 123456, 2 ** 31, 2 ** 63 - 2])).encode() + b"]")
        else:
            parts.append(rng.choice(SPECIALS))
    s = b"".join(parts)
    if rng.chance(1, 4) and s:
        i = rng.below(len(s))
        m = rng.below(3)
        if m == 0:
            s = s[:i] + s[i + 1:]
        elif m == 1:
            s = s[:i] + rng.choice(SPECIALS) + s[i:]
        else:
            s = s[:i] + bytes([rng.range(1, 255)]) + s[i + 1:]
        ctx.count("attrpath.mutated")
    else:
        ctx.count("attrpath.grammar")
    return s


def gen_attrpath_ops(rng, n, ctx):
    ops = []
    for s in SPECIALS:
        for root in (0, 1):
            ops.append("parse %d %s" % (root, hexs(s)))
            ops.append("parse %d %s" % (root, hexs(b"a" + s if root else s + s)))
    for _ in range(n):
        s = gen_path(rng, ctx)
        root = rng.below(2)
        r = rng.below(10)
        if r < 7:
            ops.append("parse %d %s" % (root, hexs(s)))
        elif r < 9:
            ops.append("eq %d %s %s" % (root, hexs(s), hexs(gen_path(rng, ctx) if rng.chance(1, 2) else s)))
        else:
            ops.append("vk %s" % hexs(s[:20]))
    return ops


def corpus_ops(name):
    d = os.path.join(common.VERIF, "corpus", "C19")
    out = []
    if os.path.isdir(d):
        for f in sorted(os.listdir(d)):
            if f.startswith(name) and f.endswith(".ops"):
                out.append((f, open(os.path.join(d, f)).read().split("\n")))
    return out


def monitor_attrpath(ctx, ops, impl):
    """Property oracle on the implementation alone: parse(print(parse s)) is a fixed point
    and never longer than s."""
    n = 0
    reparse = []
    idx = []
    for i, (op, out) in enumerate(zip(ops, impl)):
        w = op.split()
        if w[0] != "parse" or not out.startswith("ok "):
            continue
        f = out.split("] ")
        tail = f[-1].split()
        if tail[0] == "abort":
            continue
        s = bytes.fromhex(w[2]) if w[2] != "-" else b""
        p = bytes.fromhex(tail[0]) if tail[0] != "-" else b""
        if len(p) > len(s) or int(tail[1]) != len(p):
            ctx.violation("unit_attrpath:monitor:printed-longer-or-len-mismatch",
                          "attr_path_to_str(parse(s)) is longer than s or attr_path_len disagrees",
                          {"harness": "unit_attrpath", "ops": [op], "impl_out": [out]})
        reparse.append("parse %s %s" % (w[1], tail[0]))
        idx.append(i)
        n += 1
    return reparse, idx


def run(ctx):
    quick = ctx.tier == "quick"
    exe = common.build_harness("unit_attrmap", ["unit_attrmap.c"],
                               extra_objs_from_repo=["libxcm/core/xcm_attr_map.c", "libxcm/core/attr_path.c",
                                                     "common/util.c"],
                               extra_flags=["-DUT_STD_ASSERT"])
    ctx.rule = ("attrmap: random op histories (add/del/get/typed get/exists/size/foreach/clone/add_all/equal/"
                "destroy) over several maps, small (4 names) and large (150 names) key sets, all five value "
                "types, zero-length and 64 KiB binaries, run on the real xcm_attr_map API under ASan+UBSan and "
                "on the Lean model; attrpath: grammar-generated, mutated, boundary (64/65 components, 255/256 "
                "bytes, strtol corner cases) and random byte strings through attr_path_parse/to_str/len/"
                "equal_str.  non-trivial+distinct = distinct (op, model output) pairs whose output is not "
                "'ok'/'none'/'null'/'0'")
    for name, ops in corpus_ops("attrmap"):
        ctx.differential("unit_attrmap", "attrmap", exe, [o for o in ops if o], impl_args=["attrmap"], label=name)
    for name, ops in corpus_ops("attrpath"):
        ctx.differential("unit_attrpath", "attrpath", exe, [o for o in ops if o], impl_args=["attrpath"], label=name)
    nsess = 40 if quick else 600
    nops = 250 if quick else 400
    for k in range(nsess):
        rng = ctx.rng.fork("attrmap%d" % k)
        ops = gen_attrmap_session(rng, nops, ctx)
        m, il = ctx.differential("unit_attrmap", "attrmap", exe, ops, impl_args=["attrmap"], label="sess%d" % k)
        for o, l in zip(ops, m):
            if l not in ("ok", "none", "0", "[]"):
                ctx.nontriv((o.split()[0], l))
        if k == 0:
            ctx.sample({"harness": "unit_attrmap", "ops": ops[:12], "model_out": m[:12]})
    npath = 6000 if quick else 200000
    rng = ctx.rng.fork("attrpath")
    ops = gen_attrpath_ops(rng, npath, ctx)
    m, il = ctx.differential("unit_attrpath", "attrpath", exe, ops, impl_args=["attrpath"], label="paths")
    for o, l in zip(ops, m):
        if l not in ("null", "0"):
            ctx.nontriv((o, l))
    ctx.sample({"harness": "unit_attrpath", "ops": ops[60:68], "model_out": m[60:68]})
    if len(il) == len(ops):
        re_ops, idx = monitor_attrpath(ctx, ops, il)
        if re_ops:
            rc, out, err = common.run_proc([exe, "attrpath"], "\n".join(re_ops) + "\n")
            ol = out.splitlines()
            ctx.evaluations += len(re_ops)
            for j, (ro, o2) in enumerate(zip(re_ops, ol)):
                o1 = il[idx[j]]
                if o1 != o2:
                    ctx.violation("unit_attrpath:monitor:reparse-differs",
                                  "parsing a printed path does not give an equal path",
                                  {"harness": "unit_attrpath", "ops": [ops[idx[j]], ro], "impl_out": [o1, o2]})
                    break
    ctx.assumptions += ["attribute names and path strings are C strings (no interior NUL)",
                        "heap exhaustion (ut_malloc -> abort) is outside the model"]

    # the attribute tree itself (attr_tree.c / attr_node.c)
    from gen import attrtree as _attrtree
    _attrtree.run_part(ctx, 40 if ctx.tier == "quick" else 1500, label="c19attrtree")
    ctx.rule += " unit_attrtree: the real nested attribute tree (attr_tree.c + attr_node.c + attr_path.c, built with the library\'s own add functions) vs the flat Lean AttrTree model: lookups of existing names, prefixes, kind-confused, out-of-range and malformed names, list lengths and the get-all listing on generated trees."

def replay(path):
    r = json.load(open(path))
    exe = common.build_harness("unit_attrmap", ["unit_attrmap.c"],
                               extra_objs_from_repo=["libxcm/core/xcm_attr_map.c", "libxcm/core/attr_path.c",
                                                     "common/util.c"], extra_flags=["-DUT_STD_ASSERT"])
    comp = r.get("component") or ("attrpath" if "attrpath" in r.get("harness", "") else "attrmap")
    text = "\n".join(r["ops"]) + "\n"
    common.lake_build(["driver"])
    m = common.run_model(comp, text)
    rc, out, err = common.run_proc([exe, comp], text)
    print("model:", *m, sep="\n  ")
    print("impl (rc=%d):" % rc, *out.splitlines(), sep="\n  ")
    if err:
        print(err[-2000:])
    return 0 if m == out.splitlines() and rc == 0 else 1
