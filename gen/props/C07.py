"""C07 - hostile or corrupt wire input cannot harm or mislead the receiver."""
import struct
from gen import common, framing
from gen.common import hexs
from gen.props.C01 import replay as _replay01  # same harness / component

LEAN_MODULE = ["XcmModel.Props.C07", "XcmModel.Props.Funcs"]
THEOREMS = [
    "XcmModel.C07.receive_not_abort", "XcmModel.C07.safeInv_run",
    "XcmModel.C07.C07_bounded_buffer", "XcmModel.C07.refDecode_frames",
    "XcmModel.C07.C07_reference_decoder", "XcmModel.C07.C07_illegal_length_eproto",
    "XcmModel.C07.C07_eproto_sticky",
    "XcmModel.C07btls.C07_btls_handshake_garbage", "XcmModel.C07btls.C07_btls_record_garbage", "XcmModel.C07btls.C07_btls_no_abort",
    "XcmModel.FuncsTie.mbuf_is_hdr_valid_tie", "XcmModel.FuncsTie.mbuf_is_hdr_valid_incomplete",
]


def hostile_stream(rng, ctx):
    """a byte stream: valid frames, then (maybe) something malformed, then more"""
    parts = []
    for _ in range(rng.range(0, 4)):
        parts.append(framing.frame(framing.rand_msg(rng, small=rng.chance(2, 3))))
    k = rng.below(9)
    if k == 0:
        parts.append(b"\0\0\0\0")
        ctx.count("hostile.len0")
    elif k == 1:
        parts.append(struct.pack(">I", 65536) + rng.bytes(20))
        ctx.count("hostile.len65536")
    elif k == 2:
        parts.append(b"\xff\xff\xff\xff" + rng.bytes(8))
        ctx.count("hostile.len_max32")
    elif k == 3:
        parts.append(struct.pack(">I", rng.choice([0x80000000, 0x7fffffff, 0x10000, 0x1000000, 0xffff0000])) + rng.bytes(5))
        ctx.count("hostile.len_big")
    elif k == 4:
        f = framing.frame(framing.rand_msg(rng, small=True))
        parts.append(f[:rng.range(1, len(f) - 1)])          # truncated frame, then EOF
        ctx.count("hostile.truncated")
    elif k == 5:
        parts.append(rng.bytes(rng.range(1, 40)))
        ctx.count("hostile.random")
    elif k == 6:
        parts.append(b"GET / HTTP/1.1\r\nHost: x\r\n\r\n")
        ctx.count("hostile.http")
    else:
        ctx.count("hostile.none")
    for _ in range(rng.range(0, 2)):
        parts.append(framing.frame(framing.rand_msg(rng, small=True)))
    return b"".join(parts)


def gen(rng, ctx):
    ops = ["N"]
    s = hostile_stream(rng, ctx)
    mode = rng.below(4)
    if len(s) > 600 and mode < 2:
        mode = 2                      # byte-by-byte only for short streams (bounded run time)
    # frame boundaries of the well-formed prefix: fine-grained cuts are made around them
    bounds = []
    off = 0
    while off + 4 <= len(s):
        ln = struct.unpack(">I", s[off:off + 4])[0]
        if ln == 0 or ln > 65535 or off + 4 + ln > len(s):
            break
        off += 4 + ln
        bounds.append(off)
    i = 0
    while i < len(s):
        if mode == 0:
            n = 1
        elif mode == 1:
            n = rng.range(1, 3)
        elif mode == 2:
            nxt = min([b for b in bounds if b > i] + [len(s)])
            d = nxt - i
            if d > 24 and i not in bounds and (i - 4) not in bounds:
                n = max(1, min(d - rng.below(8), rng.choice([64, 1000, 4096, 70000])))
            else:
                n = rng.range(1, 4)
        else:
            n = len(s)
        ops.append("A %s" % hexs(s[i:i + n]))
        i += n
        for _ in range(rng.below(3)):
            ops.append("R %d -" % rng.choice([0, 1, 4, 100, 65535]))
        if rng.chance(1, 10):
            ops.append("S %s A" % hexs(rng.bytes(3)))
        if rng.chance(1, 10):
            ops.append("F - ok")
    if rng.chance(1, 2):
        ops.append("Z")
    for _ in range(6):
        ops.append("R 65535 -")
    ops.append("S 0102 A")
    ops.append("F - ok")
    return ops


def garbage_part(ctx):
    """real OpenSSL: garbage instead of / during the TLS handshake on a new connection while an established connection idles
    in the same thread"""
    from gen import systls
    from gen.common import hexs
    exe = systls.build()
    rng = ctx.rng.fork("garb")
    blobs = [b"GET / HTTP/1.1\r\n\r\n", b"\x16\x03\x01\x00\x05\xde\xad\xbe\xef\x00", b"\x00" * 40, b"\xff" * 300,
             b"\x16\x03\x03\xff\xff" + b"A" * 64, b"SSH-2.0-OpenSSH_9.2\r\n", b"\x15\x03\x03\x00\x02\x02\x28"]
    for _ in range(4 if ctx.tier == "quick" else 60):
        blobs.append(rng.bytes(rng.range(1, 400)))
    cmds = ["D a1 rootA -"]
    for proto in ("btls", "tls"):
        for b in blobs:
            for chunk in ((0,) if ctx.tier == "quick" else (0, 1, 7)):
                cmds.append("GARB %s %s %d" % (proto, hexs(b), chunk))
    rc, out, err = systls.run(exe, cmds, ctx, timeout=1500)
    ctx.traces += 1
    if rc != 0 or len(out) != len(cmds):
        ctx.violation("sys_tls:crash:" + common.crash_site(err), "sys_tls died at %r (garbage during the TLS handshake)" % cmds[min(len(out), len(cmds) - 1)][:200],
                      {"harness": "sys_tls", "ops": [cmds[0], cmds[min(len(out), len(cmds) - 1)]], "stderr": err[-3000:]})
        return
    for cmd, il in zip(cmds[1:], out[1:]):
        ctx.evaluations += 1
        rep = {"harness": "sys_tls", "ops": [cmds[0], cmd], "impl_out": il}
        if il.startswith("fail"):
            ctx.corr_break("sys_tls", "%s: %s" % (cmd[:80], il), rep)
            continue
        f = systls.fields(il)
        ctx.nontriv(("garb", cmd.split()[1], f["garbage"]))
        ctx.count("c07.garbage." + f["garbage"])
        if f["garbage"] == "ok":
            ctx.violation("sys_tls:garbage:accepted", "a connection on which the peer sent garbage instead of a TLS handshake became usable: %s" % il, rep)
        elif f["garbage"] not in ("EPROTO", "accept:EPROTO", "none", "EPIPE", "accept:EPIPE", "ECONNRESET", "accept:ECONNRESET"):
            ctx.corr_break("sys_tls", "garbage during the handshake reported as %s" % f["garbage"], rep)
        if not (f["b_acc_recv"] == "EAGAIN" and f["b_cli_recv"] == "EAGAIN" and f["b_acc_finish"] == "ok" and f["c2s"][0] == "1" and f["s2c"][0] == "1"):
            ctx.violation("sys_tls:garbage:harms-other-connection", "garbage received on one connection damaged an established connection served by the same thread: %s" % il, rep)
    ctx.rule += (" sys_tls GARB: real tls/btls servers with real OpenSSL: a raw TCP peer writes garbage (plain-text protocols, broken records, random bytes; "
                 "in one piece, byte by byte, in 7-byte pieces) instead of a handshake while an established connection idles in the same thread: the "
                 "garbage connection must fail (EPROTO), the established one must see EAGAIN and keep working.")


def run(ctx):
    quick = ctx.tier == "quick"
    ctx.rule = ("unit_framing(tcp|tls) receive side against hostile streams: valid frames followed by a header announcing "
                "0 / 65536 / 2^31 / 2^32-1 bytes, truncated frames + EOF, random bytes, plain-text protocols; every stream "
                "in four segmentations (byte by byte, 1-3 bytes, mixed, one piece); real code under ASan+UBSan vs the Lean "
                "model plus the reference-decoder monitor on the implementation's output.  non-trivial+distinct = distinct "
                "(op, model output) pairs other than ok/EAGAIN")
    for variant in ("tcp", "tls"):
        exe = framing.build(variant)
        mon = framing.Monitor(ctx, "unit_framing_" + variant)
        allops = []
        for k in range(250 if quick else 6000):
            rng = ctx.rng.fork("%s%d" % (variant, k))
            allops += gen(rng, ctx)
            if len(allops) > 4000:
                m, il = ctx.differential("unit_framing_" + variant, "framing", exe, allops, label="hostile")
                mon.run(allops, il)
                for o, l in zip(allops, m):
                    if not l.startswith(("ok", "-1 EAGAIN")):
                        ctx.nontriv((o, l))
                if not ctx.samples:
                    ctx.sample({"harness": "unit_framing_" + variant, "ops": allops[:14], "model_out": m[:14]})
                allops = []
        if allops:
            m, il = ctx.differential("unit_framing_" + variant, "framing", exe, allops, label="hostile")
            mon.run(allops, il)
    ctx.assumptions += ["garbage during/instead of the TLS handshake is handled by OpenSSL and xcm_tp_btls.c; it is not part of "
                        "this unit-level check (see the C06/C09 checks and the system harness)",
                        "C-level memory safety only via the model's abort outcome + ASan/UBSan on the sampled runs"]
    garbage_part(ctx)
    from gen import btls as _btls
    _btls.run_part(ctx, 40 if quick else 2000, exhaustive=True)
    ctx.rule += (" unit_btls: the real xcm_tp_btls.c with scripted OpenSSL answers (SSL_ERROR_SSL, SSL_ERROR_SYSCALL with a queued "
                 "error = undecodable input during the handshake or in the record stream) vs the Lean Btls model.")


def replay(path):
    import json
    r = json.load(open(path))
    if r.get("harness") == "unit_btls":
        from gen import btls as _btls
        return _btls.replay(r)
    if r.get("harness") == "sys_tls":
        from gen.props import C09
        return C09.replay(path)
    return _replay01(path)
