"""C04 - the event-loop contract is live: no lost wake-ups, blocking calls return."""
import json
from gen import common, sysattr, api, framing

LEAN_MODULE = ["XcmModel.Props.C04", "XcmModel.Props.Utls", "XcmModel.Props.Timer", "XcmModel.Props.Dns", "XcmModel.Props.Funcs"]
THEOREMS = [
    "XcmModel.C04.C04_pending_flush_is_watched", "XcmModel.C04.C04_idle_asks_nothing_extra",
    "XcmModel.C04.C04_condition_passed_down", "XcmModel.C04.C04_flush_progress", "XcmModel.C04.C04_btcp_wake",
    "XcmModel.C04.C04_connect_phase_watched", "XcmModel.C04.msgBsend_returns", "XcmModel.C04.socketFinish_returns",
    "XcmModel.C04.C04_blocking_send_returns", "XcmModel.C04.C04_nonblocking_single_call",
    "XcmModel.C16.C16_readable_when_met", "XcmModel.C16.C16_active_fd_iff_bell",
    "XcmModel.C04btls.C04_btls_handshake_watched", "XcmModel.C04btls.C04_btls_waiter_has_source", "XcmModel.C04btls.C04_btls_terminal_rings", "XcmModel.C04btls.C04_btls_pending_rings", "XcmModel.C04btls.C04_btls_retained_output_watched",
    "XcmModel.C04ux.C04_ux_each_condition_watched", "XcmModel.C04ux.C04_ux_server_watched",
    "XcmModel.UtlsProps.C04_utls_condition_passed_down", "XcmModel.UtlsProps.C04_utls_server_finish", "XcmModel.UtlsProps.C04_utls_accept_reevaluates_server",
    "XcmModel.C04stack.C04_tcp_stack_registers_output", "XcmModel.C04stack.C04_tcp_stack_wakeup", "XcmModel.C04stack.C04_tls_stack_has_source",
    "XcmModel.C04tp.C04_registrations_refreshed", "XcmModel.C04tp.C04_new_sockets_registered",
    "XcmModel.TimerProps.timer_inv_run", "XcmModel.TimerProps.C04_expired_timer_wakes", "XcmModel.TimerProps.C13_has_expired_implies_readable",
    "XcmModel.DnsProps.dns_inv_run", "XcmModel.DnsProps.C04_dns_deadline_wakes", "XcmModel.DnsProps.C04_dns_completion_rings",
    "XcmModel.FuncsTie.conn_event_tie", "XcmModel.FuncsTie.server_event_tie",
]


def build_loop():
    return common.build_harness("sys_loop", ["sys_loop.c"], link_lib=True, libs=["ssl", "crypto", "cares"], whole=True,
                                ldflags=["-Wl,--wrap=send,--wrap=recv"])


def run(ctx):
    quick = ctx.tier == "quick"
    ctx.rule = ("sys_loop: two applications following the documented protocol to the letter (xcm_await, poll the xcm fd, then the "
                "intended call or xcm_finish) on all seven transports: non-blocking connect/accept/TLS handshake driven by "
                "readiness only, xcm_await called only when the awaited condition changes, messages of 1..65535 bytes (partial writes, "
                "back-pressure), then close; SPEC: the sender keeps condition 0, sends on speculation, awaits SENDABLE only after EAGAIN "
                "and withdraws it before sending again, so its last accepted send is followed by no XCM call; link-time wrappers make "
                "send()/recv() below XCM (and below OpenSSL's BIO) return EAGAIN or short counts in 0/30/60 per cent of the calls "
                "(seeded); DUPLEX: both ends send and receive, awaiting RECEIVABLE (unless pausing) plus SENDABLE while output is owed, one call per "
                "wake-up, random reading pauses so that output is blocked while input arrives; a watchdog reports a stall when work is owed and no fd has been readable for 4 s; the blocking forms "
                "(xcm_connect, xcm_accept, xcm_send, xcm_receive) run in threads under the same faults with a join timeout. "
                "sys_quiet RONLY: after xcm_send reported EAGAIN the sender only awaits RECEIVABLE and answers wake-ups with xcm_receive; everything accepted must reach the reading peer. "
                "unit_api/unit_framing: the update/flush model lines of C02/C03/C16 are re-run. distinct = (transport, fault rate, outcome)")
    # model ties that C04's theorems rest on (cheap re-runs)
    aexe = api.build()
    ops = []
    for k in range(60 if quick else 2000):
        ops += api.gen_history(ctx.rng.fork("api%d" % k), 25, ctx)
    m, il = ctx.differential("unit_api", "api", aexe, ops, label="api")
    api.Monitor(ctx).run(ops, il)
    for variant in ("tcp", "tls"):
        fexe = framing.build(variant)
        fops = []
        for k in range(20 if quick else 500):
            fops += framing.gen_history(ctx.rng.fork("f%s%d" % (variant, k)), 100, ctx, errs=False, small=True)
        ctx.differential("unit_framing_" + variant, "framing", fexe, fops, label="framing")
    exe = build_loop()
    cmds = []
    seeds = range(1) if quick else range(12)
    for proto in sysattr.PROTOS:
        for rate in ((0, 40) if quick else (0, 30, 60)):
            for sd in seeds:
                cmds.append("LOOP %s %d %d %d" % (proto, 24 if quick else 64, rate, ctx.vseed * 1000 + sd * 10 + rate))
        for rate in ((0, 40) if quick else (0, 30, 60)):
            for sd in seeds:
                cmds.append("SPEC %s %d %d %d" % (proto, 24 if quick else 64, rate, ctx.vseed * 1000 + sd * 10 + rate + 2))
        for rate in ((0, 40) if quick else (0, 30, 60)):
            for sd in seeds:
                cmds.append("DUPLEX %s %d %d %d" % (proto, 24 if quick else 64, rate, ctx.vseed * 1000 + sd * 10 + rate + 3))
        for rate in ((40,) if quick else (0, 40)):
            for sd in seeds:
                cmds.append("BLOCK %s %d %d %d" % (proto, 16 if quick else 48, rate, ctx.vseed * 1000 + sd * 10 + rate + 1))
    rc, out, err = sysattr.run(exe, cmds, ctx, timeout=1500)
    ctx.traces += 1
    for c, o in zip(cmds, out):
        ctx.evaluations += 1
        rep = {"harness": "sys_loop", "ops": [c], "impl_out": o}
        w = c.split()
        if o.startswith("fail"):
            ctx.corr_break("sys_loop", "%s: %s" % (c, o), rep)
            continue
        f = dict(x.split("=", 1) for x in o.split()[1:])
        ctx.nontriv((w[0], w[1], w[3], o.split(" t=")[0].split(" iter=")[0]))
        ctx.count("%s.%s" % (w[0].lower(), w[1]))
        ctx.count("injected_eagain", int(f.get("eagain", 0)))
        ctx.count("injected_short", int(f.get("short", 0)))
        if w[0] == "DUPLEX":
            if f["stall"] != "0":
                ctx.violation("sys_loop:monitor:stall:%s:duplex" % w[1], "the full-duplex event loop stalled on %s: work was owed but no xcm fd became readable (%s)" % (w[1], o), rep)
            elif f["failed"] != "-":
                ctx.violation("sys_loop:monitor:failed:%s:duplex" % w[1], "a full-duplex connection that was never disturbed beyond EAGAIN/short counts failed: %s" % o, rep)
            elif not (f["complete"] == "1" and f["bad"] == "0"):
                ctx.violation("sys_loop:monitor:incomplete:%s:duplex" % w[1], "full duplex: not every accepted message was delivered intact: %s" % o, rep)
            continue
        if w[0] in ("LOOP", "SPEC"):
            if f["stall"] != "0":
                ctx.violation("sys_loop:monitor:stall:%s%s" % (w[1], ":spec" if w[0] == "SPEC" else ""),
                              "the event loop stalled on %s: work was owed but no xcm fd became readable (%s)" % (w[1], o), rep)
            elif f["failed"] != "-" and f["complete"] == "1" and f["bad"] == "0" and f["failed"].endswith("receive") and w[1] in ("tls", "btls", "utls") and w[3] != "0":
                # everything was delivered; the peer's close arrived as a non-orderly TLS close (its close_notify was refused by an
                # injected EAGAIN - xcm_close does not wait): the terminal condition IS reported, which is what C04 asks for
                ctx.count("tls_close_reported_as_error")
            elif f["failed"] != "-":
                ctx.violation("sys_loop:monitor:failed:%s" % w[1], "a connection that was never disturbed beyond EAGAIN/short counts failed: %s" % o, rep)
            elif not (f["complete"] == "1" and f["bad"] == "0" and f["close_seen"] == "1"):
                ctx.violation("sys_loop:monitor:incomplete:%s" % w[1], "not every accepted message / the close was delivered: %s" % o, rep)
        else:
            got, want = f["got"].split("/")
            if f["hung"] != "0":
                ctx.violation("sys_loop:monitor:blocking-call-hung:%s" % w[1], "a blocking call did not return within 40 s although its event happened: %s" % o, rep)
            elif got == want and f["bad"] == "0" and f["err"].endswith("receive") and w[1] in ("tls", "btls", "utls") and w[3] != "0":
                ctx.count("tls_close_reported_as_error")
            elif f["err"] != "-" or got != want or f["bad"] != "0" or f["close_seen"] != "1":
                ctx.violation("sys_loop:monitor:blocking-incomplete:%s" % w[1], "blocking mode: %s" % o, rep)
    if rc != 0 and len(out) < len(cmds):
        at = cmds[len(out) - 1] if out else cmds[0]
        if not any(v["signature"].startswith("sys_loop:monitor:blocking-call-hung") for v in ctx.violations):
            ctx.violation("sys_loop:crash:" + common.crash_site(err), "sys_loop died at %r" % cmds[min(len(out), len(cmds) - 1)],
                          {"harness": "sys_loop", "ops": [cmds[min(len(out), len(cmds) - 1)]], "stderr": err[-3000:]})
    ctx.sample({"harness": "sys_loop", "cmds": cmds[:3], "impl_out": out[:3]}, cap=8)
    # an application that, after back-pressure, only ever receives: accepted output must still get out
    from gen.props import C16 as _c16
    qexe = _c16.build_quiet()
    qcmds = ["RONLY " + p for p in sysattr.PROTOS] * (1 if quick else 4)
    rc, qout, err = sysattr.run(qexe, qcmds, ctx, timeout=600)
    ctx.traces += 1
    for c, o in zip(qcmds, qout):
        ctx.evaluations += 1
        rep = {"harness": "sys_quiet", "ops": [c], "impl_out": o}
        if o.startswith("fail") or "refused=" not in o:
            ctx.corr_break("sys_quiet", "%s: %s" % (c, o), rep)
            continue
        f = dict(x.split("=") for x in o.split())
        ctx.nontriv((c, f["refused"], f["accepted"] == f["delivered"]))
        ctx.count("ronly." + c.split()[1])
        if f["refused"] == "1" and f["rerr"] == "0" and f["accepted"] != f["delivered"]:
            ctx.violation("sys_quiet:monitor:accepted-output-stuck:receive-only:%s" % c.split()[1],
                          "output that xcm_send accepted was never delivered although the sender followed the fd protocol (awaiting RECEIVABLE, "
                          "answering every wake-up with xcm_receive) and the peer read for 4 s: %s" % o, rep)
    if rc != 0 and len(qout) < len(qcmds):
        ctx.violation("sys_quiet:crash:" + common.crash_site(err), "sys_quiet died at %r" % qcmds[min(len(qout), len(qcmds) - 1)],
                      {"harness": "sys_quiet", "ops": [qcmds[min(len(qout), len(qcmds) - 1)]], "stderr": err[-3000:]})
    ctx.assumptions += ["K-epoll and K-progress: a socket reported writable accepts at least one byte; bytes in flight become readable",
                        "the injected faults are EAGAIN and short counts only (what a kernel may answer); resets are C06's subject",
                        "real-time bounds are measured (watchdog 4 s), not proved"]
    # ux/uxf: what conn_event / server_event register for every awaited condition (exhaustive)
    from gen import ux as _ux
    uexe = _ux.build()
    uops = ["N"] + ["U %d" % c for c in range(8)] + ["SU %d" % c for c in range(8)]
    um, _ = ctx.differential("unit_ux", "ux", uexe, uops, label="ux-update-exhaustive")
    for o2, l2 in zip(uops, um):
        ctx.nontriv(("ux-update", o2, l2))
    ctx.rule += " unit_ux: the registrations the real xcm_tp_ux.c makes for every awaited condition (conn and server), exhaustively, vs the Ux model."
    # utls: the condition reaches the sub-socket(s) that can make it true
    from gen import utls as _utls
    _utls.run_part(ctx, 30 if quick else 1500, label="c04utls")
    ctx.rule += " unit_utls: update / finish / accept of the real xcm_tp_utls.c over logging sub-transports vs the Lean Utls model."
    # the dispatch layer xcm_tp.c against the Lean Tp model
    from gen import tp as _tp
    texe = _tp.build()
    tops = _tp.exhaustive()
    for k in range(60 if ctx.tier == "quick" else 1500):
        tops += _tp.gen_history(ctx.rng.fork("tp%d" % k), 40, ctx)
    m, il = ctx.differential("unit_tp", "tp", texe, tops, label="tp")
    _tp.Monitor(ctx).run(tops, il)
    for o2, l2 in zip(tops, m):
        ctx.nontriv(("tp", o2, l2.split("|")[1]))
    ctx.rule += (" unit_tp: the real xcm_tp.c wrappers over a logging transport: the trace of transport calls (operation, control "
                 "interface, update) for every answer kind x operation x auto_update/auto_enable_ctl, exhaustively and in random histories "
                 "long enough to cross the 256-call control threshold, compared with the Lean Tp model; monitor: update is the last call.")
    # the TLS connection machine (xcm_tp_btls.c) against the Lean Btls model, with its monitors
    from gen import btls as _btls
    _btls.run_part(ctx, 10 if ctx.tier == "quick" else 300, exhaustive=True)
    ctx.rule += (" unit_btls: the real xcm_tp_btls.c with scripted OpenSSL answers vs the Lean Btls model: every OpenSSL event x first observer x state x verdict, conn_update for every reachable (state, ssl_condition, ssl_wants) x condition x SSL_has_pending, seeded random histories; stickiness/discoverer/rc-range/gating monitors.")

    # the timer manager behind connect timeouts, the Happy Eyeballs delay and dns.timeout
    from gen import timer as _timer
    _timer.run_part(ctx, 40 if ctx.tier == "quick" else 1500, label="c04timer")
    ctx.rule += " unit_timer: the real timer_mgr.c (scripted clock, recorded timerfd_settime, K-timerfd probed on the real kernel) vs the Lean TimerMgr model on every short two-user history and on random histories with stale ids; monitor: the timerfd is always armed at the earliest live deadline, ids are never reused, a cancel removes exactly the timer named."
    # the asynchronous resolver front end on top of the timer manager
    from gen import dnsq as _dnsq
    _dnsq.run_part(ctx, 60 if ctx.tier == "quick" else 2500, label="c04dnsq")
    ctx.rule += " unit_dnsq: the real xcm_dns_cares.c over the real timer_mgr.c with c-ares scripted (callback kind, descriptor set, timeout per call), clock scripted, timerfd and xpoll calls recorded, vs the Lean DnsQuery model: state, channel registrations, timer ids, timerfd setting, timer list, result and tries after every call, for every (dns.timeout, synchronous answer, later answer, time relative to the deadline) combination and random histories; monitor: deadline honoured and not anticipated, completion sticky and rung, no registration left, failure ladders leave nothing."

def replay(path):
    r = json.load(open(path))
    if r.get("harness") == "unit_tp":
        from gen import tp as _tp
        text = "\n".join(r["ops"]) + "\n"
        common.lake_build(["driver"])
        m = common.run_model("tp", text)
        rc, out, err = common.run_proc([_tp.build()], text)
        print("model:", *m, sep="\n  ")
        print("impl (rc=%d):" % rc, *out.splitlines(), sep="\n  ")
        return 0 if m == out.splitlines() and rc == 0 else 1
    if r.get("harness") == "unit_btls":
        from gen import btls as _btls
        return _btls.replay(r)
    if r.get("harness") == "unit_ux":
        from gen.props import C16
        return C16.replay(path)
    if r.get("harness") == "sys_quiet":
        from gen.props.C16 import replay as r16
        return r16(path)
    if r.get("harness") == "sys_loop":
        class C:
            rundir = common.RUN + "/replay"
        rc, out, err = sysattr.run(build_loop(), r["ops"], C, timeout=300)
        print("impl (rc=%d):" % rc, *out, sep="\n  ")
        return 0
    from gen.props.C05 import replay as r5
    return r5(path)
