"""C10 - attribute reads and writes are memory-safe and type-checked."""
import json
from gen import common, sysattr
from gen.sysattr import FIXED, hexn

LEAN_MODULE = ["XcmModel.Props.C10", "XcmModel.Props.Funcs", "XcmModel.Props.AttrTree"]
THEOREMS = [
    "XcmModel.C10.C10_table_safe", "XcmModel.C10.nodeGet_good", "XcmModel.C10.C10_get_within_capacity",
    "XcmModel.C10.C10_rc_is_written", "XcmModel.C10.C10_typed_within_capacity",
    "XcmModel.C10.C10_overflow_reported", "XcmModel.C10.C10_fits_returned",
    "XcmModel.C10.C10_set_rejects_without_effect", "XcmModel.C10.C10_names_total",
    "XcmModel.FuncsTie.valid_set_attr_len_tie",
    "XcmModel.FuncsTie.is_special_tie",
    "XcmModel.AttrTreeProps.lookup_add_value_same", "XcmModel.AttrTreeProps.lookup_add_unrelated", "XcmModel.AttrTreeProps.listed_is_found", "XcmModel.AttrTreeProps.found_is_listed", "XcmModel.AttrTreeProps.walk_found_is_listed",
]

CAP_APIS = ["get", "get_notype", "getf", "str", "bin", "getf_str", "getf_bin"]
FIX_APIS = {"bool": 1, "int64": 8, "double": 8, "getf_bool": 1, "getf_int64": 8, "getf_double": 8}
SOCKS = ["server", "client", "accepted", "connecting"]
TYPES = ["bool", "int64", "double", "str", "bin"]


def caps_for(size, thorough):
    if thorough and size <= 64:
        return list(range(0, size + 3))
    c = {0, 1, 2, 7, 8, 9, max(0, size - 1), size, size + 1, size + 2, 4096}
    if thorough:
        c |= set(range(0, 12)) | {size // 2, 255, 256}
    return sorted(c)


def model_line(api, row, typ, cur, cap):
    kind = row["kind"].replace(" ", ":") if row else "unknown"
    w = "1" if (row and row["writable"]) else "0"
    look = "V %s %s %s %s" % (typ, kind, w, cur)
    if api in ("get", "get_notype", "getf"):
        return "G get %s %d" % (look, cap)
    if api in ("str", "bin"):
        return "G strbin %s %d %s" % (look, cap, api)
    req = api.replace("getf_", "")
    return "G typed %s %d %s" % (look, FIX_APIS.get(api, cap), req)


def run(ctx):
    thorough = ctx.tier != "quick"
    exe = sysattr.build()
    rows, by = sysattr.table()
    ctx.rule = ("sys_attr: live sockets of ux, uxf, tcp, tls, utls, btcp, btls (server, connected client, accepted, a second "
                "client left in its connect phase, and the client after its peer closed); for EVERY attribute listed by "
                "xcm_attr_get_all and every name of the extracted attribute table, every access function (xcm_attr_get with and "
                "without type pointer, _get_str/_bin/_bool/_int64/_double, xcm_attr_getf and its typed forms) x capacities "
                "{0..size+2} (thorough: all; quick: boundary set) into canary-framed buffers filled twice with different patterns, "
                "so bytes written and bytes beyond capacity are measured; rc/errno/written compared with the Lean model "
                "(treeGet/getWithType/getStrBin on the row's getter kind); sets: every name x every type x lengths "
                "{0,1,7,8,9,..} incl. unknown names and invalid type numbers, compared with treeSet; malformed/overlong names. "
                "distinct_nontrivial = distinct (transport, socket, attribute, api, capacity-class, outcome)")
    total_beyond = 0
    for proto in sysattr.PROTOS:
        # pass 1: listings
        cmds = ["E " + proto, "C " + proto] + ["L " + s for s in SOCKS]
        rc, out, err = sysattr.run(exe, cmds + ["X"], ctx)
        if rc != 0 or not out or out[0] != "ok":
            ctx.corr_break("sys_attr", "cannot establish %s: %s %s" % (proto, out[:2], err[-500:]), {"ops": cmds})
            continue
        lists = {}
        for s, l in zip(SOCKS, out[2:6]):
            if l.startswith("attrs"):
                lists[s] = sysattr.listing(l)
        # pass 2: gets
        cmds = ["E " + proto, "C " + proto]
        meta = []
        for s, attrs in lists.items():
            listed = {a[0] for a in attrs}
            names = list(attrs) + [(r["name"].replace("[]", "[0]"), r["type"], None) for r in rows
                                   if r["name"].replace("[]", "[0]") not in listed]
            seen = set()
            for name, typ, size in names:
                if name in seen:
                    continue
                seen.add(name)
                row = sysattr.row_of(by, name)
                for cap in caps_for(size if size is not None else 8, thorough):
                    for api in CAP_APIS:
                        cmds.append("G %s %s %s %d" % (s, hexn(name), api, cap))
                        meta.append((s, name, typ, size, api, cap, row))
                for api, n in FIX_APIS.items():
                    cmds.append("G %s %s %s %d" % (s, hexn(name), api, n))
                    meta.append((s, name, typ, size, api, n, row))
        # closed-peer phase: the client after the accepted side went away
        rc, out, err = sysattr.run(exe, cmds + ["X"], ctx, timeout=900)
        res = out[2:2 + len(meta)]
        if rc != 0 or len(res) != len(meta):
            sig = "sys_attr:crash:" + common.crash_site(err)
            ctx.violation(sig, "attribute access crashed the process (%s)" % proto,
                          {"harness": "sys_attr", "ops": cmds[:2] + cmds[2 + max(0, len(res) - 1):2 + len(res) + 1], "stderr": err[-3000:]})
            continue
        model_in, model_idx = [], []
        for i, (m, r) in enumerate(zip(meta, res)):
            s, name, typ, size, api, cap, row = m
            f = r.split()
            rcv, errn, written, beyond = int(f[0]), f[1], int(f[2]), int(f[3])
            ctx.evaluations += 1
            ctx.count("get.%s" % api)
            capclass = "lt" if (size is not None and cap < size) else "eq" if cap == size else "gt"
            ctx.nontriv((proto, s, name, api, capclass, rcv if rcv < 0 else "ok", errn))
            rep = {"harness": "sys_attr", "proto": proto, "ops": ["E " + proto, "C " + proto, cmds[2 + i]], "impl_out": r}
            if beyond:
                total_beyond += 1
                ctx.violation("sys_attr:monitor:write-beyond-capacity:%s" % api,
                              "%s(%s) on a %s %s socket with capacity %d wrote outside the caller's buffer (rc=%d %s, highest byte written %d)"
                              % (api, name, proto, s, cap, rcv, errn, written), rep)
            if rcv >= 0 and written > rcv:
                ctx.violation("sys_attr:monitor:rc-less-than-written:%s" % api,
                              "%s(%s) returned %d but wrote %d bytes" % (api, name, rcv, written), rep)
            if size is not None and "unstable" not in r:
                model_in.append(model_line(api, row, typ, size, cap))
                model_idx.append(i)
            elif size is None and cap >= 8 and rcv < 0 and "unstable" not in r:
                pass
        if model_in:
            mo = common.run_model("attracc", "\n".join(model_in) + "\n")
            ctx.traces += 1
            for mi, ml in zip(model_idx, mo):
                s, name, typ, size, api, cap, row = meta[mi]
                f = res[mi].split()
                impl = "%s %s %s" % (f[0], f[1], f[2])
                # the model's `written` is an upper bound on success paths that copy a value whose
                # leading bytes happen to equal nothing: compare rc and errno exactly, written exactly
                if impl != ml:
                    kindtxt = row["kind"] if row else "?"
                    rep = {"harness": "sys_attr", "proto": proto, "ops": ["E " + proto, "C " + proto, cmds[2 + mi]],
                           "model_in": model_in[model_idx.index(mi)], "model_out": ml, "impl_out": res[mi]}
                    if f[3] == "1" or (f[0] != ml.split()[0] or f[1] != ml.split()[1]):
                        ctx.violation("sys_attr:diff:get:%s:%s" % (api, kindtxt.split()[0]),
                                      "%s(%s, capacity %d) on %s/%s: model (rc errno written) %r, implementation %r"
                                      % (api, name, cap, proto, s, ml, impl), rep)
                    else:
                        ctx.corr_break("sys_attr", "written count differs for %s(%s, cap %d): model %r impl %r" % (api, name, cap, ml, impl), rep)
        if not ctx.samples:
            ctx.sample({"harness": "sys_attr", "proto": proto, "cmd": cmds[2:6], "impl_out": res[:4], "model_in": model_in[:4]})
        # pass 3: sets (on a fresh trio; accepted sets are not undone - the run ends afterwards)
        run_sets(ctx, exe, proto, lists, rows, by, thorough)
        if ctx.over_budget():
            ctx.notes.append("budget reached after %s" % proto)
            break
    run_names(ctx, exe)
    ctx.dist["writes_beyond_capacity"] = total_beyond
    ctx.exhaustive = False
    ctx.assumptions += ["attribute values are abstracted to their size; the kernel/OpenSSL provide the values",
                        "C-level memory safety is observed (canaries + ASan), not proved"]


def set_values(typ, thorough):
    vals = {
        "bool": ["01", "00"], "int64": ["0300000000000000", "ffffffffffffffff"],
        "double": ["000000000000e03f"], "str": ["61627900", "00"], "bin": ["-", "010203"],
    }[typ]
    bad_len = {"bool": ["-", "0100"], "int64": ["01", "00000000000000", "010000000000000000"],
               "double": ["00000000", "010000000000000000"], "str": ["-"], "bin": []}[typ]
    return vals if not thorough else vals, bad_len


def run_sets(ctx, exe, proto, lists, rows, by, thorough):
    cmds = ["E " + proto, "C " + proto]
    meta = []
    for s, attrs in lists.items():
        listed = {a[0]: a for a in attrs}
        names = list(listed) + ["no.such.attr", "xcm", "xcm.blocking.x"]
        if "tls.peer.cert.san.dns[0]" in listed:
            names += ["tls.peer.cert.san.dns", "tls.peer.cert.san.dns[7]", "tls.peer"]
        for name in names:
            row = sysattr.row_of(by, name)
            for typ in TYPES:
                good, bad = set_values(typ, thorough)
                if name == "xcm.blocking":
                    good = ["00"]      # setting it to true is a request to block (C04), not an attribute-safety case
                for v in bad + good[:1 if not thorough else 2]:
                    cmds.append("T %s %s %s %s" % (s, hexn(name), typ, v))
                    meta.append((s, name, typ, v, row, listed.get(name)))
            if thorough or name in ("xcm.blocking", "no.such.attr", names[0]):
                # a type value outside enum xcm_attr_type: a wrong type like any other (EINVAL), never an abort (F-10d)
                cmds.append("T %s %s 9 01" % (s, hexn(name)))
                meta.append((s, name, "9", "01", row, listed.get(name)))
    rc, out, err = sysattr.run(exe, cmds + ["X"], ctx, timeout=900)
    res = out[2:2 + len(meta)]
    if rc != 0 or len(res) != len(meta):
        bad = cmds[2 + len(res)] if 2 + len(res) < len(cmds) else "?"
        ctx.violation("sys_attr:crash:set:" + common.crash_site(err), "xcm_attr_set crashed the process (%s): %s" % (proto, bad),
                      {"harness": "sys_attr", "ops": cmds[:2] + [bad], "stderr": err[-3000:]})
        return
    model_in = []
    for (s, name, typ, v, row, lst) in meta:
        ln = 0 if v == "-" else len(v) // 2
        if lst is not None and row is not None:
            look = "V %s %s %s %d" % (lst[1], row["kind"].replace(" ", ":"), "1" if writable(row, by, s, name) else "0", lst[2])
        elif name in ("xcm", "tls.peer.cert.san.dns", "tls.peer"):
            look = "NV"
        else:
            look = "NF"
        model_in.append("T %s %s %d" % (look, typ, ln))
    mo = common.run_model("attracc", "\n".join(model_in) + "\n")
    ctx.traces += 1
    for m, r, ml, mi in zip(meta, res, mo, model_in):
        s, name, typ, v, row, lst = m
        f = r.split()
        rcv, errn, changed, rb = int(f[0]), f[1], int(f[2]), int(f[3])
        ctx.evaluations += 1
        ctx.count("set.%s" % ("ok" if rcv == 0 else errn))
        ctx.nontriv((proto, s, name, typ, len(v), rcv, errn))
        rep = {"harness": "sys_attr", "proto": proto, "ops": ["E " + proto, "C " + proto, "T %s %s %s %s" % (s, hexn(name), typ, v)],
               "model_in": mi, "model_out": ml, "impl_out": r}
        if rcv < 0 and changed:
            ctx.violation("sys_attr:monitor:rejected-set-changed-state",
                          "xcm_attr_set(%s, type %s, len %d) on %s/%s failed with %s but the socket's visible attributes changed"
                          % (name, typ, len(v) // 2 if v != "-" else 0, proto, s, errn), rep)
        if ml.startswith("rejected"):
            exp = ml.split()[1]
            if not (rcv < 0 and errn == exp):
                ctx.violation("sys_attr:diff:set:%s" % exp,
                              "xcm_attr_set(%s, type %s, len %d) on %s/%s: model rejects with %s, implementation rc=%d %s"
                              % (name, typ, len(v) // 2 if v != "-" else 0, proto, s, exp, rcv, errn), rep)
        elif rcv < 0 and errn not in ("EACCES", "EINVAL", "ENOENT", "EPROTO", "ENOTSUP", "EOPNOTSUPP", "EBADF", "ENOPROTOOPT", "EISCONN"):
            ctx.violation("sys_attr:monitor:set-unexpected-errno", "setter of %s failed with undocumented errno %s" % (name, errn), rep)


def writable(row, by, sock, name):
    # xcm.local_addr is RW on connections and RO on servers (two rows, same name)
    if name == "xcm.local_addr":
        return sock != "server"
    return row["writable"]


def run_names(ctx, exe):
    """malformed / overlong attribute names through get and set: no crash, EINVAL/ENOENT only"""
    rng = ctx.rng.fork("names")
    names = ["", ".", "..", "a.", ".a", "a..b", "[", "]", "[0]", "a[", "a[]", "a[-1]", "a[0", "a[0]b", "a[0][0]",
             "a[99999999999999999999]", "xcm.blocking.", "xcm..blocking", "a" * 255, "a" * 256, "a" * 257, "a" * 5000,
             "a" + "[0]" * 64, "a" + "[0]" * 65, "a" + "[0]" * 84, "a" + "[0]" * 85, ".".join("a" * 1 for _ in range(128)),
             ".".join("b" for _ in range(127)), "a.b" + "[1]" * 70, "x" + ".y" * 63, "x" + ".y" * 64, "x" + ".y" * 65]
    for _ in range(60 if ctx.tier == "quick" else 600):
        n = rng.range(1, 300)
        alphabet = "ab.[]019-" if rng.chance(2, 3) else "ab[]."
        names.append("".join(rng.choice(alphabet) for _ in range(n)))
    cmds = ["E tcp"]
    meta = []
    for nm in names:
        for s in ("client", "server"):
            cmds.append("G %s %s get 64" % (s, hexn(nm)))
            meta.append(("G", nm))
            cmds.append("T %s %s bool 01" % (s, hexn(nm)))
            meta.append(("T", nm))
    rc, out, err = sysattr.run(exe, cmds + ["X"], ctx)
    res = out[1:1 + len(meta)]
    ctx.evaluations += len(res)
    if rc != 0 or len(res) != len(meta):
        bad = cmds[1 + len(res)] if 1 + len(res) < len(cmds) else "?"
        ctx.violation("sys_attr:crash:name:" + common.crash_site(err), "a malformed attribute name crashed the process: %s" % bad[:200],
                      {"harness": "sys_attr", "ops": ["E tcp", bad], "stderr": err[-3000:]})
        return
    # model: attr_path_parse decides EINVAL vs ENOENT
    mo = common.run_model("attrpath", "\n".join("parse 1 %s" % hexn(nm) for _, nm in meta) + "\n")
    for (k, nm), r, ml in zip(meta, res, mo):
        f = r.split()
        ctx.nontriv(("name", k, nm[:40], f[0], f[1]))
        exp = "EINVAL" if ml == "null" else None
        if int(f[0]) >= 0 and nm not in ("xcm.blocking",):
            ctx.violation("sys_attr:monitor:bogus-name-accepted", "access to the non-existent attribute %r succeeded" % nm[:80],
                          {"harness": "sys_attr", "ops": ["E tcp", "%s client %s" % (k, hexn(nm))], "impl_out": r})
        elif exp and f[1] != exp:
            ctx.violation("sys_attr:diff:name", "name %r: the path model rejects it (EINVAL), implementation reports %s" % (nm[:80], f[1]),
                          {"harness": "sys_attr", "ops": ["E tcp", "%s client %s" % (k, hexn(nm))], "impl_out": r})
        elif not exp and f[1] not in ("ENOENT", "EACCES"):
            ctx.violation("sys_attr:diff:name", "name %r parses but implementation reports %s" % (nm[:80], f[1]),
                          {"harness": "sys_attr", "ops": ["E tcp", "%s client %s" % (k, hexn(nm))], "impl_out": r})

    # the attribute tree itself (attr_tree.c / attr_node.c)
    from gen import attrtree as _attrtree
    _attrtree.run_part(ctx, 40 if ctx.tier == "quick" else 1500, label="c10attrtree")
    ctx.rule += " unit_attrtree: the real nested attribute tree (attr_tree.c + attr_node.c + attr_path.c, built with the library\'s own add functions) vs the flat Lean AttrTree model: lookups of existing names, prefixes, kind-confused, out-of-range and malformed names, list lengths and the get-all listing on generated trees."

def replay(path):
    r = json.load(open(path))
    exe = sysattr.build()

    class C:
        rundir = common.RUN + "/replay"
    rc, out, err = sysattr.run(exe, r["ops"] + ["X"], C)
    print("impl (rc=%d):" % rc, *out, sep="\n  ")
    if "model_in" in r:
        common.lake_build(["driver"])
        print("model:", *common.run_model("attracc", r["model_in"] + "\n"), sep="\n  ")
    if err:
        print(err[-2000:])
    return 0
