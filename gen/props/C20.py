"""C20 - xcmrelay is transparent."""
import json
from gen import common, relay, sysattr

LEAN_MODULE = "XcmModel.Props.C20"
THEOREMS = [
    "XcmModel.C20.active_finv", "XcmModel.C20.active_minv", "XcmModel.C20.step_rinv", "XcmModel.C20.step_cinv",
    "XcmModel.C20.C20_forwarder_exact", "XcmModel.C20.C20_messages_preserved", "XcmModel.C20.C20_eof_only_when_empty",
    "XcmModel.C20.C20_awaits_what_it_needs", "XcmModel.C20.C20_close_after_flush", "XcmModel.C20.step_not_live",
]
MSG = ["ux", "uxf", "tcp", "tls", "utls"]
BS = ["btcp", "btls"]


def run(ctx):
    quick = ctx.tier == "quick"
    ctx.rule = ("unit_relay: the real tools/xcmrelay/xrelay.c with scripted XCM calls and libevent: random sequences of fd events to "
                "either forwarder with every answer (message/bytes, accepted, partially accepted, EAGAIN, EOF, EPIPE/ECONNRESET, other "
                "errors); the XCM call made, the data offered to xcm_send, the awaited conditions and buffer lengths are compared with the "
                "Lean Relay model line by line.  sys_relay: the real relay (rserver.c + xrelay.c from the working tree) runs its libevent "
                "loop in a thread; 2-6 concurrent client connections and a backend, every pair of transports of equal service type, "
                "messages of 2..65000 bytes in both directions at once, sides that stop reading for a while, either side closing right "
                "after its last message; send()/recv() in the relay thread return EAGAIN / short counts (seeded), optionally followed by "
                "30 ms of EAGAIN (a full socket buffer); oracle: per connection and direction the received sequence equals the sent "
                "one, the close is seen only after the last message, the relay keeps serving (a fresh connection works afterwards).")
    try:
        uexe = relay.build_unit()
    except common.BuildError as ex:
        # the scripted-environment harness no longer fits the source: the correspondence is broken; the system runs below still search
        ctx.corr_break("unit_relay", "unit_relay does not build against the working tree: %s" % str(ex)[-600:], {"harness": "unit_relay", "ops": []})
        uexe = None
    ops = []
    for k in range((150 if quick else 6000) if uexe else 0):
        ops += relay.gen_history(ctx.rng.fork("ur%d" % k), 60, ctx)
        if len(ops) > 6000:
            m, il = ctx.differential("unit_relay", "relay", uexe, ops, label="relay")
            for o, l in zip(ops, m):
                ctx.nontriv(("relay", o.split()[0], l.split("|")[0][:40]))
            if not ctx.samples:
                ctx.sample({"harness": "unit_relay", "ops": ops[:10], "model_out": m[:10]})
            ops = []
        if ctx.over_budget():
            break
    if ops:
        m, il = ctx.differential("unit_relay", "relay", uexe, ops, label="relay")
        if not ctx.samples:
            ctx.sample({"harness": "unit_relay", "ops": ops[:10], "model_out": m[:10]})
    exe = relay.build()
    cmds = []
    rng = ctx.rng.fork("sysrelay")
    pairs = [(a, b) for a in MSG for b in MSG] + [(a, b) for a in BS for b in BS]
    for i, (a, b) in enumerate(pairs):
        for sd in range(1 if quick else 6):
            if quick and i % 3 != ctx.seed % 3 and (a, b) not in (("tcp", "tcp"), ("tcp", "ux"), ("btcp", "btcp")):
                continue
            inj = rng.choice([0, 30, 50])
            mode = rng.below(8)
            cmds.append("RELAY %s %s %d %d %d %d %d" % (a, b, rng.range(2, 7) if not quick else rng.range(2, 4), 20 if quick else 50,
                                                         ctx.vseed * 1000 + i * 10 + sd, inj, mode))
    # fixed cases in which a closing side's last message needs several writable wake-ups of the other leg to drain (injected
    # short writes followed by 30 ms of EAGAIN): the drain must keep being driven until it is done
    cmds += ["RELAY ux tls 2 50 1031 50 6", "RELAY uxf tcp 4 50 1072 50 7", "RELAY tcp tls 3 50 1135 50 4"]
    rc, res, err = relay.run(exe, cmds, ctx, timeout=3000)
    ctx.traces += 1
    if rc != 0 or len(res) != len(cmds):
        at = cmds[min(len(res), len(cmds) - 1)]
        ctx.violation("sys_relay:crash:" + common.crash_site(err), "sys_relay died / hung at %r" % at, {"harness": "sys_relay", "ops": [at], "stderr": err[-3000:]})
        return
    for cmd, (line, detail) in zip(cmds, res):
        ctx.evaluations += 1
        w = cmd.split()
        rep = {"harness": "sys_relay", "ops": [cmd], "impl_out": line, "detail": detail}
        if line.startswith("fail"):
            ctx.corr_break("sys_relay", "%s: %s" % (cmd, line), rep)
            continue
        f = dict(x.split("=", 1) for x in line.split())
        ctx.count("relay.%s-%s" % (w[1], w[2]))
        ctx.count("relay.injected", int(f["eagain"]) + int(f["short"]))
        ctx.nontriv((w[1], w[2], w[7], f["lost"] != "0", f["errors"] != "0"))
        stall = int(w[7]) & 4
        tls_leg = w[1] in ("tls", "btls", "utls") or w[2] in ("tls", "btls", "utls")
        legs = "%s-%s" % (w[1], w[2])
        if f["bad"] != "0":
            ctx.violation("sys_relay:monitor:corrupted:" + legs, "data arrived modified, duplicated or out of order through the relay: %s %s" % (line, detail), rep)
        if f["relay_exited"] != "0" or f["fatal"] != "0" or f["alive"] != "1":
            ctx.violation("sys_relay:monitor:relay-down:" + legs, "the relay exited or stopped serving while it had live connections: " + line, rep)
        if f["fail"] != "-" or f["incomplete"] != "0":
            ctx.violation("sys_relay:monitor:stalled:" + legs, "a relayed connection did not complete (stall): %s %s" % (line, detail), rep)
        if f["lost"] != "0" or f["early_close"] != "0":
            ctx.violation("sys_relay:monitor:lost-at-close:%s" % ("after-stalled-write" if stall else "no-stall"),
                          "the peer of the closing side saw the close before all messages the closing side had sent (%s): %s %s" % (legs, line, detail), rep)
        elif f["errors"] != "0":
            # everything was delivered; the close surfaced as an error.  On a TLS leg whose close_notify was refused by an injected
            # EAGAIN (xcm_close does not wait) the close is reported as EPROTO after complete delivery; anywhere else - and on TLS legs
            # without injected faults - it is not acceptable
            if not tls_leg or w[6] == "0":
                ctx.violation("sys_relay:monitor:close-as-error:" + legs, "complete delivery, but the close was reported as an error: %s %s" % (line, detail), rep)
            else:
                ctx.count("relay.tls_close_as_error")
    ctx.sample({"harness": "sys_relay", "cmds": cmds[:3], "impl_out": [r[0] for r in res[:3]]}, cap=8)
    ctx.assumptions += ["the relay's event loop (libevent) and the XCM sockets below the forwarders are the environment of the model; their "
                        "delivery guarantees are C01-C04",
                        "a relay whose draining leg never becomes writable again ends when that leg's own timeouts report an error"]


def replay(path):
    r = json.load(open(path))
    if r.get("harness") == "sys_relay":
        class C:
            rundir = common.RUN + "/replay"
        rc, res, err = relay.run(relay.build(), r["ops"], C, timeout=300)
        for line, detail in res:
            print(line, *detail, sep="\n  ")
        return 0
    exe = relay.build_unit()
    text = "\n".join(r["ops"]) + "\n"
    common.lake_build(["driver"])
    m = common.run_model("relay", text)
    rc, out, err = common.run_proc([exe], text)
    print("model:", *m, sep="\n  ")
    print("impl (rc=%d):" % rc, *out.splitlines(), sep="\n  ")
    return 0 if m == out.splitlines() and rc == 0 else 1
