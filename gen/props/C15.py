"""C15 - threads using different sockets do not interfere."""
import json
from gen import common, threads

LEAN_MODULE = "XcmModel.Props.C15"
THEOREMS = [
    "XcmModel.C15.C15_every_access_protected", "XcmModel.C15.C15_one_lock_per_variable",
    "XcmModel.C15.C15_no_split_read_modify_write", "XcmModel.C15.C15_table_covers",
]


def run(ctx):
    quick = ctx.tier == "quick"
    ctx.rule = ("T1 (regenerated on every run): extract/ext_globals.py lists every mutable static variable of the library sources and every "
                "field of the structures behind them, each access site and its protection (constructor-time, atomic builtin, inside the "
                "critical section of a lock - also through callers -, read of an init-only variable, fresh object, lock operation); the "
                "Lean theorems decide over that table.  sys_threads (ThreadSanitizer build of the whole library): 8 threads, each on its "
                "own sockets, create / connect / exchange / read attributes / close on all seven transports in barrier-synchronised "
                "bursts (shared eventfd and cached SSL_CTX created and destroyed concurrently), sockets handed to another thread through "
                "a mutex-protected slot; sockets created at the same instant must get distinct ids (one control file per live socket).")
    # the regenerated table the theorems decide over: one non-trivial item per (variable, function, protection kind)
    import re as _re, os as _os
    gl = open(_os.path.join(common.VERIF, "lean", "XcmModel", "Generated", "Globals.lean")).read()
    for m_ in _re.finditer(r'\("([^"]+)", "([^"]+)", "([^"]+)", (\d+), (\d+), "([^"]*)"\)', gl):
        ctx.nontriv(("site", m_.group(1), m_.group(2), m_.group(3), m_.group(5), m_.group(6)))
        ctx.count("sites.kind%s" % m_.group(5))
        ctx.evaluations += 1
    exe = threads.build()
    cmds = ["THREADS 8 %d" % (6 if quick else 60), "IDS 8 %d" % (300 if quick else 5000)]
    rc, out, err = threads.run(exe, cmds, ctx, timeout=3000)
    ctx.traces += 1
    lib, foreign = threads.races(err)
    ctx.count("tsan.reports_inside_openssl_or_cares", foreign)
    rep = {"harness": "sys_threads", "ops": cmds}
    if rc != 0 or len(out) != len(cmds):
        ctx.violation("sys_threads:crash:" + common.crash_site(err), "sys_threads died", dict(rep, stderr=err[-3000:]))
        return
    for kind, top, text in lib:
        ctx.violation("sys_threads:tsan:%s:%s" % (kind.replace(" ", "-"), top),
                      "ThreadSanitizer: %s in the library while threads used distinct sockets (%s)" % (kind, top), dict(rep, report=text))
    f = dict(x.split("=") for x in out[0].split())
    g = dict(x.split("=") for x in out[1].split())
    ctx.evaluations += int(f["delivered"]) + int(g["rounds"])
    ctx.nontriv(("threads", f["delivered"], f["handoffs"]))
    ctx.count("threads.messages_delivered", int(f["delivered"]))
    ctx.count("threads.handoffs", int(f["handoffs"]))
    if f["errors"] != "0":
        ctx.violation("sys_threads:monitor:delivery", "a thread's own connection lost messages or failed while other threads used other sockets: " + out[0], rep)
    if g["id_clash"] != "0":
        ctx.violation("sys_threads:monitor:socket-id-clash", "sockets created concurrently share a socket id (their control files collide): " + out[1], rep)
    ctx.sample({"harness": "sys_threads", "cmds": cmds, "impl_out": out})
    ctx.assumptions += ["T1 is a syntactic extraction (regular expressions over comment-stripped sources): aliasing through pointers other than the "
                        "guarded element types, and state inside OpenSSL / c-ares / glibc, are outside it",
                        "ThreadSanitizer sees the schedules that occurred; reports between two accesses inside uninstrumented OpenSSL/c-ares are counted, not judged",
                        "pinnedReads: two reads of immutable fields of reference-counted entries after the lock was released, stated in the theorem"]


def replay(path):
    r = json.load(open(path))
    class C:
        rundir = common.RUN + "/replay"
    rc, out, err = threads.run(threads.build(), r["ops"], C, timeout=1200)
    print("impl (rc=%d):" % rc, *out, sep="\n  ")
    lib, foreign = threads.races(err)
    for kind, top, text in lib[:3]:
        print(kind, top)
        print(text[:1500])
    return 0
