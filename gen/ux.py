"""Generator/monitor for the ux/uxf data path (unit_ux), shared by C01 C03 C17."""
from gen import common, framing
from gen.common import hexs

KERRS = ["EAGAIN", "EINTR", "EPIPE", "ECONNRESET", "ENOBUFS"]


def build():
    flags = framing.includes_of("libxcm/tp/ux/xcm_tp_ux.c")
    return common.build_harness("unit_ux", ["unit_ux.c"], extra_flags=flags, link_lib=True,
                                libs=["ssl", "crypto", "cares"])


def rand_len(rng):
    k = rng.below(10)
    if k < 5:
        return rng.range(1, 8)
    if k < 8:
        return rng.choice([1, 2, 255, 256, 4096, 65534, 65535])
    return rng.range(1, 65535)


def gen_history(rng, nops, ctx):
    ops = ["N"]
    for _ in range(nops):
        r = rng.below(100)
        if r < 40:
            n = rand_len(rng)
            if rng.chance(1, 8):
                n = rng.choice([0, 65536, 70000])
                ctx.count("ux.send.invalid_size")
            k = "A" if rng.chance(3, 4) else "E" + rng.choice(KERRS)
            ops.append("S %s %s" % (hexs(rng.bytes(n)), k))
            ctx.count("ux.send." + ("ok" if k == "A" else k[1:]))
        elif r < 80:
            n = rand_len(rng)
            t = rng.below(10)
            if t < 7:
                cap = rng.choice([n, n + 1, max(1, n - 1), 1, max(1, n // 2), 65535, 100000]) if rng.chance(2, 3) else rng.range(1, 70000)
                if rng.chance(1, 30):
                    cap = 0
                ops.append("R %d D%s" % (cap, hexs(rng.bytes(n))))
                ctx.count("ux.recv.truncated" if cap < n else "ux.recv.whole")
            elif t < 8:
                ops.append("R %d Z" % rng.range(1, 100))
                ctx.count("ux.recv.eof")
            else:
                ops.append("R %d E%s" % (rng.range(1, 100), rng.choice(KERRS)))
                ctx.count("ux.recv.err")
        elif r < 85:
            ops.append("F")
        elif r < 95:
            ops.append("U %d" % rng.below(8))
        else:
            ops.append("SU %d" % rng.below(8))
    return ops


class Monitor:
    """Oracles on the implementation's output alone (C01/C03/C17 for the seqpacket transports)."""

    def __init__(self, ctx):
        self.ctx = ctx

    def run(self, ops, out):
        prev = None
        start = 0
        for i, (op, line) in enumerate(zip(ops, out)):
            w = op.split()
            if w[0] == "N":
                prev = [0] * 8
                start = i
                continue
            if w[0] in ("U", "SU") or prev is None:
                continue
            f = [x.strip() for x in line.split("|")]
            if len(f) < 4:
                continue
            rcw = f[0].split()
            rc = int(rcw[0])
            cnt = [int(x) for x in f[2].split()]
            tx = f[3][3:]

            def viol(sig, what):
                self.ctx.violation("unit_ux:monitor:" + sig, what,
                                   {"harness": "unit_ux", "ops": ops[start:i + 1], "impl_out": out[start:i + 1]})
            if any(a < b for a, b in zip(cnt, prev)):
                viol("counter-decreased", "a counter decreased")
            # order: to_app, from_app, to_lower, from_lower (bytes), then msgs
            if not (cnt[1] >= cnt[2] and cnt[3] >= cnt[0] and cnt[5] >= cnt[6] and cnt[7] >= cnt[4]):
                viol("counter-order", "from_app >= to_lower or from_lower >= to_app violated")
            if w[0] == "S":
                m = bytes.fromhex(w[1]) if w[1] != "-" else b""
                if rc == 0:
                    if not (1 <= len(m) <= 65535):
                        viol("send-accepted-illegal-size", "a message of illegal size was accepted")
                    if tx == "-" or (len(m) <= 48 and tx != m.hex()):
                        viol("accepted-not-handed-down", "an accepted message was not handed to the kernel intact")
                    if cnt[1] - prev[1] != len(m) or cnt[5] - prev[5] != 1 or cnt[2] - prev[2] != len(m) or cnt[6] - prev[6] != 1:
                        viol("send-count", "counters do not grow by the accepted message")
                else:
                    if cnt != prev:
                        viol("failed-send-counted", "a failed send changed the counters")
                    if tx != "-" and w[2] != "A":
                        viol("failed-send-on-wire", "a failed send handed data to the kernel")
            if w[0] == "R" and w[2].startswith("D"):
                cap = int(w[1])
                m = bytes.fromhex(w[2][1:])
                exp = m[:cap]
                if rc != len(exp):
                    viol("receive-length", "receive did not return min(len, capacity)")
                elif len(exp) and len(exp) <= 48 and f[1] != exp.hex():
                    viol("receive-payload", "receive returned other bytes than the record's leading bytes")
                if cnt[0] - prev[0] != len(exp) or cnt[3] - prev[3] != len(m):
                    viol("receive-count", "to_app must grow by the delivered (truncated) length and from_lower by the record length")
            elif w[0] == "R" and cnt != prev:
                viol("failed-receive-counted", "a receive that delivered nothing changed the counters")
            prev = cnt


def run_part(ctx, n_hist, tag):
    """differential + monitor for ux; returns nothing (violations/corr breaks go to ctx)"""
    exe = build()
    mon = Monitor(ctx)
    allops = []
    for k in range(n_hist):
        allops += gen_history(ctx.rng.fork("ux%s%d" % (tag, k)), 80, ctx)
        if len(allops) > 2000:
            m, il = ctx.differential("unit_ux", "ux", exe, allops, label="ux")
            mon.run(allops, il)
            for o, l in zip(allops, m):
                ctx.nontriv(("ux", o.split()[0], l[:80]))
            allops = []
        if ctx.over_budget():
            break
    if allops:
        m, il = ctx.differential("unit_ux", "ux", exe, allops, label="ux")
        mon.run(allops, il)
        ctx.sample({"harness": "unit_ux", "ops": [o[:80] for o in allops[:6]], "model_out": m[:6]}, cap=8)
