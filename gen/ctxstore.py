"""Generator / environment for unit_ctxstore (ctx_store.c against real OpenSSL and real files)."""
import os, shutil
from gen import common, framing, pki

FILES = ["cert.pem", "key.pem", "tc.pem", "crl.pem", "cert2.pem", "key2.pem", "tc2.pem", "lnk-cert.pem", "lnk-tc.pem"]
CERTS = ["a1", "a2", "b1", "viaInter-chain"]
KEYS = {"a1": "a1-key", "a2": "a2-key", "b1": "b1-key", "viaInter-chain": "viaInter-key"}
TCS = ["rootA", "rootB", "rootA+rootB", "rootB+rootA", "rootA+interA"]
CRLS = ["crlA", "crlA-empty", "crlB", "crlA+crlB", "rootB+crlA"]


def build():
    flags = framing.includes_of("libxcm/tp/tls/ctx_store.c")
    return common.build_harness("unit_ctxstore", ["unit_ctxstore.c"], extra_flags=flags, link_lib=True, libs=["ssl", "crypto", "cares"])


def pki_dir():
    d = os.path.join(common.VERIF, ".build", "pki-v2")
    if not os.path.exists(os.path.join(d, ".done")):
        shutil.rmtree(d, ignore_errors=True)
        pki.make_pki(d)
    return d


def env(ctx, sub="ctxstore"):
    d = os.path.join(ctx.rundir, sub)
    shutil.rmtree(d, ignore_errors=True)
    os.makedirs(d)
    return {"PKI_DIR": pki_dir(), "VERIF_RUNDIR": d, "ASAN_OPTIONS": "detect_leaks=0"}


def gen_history(rng, nops, ctx):
    """file rewrites (rename over), symlink flips, gets by file / by value / mixed, changes during loading, puts"""
    ops = ["W cert.pem a1", "W key.pem a1-key", "W tc.pem rootA", "W crl.pem crlA-empty", "W cert2.pem b1", "W key2.pem b1-key",
           "W tc2.pem rootB", "L lnk-cert.pem cert.pem", "L lnk-tc.pem tc.pem"]
    cur = {"cert.pem": "a1", "key.pem": "a1-key", "cert2.pem": "b1", "key2.pem": "b1-key"}
    held = []
    slot = 0

    def cert_item(which):
        if which == 0:
            return "f:cert.pem", "f:key.pem"
        if which == 1:
            return "f:cert2.pem", "f:key2.pem"
        if which == 2:
            return "f:lnk-cert.pem", "f:key.pem"
        c = rng.choice(CERTS)
        k = KEYS[c] if not rng.chance(1, 8) else KEYS[rng.choice(CERTS)]
        return "v:" + c, "v:" + k

    for _ in range(nops):
        r = rng.below(100)
        if r < 22:
            # replace a credential file (sometimes with a mismatching or malformed one)
            f = rng.choice(["cert.pem", "tc.pem", "crl.pem", "cert2.pem", "tc2.pem"])
            if f.startswith("cert"):
                c = rng.choice(CERTS)
                kf = f.replace("cert", "key")
                if rng.chance(1, 10):
                    ops.append("W %s %s" % (f, rng.choice(["garbage", "empty", c])))
                else:
                    # key first, certificate second: in between the pair mismatches
                    ops.append("W %s %s" % (kf, KEYS[c]))
                    ops.append("W %s %s" % (f, c))
            elif f.startswith("tc"):
                ops.append("W %s %s" % (f, rng.choice(TCS + (["garbage", "crlA"] if rng.chance(1, 8) else []))))
            else:
                ops.append("W %s %s" % (f, rng.choice(CRLS + (["rootA"] if rng.chance(1, 8) else []))))
            ctx.count("ctxstore.rewrite")
        elif r < 30:
            ops.append("L %s %s" % rng.choice([("lnk-cert.pem", rng.choice(["cert.pem", "cert2.pem"])), ("lnk-tc.pem", rng.choice(["tc.pem", "tc2.pem"]))]))
            ctx.count("ctxstore.symlink_flip")
        elif r < 75 and slot < 60 and rng.chance(1, 3) and any(o.startswith("G ") for o in ops):
            prev = rng.choice([o for o in ops if o.startswith("G ")]).split()
            ops.append("G %d %s" % (slot, " ".join(prev[2:6])))
            held.append(slot)
            slot += 1
            ctx.count("ctxstore.get.repeat")
        elif r < 75 and slot < 60:
            c, k = cert_item(rng.below(4))
            tc = rng.choice(["f:tc.pem", "f:tc2.pem", "f:lnk-tc.pem", "-", "v:" + rng.choice(TCS)])
            crl = rng.choice(["-", "-", "f:crl.pem", "v:" + rng.choice(CRLS)])
            hooks = ""
            if rng.chance(1, 4):
                # files replaced while the context is being loaded (after the k-th load)
                for _h in range(rng.range(1, 3)):
                    f = rng.choice(["tc.pem", "crl.pem", "tc2.pem"])
                    m = rng.choice(TCS) if f.startswith("tc") else rng.choice(CRLS[:4])
                    hooks += " %d:%s:%s" % (rng.range(1, 9), f, m)
                ctx.count("ctxstore.get.change_during_load")
            ops.append("G %d %s %s %s %s%s" % (slot, c, k, tc, crl, hooks))
            held.append(slot)
            slot += 1
            ctx.count("ctxstore.get")
        elif held:
            s = held.pop(rng.below(len(held)))
            ops.append("P %d" % s)
            ctx.count("ctxstore.put")
    for s in held:
        ops.append("P %d" % s)
    return ops


def storm_scenarios():
    """a file replaced during each of several consecutive load rounds of one call (the retry loop must go on until the
    identity is stable), ending on different material than it started with"""
    ops = ["W cert.pem a1", "W key.pem a1-key", "W tc.pem rootA", "W crl.pem crlA-empty"]
    slot = 40
    for rounds in (1, 2, 3, 4, 5, 7):
        for items, n in (("f:cert.pem f:key.pem f:tc.pem -", 3), ("f:cert.pem f:key.pem f:tc.pem f:crl.pem", 4), ("v:a1 v:a1-key f:tc.pem -", 3)):
            hooks = []
            for r in range(rounds):
                # the change lands after the last load of round r+1: data already read is stale
                k = n * (r + 1) if not items.startswith("v:") else (r + 1)
                hooks.append("%d:tc.pem:%s" % (k, ["rootB", "rootA+rootB", "rootA", "rootB+rootA"][r % 4]))
            ops.append("W tc.pem rootA")
            ops.append("G %d %s %s" % (slot, items, " ".join(hooks)))
            ops.append("G %d %s" % (slot + 1, items))
            ops += ["P %d" % slot, "P %d" % (slot + 1)]
    return ops


def collision_scenarios():
    """configurations whose undelimited concatenations coincide (F-18a)"""
    return ["G 0 v:a1 v:a1-key v:rootA+rootB v:crlA", "G 1 v:a1 v:a1-key v:rootA v:rootB+crlA", "P 0", "P 1",
            "G 0 v:a1 v:a1-key v:rootA+rootB -", "G 1 v:a1 v:a1-key - v:rootA+rootB", "P 0",
            "G 2 v:viaInter-chain v:viaInter-key v:rootA -", "G 3 v:viaInter v:interA+viaInter-key v:rootA -", "P 2", "P 3"]


class Monitor:
    """on the implementation's output alone: the cache listing equals the sockets (slots) holding contexts, a context is
    freed exactly by the put of its last holder, and a reused context is described like the build it came from"""

    def __init__(self, ctx):
        self.ctx = ctx

    def run(self, ops, out):
        slots = {}
        desc = {}
        for i, (op, line) in enumerate(zip(ops, out)):
            w = op.split()

            def viol(sig, what):
                self.ctx.violation("unit_ctxstore:monitor:" + sig, what, {"harness": "unit_ctxstore", "ops": ops[:i + 1], "impl_out": out[max(0, i - 3):i + 1]})
            if w[0] not in ("G", "P") or "|" not in line:
                continue
            head, cache, freed = [x.strip() for x in line.split("|")]
            freed = [] if freed == "freed -" else [int(x) for x in freed[6:].split(",")]
            expect_freed = []
            if w[0] == "G" and head.startswith("ctx="):
                f = dict(x.split("=") for x in head.split())
                cid = int(f["ctx"])
                d = head.split(" loads=")[1].split(" ", 1)[1]
                if f["created"] == "1":
                    desc[cid] = d
                elif desc.get(cid) != d:
                    viol("reused-context-changed", "a reused context reports other material than when it was built: %s vs %s" % (d, desc.get(cid)))
                slots[int(w[1]) % 64] = cid
            elif w[0] == "P" and head == "put":
                cid = slots.pop(int(w[1]) % 64, None)
                if cid is not None and cid not in slots.values():
                    expect_freed = [cid]
            counts = {}
            for c in slots.values():
                counts[c] = counts.get(c, 0) + 1
            listed = dict((int(a), int(b)) for a, b in (x.split(":") for x in cache.split()[1:]))
            if listed != counts:
                viol("refcount", "cache listing %r differs from the contexts held by sockets %r" % (listed, counts))
            if sorted(freed) != sorted(expect_freed):
                viol("release", "contexts released %r, expected %r (a context is released by the put of its last holder only)" % (freed, expect_freed))


def run_part(ctx, nhist):
    exe = build()
    mon = Monitor(ctx)
    for k in range(nhist):
        ops = gen_history(ctx.rng.fork("cs%d" % k), 70, ctx)
        if k == 0:
            ops = collision_scenarios() + storm_scenarios() + ops
        m, il = ctx.differential("unit_ctxstore", "ctxstore", exe, ops, impl_env=env(ctx), label="ctxstore")
        mon.run(ops, il)
        for o, l in zip(ops, m):
            if o[0] in "GP":
                ctx.nontriv((o.split()[0], l.split("|")[0].split(" loads")[0][:6], l.split("|")[0].split("loads=")[-1][:40]))
        if k == 0:
            ctx.sample({"harness": "unit_ctxstore", "ops": ops[:12], "model_out": m[:12]})
        if ctx.over_budget():
            break


def replay(r):
    import os
    exe = build()
    text = "\n".join(r["ops"]) + "\n"
    common.lake_build(["driver"])
    m = common.run_model("ctxstore", text)

    class C:
        rundir = common.RUN + "/replay"
    e = dict(os.environ)
    e.update(env(C))
    rc, out, err = common.run_proc([exe], text, env=e)
    print("model:", *m, sep="\n  ")
    print("impl (rc=%d):" % rc, *out.splitlines(), sep="\n  ")
    return 0 if m == out.splitlines() and rc == 0 else 1
