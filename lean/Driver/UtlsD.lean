import Driver.Util
import Driver.FramingD
import XcmModel.Utls
namespace Driver.UtlsD
open XcmModel XcmModel.Utls Driver

def subStr : Sub → String
  | .ux => "ux" | .tls => "tls"

def callStr : Call → String
  | .create s => s!"create({subStr s})" | .init s _ => s!"init({subStr s})" | .connect s _ => s!"connect({subStr s})"
  | .server s _ => s!"server({subStr s})" | .accept s _ => s!"accept({subStr s})" | .close s => s!"close({subStr s})"
  | .cleanup s => s!"cleanup({subStr s})" | .destroy s => s!"destroy({subStr s})" | .send s => s!"send({subStr s})"
  | .receive s => s!"receive({subStr s})" | .update s c => s!"update({subStr s},{c})" | .finish s => s!"finish({subStr s})"
  | .updateSrv s c => s!"update({subStr s}@srv,{c})"
  | .getCnt s => s!"get_cnt({subStr s})" | .localAddr s => s!"local_addr({subStr s})"

def traceStr (t : List Call) : String := if t.isEmpty then "-" else " ".intercalate (t.map callStr)

def parseAns (w : String) : Ans := if w.startsWith "E" then .err (FramingD.errNum (w.drop 1).toString) else .ok

structure Slot where
  st : St
  live : Bool := false
  cond : Nat := 0      -- the condition last synchronised to the sub-sockets

structure D where
  conn : Option Slot := none
  srv : Option Slot := none

def b2n (b : Bool) : Nat := if b then 1 else 0

def showRes (r : Res) (val : Nat := 0) : String :=
  match r with
  | .ok => toString val
  | .err e => if e = 0 then "-1 -" else s!"-1 {FramingD.errName e}"

def line (r : Res) (t : List Call) (s : Option St) (val : Nat := 0) : String :=
  let tail := match s with
    | some st => s!" ux={b2n st.ux} tls={b2n st.tls}"
    | none => " gone"
  s!"{showRes r val} | {traceStr t} |{tail}"

def step (d : D) (ws : List String) : D × String :=
  match ws with
  | "I" :: kind :: aw =>
    let isConn := kind == "conn"
    let (st, r, t, _) := init isConn (aw.map parseAns)
    let slot : Option Slot := match r with | .ok => some { st := st } | .err _ => none
    let d' := if isConn then { d with conn := slot } else { d with srv := slot }
    (d', line r t (slot.map (·.st)))
  | "C" :: aw =>
    match d.conn with
    | some sl =>
      if sl.live then (d, "no-socket") else
      let (st, r, t, _) := connect sl.st (aw.map parseAns)
      match r with
      | .ok => ({ d with conn := some { st := st, live := true } }, line r t (some st))
      | .err _ => ({ d with conn := none }, line r t none)
    | none => (d, "no-socket")
  | ["CB"] =>
    match d.conn with
    | some sl =>
      if sl.live then (d, "no-socket") else
      let (_, t) := connectBadAddr sl.st
      ({ d with conn := none }, line (.err Generated.EINVAL) t none)
    | none => (d, "no-socket")
  | "S" :: dyn :: aw =>
    match d.srv with
    | some sl =>
      if sl.live then (d, "no-socket") else
      let (st, r, t, _) := server sl.st (dyn == "1") (aw.map parseAns)
      match r with
      | .ok => ({ d with srv := some { st := st, live := true } }, line r t (some st))
      | .err _ => ({ d with srv := none }, line r t none)
    | none => (d, "no-socket")
  | "A" :: aw =>
    match d.srv with
    | some sl =>
      if !sl.live then (d, "no-socket") else
      let (c0, _, _, _) := init true []
      let (st, r, t, _) := accept c0 sl.cond (aw.map parseAns)
      match r with
      | .ok => ({ d with conn := some { st := st, live := true } }, line r t (some st))
      | .err _ => ({ d with conn := none }, line r t none)
    | none => (d, "no-socket")
  | ["X", kind, mode] =>
    let isConn := kind == "conn"
    match (if isConn then d.conn else d.srv) with
    | some sl =>
      let (st, t) := close sl.st (mode == "1")
      ((if isConn then { d with conn := none } else { d with srv := none }), line .ok t (some st))
    | none => (d, "no-socket")
  | "SND" :: aw =>
    match d.conn with
    | some sl => if !sl.live then (d, "no-socket") else
      let (r, t, _) := send sl.st (aw.map parseAns); (d, line r t (some sl.st))
    | none => (d, "no-socket")
  | "RCV" :: aw =>
    match d.conn with
    | some sl => if !sl.live then (d, "no-socket") else
      let (r, t, _) := receive sl.st (aw.map parseAns); (d, line r t (some sl.st))
    | none => (d, "no-socket")
  | "FIN" :: kind :: aw =>
    match (if kind == "conn" then d.conn else d.srv) with
    | some sl => if !sl.live then (d, "no-socket") else
      let (r, t, _) := finish sl.st (aw.map parseAns); (d, line r t (some sl.st))
    | none => (d, "no-socket")
  | ["UPD", kind, cond] =>
    match (if kind == "conn" then d.conn else d.srv) with
    | some sl => if !sl.live then (d, "no-socket") else
      let sl' := { sl with cond := cond.toNat! }
      ((if kind == "conn" then { d with conn := some sl' } else { d with srv := some sl' }), line .ok (update sl.st cond.toNat!) (some sl.st))
    | none => (d, "no-socket")
  | ["CNT"] =>
    match d.conn with
    | some sl => if !sl.live then (d, "no-socket") else
      (d, line .ok (getCnt sl.st) (some sl.st) (if active sl.st == .ux then 1001 else 2002))
    | none => (d, "no-socket")
  | _ => (d, "no-socket")

def main : IO Unit := runLoop step ({} : D)

end Driver.UtlsD
