import Driver.Util
import Driver.FramingD
import XcmModel.Ux
namespace Driver.UxD
open XcmModel XcmModel.Ux Driver

def cnts (c : Framing.Cnts) : String :=
  s!"{c.toAppB} {c.fromAppB} {c.toLowerB} {c.fromLowerB} {c.toAppM} {c.fromAppM} {c.toLowerM} {c.fromLowerM}"

def render (s : St) (r : Res) (tx : Option Bytes) : String :=
  let res := match r with
    | .ok => "0 | -"
    | .closed => "0 | -"
    | .msg p _ => s!"{p.length} | {showBytes p}"
    | .err e => s!"-1 {FramingD.errName e} | -"
  let t := match tx with | some m => showBytes m | none => "-"
  s!"{res} | {cnts s.cnt} | tx+{t}"

def step (s : St) (ws : List String) : St × String :=
  match ws with
  | ["N"] => ({}, "ok")
  | ["S", m, k] =>
    let ks := if k.startsWith "E" then KSend.err (FramingD.errNum (k.drop 1).toString) else .ok
    let (s', r, tx) := send s (hexD m) ks
    (s', render s' r tx)
  | ["R", cap, k] =>
    let kr := if k == "Z" then KRecv.eof
              else if k.startsWith "E" then .err (FramingD.errNum (k.drop 1).toString)
              else .record (hexD (k.drop 1).toString)
    let (s', r) := receive s cap.toNat! kr
    (s', render s' r none)
  | ["F"] => let (s', r) := finish s; (s', render s' r none)
  | ["U", cond] => (s, s!"fd={connEvent cond.toNat!}")
  | ["SU", cond] => (s, s!"fd={serverEvent cond.toNat!}")
  | _ => (s, "bad-op")

def main : IO Unit := runLoop step ({} : St)

end Driver.UxD
