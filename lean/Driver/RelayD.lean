import Driver.Util
import Driver.FramingD
import XcmModel.Relay
namespace Driver.RelayD
open XcmModel XcmModel.Relay Driver

structure D where
  r : Option Relay := none

def parseAns (w : String) : Ans :=
  if w.startsWith "ok" then .ok (if w.length > 2 then (w.drop 3).toString.toNat! else 1000000)
  else if w.startsWith "d:" then .data (hexD (w.drop 2).toString)
  else if w == "eof" then .eof
  else .err (FramingD.errNum (w.drop 1).toString)

def showCall : Call → String
  | .send c d => s!"send({c},{showBytes d})"
  | .receive c => s!"receive({c})"
  | .finish c => s!"finish({c})"
  | .close c => s!"close({c})"
  | .term x => s!"term({x})"

def tail (r : Relay) : String := s!"cond={r.cond1},{r.cond2} len={r.f0.buf.length},{r.f1.buf.length} drain={r.draining.getD 0}"

def step (d : D) (ws : List String) : D × String :=
  match ws with
  | ["N", bs] => let r := start (bs == "1"); ({ r := some r }, tail r)
  | "E" :: f :: c :: a :: rest =>
    let a2 := match rest with | [x] => parseAns x | _ => Ans.ok 0
    match d.r with
    | none => (d, "bad-op")
    | some r =>
      if r.terminated.isSome then (d, "terminated") else
      let (r', cs) := Relay.step r { fwd := f.toNat!, conn := c.toNat!, ans := parseAns a, ans2 := a2 }
      let l := if cs.isEmpty then "-" else " ".intercalate (cs.map showCall)
      ({ r := some r' }, s!"{l} | {tail r'}")
  | _ => (d, "bad-op")

def main : IO Unit := runLoop step ({} : D)

end Driver.RelayD
