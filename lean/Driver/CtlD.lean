import Driver.Util
import Driver.FramingD
import XcmModel.Ctl
namespace Driver.CtlD
open XcmModel XcmModel.Ctl Driver

/-- "name:type:len,name:type:len" (values are abstracted to zero bytes of that length) -/
def parseAttrs (s : String) : List Attr :=
  if s == "-" then [] else
  (s.splitOn ",").filterMap fun item =>
    match item.splitOn ":" with
    | [n, t, l] => some { name := n.toUTF8.toList, type := t.toNat!, value := List.replicate l.toNat! 0 }
    | _ => none

def showAttrs (l : List Attr) : String :=
  if l.isEmpty then "-" else
  ",".intercalate (l.map fun a => s!"{String.fromUTF8! (ByteArray.mk a.name.toArray)}:{a.type}:{a.value.length}")

def step (_ : Unit) (ws : List String) : Unit × String :=
  match ws with
  | ["GA", prev, attrs] =>
    let r := processGetAll prev.toNat! (parseAttrs attrs)
    match r.body with
    | .all l => ((), s!"type={r.type} n={l.length} {showAttrs l}")
    | _ => ((), "?")
  | ["G", name, res] =>
    let inproc := match res.splitOn ":" with
      | ["ok", t, l] => InProc.ok t.toNat! (List.replicate l.toNat! 0)
      | ["err", e] => InProc.err (FramingD.errNum e)
      | _ => InProc.err 0
    let r := processGetAttr (hexD name) inproc
    match r.body with
    | .cfm t v => ((), s!"cfm t={t} len={v.length}")
    | .rej e => ((), s!"rej {FramingD.errName e}")
    | _ => ((), "?")
  | ["RCV", size, type, field, prev] =>
    match clientReceive size.toNat! type.toNat! (hexD field) prev.toNat! (fun _ => .err 2) [] with
    | .drop => ((), "drop")
    | .reply r => ((), s!"reply type={r.type}")
  | ["TN", field] => ((), Hex.encode (termName (hexD field)))
  | ["MSGSIZE"] => ((), s!"{msgSize}")
  | _ => ((), "bad-op")

def main : IO Unit := runLoop step ()

end Driver.CtlD
