import Driver.AttrMapD
import Driver.AddrD
import Driver.FramingD
import Driver.BtcpD
import Driver.UxD
import Driver.AttrAccD
import Driver.ApiD
import Driver.CtlD
import Driver.TconnectD
import Driver.XpollD
import Driver.BtlsD
import Driver.TpD
import Driver.CtxStoreD
import Driver.TlsPolicyD
import Driver.RelayD
import Driver.LifeD
import Driver.UtlsD
import Driver.TimerD
import Driver.DnsQD
import Driver.AttrTreeD

def main (args : List String) : IO UInt32 := do
  match args with
  | ["attrmap"] => Driver.AttrMapD.main; return 0
  | ["attrtree"] => Driver.AttrTreeD.main; return 0
  | ["dnsq"] => Driver.DnsQD.main; return 0
  | ["timer"] => Driver.TimerD.main; return 0
  | ["life"] => Driver.LifeD.main; return 0
  | ["utls"] => Driver.UtlsD.main; return 0
  | ["relay"] => Driver.RelayD.main; return 0
  | ["tlspolicy"] => Driver.TlsPolicyD.main; return 0
  | ["ctxstore"] => Driver.CtxStoreD.main; return 0
  | ["tp"] => Driver.TpD.main; return 0
  | ["btls"] => Driver.BtlsD.main; return 0
  | ["xpoll"] => Driver.XpollD.main; return 0
  | ["tconnect"] => Driver.TconnectD.main; return 0
  | ["ctl"] => Driver.CtlD.main; return 0
  | ["api"] => Driver.ApiD.main; return 0
  | ["attracc"] => Driver.AttrAccD.main; return 0
  | ["ux"] => Driver.UxD.main; return 0
  | ["btcp"] => Driver.BtcpD.main; return 0
  | ["framing"] => Driver.FramingD.main; return 0
  | ["addr"] => Driver.AddrD.main; return 0
  | ["attrpath"] => Driver.AttrPathD.main; return 0
  | _ => IO.eprintln "usage: driver <component>"; return 2
