import Driver.Util
import XcmModel.DnsQuery
namespace Driver.DnsQD
open XcmModel XcmModel.TimerMgr XcmModel.DnsQuery Driver

def TICK : Nat := 1953125

structure D where
  s : DnsQuery.State := {}
  live : Bool := false

def stNum : QState → Nat
  | .inProgress => 0 | .failed => 1 | .successful => 2

def render (s : DnsQuery.State) (res : String) : String :=
  let r := if s.regs.isEmpty then "-" else ",".intercalate (s.regs.map fun (i, e) => s!"{i}:{e}")
  let a := match s.tm.armed with | some a => toString a | none => "off"
  let l := if s.tm.timers.isEmpty then "-" else ",".intercalate (s.tm.timers.map fun t => s!"{t.id}:{t.expiry}")
  s!"{res} | st={stNum s.st} | regs={r} | ares={s.aresTimer} overall={s.overallTimer} | armed={a} | {l}"

def parseCb (w : String) : Option Cb :=
  if w == "-" then some .none
  else if w == "fail" then some .fail
  else if w == "canc" then some .cancelled
  else if w.startsWith "ok" then (w.drop 2).toString.toNat?.map Cb.success
  else none

/-- at most ARES_GETSOCK_MAXNUM (16) slots are looked at -/
def parseSocks (w : String) : List (Bool × Bool) :=
  if w == "-" then [] else ((w.splitOn ",").map fun t => (t.contains 'r', t.contains 'w')).take 16

def parseTo (w : String) : Option (Option Nat) :=
  if w == "-" then some none else w.toNat?.map fun k => some (k * TICK)

def step (d : D) (ws : List String) : D × String :=
  match ws with
  | ["Q", now, tmo, cb, socks, to] =>
    match now.toNat?, tmo.toInt?, parseCb cb, parseTo to with
    | some n, some t, some c, some o =>
      let (s, tries) := resolve (n * TICK) (t * TICK) c (parseSocks socks) o
      ({ s := s, live := true }, render s s!"tries={tries}")
    | _, _, _, _ => (d, "bad-op")
  | ["QF", "tfd"] => ({ d with live := false }, "null EMFILE closed=0 regdel=0")
  | ["QF", "efile"] => ({ d with live := false }, "null ENOENT closed=1 regdel=1")
  | _ =>
  if !d.live then (d, "bad-op") else
  match ws with
  | ["P", now, cb, socks, to] =>
    match now.toNat?, parseCb cb, parseTo to with
    | some n, some c, some o =>
      match process d.s (n * TICK) c (parseSocks socks) o with
      | .ok s' => ({ d with s := s' }, render s' s!"completed={if completed s' then 1 else 0}")
      | .oob m => (d, "oob " ++ m)
      | .abort m => (d, "abort " ++ m)
      | .err e => (d, s!"err {e}")
    | _, _, _ => (d, "bad-op")
  | ["R", cap] =>
    match cap.toNat? with
    | some c =>
      let (r, s') := result d.s c
      let txt := match r with
        | .ok n => s!"rc={n}"
        | .err e => if e == Generated.EAGAIN then "rc=-1 EAGAIN" else if e == Generated.ENOENT then "rc=-1 ENOENT" else s!"rc=-1 {e}"
        | .abort _ => "abort"
        | .oob _ => "oob"
      ({ d with s := s' }, render s' txt)
    | none => (d, "bad-op")
  | ["D"] => ({ d with live := false }, "destroyed regs-left=0 closed=1 regdel=1")
  | _ => (d, "bad-op")

def main : IO Unit := runLoop step ({} : D)

end Driver.DnsQD
