import Driver.Util
import XcmModel.Xpoll
namespace Driver.XpollD
open XcmModel XcmModel.Xpoll Driver

structure D where
  x : X := {}
  data : List Nat := []          -- pipes that hold data
  pool : Pool := {}
  got : List (Option Nat) := []  -- descriptors handed out by PG, in order

def fdName (fd : Nat) : String := if fd = ACTIVE then "A" else toString fd

def showX (d : D) : String :=
  let sl := ",".intercalate (d.x.slots.map fun s => match s with | some (fd, ev) => s!"{fdName fd}:{ev}" | none => "-")
  let bl := ",".intercalate (d.x.bells.map fun b => match b with | some r => (if r then "1" else "0") | none => "-")
  let rd := readable d.x (fun fd ev => ev &&& 1 ≠ 0 && d.data.contains fd)
  s!" | slots={sl} bells={bl} active={if d.x.active.isSome then 1 else 0} readable={if rd then 1 else 0} other=0"

def showPool (p : Pool) : String := String.join (p.fds.map fun e => s!" {e.1}:{e.2}")

def step (d : D) (ws : List String) : D × String :=
  match ws with
  | ["N"] => let d' : D := { d with x := {}, data := [] }; (d', "ok" ++ showX d')
  | ["FA", p, ev] => let (x', id) := fdRegAdd d.x p.toNat! ev.toNat!; let d' := { d with x := x' }; (d', s!"reg={id}" ++ showX d')
  | ["FM", r, ev] => let d' := { d with x := fdRegMod d.x r.toNat! ev.toNat! }; (d', "ok" ++ showX d')
  | ["FD", r] => let d' := { d with x := fdRegDel d.x r.toNat! }; (d', "ok" ++ showX d')
  | ["BA", r] => let (x', id) := bellAdd d.x (r == "1"); let d' := { d with x := x' }; (d', s!"reg={id}" ++ showX d')
  | ["BM", i, r] => let d' := { d with x := bellMod d.x i.toNat! (r == "1") }; (d', "ok" ++ showX d')
  | ["BD", i] => let d' := { d with x := bellDel d.x i.toNat! }; (d', "ok" ++ showX d')
  | ["W", p] => let d' := { d with data := if d.data.contains p.toNat! then d.data else p.toNat! :: d.data }; (d', "ok" ++ showX d')
  | ["C", p] => let d' := { d with data := d.data.filter (· ≠ p.toNat!) }; (d', "ok" ++ showX d')
  | ["PG"] =>
    let (p', fd) := poolGet d.pool
    ({ d with pool := p', got := d.got ++ [some fd] }, s!"fd={fd} |" ++ showPool p')
  | ["PP", k] =>
    match d.got[k.toNat!]? with
    | some (some fd) =>
      let (p', _) := poolPut d.pool fd
      ({ d with pool := p', got := d.got.set k.toNat! none }, "ok |" ++ showPool p')
    | _ => (d, "skip |" ++ showPool d.pool)
  | _ => (d, "bad-op")

def main : IO Unit := runLoop step ({} : D)

end Driver.XpollD
