import Driver.Util
import Driver.FramingD
import XcmModel.AttrAccess
namespace Driver.AttrAccD
open XcmModel XcmModel.AttrAccess XcmModel.Generated Driver

def parseType (s : String) : AType :=
  match s with
  | "bool" => .bool | "int64" => .int64 | "double" => .double | "str" => .str | "bin" => .bin | _ => .unknown

def parseKind (s : String) : GKind :=
  match s.splitOn ":" with
  | ["strChecked"] => .strChecked
  | ["binChecked"] => .binChecked
  | ["fixedChecked", n] => .fixedChecked n.toNat!
  | ["fixedUnchecked", n] => .fixedUnchecked n.toNat!
  | ["delegate"] => .delegate
  | ["none"] => .none
  | _ => .unknown

def parseCur (s : String) : GRes :=
  if s.startsWith "E" then .error (FramingD.errNum s) else .ok s.toNat!

def parseLookup (ws : List String) : Option (Lookup × List String) :=
  match ws with
  | "BS" :: r => some (.badSyntax, r)
  | "NF" :: r => some (.notFound, r)
  | "NV" :: r => some (.notValue, r)
  | "V" :: t :: k :: w :: cur :: r => some (.value (parseType t) (parseKind k) (w == "1") (parseCur cur), r)
  | _ => none

def showOut (o : GetOut) : String :=
  match o.res with
  | .ok n => s!"{n} - {o.written}"
  | .error e => s!"-1 {FramingD.errName e} {o.written}"

/-- `G get <lookup> <cap>` | `G typed <lookup> <cap> <req>` | `G strbin <lookup> <cap> <req>` |
    `T <lookup> <type> <len>` -/
def step (_ : Unit) (ws : List String) : Unit × String :=
  match ws with
  | "G" :: api :: rest =>
    match parseLookup rest with
    | some (l, [cap]) => if api == "get" then ((), showOut (treeGet l cap.toNat!).1) else ((), "bad-op")
    | some (l, [cap, req]) =>
      if api == "typed" then ((), showOut (getWithType l (parseType req) cap.toNat!))
      else if api == "strbin" then ((), showOut (getStrBin l (parseType req) cap.toNat!))
      else ((), "bad-op")
    | _ => ((), "bad-op")
  | "T" :: rest =>
    match parseLookup rest with
    | some (l, [t, len]) =>
      match treeSet l (parseType t) len.toNat! with
      | .rejected e => ((), s!"rejected {FramingD.errName e}")
      | .invoke => ((), "invoke")
    | _ => ((), "bad-op")
  | _ => ((), "bad-op")

def main : IO Unit := runLoop step ()

end Driver.AttrAccD
