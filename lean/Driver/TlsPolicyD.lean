import Driver.Util
import XcmModel.TlsPolicy
namespace Driver.TlsPolicyD
open XcmModel XcmModel.TlsPolicy Driver

/-! fixture facts (K-openssl-verify inputs): what each credential of gen/pki.py is -/
def credOf (name : String) : Cred :=
  let chain := name.endsWith "-chain"
  let base := if chain then (name.dropEnd 6).toString else name
  let std : Cred := { root := "verif-rootA", leaf := base, names := [base, base.toLower ++ ".verif", "localhost"] }
  if base == "b1" then { std with root := "verif-rootB" }
  else if base == "viaInter" then { std with inter := some "verif-interA", sendsInter := chain }
  else if base == "viaRevokedInter" then { std with inter := some "verif-interX", sendsInter := chain }
  else if base == "expired" then { std with validity := .expired, names := [base, "localhost"] }
  else if base == "future" then { std with validity := .future, names := [base, "localhost"] }
  else if base == "revoked" then { std with names := [base, "localhost"] }
  else if base == "wrongname" then { std with names := [base, "somebody.else"] }
  else if base == "clientOnly" then { std with eku := some ["clientAuth"], names := [base, "localhost"] }
  else if base == "serverOnly" then { std with eku := some ["serverAuth"], names := [base, "localhost"] }
  else std

def subjOf (n : String) : String := if n.startsWith "root" || n.startsWith "inter" then "verif-" ++ n else n

def trustOf (tc : Option String) (crl : Option String) : Trust :=
  let cas := match tc with | some s => (s.splitOn "+").map subjOf | none => []
  let crls := match crl with | some s => s.splitOn "+" | none => []
  let crlsFor := crls.filterMap (fun c =>
    if c == "crlA" || c == "crlA-empty" then some "verif-rootA" else if c == "crlB" then some "verif-rootB"
    else if c == "crlInter" then some "verif-interA" else if c == "crlInterX" then some "verif-interX" else none)
  let revoked := if crls.contains "crlA" then ["revoked", "verif-interX"] else []
  { cas := cas, crlsFor := crlsFor, revoked := revoked }

structure Dflt where
  cert : String := "a1"
  tc : String := "rootA"
  crl : Option String := none

structure D where
  dirs : List (String × Dflt) := [("default", {})]
  cur : String := "default"
  srvs : List (String × Conf × String) := []

def parseAttrs (spec : String) : List Attr :=
  if spec == "-" then [] else
  (spec.splitOn ",").flatMap (fun t =>
    match t.splitOn "=" with
    | [k, v] =>
      if k == "auth" then [.auth (v == "1")] else if k == "time" then [.checkTime (v == "1")]
      else if k == "crlchk" then [.checkCrl (v == "1")] else if k == "vname" then [.verifyName (v == "1")]
      else if k == "client" then [.client (v == "1")]
      else if k == "names" then [.names (if v == "none" then [] else v.splitOn ":")]
      else if k == "cert" || k == "certv" then [.cert v, .key v]
      else if k == "tc" || k == "tcv" then [.tc v]
      else if k == "crl" || k == "crlv" then [.crl v]
      else []
    | _ => [])

def matOf (d : Dflt) (s : Src) (which : Nat) : Option String :=
  match s with
  | .unset => none
  | .given id => some id
  | .dflt => if which == 0 then some d.cert else if which == 1 then some d.tc else d.crl

def b2s (b : Bool) : String := if b then "accepts" else "rejects"

/-- the outcome of one connection: `srv` finalized server configuration with the default directory it resolved at creation
(`sdir`), the client resolving the current one (`cdir`) -/
def connection (sdir cdir : Dflt) (srv : Conf) (host aa ca : String) (names : Bool) : String :=
  let loadOk (dflt : Dflt) (c : Conf) : Bool := !(c.crl == .dflt && dflt.crl.isNone)
  let addrName := if host.any Char.isAlpha then some host else none
  match finalize (setAttrs initConn (parseAttrs ca)) with
  | none => "server=ok client=connect:EINVAL accepted=none"
  | some cli0 =>
    if !loadOk cdir cli0 then "server=ok client=connect:EPROTO accepted=none" else
    match hostnameOk cli0 addrName with
    | none => "server=ok client=connect:EINVAL accepted=none"
    | some cli =>
      match finalize (setAttrs (inherit srv) (parseAttrs aa)) with
      | none => "server=ok client=- accepted=accept:EINVAL"
      | some acc0 =>
        if !loadOk sdir acc0 then "server=ok client=- accepted=accept:EPROTO" else
        match hostnameOk acc0 none with
        | none => "server=ok client=- accepted=accept:EINVAL"
        | some acc =>
          -- OpenSSL completes the chain it sends with intermediates found in the sender's own trust store
          let credFor (dflt : Dflt) (c : Conf) : Cred :=
            let cr := credOf ((matOf dflt c.cert 0).getD "a1")
            let own := trustOf (matOf dflt c.tc 1) none
            match cr.inter with
            | some i => { cr with sendsInter := cr.sendsInter || own.cas.contains i }
            | none => cr
          let cliAcc := accepts cli (trustOf (matOf cdir cli.tc 1) (matOf cdir cli.crl 2)) (credFor sdir acc)
          let accAcc := accepts acc (trustOf (matOf sdir acc.tc 1) (matOf sdir acc.crl 2)) (credFor cdir cli)
          -- both ends in the same TLS role cannot handshake at all
          let roles := cli.tlsClient != acc.tlsClient
          let sees := if names then s!" cli_sees={(credFor sdir acc).leaf} acc_sees={(credFor cdir cli).leaf}" else ""
          s!"server=ok client={b2s (cliAcc && roles)} accepted={b2s (accAcc && roles)}{sees}"


def step (d : D) (ws : List String) : D × String :=
  match ws with
  | "D" :: cert :: tc :: crl :: rest =>
    let dir := match rest with | [x] => x | _ => "default"
    let nd : Dflt := { cert := cert, tc := tc, crl := if crl == "-" then none else some crl }
    ({ d with dirs := (dir, nd) :: d.dirs.filter (fun x => x.1 != dir) }, "ok")
  | ["ENV", dir] => ({ d with cur := dir }, "ok")
  | ["M", _proto, host, sa, aa, ca] =>
    let dflt := (d.dirs.lookup d.cur).getD {}
    match finalize (setAttrs initServer (parseAttrs sa)) with
    | none => (d, "server=EINVAL")
    | some srv =>
      if srv.crl == .dflt && dflt.crl.isNone then (d, "server=EPROTO") else
      (d, connection dflt dflt srv host aa ca false)
  | ["SRV", id, _proto, sa] =>
    let dflt := (d.dirs.lookup d.cur).getD {}
    match finalize (setAttrs initServer (parseAttrs sa)) with
    | none => ({ d with srvs := d.srvs.filter (fun x => x.1 != id) }, "server=EINVAL")
    | some srv =>
      if srv.crl == .dflt && dflt.crl.isNone then ({ d with srvs := d.srvs.filter (fun x => x.1 != id) }, "server=EPROTO") else
      ({ d with srvs := (id, srv, d.cur) :: d.srvs.filter (fun x => x.1 != id) }, "server=ok")
  | ["CON", _pid, sid, host, aa, ca] =>
    match d.srvs.lookup sid with
    | none => (d, "no-server")
    | some (srv, sdirName) =>
      -- the server socket keeps the file NAMES it resolved when it was created; their CONTENT is read per connection
      let sdir := (d.dirs.lookup sdirName).getD {}
      let cdir := (d.dirs.lookup d.cur).getD {}
      (d, connection sdir cdir srv host aa ca true)
  | ["CLOSESRV", id] => ({ d with srvs := d.srvs.filter (fun x => x.1 != id) }, "ok")
  | ["CLOSE", _] => (d, "ok")
  | ["FORKCLEAN", _] => (d, "ok")
  | ["CTXLIVE"] => (d, "live_ctx=0")
  | ["PING", _] => (d, "-")
  | _ => (d, "bad-op")

def main : IO Unit := runLoop step ({} : D)

end Driver.TlsPolicyD
