import Driver.Util
import XcmModel.CtxStore
namespace Driver.CtxStoreD
open XcmModel XcmModel.CtxStore Driver

/-! the PKI fixture's contents (what OpenSSL finds in each file): K-openssl-parse as a table -/
inductive Block where
  | cert (cn : String) | key (owner : String) | crl | bad
  deriving DecidableEq, Repr

def blocksOf (name : String) : List Block :=
  if name == "viaInter-chain" then [.cert "viaInter", .cert "verif-interA"]
  else if name == "viaRevokedInter-chain" then [.cert "viaRevokedInter", .cert "verif-interX"]
  else if name == "garbage" then [.bad]
  else if name == "empty" then []
  else if name.startsWith "crl" then [.crl]
  else if name.endsWith "-key" then [.key (name.dropEnd 4).toString]
  else if name.startsWith "root" || name.startsWith "inter" then [.cert ("verif-" ++ name)]
  else [.cert name]

def blocks (spec : Mat) : List Block := (spec.splitOn "+").flatMap blocksOf

structure Desc where
  cn : String
  chain : Nat
  tc : List String
  crl : Nat

def certTyped (bs : List Block) : List Block := bs.filter (fun b => match b with | .cert _ => true | .bad => true | _ => false)

def insertSorted (s : String) : List String → List String
  | [] => [s]
  | h :: t => if s == h then h :: t else if s < h then s :: h :: t else h :: insertSorted s t

/-- what `load_ssl_ctx` builds, or `none` when it fails with EPROTO -/
def describe (ms : List (Option Mat)) : Option Desc :=
  match ms with
  | [some c, some k, tc, crl] =>
    match certTyped (blocks c) with
    | .cert cn :: rest =>
      if rest.any (· == .bad) then none else
      match (blocks k).filter (fun b => match b with | .key _ => true | _ => false) with
      | .key owner :: _ =>
        if owner != cn then none else
        let tcN : Option (List String) := match tc with
          | none => some []
          | some t =>
            let cs := certTyped (blocks t)
            if cs.isEmpty || cs.any (· == .bad) then none
            else some (cs.foldl (fun acc b => match b with | .cert n => insertSorted n acc | _ => acc) [])
        let crlN : Option Nat := match crl with
          | none => some 0
          | some r =>
            let n := ((blocks r).filter (· == .crl)).length
            if n == 0 then none else some n
        match tcN, crlN with
        | some t, some r => some { cn := cn, chain := rest.length, tc := t, crl := r }
        | _, _ => none
      | _ => none
    | _ => none
  | _ => none

def okMats (ms : List (Option Mat)) : Bool := (describe ms).isSome

structure D where
  w : World := []
  snap : Snap := []
  nextVer : Nat := 1
  st : Store := {}
  slots : List (Nat × Nat) := []       -- slot -> ctx

def setFile (d : D) (p : Path) (f : FileSt) : D :=
  { d with w := ((p, d.nextVer), f) :: d.w, snap := (p, d.nextVer) :: d.snap, nextVer := d.nextVer + 1 }

def parseItem (w : String) : Item :=
  if w == "-" then .none else if w.startsWith "f:" then .file (w.drop 2).toString else .value (w.drop 2).toString

def isSet : Item → Bool | .none => false | _ => true

/-- snapshots for up to `rounds` rounds of hash(4) + load(4) + hash(4) accesses; hook (k, p, spec) rewrites p right after the
k-th load of a set item -/
def mkSnaps (d : D) (cfg : List Item) (hooks : List (Nat × Path × Mat)) (rounds : Nat) : D × List Snap :=
  let rec go (r : Nat) (d : D) (loadNo : Nat) (acc : List Snap) : D × List Snap :=
    match r with
    | 0 => (d, acc.reverse)
    | r + 1 =>
      -- 4 hash accesses
      let acc := (List.replicate 4 d.snap) ++ acc
      -- 4 load accesses
      let (d, loadNo, acc) := cfg.foldl (fun (x : D × Nat × List Snap) it =>
        let (d, n, acc) := x
        let acc := d.snap :: acc
        if isSet it then
          let n := n + 1
          let d := hooks.foldl (fun d h => if h.1 == n then setFile d h.2.1 (.reg h.2.2) else d) d
          (d, n, acc)
        else (d, n, acc)) (d, loadNo, acc)
      let acc := (List.replicate 4 d.snap) ++ acc
      go r d loadNo acc
  go rounds d 0 []

def showCache (st : Store) (freedNow : List Nat) : String :=
  let es := st.entries.toArray.qsort (fun a b => a.ctx < b.ctx) |>.toList
  let c := String.join (es.map (fun e => s!" {e.ctx}:{e.cnt}"))
  let f := if freedNow.isEmpty then "-" else ",".intercalate (freedNow.map toString)
  s!" | cache{c} | freed {f}"

def countLoads (cfg : List Item) (e0 e1 : Env) : Nat := 0

def step (d : D) (ws : List String) : D × String :=
  match ws with
  | ["W", p, spec] => (setFile d p (.reg spec), "ok")
  | ["L", p, t] => (setFile d p (.lnk t), "ok")
  | ["X", p] => (setFile d p .missing, "ok")
  | "G" :: slot :: c :: k :: tc :: crl :: hookWs =>
    let slot := slot.toNat! % 64
    if (d.slots.lookup slot).isSome then (d, "slot-busy") else
    let cfg := [parseItem c, parseItem k, parseItem tc, parseItem crl]
    let hooks : List (Nat × Path × Mat) := hookWs.filterMap (fun h =>
      match h.splitOn ":" with
      | [a, p, m] => some (a.toNat!, p, m)
      | _ => none)
    let rounds := hooks.length + 2
    let (d1, snaps) := mkSnaps d cfg hooks rounds
    let env : Env := match snaps with | [] => { cur := d.snap, future := [] } | s :: t => { cur := s, future := t }
    let (st', res, env') := get d1.w okMats (rounds + 1) d.st cfg env
    -- accesses consumed tell how many loads were made
    let consumed := snaps.length - env'.future.length - 1
    let nset := (cfg.filter isSet).length
    let loads := (consumed / 12) * nset + (if consumed % 12 ≥ 8 then nset else 0)
    let dF : D := { d1 with st := st', snap := env'.cur }
    match res with
    | .ctx id created =>
      let mats := match findCtx id st'.entries with | some e => e.mats | none => []
      let desc := match describe mats with
        | some x => s!" cert={x.cn} chain={x.chain} tc={if x.tc.isEmpty then "-" else ",".intercalate x.tc} crl={x.crl}"
        | none => " cert=? chain=? tc=? crl=?"
      ({ dF with slots := (slot, id) :: d.slots },
       s!"ctx={id} created={if created then 1 else 0} loads={loads}{desc}{showCache st' []}")
    | .eproto => (dF, s!"-1 EPROTO loads={loads}{showCache st' []}")
    | .loadFailed => (dF, s!"-1 load-failed loads={loads}{showCache st' []}")
    | .diverged => (dF, "diverged")
  | ["P", slot] =>
    let slot := slot.toNat! % 64
    match d.slots.lookup slot with
    | none => (d, "slot-empty")
    | some c =>
      let st' := put d.st c
      if st'.aborted then (d, "abort") else
      let freedNow := st'.freed.take (st'.freed.length - d.st.freed.length)
      ({ d with st := st', slots := d.slots.filter (fun x => x.1 != slot) }, s!"put{showCache st' freedNow}")
  | _ => (d, "bad-op")

def main : IO Unit := runLoop step ({} : D)

end Driver.CtxStoreD
