import Driver.Util
import XcmModel.Framing
namespace Driver.FramingD
open XcmModel XcmModel.Framing Driver

def errName (e : Nat) : String :=
  match Generated.errnoTable.find? (·.2 == e) with
  | some (n, _) => n
  | none => s!"E{e}"

def errNum (n : String) : Nat :=
  match Generated.errnoTable.find? (·.1 == n) with
  | some (_, v) => v
  | none => n.toNat!

/-- "-" | comma separated: A | P<k> | E<name> -/
def parseAns (s : String) : List SAns :=
  if s == "-" then [] else
  (s.splitOn ",").map fun a =>
    if a == "A" then .ok 1000000
    else if a.startsWith "P" then .ok (a.drop 1).toString.toNat!
    else .err (errNum (a.drop 1).toString)

structure DSt where
  s : St := {}
  env : Env := {}

def showCnts (c : Cnts) : String :=
  s!"{c.toAppB} {c.fromAppB} {c.toLowerB} {c.fromLowerB} {c.toAppM} {c.fromAppM} {c.toLowerM} {c.fromLowerM}"

def showRes : Res → String
  | .ok => "0 | -"
  | .msg p _ => s!"{p.length} | {showBytes p}"
  | .closed => "0 | -"
  | .err e => s!"-1 {errName e} | -"
  | .abort site => s!"abort {site} | -"

def render (d : DSt) (txBefore : Nat) (r : Res) (used : Nat) : String :=
  let bad := match d.s.bad with | some e => errName e | none => "-"
  let delta := d.env.tx.drop txBefore
  s!"{showRes r} | {showCnts d.s.cnt} | {d.s.sbuf.length} {d.s.sent} {d.s.rbuf.length} {bad} | tx+{showBytes delta} ## used={used}"

def step (d : DSt) (ws : List String) : DSt × String :=
  let tx0 := d.env.tx.length
  match ws with
  | ["S", m, a] =>
    let ans := parseAns a
    let (s', env', r, rest) := send d.s d.env (hexD m) ans
    let d' := { s := s', env := env' }
    (d', render d' tx0 r (ans.length - rest.length))
  | ["SL", len, a] =>
    -- a send of `len` > MBUF_MSG_MAX bytes: the outcome does not depend on the content (Framing.send checks the size first)
    match len.toNat? with
    | some l =>
      if l > Generated.MBUF_MSG_MAX then
        let ans := parseAns a
        let (s', env', r, rest) := send d.s d.env (List.replicate (Generated.MBUF_MSG_MAX + 1) 90) ans
        let d' := { s := s', env := env' }
        (d', render d' tx0 r (ans.length - rest.length))
      else (d, "bad-op")
    | none => (d, "bad-op")
  | ["R", cap, a] =>
    let ans := parseAns a
    let (s', env', r, rest) := receive d.s d.env cap.toNat! ans
    let d' := { s := s', env := env' }
    (d', render d' tx0 r (ans.length - rest.length))
  | ["F", a, fin] =>
    let ans := parseAns a
    let f := if fin == "ok" then none else some (errNum (fin.drop 1).toString)
    let (s', env', r, rest) := finish d.s d.env ans f
    let d' := { s := s', env := env' }
    (d', render d' tx0 r (ans.length - rest.length))
  | ["U", cond] => (d, s!"lower={lowerCondition d.s cond.toNat!}")
  | ["A", h] =>
    let b := hexD h
    if b.isEmpty then (d, "ok") else ({ d with env := { d.env with rx := d.env.rx ++ [b] } }, "ok")
  | ["Z"] => ({ d with env := { d.env with rxEnd := some .eof } }, "ok")
  | ["X", e] => ({ d with env := { d.env with rxEnd := some (.err (errNum e)) } }, "ok")
  | ["N"] => ({}, "ok")   -- new connection
  | _ => (d, "bad-op")

def main : IO Unit := runLoop step ({} : DSt)

end Driver.FramingD
