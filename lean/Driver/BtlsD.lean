import Driver.Util
import Driver.FramingD
import XcmModel.Btls
namespace Driver.BtlsD
open XcmModel XcmModel.Btls Driver

def parseEv (w : String) : Option SslEv :=
  if w == "wr" then some .wantRead else if w == "ww" then some .wantWrite
  else if w == "zr" then some .zeroReturn else if w == "se" then some .sslErr
  else if w.startsWith "sc:" then
    match (w.drop 3).toString.splitOn ":" with
    | [e, q] => some (.syscall (if e == "0" then 0 else FramingD.errNum e) (q == "1"))
    | [e] => some (.syscall (if e == "0" then 0 else FramingD.errNum e) false)
    | _ => none
  else none

structure D where
  s : St := {}
  cert : CertRes := .none

def parseW (w : String) : WAns :=
  if w.startsWith "ok" then .n (if w.length > 2 then (w.drop 3).toString.toNat! else 1000000000)
  else if w == "z0" then .zero else match parseEv w with | some e => .ev e | none => .ev .sslErr

def parseH (d : D) (w : String) : HAns :=
  if w.startsWith "ok" then .done d.cert else match parseEv w with | some e => .ev e | none => .ev .sslErr

def showState : CState → String
  | .handshaking => "handshaking" | .ready => "ready" | .closed => "closed" | .bad e => s!"bad:{FramingD.errName e}"

def render (s : St) (r : Res) (hs wr rd : Nat) (tx : Bytes) : String :=
  let res := match r with
    | .n k p => if p.isEmpty then s!"{k} | -" else s!"{k} | {showBytes p}"
    | .err e => s!"-1 {FramingD.errName e} | -"
  let t := if tx.isEmpty then "-" else showBytes tx
  s!"{res} | {s.cnt.toApp} {s.cnt.fromApp} {s.cnt.toLower} {s.cnt.fromLower} | {showState s.state} c={s.sslCondition} w={s.sslWants} pend={s.pend.length} | hs={hs} wr={wr} rd={rd} tx+{t}"

def b2n (b : Bool) : Nat := if b then 1 else 0

def step (d : D) (ws : List String) : D × String :=
  match ws with
  | ["N", auth, _client, cert, h] =>
    let c := if cert == "ok" then CertRes.ok else if cert == "rejected" then .rejected else .none
    let d0 : D := { s := { auth := auth == "1" }, cert := c }
    let s' := tryFinishHandshake d0.s (parseH d0 h)
    ({ d0 with s := s' }, s!"{showState s'.state} c={s'.sslCondition} w={s'.sslWants}")
  | "S" :: m :: h :: wsw =>
    let buf := hexD m
    let hsCalled := b2n (d.s.state = .handshaking)
    let (s', r, nw) := send d.s buf (parseH d h) (wsw.map parseW)
    let tx := s'.written.drop d.s.written.length
    ({ d with s := s' }, render s' r hsCalled nw 0 tx)
  | "R" :: cap :: h :: r :: wsw =>
    let ra : RAns := if r.startsWith "d:" then .data (hexD (r.drop 2).toString) else match parseEv r with | some e => .ev e | none => .ev .sslErr
    let hsCalled := b2n (d.s.state = .handshaking)
    let (s', res, called, nw) := receive d.s cap.toNat! (parseH d h) (wsw.map parseW) ra
    let tx := s'.written.drop d.s.written.length
    ({ d with s := s' }, render s' res hsCalled nw (b2n called) tx)
  | "F" :: h :: l :: wsw =>
    let hsCalled := b2n (d.s.state = .handshaking)
    let (s', res, nw) := finish d.s (parseH d h) (wsw.map parseW) (if l == "ok" then none else some (FramingD.errNum l))
    let tx := s'.written.drop d.s.written.length
    ({ d with s := s' }, render s' res hsCalled nw 0 tx)
  | ["U", cond, hp] =>
    let (bell, lower, called, ab) := connUpdate d.s cond.toNat! (hp == "1")
    if ab then (d, "abort") else
    (d, s!"bell={b2n bell} lower={lower} called={b2n called}")
  | _ => (d, "bad-op")

def main : IO Unit := runLoop step ({} : D)

end Driver.BtlsD
