import Driver.Util
import XcmModel.AttrMap
import XcmModel.AttrPath
namespace Driver.AttrMapD
open XcmModel XcmModel.AttrMap Driver

def tyOf (s : String) : Ty :=
  match s with
  | "1" => .bool | "2" => .int64 | "3" => .str | "4" => .bin | _ => .double

def tyNum : Ty → Nat
  | .bool => 1 | .int64 => 2 | .str => 3 | .bin => 4 | .double => 5

abbrev St := Array (Option Map)

def getM (s : St) (i : String) : Map := ((s[i.toNat!]?).getD none).getD []

def setM (s : St) (i : String) (m : Map) : St := s.setIfInBounds i.toNat! (some m)

def showAttr (a : Attr) : String := s!"{Hex.encode a.name}:{tyNum a.ty}:{showBytes a.val}"

def valid (s : St) (i : String) : Bool := ((s[i.toNat!]?).getD none).isSome

def step1 (s : St) (ws : List String) : St × String :=
  match ws with
  | ["new"] => (s.push (some []), "ok")
  | ["add", i, t, n, v] =>
    match addChecked (getM s i) ⟨hexD n, tyOf t, hexD v⟩ with
    | .ok m => (setM s i m, "ok")
    | _ => (s, "abort")
  | ["del", i, n] => (setM s i (del (getM s i) (hexD n)), "ok")
  | ["get", i, n] =>
    match get (getM s i) (hexD n) with
    | some (t, v) => (s, s!"{tyNum t} {showBytes v}")
    | none => (s, "none")
  | ["gett", i, t, n] =>
    match getTyped (getM s i) (hexD n) (tyOf t) with
    | some v => (s, showBytes v)
    | none => (s, "none")
  | ["exists", i, n] => (s, if AttrMap.exists (getM s i) (hexD n) then "1" else "0")
  | ["size", i] => (s, toString (size (getM s i)))
  | ["each", i] => (s, "[" ++ ",".intercalate ((foreach (getM s i)).map showAttr) ++ "]")
  | ["clone", i] => (s.push (some (clone (getM s i))), "ok")
  | ["addall", d, r] =>
    if d == r then (s, "ok") else (setM s d (addAll (getM s d) (getM s r)), "ok")
  | ["equal", i, j] => (s, if equal (getM s i) (getM s j) then "1" else "0")
  | ["destroy", i] => (s.setIfInBounds i.toNat! none, "ok")
  | _ => (s, "bad-op")

/-- ops naming a map that does not exist (or was destroyed) are `bad-op` on both sides -/
def step (s : St) (ws : List String) : St × String :=
  let ids := match ws with
    | ["add", i, _, _, _] => [i] | ["del", i, _] => [i] | ["get", i, _] => [i]
    | ["gett", i, _, _] => [i] | ["exists", i, _] => [i] | ["size", i] => [i] | ["each", i] => [i]
    | ["clone", i] => [i] | ["addall", d, r] => [d, r] | ["equal", i, j] => [i, j]
    | ["destroy", i] => [i] | _ => []
  if ids.all (valid s) then step1 s ws else (s, "bad-op")

def main : IO Unit := runLoop step (#[] : St)

end Driver.AttrMapD

namespace Driver.AttrPathD
open XcmModel XcmModel.AttrPath Driver

def showComp : Comp → String
  | .key k => s!"k{Hex.encode k}"
  | .index i => s!"i{i}"

/-- `parse <root> <hex>` : prints the components, the canonical string and its length;
    `eq <root> <hexA> <hexB>` : attr_path_equal_str(parse A, B);
    `vk <hex>` : attr_path_is_valid_key -/
def step (_ : Unit) (ws : List String) : Unit × String :=
  match ws with
  | ["parse", r, h] =>
    let root := r == "1"
    match parse (hexD h) root with
    | none => ((), "null")
    | some p =>
      let comps := " ".intercalate (p.map showComp)
      match print p root with
      | some str => ((), s!"ok {p.length} [{comps}] {Hex.encode str} {str.length}")
      | none => ((), s!"ok {p.length} [{comps}] abort")
  | ["eq", r, a, b] =>
    let root := r == "1"
    match parse (hexD a) root with
    | none => ((), "null")
    | some p =>
      match parse (hexD b) root with
      | none => ((), "0")
      | some q => ((), if p == q then "1" else "0")
  | ["vk", h] => ((), if isValidKey (hexD h) then "1" else "0")
  | _ => ((), "bad-op")

def main : IO Unit := runLoop step ()

end Driver.AttrPathD
