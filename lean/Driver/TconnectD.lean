import Driver.Util
import Driver.FramingD
import XcmModel.Tconnect
namespace Driver.TconnectD
open XcmModel XcmModel.Tconnect Driver

def parseScript (s : String) : List Tok :=
  if s == "-" then [] else
  (s.splitOn ",").map fun a =>
    if a == "ok" then .ok else if a == "x" then .x
    else if a.startsWith "E" then .err (FramingD.errNum (a.drop 1).toString) else .ip

def parseFams (s : String) : List Fam :=
  (s.splitOn ",").map fun a => if a.startsWith "4" then .v4 else .v6

def showTrace (tr : List String) : String := if tr.isEmpty then "-" else " ".intercalate tr

def counts (tc : TC) : String :=
  s!"regs={(tc.tracks.filter (·.reg)).length} timers={(tc.tracks.filter (·.timer)).length}"

def step (tc : TC) (ws : List String) : TC × String :=
  match ws with
  | ["N", alg, fams, loc, _lport, sc] =>
    let a := if alg == "single" then Alg.single else if alg == "sequential" then .sequential else .happy
    let (tc', _, tr) := tcConnect a (parseFams fams) (loc == "1") (parseScript sc)
    (tc', s!"0 | {showTrace tr} | {counts tc'}")
  | ["P", sc] =>
    let (tc', r, tr) := tcGetFd tc (parseScript sc)
    let rs := match r with
      | .fd f => s!"0 fd={famStr f}"
      | .err e => s!"-1 {FramingD.errName e}"
      | .abort => "abort"
    (tc', s!"{rs} | {showTrace tr} | {counts tc'}")
  | _ => (tc, "bad-op")

def main : IO Unit := runLoop step ({ tracks := [] } : TC)

end Driver.TconnectD
