import Driver.Util
import Driver.FramingD
import XcmModel.Life
namespace Driver.LifeD
open XcmModel XcmModel.Life Driver

structure D where
  led : Ledger := {}
  slots : List (Nat × Bool × Bool) := []     -- slot -> (blocking, is a server socket)

def evName : Ev → String
  | .sockAcq => "sock+" | .sockRel => "sock-" | .xpollAcq => "xpoll+" | .xpollFail => "xpoll!" | .xpollRel => "xpoll-"
  | .initOk => "init+" | .initFail => "init!" | .connectOk => "connect+" | .connectFail => "connect!"
  | .serverOk => "server+" | .serverFail => "server!" | .acceptOk => "accept+" | .acceptFail e => s!"accept!({FramingD.errName e})"
  | .finishOk => "finish+" | .finishFail => "finish!" | .close => "close" | .cleanup => "cleanup" | .wait => "wait"

def parseAns (ws : List String) : List Ans := ws.map (fun w => if w == "ok" then none else some (FramingD.errNum w))

def render (res : String) (evs : List Ev) (l : Ledger) : String :=
  let t := if evs.isEmpty then "-" else " ".intercalate (evs.map evName)
  s!"{res} | {t} | sock={l.sock} xpoll={l.xpoll} tp={l.tp} bad_release={l.badRelease}"

def step (d : D) (ws : List String) : D × String :=
  match ws with
  | kind :: slot :: bl :: bad :: answers =>
    if kind == "CONNECT" || kind == "SERVER" then
      let slot := slot.toNat! % 16
      let (res, evs) := create (if kind == "CONNECT" then .connect else .server) (bl == "1") (bad == "1") (parseAns answers)
      let l := d.led.run evs
      match res with
      | none =>
        if (d.slots.lookup slot).isSome then
          -- the harness closes the surplus socket again
          ({ d with led := l.run (closeEvs false) }, "slot-busy")
        else ({ led := l, slots := (slot, bl == "1", kind == "SERVER") :: d.slots }, render "ok" evs l)
      | some e => ({ d with led := l }, render (FramingD.errName e) evs l)
    else if kind == "ACCEPT" then
      let slot := slot.toNat! % 16
      let ss := bl.toNat! % 16
      match d.slots.lookup ss with
      | none => (d, "bad-slot")
      | some (blocking, isServer) =>
        if (d.slots.lookup slot).isSome then (d, "bad-slot") else
        if !isServer then (d, render "EINVAL" [] d.led) else
        let (res, evs) := accept blocking (bad == "1") 64 (parseAns answers)
        let l := d.led.run evs
        match res with
        | none => ({ led := l, slots := (slot, blocking, false) :: d.slots }, render "ok" evs l)
        | some e => ({ d with led := l }, render (FramingD.errName e) evs l)
    else (d, "bad-op")
  | [op, slot] =>
    if op == "CLOSE" || op == "CLEANUP" then
      let slot := slot.toNat! % 16
      match d.slots.lookup slot with
      | none => (d, render "done" [] d.led)           -- xcm_close(NULL)
      | some _ =>
        let evs := closeEvs (op == "CLEANUP")
        let l := d.led.run evs
        ({ led := l, slots := d.slots.filter (fun x => x.1 != slot) }, render "done" evs l)
    else (d, "bad-op")
  | _ => (d, "bad-op")

def main : IO Unit := runLoop step ({} : D)

end Driver.LifeD
