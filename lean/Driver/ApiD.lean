import Driver.Util
import Driver.FramingD
import XcmModel.Api
namespace Driver.ApiD
open XcmModel XcmModel.Api Driver

def parseScript (s : String) : List Ans :=
  if s == "-" then [] else
  (s.splitOn ",").map fun a =>
    if a.startsWith "E" then .err (FramingD.errNum a) else .ok a.toNat!

def showCall : Call → String
  | .tpSend off len acc => s!"S({off},{len})"
  | .tpRecv cap => s!"R({cap})"
  | .tpFinish => "F"
  | .wait c => s!"W({c})"
  | .update c => s!"U({c})"

def showRes : Res → String
  | .rc n => s!"{n}"
  | .err e => s!"-1 {FramingD.errName e}"

def showTrace (tr : List Call) : String :=
  if tr.isEmpty then "-" else " ".intercalate (tr.map showCall)

def step (sk : Sock) (ws : List String) : Sock × String :=
  match ws with
  | ["N", b, bs] => ({ blocking := b == "1", bytestream := bs == "1" }, "ok")
  | ["S", len, sc] => let (r, tr) := send sk len.toNat! (parseScript sc); (sk, s!"{showRes r} | {showTrace tr}")
  | ["R", cap, sc] => let (r, tr) := receive sk cap.toNat! (parseScript sc); (sk, s!"{showRes r} | {showTrace tr}")
  | ["F", sc] => let (r, tr) := finish sk (parseScript sc); (sk, s!"{showRes r} | {showTrace tr}")
  | ["A", c] => let (r, tr) := await sk c.toNat!; (sk, s!"{showRes r} | {showTrace tr}")
  | ["B", b, sc] =>
    let (sk', r, tr) := setBlocking sk (b == "1") (parseScript sc)
    (sk', s!"{showRes r} | {showTrace tr} | blocking={if sk'.blocking then 1 else 0}")
  | _ => (sk, "bad-op")

def main : IO Unit := runLoop step ({ blocking := true, bytestream := false } : Sock)

end Driver.ApiD
