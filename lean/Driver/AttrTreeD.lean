import Driver.Util
import XcmModel.AttrTree
namespace Driver.AttrTreeD
open XcmModel XcmModel.AttrPath XcmModel.AttrTree Driver

structure D where
  t : Tree := []
  live : Bool := false

def bytesOf (s : String) : Bytes := s.toUTF8.toList
def strOf (b : Bytes) : String := String.ofList (b.map fun c => Char.ofNat c.toNat)

def insertSorted (x : String × Nat) : List (String × Nat) → List (String × Nat)
  | [] => [x]
  | y :: ys => if x.1 < y.1 then x :: y :: ys else y :: insertSorted x ys

def step (d : D) (ws : List String) : D × String :=
  match ws with
  | ["N"] => ({ t := [], live := true }, "new")
  | _ =>
  if !d.live then (d, "bad-op") else
  match ws with
  | ["AV", path, id, rd] =>
    match parse (bytesOf path) true, id.toNat? with
    | some p, some i => ({ d with t := add d.t p (.value i (rd == "1")) }, "added")
    | _, _ => (d, "bad-op")
  | ["AL", path] =>
    match parse (bytesOf path) true with
    | some p => ({ d with t := add d.t p .list }, "added")
    | none => (d, "bad-op")
  | ["G", path] =>
    match parse (bytesOf path) true with
    | none => (d, "err EINVAL")
    | some p =>
      match lookupWalk d.t p with
      | .none => (d, "err ENOENT")
      | .value id true => (d, s!"value {id}")
      | _ => (d, "err EACCES")
  | ["L", path] =>
    match parse (bytesOf path) true with
    | none => (d, "err EINVAL")
    | some p =>
      match getListLen d.t p with
      | some n => (d, s!"len {n}")
      | none => (d, "err ENOENT")
  | ["ALL"] =>
    let names := (allValues d.t).filterMap fun (p, id) => (print p true).map fun b => (strOf b, id)
    let sorted := names.foldl (fun acc x => insertSorted x acc) []
    (d, "all" ++ String.join (sorted.map fun (n, id) => s!" {n}={id}"))
  | _ => (d, "bad-op")

def main : IO Unit := runLoop step ({} : D)

end Driver.AttrTreeD
