import Driver.Util
import XcmModel.Addr
namespace Driver.AddrD
open XcmModel XcmModel.Addr XcmModel.Libc Driver

structure St where
  p6 : List (Bytes × Option Bytes) := []
  n6 : List (Bytes × Bytes) := []

def ipOf (s : St) : IpText :=
  { ntop4 := ntop4, pton4 := pton4,
    ntop6 := fun a => ((s.n6.find? (·.1 == a)).map (·.2)).getD [63],
    pton6 := fun t => ((s.p6.find? (·.1 == t)).map (·.2)).getD none }

def protoOf (s : String) : Bytes := s.toUTF8.toList

def showHost : Host → String
  | .name n => s!"n{Hex.encode n}"
  | .ip4 a => s!"4{a}"
  | .ip6 a => s!"6{Hex.encode a}"

def readHost (s : String) : Host :=
  let body := (s.drop 1).toString
  if s.startsWith "n" then .name (hexD body)
  else if s.startsWith "4" then .ip4 body.toNat!
  else .ip6 (hexD body)

def showErr : PErr → String
  | .inval => "err EINVAL"
  | .toolong => "err ENAMETOOLONG"

def showMake : MakeResult → String
  | .ok buf => s!"ok {Hex.encode buf}"
  | .toolong w => s!"err ENAMETOOLONG ## {w}"
  | .inval => "err EINVAL"

def step (s : St) (ws : List String) : St × String :=
  match ws with
  | ["p6", t, "none"] => ({ s with p6 := (hexD t, none) :: s.p6 }, "ok")
  | ["p6", t, a] => ({ s with p6 := (hexD t, some (hexD a)) :: s.p6 }, "ok")
  | ["n6", a, t] => ({ s with n6 := (hexD a, hexD t) :: s.n6 }, "ok")
  | ["parse", p, a] =>
    match hostPortParse (ipOf s) (protoOf p) (hexD a) with
    | .ok (h, port) => (s, s!"ok {showHost h} {port}")
    | .error e => (s, showErr e)
  | ["parseux", p, a, cap] =>
    match parseUx (protoOf p) (hexD a) cap.toNat! with
    | .ok n => (s, s!"ok {Hex.encode n}")
    | .error e => (s, showErr e)
  | ["proto", a, cap] =>
    match parseProto (hexD a) cap.toNat! with
    | .ok n => (s, s!"ok {Hex.encode n}")
    | .error e => (s, showErr e)
  | ["make", p, h, port, cap] =>
    (s, showMake (hostPortMake (ipOf s) (protoOf p) (readHost h) port.toNat! cap.toNat!))
  | ["makeux", p, n, cap] => (s, showMake (uxMake (protoOf p) (hexD n) cap.toNat!))
  | ["valid", a] => (s, if isValid (ipOf s) (hexD a) then "1" else "0")
  | ["dns", n] => (s, if dnsValid (hexD n) then "1" else "0")
  | ["pton4", t] =>
    match pton4 (hexD t) with
    | some a => (s, toString a)
    | none => (s, "none")
  | ["ntop4", a] => (s, Hex.encode (ntop4 a.toNat!))
  | ["strtol", t] =>
    let (v, n) := strtol (hexD t)
    (s, s!"{v} {n}")
  | ["dec", n] => (s, Hex.encode (natToDec n.toNat!))
  | _ => (s, "bad-op")

def main : IO Unit := runLoop step ({} : St)

end Driver.AddrD
