import XcmModel.Basic
namespace Driver
open XcmModel

def words (line : String) : List String :=
  (line.trimAscii.toString.splitOn " ").filter (· ≠ "")

def hexD (s : String) : Bytes := (Hex.decode s).getD []

partial def loop {σ : Type} (h : IO.FS.Stream) (out : IO.FS.Stream) (step : σ → List String → σ × String) (s : σ) : IO Unit := do
  let line ← h.getLine
  if line.isEmpty then
    out.flush
    return ()
  let ws := words line
  if ws.isEmpty || (ws.head!.startsWith "#") then
    loop h out step s
  else
    let (s', o) := step s ws
    out.putStrLn o
    loop h out step s'

def runLoop {σ : Type} (step : σ → List String → σ × String) (init : σ) : IO Unit := do
  let stdin ← IO.getStdin
  let stdout ← IO.getStdout
  loop stdin stdout step init

end Driver
