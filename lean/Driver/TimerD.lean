import Driver.Util
import XcmModel.TimerMgr
namespace Driver.TimerD
open XcmModel XcmModel.TimerMgr Driver

def TICK : Nat := 1953125

structure D where
  s : State := {}
  live : Bool := false

def render (s : State) (res : String) : String :=
  let a := match s.armed with | some a => toString a | none => "off"
  let l := if s.timers.isEmpty then "-" else ",".intercalate (s.timers.map fun t => s!"{t.id}:{t.expiry}")
  s!"{res} | armed={a} | {l}"

def step (d : D) (ws : List String) : D × String :=
  match ws with
  | ["N"] => ({ s := {}, live := true }, render {} "new")
  | ["KERN"] => (d, "kern ok")
  | _ =>
  if !d.live then (d, "bad-op") else
  match ws with
  | ["S", now, rel] =>
    match now.toNat?, rel.toInt? with
    | some n, some r =>
      let (s', id) := schedule d.s (n * TICK) (r * TICK)
      ({ d with s := s' }, render s' s!"id={id}")
    | _, _ => (d, "bad-op")
  | ["R", now, rel, id] =>
    match now.toNat?, rel.toInt?, id.toInt? with
    | some n, some r, some i =>
      let (s', id') := reschedule d.s (n * TICK) (r * TICK) i
      ({ d with s := s' }, render s' s!"id={id'}")
    | _, _, _ => (d, "bad-op")
  | ["C", id] =>
    match id.toInt? with
    | some i => let (s', id') := cancel d.s i; ({ d with s := s' }, render s' s!"id={id'}")
    | none => (d, "bad-op")
  | ["K", id] =>
    match id.toInt? with
    | some i =>
      match ack d.s i with
      | .ok (s', id') => ({ d with s := s' }, render s' s!"id={id'}")
      | _ => (d, render d.s "abort")
    | none => (d, "bad-op")
  | ["E", now, id] =>
    match now.toNat?, id.toInt? with
    | some n, some i =>
      match hasExpired d.s (n * TICK) i with
      | .ok b => (d, render d.s s!"expired={if b then 1 else 0}")
      | _ => (d, render d.s "oob")
    | _, _ => (d, "bad-op")
  | ["P", now] =>
    match now.toNat? with
    | some n => (d, render d.s s!"readable={if readable d.s (n * TICK) then 1 else 0}")
    | none => (d, "bad-op")
  | _ => (d, "bad-op")

def main : IO Unit := runLoop step ({} : D)

end Driver.TimerD
