import Driver.Util
import XcmModel.Tp
namespace Driver.TpD
open XcmModel XcmModel.Tp Driver

structure D where
  s : Sock := { auto := true, autoCtl := false }
  srv : Sock := { auto := true, autoCtl := false }
  live : Bool := false

def parseAns (w : String) : Ans × Int :=
  if w.startsWith "E" then (if w == "EEAGAIN" then .again else .fail, -1)
  else match w.toInt? with
    | some k => (if k > 0 then .pos else if k == 0 then .zero else .fail, k)
    | none => (.fail, -1)

def callName : Call → String
  | .connect => "connect" | .server => "server" | .accept => "accept" | .send => "send" | .receive => "receive"
  | .finish => "finish" | .update => "update" | .updateServer => "update_server" | .ctl => "ctl" | .ctlCreate => "ctl_create"

def b2n (b : Bool) : Nat := if b then 1 else 0

def render (d : D) (rc : Int) (tr : List Call) : String :=
  let t := if tr.isEmpty then "-" else " ".intercalate (tr.map callName)
  s!"rc={rc} | {t} | skipped={d.s.skipped},{d.srv.skipped} ctl={b2n d.s.hasCtl},{b2n d.srv.hasCtl}"

def step (d : D) (ws : List String) : D × String :=
  match ws with
  | ["N", au, ac] =>
    let mk : Sock := { auto := au == "1", autoCtl := ac == "1" }
    let d' : D := { s := mk, srv := mk, live := true }
    (d', render d' 0 [])
  | [op, a] =>
    if !d.live then (d, "bad-op") else
    let (ans, rc) := parseAns a
    match op with
    | "C" => let (s', tr) := connect d.s ans; let d' := { d with s := s' }; (d', render d' rc tr)
    | "V" => let (s', tr) := server d.srv ans; let d' := { d with srv := s' }; (d', render d' rc tr)
    | "A" => let (c', s', tr) := accept d.s d.srv ans; let d' := { d with s := c', srv := s' }; (d', render d' rc tr)
    | "S" => let (s', tr) := send d.s ans; let d' := { d with s := s' }; (d', render d' rc tr)
    | "R" => let (s', tr) := receive d.s ans; let d' := { d with s := s' }; (d', render d' rc tr)
    | "F" => let (s', tr) := finish d.s ans; let d' := { d with s := s' }; (d', render d' rc tr)
    | _ => (d, "bad-op")
  | ["U"] => if !d.live then (d, "bad-op") else (d, render d 0 [.update])
  | _ => (d, "bad-op")

def main : IO Unit := runLoop step ({} : D)

end Driver.TpD
