import Driver.Util
import Driver.FramingD
import XcmModel.Btcp
import XcmModel.TcpOpts
namespace Driver.BtcpD
open XcmModel XcmModel.Btcp Driver

def parseEst (s : String) : List EstAns :=
  if s == "-" then [] else
  (s.splitOn ",").map fun a =>
    if a == "a" then .again else if a == "o" then .ok
    else .fail (FramingD.errNum (a.drop 1).toString)

def showState : CState → String
  | .resolving => "resolving" | .connecting => "connecting" | .ready => "ready" | .closed => "closed"
  | .bad e => s!"bad:{FramingD.errName e}"
  | .resolvingLocal r => if r then "resolving-local+remote" else "resolving-local"

def render (s : St) (txBefore : Nat) (r : Res) : String :=
  let res := match r with
    | .n k p => if p.isEmpty then s!"{k} | -" else s!"{k} | {showBytes p}"
    | .err e => s!"-1 {FramingD.errName e} | -"
  s!"{res} | {s.cnt.toApp} {s.cnt.fromApp} {s.cnt.toLower} {s.cnt.fromLower} | {showState s.state} | tx+{showBytes (s.tx.drop txBefore)}"

def showOpts (o : TcpOpts.Opts) : String :=
  s!"{if o.keepalive then 1 else 0},{o.time},{o.interval},{o.count},{o.userTimeout}"

def showTcp (t : TcpOpts.St) : String :=
  let a := match t.applied with | some o => showOpts o | none => "-"
  s!"d={showOpts t.desired} a={a}"

/-- option bookkeeping across the state transitions of `try_establish` -/
def track (before after : CState) (t : TcpOpts.St) : TcpOpts.St :=
  let wasResolving := before = .resolving ∨ before = .resolvingLocal true ∨ before = .resolvingLocal false
  let t1 := if wasResolving ∧ (after = .connecting ∨ after = .ready) then TcpOpts.beginConnect t else t
  if after = .ready ∧ before ≠ .ready then TcpOpts.finishConnect t1 else t1

structure D where
  s : St
  t : TcpOpts.St := {}

def stepB (s0 : St) (ws : List String) : St × String :=
  let s : St := { s0 with tx := [], rxd := [] }
  match ws with
  | ["N", st] =>
    let cs := if st == "resolving" then CState.resolving else if st == "connecting" then .connecting
              else if st == "resolving-local" then .resolvingLocal false else if st == "resolving-local+remote" then .resolvingLocal true
              else .ready
    ({ state := cs }, "ok")
  | ["S", m, e, k] =>
    let ks := if k.startsWith "E" then KSend.err (FramingD.errNum (k.drop 1).toString)
              else if k == "A" then .ok 100000000 else .ok (k.drop 1).toString.toNat!
    let (s', r) := send s (hexD m) (parseEst e) ks
    (s', render s' 0 r)
  | ["R", cap, e, k] =>
    let kr := if k == "Z" then KRecv.eof
              else if k.startsWith "E" then .err (FramingD.errNum (k.drop 1).toString)
              else .data (hexD (k.drop 1).toString)
    let (s', r) := receive s cap.toNat! (parseEst e) kr
    (s', render s' 0 r)
  | ["F", e] =>
    let (s', r) := finish s (parseEst e)
    (s', render s' 0 r)
  | ["U", cond, qc] =>
    let (bell, ev) := connUpdate s.state cond.toNat! (qc == "1")
    let evs := match ev with | some v => toString v | none => "-"
    (s, s!"bell={if bell then 1 else 0} fd={evs}")
  | ["SU", cond] => (s, s!"fd={serverUpdate cond.toNat!}")
  | _ => (s, "bad-op")

def step (d : D) (ws : List String) : D × String :=
  match ws with
  | ["N", st] =>
    let (s', o) := stepB d.s ws
    let t0 : TcpOpts.St := {}
    let t := if st == "connecting" then TcpOpts.beginConnect t0
             else if st == "resolving" || st == "resolving-local" || st == "resolving-local+remote" then t0
             else TcpOpts.accept t0
    ({ s := s', t := t }, o)
  | ["O", name, v] =>
    let iv := v.toInt!
    let (t', r) :=
      if name == "keepalive" then TcpOpts.setKeepalive d.t (iv ≠ 0)
      else if name == "time" then TcpOpts.setField d.t .time iv
      else if name == "interval" then TcpOpts.setField d.t .interval iv
      else if name == "count" then TcpOpts.setField d.t .count iv
      else TcpOpts.setField d.t .userTimeout iv
    let rs := match r with | .ok => "0" | .einval => "-1 EINVAL"
    ({ d with t := t' }, s!"{rs} | {showTcp t'}")
  | ["A"] => (d, showTcp d.t)
  | _ =>
    let (s', o) := stepB d.s ws
    ({ s := s', t := track d.s.state s'.state d.t }, o)

def main : IO Unit := runLoop step ({ s := { state := .ready }, t := TcpOpts.accept {} } : D)

end Driver.BtcpD
