import Driver.Util
import Driver.FramingD
import XcmModel.Btcp
namespace Driver.BtcpD
open XcmModel XcmModel.Btcp Driver

def parseEst (s : String) : List EstAns :=
  if s == "-" then [] else
  (s.splitOn ",").map fun a =>
    if a == "a" then .again else if a == "o" then .ok
    else .fail (FramingD.errNum (a.drop 1).toString)

def showState : CState → String
  | .resolving => "resolving" | .connecting => "connecting" | .ready => "ready" | .closed => "closed"
  | .bad e => s!"bad:{FramingD.errName e}"

def render (s : St) (txBefore : Nat) (r : Res) : String :=
  let res := match r with
    | .n k p => if p.isEmpty then s!"{k} | -" else s!"{k} | {showBytes p}"
    | .err e => s!"-1 {FramingD.errName e} | -"
  s!"{res} | {s.cnt.toApp} {s.cnt.fromApp} {s.cnt.toLower} {s.cnt.fromLower} | {showState s.state} | tx+{showBytes (s.tx.drop txBefore)}"

def step (s0 : St) (ws : List String) : St × String :=
  let s : St := { s0 with tx := [], rxd := [] }
  match ws with
  | ["N", st] =>
    let cs := if st == "resolving" then CState.resolving else if st == "connecting" then .connecting else .ready
    ({ state := cs }, "ok")
  | ["S", m, e, k] =>
    let ks := if k.startsWith "E" then KSend.err (FramingD.errNum (k.drop 1).toString)
              else if k == "A" then .ok 100000000 else .ok (k.drop 1).toString.toNat!
    let (s', r) := send s (hexD m) (parseEst e) ks
    (s', render s' 0 r)
  | ["R", cap, e, k] =>
    let kr := if k == "Z" then KRecv.eof
              else if k.startsWith "E" then .err (FramingD.errNum (k.drop 1).toString)
              else .data (hexD (k.drop 1).toString)
    let (s', r) := receive s cap.toNat! (parseEst e) kr
    (s', render s' 0 r)
  | ["F", e] =>
    let (s', r) := finish s (parseEst e)
    (s', render s' 0 r)
  | ["U", cond, qc] =>
    let (bell, ev) := connUpdate s.state cond.toNat! (qc == "1")
    let evs := match ev with | some v => toString v | none => "-"
    (s, s!"bell={if bell then 1 else 0} fd={evs}")
  | ["SU", cond] => (s, s!"fd={serverUpdate cond.toNat!}")
  | _ => (s, "bad-op")

def main : IO Unit := runLoop step ({ state := .ready } : St)

end Driver.BtcpD
