import XcmModel.Basic
import XcmModel.Generated.Consts
/-
  Model of libxcm/tp/common/mbuf.h: the wire format of the TCP-based messaging
  transports.  A message travels as a 4-byte big-endian length followed by the payload.
-/
namespace XcmModel.Wire
open XcmModel

def be32 (n : Nat) : Bytes :=
  [UInt8.ofNat (n / 16777216 % 256), UInt8.ofNat (n / 65536 % 256),
   UInt8.ofNat (n / 256 % 256), UInt8.ofNat (n % 256)]

/-- `mbuf_complete_payload_len`: the big-endian number in the first four bytes -/
def rd32 (b : Bytes) : Nat :=
  match b with
  | a :: b :: c :: d :: _ => a.toNat * 16777216 + b.toNat * 65536 + c.toNat * 256 + d.toNat
  | _ => 0

/-- `mbuf_set` -/
def frame (m : Bytes) : Bytes := be32 m.length ++ m

def frames (ms : List Bytes) : Bytes := (ms.map frame).flatten

/-- a message `xcm_send` accepts on the TCP-based messaging transports -/
def Valid (m : Bytes) : Prop := 1 ≤ m.length ∧ m.length ≤ Generated.MBUF_MSG_MAX

/-- `mbuf_is_hdr_valid` (on a complete header) -/
def hdrValid (len : Nat) : Bool := decide (0 < len) && decide (len ≤ Generated.MBUF_MSG_MAX)

end XcmModel.Wire
