import XcmModel.Xpoll
namespace XcmModel.Xpoll
open XcmModel

/-- the kernel's interest list is exactly the registrations with a non-zero event mask, and a
descriptor is registered at most once -/
structure KInv (x : X) : Prop where
  sound : ∀ e ∈ x.kernel, e.2 ≠ 0 ∧ ∃ i : Nat, x.slots[i]? = some (some e)
  complete : ∀ (i fd ev : Nat), x.slots[i]? = some (some (fd, ev)) → ev ≠ 0 → (fd, ev) ∈ x.kernel
  distinct : ∀ (i j fd e1 e2 : Nat), x.slots[i]? = some (some (fd, e1)) → x.slots[j]? = some (some (fd, e2)) → i = j

theorem kinv_init : KInv ({} : X) := by
  constructor
  · intro e he; simp at he
  · intro i fd ev h; simp at h
  · intro i j fd e1 e2 h; simp at h

theorem epollMod_same (k : List (Nat × Nat)) (fd ev : Nat) : epollMod k fd ev ev = k := by simp [epollMod]

theorem mem_epollMod_add (k : List (Nat × Nat)) (fd new : Nat) (hn : new ≠ 0) (e : Nat × Nat) :
    e ∈ epollMod k fd 0 new ↔ e ∈ k ∨ e = (fd, new) := by
  have : ¬ (0 = new) := fun h => hn h.symm
  simp [epollMod, this]

theorem mem_epollMod_mod (k : List (Nat × Nat)) (fd old new : Nat) (h1 : old ≠ new) (h2 : old ≠ 0) (h3 : new ≠ 0)
    (e : Nat × Nat) :
    e ∈ epollMod k fd old new ↔ (e ∈ k ∧ e.1 ≠ fd) ∨ (e = (fd, new) ∧ ∃ e' ∈ k, e'.1 = fd) := by
  simp only [epollMod, h1, h2, h3, if_false, if_true, ne_eq, not_false_eq_true, List.mem_map]
  constructor
  · rintro ⟨e', he', hh⟩
    by_cases hf : e'.1 = fd
    · simp [hf] at hh; right; exact ⟨hh.symm, e', he', hf⟩
    · simp [hf] at hh; left; subst hh; exact ⟨he', hf⟩
  · rintro (⟨he, hf⟩ | ⟨he, e', he', hf⟩)
    · exact ⟨e, he, by simp [hf]⟩
    · exact ⟨e', he', by simp [hf, he]⟩

theorem mem_epollMod_del (k : List (Nat × Nat)) (fd old : Nat) (h2 : old ≠ 0) (e : Nat × Nat) :
    e ∈ epollMod k fd old 0 ↔ e ∈ k ∧ e.1 ≠ fd := by
  simp [epollMod, h2]

theorem getElem?_setAt {α : Type} (l : List α) (i j : Nat) (a : α) :
    (setAt l i a)[j]? = if i = j ∧ i < l.length then some a else l[j]? := by
  unfold setAt
  rw [List.getElem?_set]
  by_cases h : i = j
  · subst h
    by_cases h2 : i < l.length <;> simp [h2]
  · simp [h]

/-- changing the event mask of a registered descriptor keeps the kernel consistent -/
theorem kinv_fdRegMod (x : X) (idx ev : Nat) (h : KInv x) : KInv (fdRegMod x idx ev) := by
  unfold fdRegMod
  cases hs : x.slots[idx]? with
  | none => exact ⟨h.sound, h.complete, h.distinct⟩
  | some s =>
    cases s with
    | none => exact ⟨h.sound, h.complete, h.distinct⟩
    | some p =>
      obtain ⟨fd, old⟩ := p
      have hlt : idx < x.slots.length := (List.getElem?_eq_some_iff.mp hs).1
      have hget : ∀ j : Nat, (setAt x.slots idx (some (fd, ev)))[j]? = if idx = j then some (some (fd, ev)) else x.slots[j]? := by
        intro j; rw [getElem?_setAt]; simp [hlt]
      -- an old kernel entry other than fd's survives in the slots
      have keep : ∀ e ∈ x.kernel, e.1 ≠ fd → e.2 ≠ 0 ∧ ∃ i : Nat, (setAt x.slots idx (some (fd, ev)))[i]? = some (some e) := by
        intro e he hf
        obtain ⟨hne, i, hi⟩ := h.sound e he
        refine ⟨hne, i, ?_⟩
        rw [hget]
        by_cases hii : idx = i
        · subst hii; rw [hs] at hi; simp at hi; rw [← hi] at hf; simp at hf
        · simp [hii, hi]
      have other : ∀ (i fd' ev' : Nat), idx ≠ i → x.slots[i]? = some (some (fd', ev')) → fd' ≠ fd := by
        intro i fd' ev' hii hi hc
        subst hc
        exact hii (h.distinct idx i fd' old ev' hs hi)
      simp only []
      by_cases h1 : old = ev
      · subst h1
        rw [epollMod_same]
        refine ⟨?_, ?_, ?_⟩
        · intro e he
          obtain ⟨hne, i, hi⟩ := h.sound e he
          refine ⟨hne, i, ?_⟩
          rw [hget]
          by_cases hii : idx = i
          · subst hii; rw [hs] at hi; simp at hi; simp [hi]
          · simp [hii, hi]
        · intro i fd' ev' hi hne
          rw [hget] at hi
          by_cases hii : idx = i
          · subst hii; simp at hi; obtain ⟨hf, he⟩ := hi; subst hf; subst he; exact h.complete idx fd old hs hne
          · simp [hii] at hi; exact h.complete i fd' ev' hi hne
        · intro i j fd' e1 e2 hi hj
          rw [hget] at hi hj
          by_cases hii : idx = i <;> by_cases hjj : idx = j
          · omega
          · simp [hii] at hi; simp [hjj] at hj; obtain ⟨hf, _⟩ := hi; subst hf
            have := h.distinct idx j fd old e2 hs hj; omega
          · simp [hii] at hi; simp [hjj] at hj; obtain ⟨hf, _⟩ := hj; subst hf
            have := h.distinct idx i fd old e1 hs hi; omega
          · simp [hii] at hi; simp [hjj] at hj; exact h.distinct i j fd' e1 e2 hi hj
      · have hdist : ∀ (i j fd' e1 e2 : Nat), (setAt x.slots idx (some (fd, ev)))[i]? = some (some (fd', e1)) →
            (setAt x.slots idx (some (fd, ev)))[j]? = some (some (fd', e2)) → i = j := by
          intro i j fd' e1 e2 hi hj
          rw [hget] at hi hj
          by_cases hii : idx = i <;> by_cases hjj : idx = j
          · omega
          · simp [hii] at hi; simp [hjj] at hj; obtain ⟨hf, _⟩ := hi; subst hf
            have := h.distinct idx j fd old e2 hs hj; omega
          · simp [hii] at hi; simp [hjj] at hj; obtain ⟨hf, _⟩ := hj; subst hf
            have := h.distinct idx i fd old e1 hs hi; omega
          · simp [hii] at hi; simp [hjj] at hj; exact h.distinct i j fd' e1 e2 hi hj
        by_cases h2 : old = 0
        · subst h2
          have hev : ev ≠ 0 := fun hc => h1 hc.symm
          refine ⟨?_, ?_, hdist⟩
          · intro e he
            rw [mem_epollMod_add _ _ _ hev] at he
            rcases he with he | he
            · have hf : e.1 ≠ fd := by
                intro hc
                obtain ⟨hne, i, hi⟩ := h.sound e he
                have : idx = i := h.distinct idx i fd 0 e.2 hs (by rw [hi]; simp [← hc])
                subst this; rw [hs] at hi; simp at hi; rw [← hi] at hne; simp at hne
              exact keep e he hf
            · subst he; exact ⟨hev, idx, by rw [hget]; simp⟩
          · intro i fd' ev' hi hne
            rw [hget] at hi
            rw [mem_epollMod_add _ _ _ hev]
            by_cases hii : idx = i
            · subst hii; simp at hi; obtain ⟨hf, he⟩ := hi; subst hf; subst he; right; rfl
            · simp [hii] at hi; left; exact h.complete i fd' ev' hi hne
        · by_cases h3 : ev = 0
          · subst h3
            refine ⟨?_, ?_, hdist⟩
            · intro e he
              rw [mem_epollMod_del _ _ _ h2] at he
              exact keep e he.1 he.2
            · intro i fd' ev' hi hne
              rw [hget] at hi
              rw [mem_epollMod_del _ _ _ h2]
              by_cases hii : idx = i
              · subst hii; simp at hi; obtain ⟨_, he⟩ := hi; exact absurd he.symm hne
              · simp [hii] at hi; exact ⟨h.complete i fd' ev' hi hne, other i fd' ev' hii hi⟩
          · refine ⟨?_, ?_, hdist⟩
            · intro e he
              rw [mem_epollMod_mod _ _ _ _ h1 h2 h3] at he
              rcases he with ⟨he, hf⟩ | ⟨he, _⟩
              · exact keep e he hf
              · subst he; exact ⟨h3, idx, by rw [hget]; simp⟩
            · intro i fd' ev' hi hne
              rw [hget] at hi
              rw [mem_epollMod_mod _ _ _ _ h1 h2 h3]
              by_cases hii : idx = i
              · subst hii; simp at hi; obtain ⟨hf, he⟩ := hi; subst hf; subst he
                right; exact ⟨rfl, (fd, old), h.complete idx fd old hs h2, rfl⟩
              · simp [hii] at hi; left; exact ⟨h.complete i fd' ev' hi hne, other i fd' ev' hii hi⟩

theorem findFree_spec {α : Type} (l : List (Option α)) (base i : Nat) (h : findFree l base = some i) :
    base ≤ i ∧ l[i - base]? = some none := by
  induction l generalizing base with
  | nil => simp [findFree] at h
  | cons a t ih =>
    cases a with
    | none => simp [findFree] at h; subst h; simp
    | some v =>
      simp only [findFree] at h
      obtain ⟨h1, h2⟩ := ih (base + 1) h
      refine ⟨by omega, ?_⟩
      have : i - base = (i - (base + 1)) + 1 := by omega
      rw [this]; simpa using h2

/-- a fresh registration (event 0) of a descriptor that is not registered yet: the kernel is untouched -/
theorem kinv_put (x : X) (slots' : List (Option (Nat × Nat))) (idx fd n : Nat) (h : KInv x)
    (hfree : slots'[idx]? = some none)
    (hsame : ∀ j : Nat, j ≠ idx → ∀ p, slots'[j]? = some (some p) ↔ x.slots[j]? = some (some p))
    (hidx : ∀ p, x.slots[idx]? ≠ some (some p))
    (hnew : ∀ (j ev : Nat), x.slots[j]? ≠ some (some (fd, ev))) :
    KInv { x with slots := setAt slots' idx (some (fd, 0)), numRegs := n } := by
  have hlt : idx < slots'.length := (List.getElem?_eq_some_iff.mp hfree).1
  have hget : ∀ j : Nat, (setAt slots' idx (some (fd, 0)))[j]? = if idx = j then some (some (fd, 0)) else slots'[j]? := by
    intro j; rw [getElem?_setAt]; simp [hlt]
  refine ⟨?_, ?_, ?_⟩
  · intro e he
    obtain ⟨hne, i, hi⟩ := h.sound e he
    refine ⟨hne, i, ?_⟩
    show (setAt slots' idx (some (fd, 0)))[i]? = some (some e)
    rw [hget]
    by_cases hii : idx = i
    · subst hii; exact absurd hi (hidx e)
    · simp only [hii, if_false]; exact (hsame i (fun hc => hii hc.symm) e).mpr hi
  · intro i fd' ev' hi hne
    have hi' : (setAt slots' idx (some (fd, 0)))[i]? = some (some (fd', ev')) := hi
    rw [hget] at hi'
    by_cases hii : idx = i
    · subst hii; simp at hi'; exact absurd hi'.2.symm hne
    · simp only [hii, if_false] at hi'
      exact h.complete i fd' ev' ((hsame i (fun hc => hii hc.symm) _).mp hi') hne
  · intro i j fd' e1 e2 hi hj
    have hi' : (setAt slots' idx (some (fd, 0)))[i]? = some (some (fd', e1)) := hi
    have hj' : (setAt slots' idx (some (fd, 0)))[j]? = some (some (fd', e2)) := hj
    rw [hget] at hi' hj'
    by_cases hii : idx = i <;> by_cases hjj : idx = j
    · omega
    · simp [hii] at hi'; simp only [hjj, if_false] at hj'
      obtain ⟨hf, _⟩ := hi'; subst hf
      exact absurd ((hsame j (fun hc => hjj hc.symm) _).mp hj') (hnew j e2)
    · simp [hjj] at hj'; simp only [hii, if_false] at hi'
      obtain ⟨hf, _⟩ := hj'; subst hf
      exact absurd ((hsame i (fun hc => hii hc.symm) _).mp hi') (hnew i e1)
    · simp only [hii, if_false] at hi'; simp only [hjj, if_false] at hj'
      exact h.distinct i j fd' e1 e2 ((hsame i (fun hc => hii hc.symm) _).mp hi') ((hsame j (fun hc => hjj hc.symm) _).mp hj')

theorem hasFd_false (x : X) (fd : Nat) (h : hasFd x fd = false) : ∀ (j ev : Nat), x.slots[j]? ≠ some (some (fd, ev)) := by
  intro j ev hc
  have hm : some (fd, ev) ∈ x.slots := List.mem_of_getElem? hc
  unfold hasFd at h
  rw [List.any_eq_false] at h
  have := h _ hm
  simp at this

theorem findFree_none {α : Type} (l : List (Option α)) (base : Nat) (h : findFree l base = none) :
    ∀ j : Nat, l[j]? ≠ some none := by
  induction l generalizing base with
  | nil => intro j; simp
  | cons a t ih =>
    cases a with
    | none => simp [findFree] at h
    | some v =>
      simp only [findFree] at h
      intro j
      cases j with
      | zero => simp
      | succ k => simpa using ih (base + 1) h k

theorem kinv_allocSlot (x : X) (fd : Nat) (h : KInv x) (hf : hasFd x fd = false) :
    KInv (allocSlot x fd).1 ∧ (allocSlot x fd).1.slots[(allocSlot x fd).2]? = some (some (fd, 0))
    ∧ (allocSlot x fd).1.kernel = x.kernel ∧ (allocSlot x fd).1.bells = x.bells ∧ (allocSlot x fd).1.numBells = x.numBells
    ∧ (allocSlot x fd).1.active = x.active
    ∧ (∀ (j : Nat) p, j ≠ (allocSlot x fd).2 → ((allocSlot x fd).1.slots[j]? = some (some p) ↔ x.slots[j]? = some (some p)))
    ∧ (∀ p, x.slots[(allocSlot x fd).2]? ≠ some (some p)) := by
  unfold allocSlot
  cases hfr : findFree x.slots 0 with
  | some i =>
    have hsp := findFree_spec x.slots 0 i hfr
    have hfree : x.slots[i]? = some none := by simpa using hsp.2
    have hlt : i < x.slots.length := (List.getElem?_eq_some_iff.mp hfree).1
    simp only []
    refine ⟨kinv_put x x.slots i fd (x.numRegs + 1) h hfree (by intro j _ p; exact Iff.rfl)
      (by intro p hp; rw [hfree] at hp; cases hp) (hasFd_false x fd hf), ?_, trivial, trivial, trivial, trivial, ?_, ?_⟩
    · show (setAt x.slots i (some (fd, 0)))[i]? = _
      rw [getElem?_setAt]; simp [hlt]
    · intro j p hj
      show (setAt x.slots i (some (fd, 0)))[j]? = _ ↔ _
      rw [getElem?_setAt]
      have : ¬ (i = j ∧ i < x.slots.length) := fun hc => hj hc.1.symm
      simp [this]
    · intro p hp; rw [hfree] at hp; cases hp
  | none =>
    have hnf := findFree_none x.slots 0 hfr
    have hpos : x.slots.length < nextCapacity x.slots.length := by unfold nextCapacity; omega
    have hext : ∀ (j : Nat) (p : Nat × Nat), (x.slots ++ List.replicate (nextCapacity x.slots.length - x.slots.length) none)[j]? = some (some p)
        ↔ x.slots[j]? = some (some p) := by
      intro j p
      rcases Nat.lt_or_ge j x.slots.length with hlt | hge
      · rw [List.getElem?_append_left hlt]
      · rw [List.getElem?_append_right hge, List.getElem?_eq_none_iff.mpr hge]
        constructor
        · intro hh
          rw [List.getElem?_replicate] at hh
          split at hh <;> cases hh
        · intro hh; cases hh
    simp only []
    refine ⟨kinv_put x _ x.slots.length fd (x.numRegs + 1) h
      (by rw [List.getElem?_append_right (Nat.le_refl _), List.getElem?_replicate]; simp; omega)
      (by intro j _ p; exact hext j p)
      (by intro p hp; rw [List.getElem?_eq_none_iff.mpr (Nat.le_refl _)] at hp; cases hp) (hasFd_false x fd hf), ?_, trivial, trivial, trivial, trivial, ?_, ?_⟩
    · show (setAt _ x.slots.length (some (fd, 0)))[x.slots.length]? = _
      rw [getElem?_setAt]; simp; omega
    · intro j p hj
      show (setAt _ x.slots.length (some (fd, 0)))[j]? = _ ↔ _
      rw [getElem?_setAt]
      have : ¬ (x.slots.length = j ∧ x.slots.length < (x.slots ++ List.replicate (nextCapacity x.slots.length - x.slots.length) none).length) :=
        fun hc => hj hc.1.symm
      simp only [this, if_false]
      exact hext j p
    · intro p hp; rw [List.getElem?_eq_none_iff.mpr (Nat.le_refl _)] at hp; cases hp

/-- clearing a registration whose event is 0 (it is not in the kernel) -/
theorem kinv_clearSlot (x : X) (idx fd : Nat) (h : KInv x) (hs : x.slots[idx]? = some (some (fd, 0))) :
    KInv (clearSlot x idx) := by
  have hlt : idx < x.slots.length := (List.getElem?_eq_some_iff.mp hs).1
  have hget : ∀ j : Nat, (setAt x.slots idx none)[j]? = if idx = j then some none else x.slots[j]? := by
    intro j; rw [getElem?_setAt]; simp [hlt]
  unfold clearSlot
  refine ⟨?_, ?_, ?_⟩
  · intro e he
    obtain ⟨hne, i, hi⟩ := h.sound e he
    refine ⟨hne, i, ?_⟩
    show (setAt x.slots idx none)[i]? = _
    rw [hget]
    by_cases hii : idx = i
    · subst hii; rw [hs] at hi; simp at hi; rw [← hi] at hne; simp at hne
    · simp [hii, hi]
  · intro i fd' ev' hi hne
    have hi' : (setAt x.slots idx none)[i]? = some (some (fd', ev')) := hi
    rw [hget] at hi'
    by_cases hii : idx = i
    · simp [hii] at hi'
    · simp only [hii, if_false] at hi'; exact h.complete i fd' ev' hi' hne
  · intro i j fd' e1 e2 hi hj
    have hi' : (setAt x.slots idx none)[i]? = some (some (fd', e1)) := hi
    have hj' : (setAt x.slots idx none)[j]? = some (some (fd', e2)) := hj
    rw [hget] at hi' hj'
    by_cases hii : idx = i
    · simp [hii] at hi'
    · by_cases hjj : idx = j
      · simp [hjj] at hj'
      · simp only [hii, hjj, if_false] at hi' hj'; exact h.distinct i j fd' e1 e2 hi' hj'

theorem fdRegMod_slot (x : X) (idx ev fd old : Nat) (hs : x.slots[idx]? = some (some (fd, old))) :
    (fdRegMod x idx ev).slots[idx]? = some (some (fd, ev)) ∧ (fdRegMod x idx ev).aborted = x.aborted
    ∧ (fdRegMod x idx ev).bells = x.bells ∧ (fdRegMod x idx ev).numBells = x.numBells ∧ (fdRegMod x idx ev).active = x.active
    ∧ (∀ (j : Nat), j ≠ idx → (fdRegMod x idx ev).slots[j]? = x.slots[j]?) := by
  have hlt : idx < x.slots.length := (List.getElem?_eq_some_iff.mp hs).1
  simp only [fdRegMod, hs]
  refine ⟨by rw [getElem?_setAt]; simp [hlt], trivial, trivial, trivial, trivial, ?_⟩
  intro j hj
  rw [getElem?_setAt]
  have : ¬ (idx = j ∧ idx < x.slots.length) := fun hc => hj hc.1.symm
  simp [this]

/-- **every registration operation keeps the kernel's interest list equal to the registrations
with a non-zero event** -/
theorem kinv_fdRegAdd (x : X) (fd ev : Nat) (h : KInv x) : KInv (fdRegAdd x fd ev).1 := by
  unfold fdRegAdd
  by_cases hf : hasFd x fd = true
  · simp only [hf, if_true]; exact ⟨h.sound, h.complete, h.distinct⟩
  · have hf' : hasFd x fd = false := by simpa using hf
    simp only [hf', Bool.false_eq_true, if_false]
    exact kinv_fdRegMod _ _ _ (kinv_allocSlot x fd h hf').1

theorem kinv_fdRegDel (x : X) (idx : Nat) (h : KInv x) : KInv (fdRegDel x idx) := by
  unfold fdRegDel
  cases hs : x.slots[idx]? with
  | none => exact ⟨h.sound, h.complete, h.distinct⟩
  | some s =>
    cases s with
    | none => exact ⟨h.sound, h.complete, h.distinct⟩
    | some p =>
      obtain ⟨fd, old⟩ := p
      simp only []
      exact kinv_clearSlot _ idx fd (kinv_fdRegMod x idx 0 h) (fdRegMod_slot x idx 0 fd old hs).1

/-- the registration of the always-readable descriptor, if any, is where `active` says -/
def ActInv (x : X) : Prop :=
  match x.active with
  | some reg => ∃ ev : Nat, x.slots[reg]? = some (some (ACTIVE, ev))
  | none => ∀ (j ev : Nat), x.slots[j]? ≠ some (some (ACTIVE, ev))

theorem hasFd_eq_false_of (x : X) (fd : Nat) (h : ∀ (j ev : Nat), x.slots[j]? ≠ some (some (fd, ev))) : hasFd x fd = false := by
  unfold hasFd
  rw [List.any_eq_false]
  intro s hs
  obtain ⟨j, hj⟩ := List.getElem?_of_mem hs
  cases s with
  | none => simp
  | some p =>
    obtain ⟨f, e⟩ := p
    simp only [beq_iff_eq]
    intro hc
    subst hc
    exact h j e hj

/-- what `update_active_fd` establishes -/
structure ActPost (x y : X) : Prop where
  kinv : KInv y
  act : ActInv y
  bells : y.bells = x.bells
  numBells : y.numBells = x.numBells
  aborted : y.aborted = x.aborted
  held : y.active.isSome = true ↔ x.numBells > 0
  event : ∀ reg, y.active = some reg → y.slots[reg]? = some (some (ACTIVE, if anyRinging y then EPOLLIN else 0))
  users : ∀ (j fd ev : Nat), fd ≠ ACTIVE → (y.slots[j]? = some (some (fd, ev)) ↔ x.slots[j]? = some (some (fd, ev)))

theorem anyRinging_congr {a b : X} (h : a.bells = b.bells) : anyRinging a = anyRinging b := by simp [anyRinging, h]

theorem updateActive_post (x : X) (hk : KInv x) (ha : ActInv x) : ActPost x (updateActive x) := by
  unfold updateActive
  cases hact : x.active with
  | some reg =>
    simp only [ActInv, hact] at ha
    obtain ⟨ev0, hs0⟩ := ha
    by_cases hnb : x.numBells = 0
    · -- the last bell is gone: the registration is removed
      simp only [hnb, if_true]
      have hdel : fdRegDel x reg = clearSlot (fdRegMod x reg 0) reg := by simp [fdRegDel, hs0]
      have hm := fdRegMod_slot x reg 0 ACTIVE ev0 hs0
      have hkd : KInv (fdRegDel x reg) := kinv_fdRegDel x reg hk
      have hlt : reg < (fdRegMod x reg 0).slots.length := (List.getElem?_eq_some_iff.mp hm.1).1
      have hslots : ∀ j : Nat, (fdRegDel x reg).slots[j]? = if reg = j then some none else x.slots[j]? := by
        intro j
        rw [hdel]
        show (setAt (fdRegMod x reg 0).slots reg none)[j]? = _
        rw [getElem?_setAt]
        by_cases hj : reg = j
        · subst hj; simp [hlt]
        · simp [hj]; exact hm.2.2.2.2.2 j (fun hc => hj hc.symm)
      have hnone : ∀ (j ev : Nat), (fdRegDel x reg).slots[j]? ≠ some (some (ACTIVE, ev)) := by
        intro j ev hc
        rw [hslots] at hc
        by_cases hj : reg = j
        · simp [hj] at hc
        · simp only [hj, if_false] at hc
          exact hj (hk.distinct reg j ACTIVE ev0 ev hs0 hc)
      have hb : (fdRegDel x reg).bells = x.bells ∧ (fdRegDel x reg).numBells = x.numBells ∧ (fdRegDel x reg).aborted = x.aborted := by
        rw [hdel]; exact ⟨hm.2.2.1, hm.2.2.2.1, hm.2.1⟩
      exact { kinv := ⟨hkd.sound, hkd.complete, hkd.distinct⟩
              act := by simp only [ActInv]; exact hnone
              bells := hb.1, numBells := hb.2.1, aborted := hb.2.2
              held := by simp [hnb]
              event := by intro r hr; simp at hr
              users := by
                intro j fd ev hfd
                show (fdRegDel x reg).slots[j]? = _ ↔ _
                rw [hslots]
                by_cases hj : reg = j
                · subst hj; simp [hs0]; intro hc; exact absurd hc.symm hfd
                · simp [hj] }
    · simp only [hnb, if_false, hact]
      have hm := fdRegMod_slot x reg (if anyRinging x then EPOLLIN else 0) ACTIVE ev0 hs0
      have hkm := kinv_fdRegMod x reg (if anyRinging x then EPOLLIN else 0) hk
      exact { kinv := hkm
              act := by simp only [ActInv, hm.2.2.2.2.1, hact]; exact ⟨_, hm.1⟩
              bells := hm.2.2.1, numBells := hm.2.2.2.1, aborted := hm.2.1
              held := by simp [hm.2.2.2.2.1, hact]; omega
              event := by
                intro r hr
                rw [hm.2.2.2.2.1, hact] at hr
                cases hr
                rw [anyRinging_congr hm.2.2.1]; exact hm.1
              users := by
                intro j fd ev hfd
                by_cases hj : j = reg
                · subst hj; rw [hm.1, hs0]; simp; intro hc; exact absurd hc.symm hfd
                · rw [hm.2.2.2.2.2 j hj] }
  | none =>
    simp only [ActInv, hact] at ha
    by_cases hnb : x.numBells > 0
    · simp only [hnb, if_true]
      have hf : hasFd x ACTIVE = false := hasFd_eq_false_of x ACTIVE ha
      have hadd : fdRegAdd x ACTIVE 0 = (fdRegMod (allocSlot x ACTIVE).1 (allocSlot x ACTIVE).2 0, (allocSlot x ACTIVE).2) := by
        simp [fdRegAdd, hf]
      obtain ⟨hka, hsa, _, hba, hnba, haa, hua, _⟩ := kinv_allocSlot x ACTIVE hk hf
      have hm0 := fdRegMod_slot (allocSlot x ACTIVE).1 (allocSlot x ACTIVE).2 0 ACTIVE 0 hsa
      have hk0 := kinv_fdRegMod (allocSlot x ACTIVE).1 (allocSlot x ACTIVE).2 0 hka
      rw [hadd]
      -- y1 := the state after fdRegAdd with active set
      generalize hy1 : ({ fdRegMod (allocSlot x ACTIVE).1 (allocSlot x ACTIVE).2 0 with active := some (allocSlot x ACTIVE).2 } : X) = y1
      have hy1k : KInv y1 := by subst hy1; exact ⟨hk0.sound, hk0.complete, hk0.distinct⟩
      have hy1s : y1.slots[(allocSlot x ACTIVE).2]? = some (some (ACTIVE, 0)) := by subst hy1; exact hm0.1
      have hy1b : y1.bells = x.bells ∧ y1.numBells = x.numBells ∧ y1.aborted = (allocSlot x ACTIVE).1.aborted := by
        subst hy1; exact ⟨hm0.2.2.1.trans hba, hm0.2.2.2.1.trans hnba, hm0.2.1⟩
      have hy1a : y1.active = some (allocSlot x ACTIVE).2 := by subst hy1; rfl
      have hy1u : ∀ (j : Nat), j ≠ (allocSlot x ACTIVE).2 → y1.slots[j]? = (allocSlot x ACTIVE).1.slots[j]? := by
        subst hy1; exact hm0.2.2.2.2.2
      simp only [hy1a]
      have hm := fdRegMod_slot y1 (allocSlot x ACTIVE).2 (if anyRinging y1 then EPOLLIN else 0) ACTIVE 0 hy1s
      have hkm := kinv_fdRegMod y1 (allocSlot x ACTIVE).2 (if anyRinging y1 then EPOLLIN else 0) hy1k
      have hab : (allocSlot x ACTIVE).1.aborted = x.aborted := by
        unfold allocSlot; cases findFree x.slots 0 <;> rfl
      exact { kinv := hkm
              act := by simp only [ActInv, hm.2.2.2.2.1, hy1a]; exact ⟨_, hm.1⟩
              bells := hm.2.2.1.trans hy1b.1, numBells := hm.2.2.2.1.trans hy1b.2.1
              aborted := hm.2.1.trans (hy1b.2.2.trans hab)
              held := by simp [hm.2.2.2.2.1, hy1a]; omega
              event := by
                intro r hr
                rw [hm.2.2.2.2.1, hy1a] at hr
                cases hr
                rw [anyRinging_congr hm.2.2.1]; exact hm.1
              users := by
                intro j fd ev hfd
                by_cases hj : j = (allocSlot x ACTIVE).2
                · subst hj
                  rw [hm.1]
                  constructor
                  · intro hc; simp at hc; exact absurd hc.1.symm hfd
                  · intro hc
                    -- the slot was free (or beyond the table) before
                    exfalso
                    have := (hua (allocSlot x ACTIVE).2 (fd, ev))
                    unfold allocSlot at hc
                    cases hfr : findFree x.slots 0 with
                    | some i =>
                      simp only [hfr] at hc
                      have := (findFree_spec x.slots 0 i hfr).2
                      simp at this; rw [this] at hc; cases hc
                    | none =>
                      simp only [hfr] at hc
                      rw [List.getElem?_eq_none_iff.mpr (Nat.le_refl _)] at hc; cases hc
                · rw [hm.2.2.2.2.2 j hj, hy1u j hj]
                  exact hua j (fd, ev) hj }
    · simp only [hnb, if_false, hact]
      exact { kinv := hk, act := by simp only [ActInv, hact]; exact ha, bells := rfl, numBells := rfl, aborted := rfl
              held := by simp [hact]; omega
              event := by intro r hr; rw [hact] at hr; cases hr
              users := by intro j fd ev _; exact Iff.rfl }

/-! ### bells -/

def live {α : Type} (l : List (Option α)) : Nat := (l.filter Option.isSome).length

theorem live_set {α : Type} (l : List (Option α)) (i : Nat) (a : Option α) (old : Option α) (h : l[i]? = some old) :
    live (l.set i a) + (if old.isSome then 1 else 0) = live l + (if a.isSome then 1 else 0) := by
  induction l generalizing i with
  | nil => simp at h
  | cons b t ih =>
    cases i with
    | zero =>
      simp at h; subst h
      cases b <;> cases a <;> simp [live]
    | succ k =>
      simp at h
      have := ih k h
      cases b <;> simp [live] at this ⊢ <;> omega

theorem live_append_none {α : Type} (l : List (Option α)) (n : Nat) : live (l ++ List.replicate n none) = live l := by
  simp [live, List.filter_append]

theorem live_pos_of {α : Type} (l : List (Option α)) (i : Nat) (a : α) (h : l[i]? = some (some a)) : live l > 0 := by
  have hm : some a ∈ l.filter Option.isSome := List.mem_filter.mpr ⟨List.mem_of_getElem? h, rfl⟩
  exact List.length_pos_of_mem hm

theorem anyRinging_live (x : X) (h : anyRinging x = true) : live x.bells > 0 := by
  unfold anyRinging at h
  rw [List.any_eq_true] at h
  obtain ⟨b, hb, hv⟩ := h
  obtain ⟨i, hi⟩ := List.getElem?_of_mem hb
  cases b with
  | none => simp at hv
  | some r => exact live_pos_of x.bells i r hi

/-- the state every bell operation re-establishes -/
structure Good (x : X) : Prop where
  kinv : KInv x
  act : ActInv x
  count : x.numBells = live x.bells
  held : x.active.isSome = true ↔ x.numBells > 0
  event : ∀ reg, x.active = some reg → x.slots[reg]? = some (some (ACTIVE, if anyRinging x then EPOLLIN else 0))

theorem good_init : Good ({} : X) := by
  refine ⟨kinv_init, ?_, rfl, by simp, by intro r h; simp at h⟩
  simp [ActInv]

theorem good_of_post {x y : X} (h : ActPost x y) (hc : x.numBells = live x.bells) : Good y :=
  { kinv := h.kinv, act := h.act, count := by rw [h.numBells, h.bells, hc]
    held := by rw [h.numBells]; exact h.held, event := h.event }

theorem good_update (x x' : X) (h : Good x) (hs : x'.slots = x.slots) (hk : x'.kernel = x.kernel) (ha : x'.active = x.active)
    (hc : x'.numBells = live x'.bells) : Good (updateActive x') := by
  have hk' : KInv x' := ⟨by rw [hk, hs]; exact h.kinv.sound, by rw [hk, hs]; exact h.kinv.complete, by rw [hs]; exact h.kinv.distinct⟩
  have ha' : ActInv x' := by
    have := h.act
    unfold ActInv at this ⊢
    rw [ha, hs]; exact this
  exact good_of_post (updateActive_post x' hk' ha') hc

theorem good_bellAdd (x : X) (r : Bool) (h : Good x) : Good (bellAdd x r).1 := by
  unfold bellAdd
  cases hfr : findFree x.bells 0 with
  | some i =>
    have hfree : x.bells[i]? = some none := by simpa using (findFree_spec x.bells 0 i hfr).2
    simp only []
    refine good_update x _ h ?_ ?_ ?_ ?_
    · rfl
    · rfl
    · rfl
    show x.numBells + 1 = live (setAt x.bells i (some r))
    have := live_set x.bells i (some r) none hfree
    simp [setAt] at this ⊢
    rw [h.count]; omega
  | none =>
    simp only []
    refine good_update x _ h ?_ ?_ ?_ ?_
    · rfl
    · rfl
    · rfl
    show x.numBells + 1 = live (setAt (x.bells ++ List.replicate (nextCapacity x.bells.length - x.bells.length) none) x.bells.length (some r))
    have hpos : x.bells.length < nextCapacity x.bells.length := by unfold nextCapacity; omega
    have hfree : (x.bells ++ List.replicate (nextCapacity x.bells.length - x.bells.length) none)[x.bells.length]? = some none := by
      rw [List.getElem?_append_right (Nat.le_refl _), List.getElem?_replicate]; simp; omega
    have := live_set _ x.bells.length (some r) none hfree
    rw [live_append_none] at this
    simp [setAt] at this ⊢
    rw [h.count]; omega

theorem good_bellMod (x : X) (i : Nat) (r : Bool) (h : Good x) (hna : (bellMod x i r).aborted = false) : Good (bellMod x i r) := by
  unfold bellMod at hna ⊢
  cases hb : x.bells[i]? with
  | none => simp [hb] at hna
  | some b =>
    cases b with
    | none => simp [hb] at hna
    | some old =>
      simp only []
      by_cases ho : old = r
      · simp only [ho, if_true]; exact h
      · simp only [ho, if_false]
        refine good_update x _ h ?_ ?_ ?_ ?_
        · rfl
        · rfl
        · rfl
        show x.numBells = live (setAt x.bells i (some r))
        have := live_set x.bells i (some r) (some old) hb
        simp [setAt] at this ⊢
        rw [h.count]; omega

theorem good_bellDel (x : X) (i : Nat) (h : Good x) (hna : (bellDel x i).aborted = false) : Good (bellDel x i) := by
  unfold bellDel at hna ⊢
  cases hb : x.bells[i]? with
  | none => simp [hb] at hna
  | some b =>
    cases b with
    | none => simp [hb] at hna
    | some old =>
      simp only []
      refine good_update x _ h ?_ ?_ ?_ ?_
      · rfl
      · rfl
      · rfl
      show x.numBells - 1 = live (setAt x.bells i none)
      have := live_set x.bells i none (some old) hb
      simp [setAt] at this ⊢
      rw [h.count]; omega

/-! ### registrations of the transports' own descriptors keep the bell machinery intact -/

theorem good_fdRegMod_user (x : X) (idx ev fd old : Nat) (h : Good x) (hs : x.slots[idx]? = some (some (fd, old)))
    (hfd : fd ≠ ACTIVE) : Good (fdRegMod x idx ev) := by
  have hm := fdRegMod_slot x idx ev fd old hs
  have hne : ∀ reg e, x.slots[reg]? = some (some (ACTIVE, e)) → reg ≠ idx := by
    intro reg e hr hc; subst hc; rw [hs] at hr; simp at hr; exact hfd hr.1
  refine ⟨kinv_fdRegMod x idx ev h.kinv, ?_, by rw [hm.2.2.2.1, hm.2.2.1]; exact h.count, by rw [hm.2.2.2.2.1, hm.2.2.2.1]; exact h.held, ?_⟩
  · have ha := h.act
    unfold ActInv at ha ⊢
    rw [hm.2.2.2.2.1]
    cases hact : x.active with
    | some reg =>
      simp only [hact] at ha ⊢
      obtain ⟨e, he⟩ := ha
      exact ⟨e, by rw [hm.2.2.2.2.2 reg (hne reg e he)]; exact he⟩
    | none =>
      simp only [hact] at ha ⊢
      intro j e hc
      by_cases hj : j = idx
      · subst hj; rw [hm.1] at hc; simp at hc; exact hfd hc.1
      · rw [hm.2.2.2.2.2 j hj] at hc; exact ha j e hc
  · intro reg hr
    rw [hm.2.2.2.2.1] at hr
    have he := h.event reg hr
    rw [hm.2.2.2.2.2 reg (hne reg _ he), anyRinging_congr hm.2.2.1]; exact he

theorem good_fdRegAdd_user (x : X) (fd ev : Nat) (h : Good x) (hfd : fd ≠ ACTIVE) (hf : hasFd x fd = false) :
    Good (fdRegAdd x fd ev).1 := by
  have hadd : fdRegAdd x fd ev = (fdRegMod (allocSlot x fd).1 (allocSlot x fd).2 ev, (allocSlot x fd).2) := by simp [fdRegAdd, hf]
  rw [hadd]
  obtain ⟨hka, hsa, hkk, hba, hnba, haa, hua, hfresh⟩ := kinv_allocSlot x fd h.kinv hf
  have hne : ∀ reg e, x.slots[reg]? = some (some (ACTIVE, e)) → reg ≠ (allocSlot x fd).2 := by
    intro reg e hr hc; rw [hc] at hr; exact hfresh _ hr
  have hg1 : Good (allocSlot x fd).1 := by
    refine ⟨hka, ?_, by rw [hnba, hba]; exact h.count, by rw [haa, hnba]; exact h.held, ?_⟩
    · have ha := h.act
      unfold ActInv at ha ⊢
      rw [haa]
      cases hact : x.active with
      | some reg =>
        simp only [hact] at ha ⊢
        obtain ⟨e, he⟩ := ha
        exact ⟨e, (hua reg _ (hne reg e he)).mpr he⟩
      | none =>
        simp only [hact] at ha ⊢
        intro j e hc
        by_cases hj : j = (allocSlot x fd).2
        · subst hj; rw [hsa] at hc; simp at hc; exact hfd hc.1
        · exact ha j e ((hua j _ hj).mp hc)
    · intro reg hr
      rw [haa] at hr
      have he := h.event reg hr
      rw [anyRinging_congr hba]
      exact (hua reg _ (hne reg _ he)).mpr he
  exact good_fdRegMod_user _ _ ev fd 0 hg1 hsa hfd

theorem good_fdRegDel_user (x : X) (idx fd old : Nat) (h : Good x) (hs : x.slots[idx]? = some (some (fd, old)))
    (hfd : fd ≠ ACTIVE) : Good (fdRegDel x idx) := by
  have hdel : fdRegDel x idx = clearSlot (fdRegMod x idx 0) idx := by simp [fdRegDel, hs]
  rw [hdel]
  have hg := good_fdRegMod_user x idx 0 fd old h hs hfd
  have hm := fdRegMod_slot x idx 0 fd old hs
  have hlt : idx < (fdRegMod x idx 0).slots.length := (List.getElem?_eq_some_iff.mp hm.1).1
  have hget : ∀ j : Nat, (clearSlot (fdRegMod x idx 0) idx).slots[j]? = if idx = j then some none else (fdRegMod x idx 0).slots[j]? := by
    intro j
    show (setAt (fdRegMod x idx 0).slots idx none)[j]? = _
    rw [getElem?_setAt]; simp [hlt]
  have hne : ∀ reg e, (fdRegMod x idx 0).slots[reg]? = some (some (ACTIVE, e)) → idx ≠ reg := by
    intro reg e hr hc; subst hc; rw [hm.1] at hr; simp at hr; exact hfd hr.1
  refine ⟨kinv_clearSlot _ idx fd hg.kinv hm.1, ?_, hg.count, hg.held, ?_⟩
  · have ha := hg.act
    unfold ActInv at ha ⊢
    show match (fdRegMod x idx 0).active with | some reg => _ | none => _
    cases hact : (fdRegMod x idx 0).active with
    | some reg =>
      simp only [hact] at ha ⊢
      obtain ⟨e, he⟩ := ha
      exact ⟨e, by rw [hget]; simp [hne reg e he, he]⟩
    | none =>
      simp only [hact] at ha ⊢
      intro j e hc
      rw [hget] at hc
      by_cases hj : idx = j
      · simp [hj] at hc
      · simp only [hj, if_false] at hc; exact ha j e hc
  · intro reg hr
    have he := hg.event reg hr
    show (clearSlot (fdRegMod x idx 0) idx).slots[reg]? = _
    rw [hget]
    simp only [hne reg _ he, if_false]
    exact he

/-- K-epoll consequences of kernel consistency -/
theorem readable_iff (x : X) (h : KInv x) (ready : Nat → Nat → Bool) :
    readable x ready = true ↔
      ∃ (i fd ev : Nat), x.slots[i]? = some (some (fd, ev)) ∧ ev ≠ 0 ∧
        (if fd = ACTIVE then ev &&& EPOLLIN ≠ 0 else ready fd ev = true) := by
  unfold readable
  rw [List.any_eq_true]
  constructor
  · rintro ⟨e, he, hr⟩
    obtain ⟨hne, i, hi⟩ := h.sound e he
    refine ⟨i, e.1, e.2, hi, hne, ?_⟩
    by_cases hf : e.1 = ACTIVE <;> simp [hf] at hr ⊢ <;> exact hr
  · rintro ⟨i, fd, ev, hi, hne, hr⟩
    refine ⟨(fd, ev), h.complete i fd ev hi hne, ?_⟩
    by_cases hf : fd = ACTIVE <;> simp [hf] at hr ⊢ <;> exact hr

end XcmModel.Xpoll
