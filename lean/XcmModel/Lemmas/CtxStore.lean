import XcmModel.CtxStore
namespace XcmModel.CtxStore
open XcmModel

def tickN (e : Env) : Nat → Env
  | 0 => e
  | n + 1 => (tickN e n).tick

def seq (e : Env) (i : Nat) : Snap := (tickN e i).cur

def le (a b : Snap) : Prop := ∀ p, a.ver p ≤ b.ver p

/-- K-stat / no ABA: along the accesses of a call the version of a path never goes back -/
def Mono (e : Env) : Prop := ∀ i j, i ≤ j → le (seq e i) (seq e j)

theorem tickN_tick (e : Env) (n : Nat) : tickN e.tick n = (tickN e n).tick := by
  induction n with
  | zero => rfl
  | succ k ih => simp only [tickN, ih]

theorem tickN_add (e : Env) (a b : Nat) : tickN (tickN e a) b = tickN e (a + b) := by
  induction b with
  | zero => rfl
  | succ k ih => simp only [tickN, ih]; rfl

/-- one item: identity seen before and after the load is the same, so what was loaded is what that identity designates -/
theorem sandwich_item (w : World) (s1 s2 s3 : Snap) (h12 : le s1 s2) (h23 : le s2 s3) (it : Item) (v : AView) (m : Option Mat)
    (hv1 : view w s1 it = some v) (hl : load w s2 it = some m) (hv3 : view w s3 it = some v) :
    m = designated w v := by
  cases it with
  | none => simp [view] at hv1; simp [load] at hl; subst hv1 hl; rfl
  | value x => simp [view] at hv1; simp [load] at hl; subst hv1 hl; rfl
  | file p =>
    simp only [view] at hv1 hv3
    simp only [load] at hl
    -- case analysis on what p is at time 1
    cases h1 : w.at p (s1.ver p) with
    | missing => simp [h1] at hv1
    | reg c1 =>
      simp only [h1, Option.some.injEq] at hv1
      subst hv1
      -- at time 3 the view is again `.file p (s1.ver p)`
      cases h3 : w.at p (s3.ver p) with
      | missing => simp [h3] at hv3
      | reg c3 =>
        simp only [h3, Option.some.injEq, AView.file.injEq, true_and] at hv3
        have e2 : s2.ver p = s1.ver p := by have := h12 p; have := h23 p; omega
        rw [e2, h1] at hl
        simp only [Option.some.injEq] at hl
        subst hl
        simp [designated, h1]
      | lnk t3 =>
        simp only [h3] at hv3
        split at hv3 <;> simp at hv3
    | lnk t =>
      simp only [h1] at hv1
      cases ht1 : w.at t (s1.ver t) with
      | missing => simp [ht1] at hv1
      | lnk _ => simp [ht1] at hv1
      | reg c1 =>
        simp only [ht1, Option.some.injEq] at hv1
        subst hv1
        cases h3 : w.at p (s3.ver p) with
        | missing => simp [h3] at hv3
        | reg c3 => simp [h3] at hv3
        | lnk t3 =>
          simp only [h3] at hv3
          cases ht3 : w.at t3 (s3.ver t3) with
          | missing => simp [ht3] at hv3
          | lnk _ => simp [ht3] at hv3
          | reg c3 =>
            simp only [ht3, Option.some.injEq, AView.link.injEq] at hv3
            obtain ⟨_, hp, htt, htv⟩ := hv3
            subst htt
            have e2 : s2.ver p = s1.ver p := by have := h12 p; have := h23 p; omega
            have e2t : s2.ver t3 = s1.ver t3 := by have := h12 t3; have := h23 t3; omega
            rw [e2, h1] at hl
            simp only [e2t, ht1, Option.some.injEq] at hl
            subst hl
            simp [designated, ht1]

theorem hashCfg_env (w : World) (cfg : List Item) (e : Env) (k : List AView) (e' : Env)
    (h : hashCfg w e cfg = (some k, e')) : e' = tickN e cfg.length ∧ k.length = cfg.length := by
  induction cfg generalizing e k with
  | nil => simp [hashCfg] at h; obtain ⟨a, b⟩ := h; subst a b; exact ⟨rfl, rfl⟩
  | cons it t ih =>
    simp only [hashCfg] at h
    split at h
    · cases h
    · rename_i v hv
      split at h
      · rename_i vs e2 hh
        cases h
        have := ih e.tick vs hh
        refine ⟨?_, by simp [this.2]⟩
        rw [this.1, tickN_tick]; rfl
      · cases h

theorem loadCfg_env (w : World) (cfg : List Item) (e : Env) (ms : List (Option Mat)) (e' : Env)
    (h : loadCfg w e cfg = (some ms, e')) : e' = tickN e cfg.length := by
  induction cfg generalizing e ms with
  | nil => simp [loadCfg] at h; exact h.2.symm
  | cons it t ih =>
    simp only [loadCfg] at h
    split at h
    · cases h
    · split at h
      · rename_i m' e2 hh
        cases h
        rw [ih e.tick m' hh, tickN_tick]; rfl
      · cases h

/-- the three passes of one round over the items -/
theorem passes (w : World) (cfg : List Item) (e : Env) (hm : Mono e) :
    ∀ (a b c : Nat) (k : List AView) (ms : List (Option Mat)) (ea eb ec : Env), a ≤ b → b ≤ c →
      hashCfg w (tickN e a) cfg = (some k, ea) → loadCfg w (tickN e b) cfg = (some ms, eb) →
      hashCfg w (tickN e c) cfg = (some k, ec) → ms = k.map (designated w) := by
  induction cfg with
  | nil =>
    intro a b c k ms ea eb ec _ _ h1 h2 _
    simp [hashCfg] at h1; simp [loadCfg] at h2
    rw [h1.1, h2.1]; rfl
  | cons it t ih =>
    intro a b c k ms ea eb ec hab hbc h1 h2 h3
    simp only [hashCfg] at h1 h3
    simp only [loadCfg] at h2
    split at h1
    · cases h1
    rename_i v1 hv1
    split at h1
    case h_2 => cases h1
    rename_i vs1 e1' hh1
    simp only [Prod.mk.injEq, Option.some.injEq] at h1
    obtain ⟨hk1, _⟩ := h1
    split at h3
    · cases h3
    rename_i v3 hv3
    split at h3
    case h_2 => cases h3
    rename_i vs3 e3' hh3
    simp only [Prod.mk.injEq, Option.some.injEq] at h3
    obtain ⟨hk3, _⟩ := h3
    rw [← hk1] at hk3
    simp only [List.cons.injEq] at hk3
    obtain ⟨hv, hvs⟩ := hk3
    subst hv hvs
    split at h2
    · cases h2
    rename_i m2 hl2
    split at h2
    case h_2 => cases h2
    rename_i ms2 e2' hh2
    simp only [Prod.mk.injEq, Option.some.injEq] at h2
    obtain ⟨hms, _⟩ := h2
    have hd := sandwich_item w (seq e a) (seq e b) (seq e c) (hm a b hab) (hm b c hbc) it v3 m2 hv1 hl2 hv3
    have ht := ih (a + 1) (b + 1) (c + 1) vs3 ms2 e1' e2' e3' (by omega) (by omega) hh1 hh2 hh3
    rw [← hms, ← hk1]
    simp only [List.map_cons, hd, ht]

end XcmModel.CtxStore

namespace XcmModel.CtxStore
open XcmModel

structure Inv (w : World) (st : Store) : Prop where
  mats : ∀ e ∈ st.entries, e.mats = e.key.map (designated w)
  keysNodup : (st.entries.map (·.key)).Nodup
  ctxNodup : (st.entries.map (·.ctx)).Nodup
  ctxLt : ∀ e ∈ st.entries, e.ctx < st.next
  cntPos : ∀ e ∈ st.entries, 0 < e.cnt
  freedLt : ∀ c ∈ st.freed, c < st.next
  freedDead : ∀ c ∈ st.freed, ∀ e ∈ st.entries, e.ctx ≠ c
  noAbort : st.aborted = false

theorem inv_init (w : World) : Inv w {} := by
  constructor <;> simp

theorem findKey_some {k : List AView} {es : List Entry} {e : Entry} (h : findKey k es = some e) : e ∈ es ∧ e.key = k := by
  induction es with
  | nil => simp [findKey] at h
  | cons a t ih =>
    simp only [findKey] at h
    split at h
    · rename_i hk; cases h; exact ⟨List.mem_cons_self, hk⟩
    · have := ih h; exact ⟨List.mem_cons_of_mem _ this.1, this.2⟩

theorem findKey_none {k : List AView} {es : List Entry} (h : findKey k es = none) : k ∉ es.map (·.key) := by
  induction es with
  | nil => simp
  | cons a t ih =>
    simp only [findKey] at h
    split at h
    · cases h
    · rename_i hk
      simp only [List.map_cons, List.mem_cons, not_or]
      exact ⟨fun x => hk x.symm, ih h⟩

theorem bump_keys (k : List AView) (es : List Entry) : (bump k es).map (·.key) = es.map (·.key) := by
  induction es with
  | nil => rfl
  | cons a t ih => simp only [bump]; split <;> simp [ih]

theorem bump_ctxs (k : List AView) (es : List Entry) : (bump k es).map (·.ctx) = es.map (·.ctx) := by
  induction es with
  | nil => rfl
  | cons a t ih => simp only [bump]; split <;> simp [ih]

theorem bump_mem {k : List AView} {es : List Entry} {x : Entry} (h : x ∈ bump k es) :
    ∃ e ∈ es, x.key = e.key ∧ x.ctx = e.ctx ∧ x.mats = e.mats ∧ e.cnt ≤ x.cnt := by
  induction es with
  | nil => simp [bump] at h
  | cons a t ih =>
    simp only [bump] at h
    split at h
    · rcases List.mem_cons.mp h with h | h
      · exact ⟨a, List.mem_cons_self, by simp [h], by simp [h], by simp [h], by simp [h]⟩
      · exact ⟨x, List.mem_cons_of_mem _ h, rfl, rfl, rfl, Nat.le_refl _⟩
    · rcases List.mem_cons.mp h with h | h
      · exact ⟨a, List.mem_cons_self, by simp [h], by simp [h], by simp [h], by simp [h]⟩
      · obtain ⟨e, he, r⟩ := ih h
        exact ⟨e, List.mem_cons_of_mem _ he, r⟩

/-- `ctx_store_get_ctx` keeps the cache consistent, and the context it returns is keyed by the identity of the
configured items as observed in this call and holds exactly the material that identity designates -/
theorem get_spec (w : World) (ok : List (Option Mat) → Bool) (cfg : List Item) :
    ∀ (fuel : Nat) (st : Store) (e : Env) (n : Nat), Inv w st → Mono e →
      let r := get w ok fuel st cfg (tickN e n)
      Inv w r.1 ∧
      (∀ id cr, r.2.1 = .ctx id cr →
        ∃ en ∈ r.1.entries, en.ctx = id ∧ en.mats = en.key.map (designated w) ∧
          (∃ m e', hashCfg w (tickN e m) cfg = (some en.key, e')) ∧
          (cr = true → ok en.mats = true ∧ id = st.next ∧ ∀ x ∈ st.entries, x.ctx ≠ id) ∧
          (cr = false → ∃ old ∈ st.entries, old.ctx = id ∧ old.key = en.key)) := by
  intro fuel
  induction fuel with
  | zero => intro st e n hi _; exact ⟨hi, fun id cr h => by simp [get] at h⟩
  | succ f ih =>
    intro st e n hi hm
    simp only [get]
    cases hh1 : hashCfg w (tickN e n) cfg with
    | mk k1 e1 =>
      cases k1 with
      | none => exact ⟨hi, fun id cr h => by simp at h⟩
      | some k =>
        have he1 := (hashCfg_env w cfg _ k e1 hh1).1
        simp only
        cases hf : findKey k st.entries with
        | some en =>
          have ⟨hmem, hkey⟩ := findKey_some hf
          simp only
          refine ⟨?_, ?_⟩
          · constructor
            · intro x hx
              obtain ⟨e0, he0, r⟩ := bump_mem hx
              rw [r.2.2.1, r.1]; exact hi.mats e0 he0
            · simp only [bump_keys]; exact hi.keysNodup
            · simp only [bump_ctxs]; exact hi.ctxNodup
            · intro x hx
              obtain ⟨e0, he0, r⟩ := bump_mem hx
              rw [r.2.1]; exact hi.ctxLt e0 he0
            · intro x hx
              obtain ⟨e0, he0, r⟩ := bump_mem hx
              exact Nat.lt_of_lt_of_le (hi.cntPos e0 he0) r.2.2.2
            · exact hi.freedLt
            · intro c hc x hx
              obtain ⟨e0, he0, r⟩ := bump_mem hx
              rw [r.2.1]; exact hi.freedDead c hc e0 he0
            · exact hi.noAbort
          · intro id cr h
            simp only [Res.ctx.injEq] at h
            obtain ⟨hid, hcr⟩ := h
            -- the bumped entry
            have : en.ctx ∈ (bump k st.entries).map (·.ctx) := by
              rw [bump_ctxs]; exact List.mem_map.mpr ⟨en, hmem, rfl⟩
            obtain ⟨x, hx, hxc⟩ := List.mem_map.mp this
            obtain ⟨e0, he0, r⟩ := bump_mem hx
            -- e0 = en because contexts are unique
            have hsame : e0.key = en.key ∧ e0.mats = en.mats := by
              have h1 : e0.ctx = en.ctx := by rw [← r.2.1]; exact hxc
              have := hi.ctxNodup
              -- two entries of a list with distinct ctxs and equal ctx are equal
              have key : ∀ (l : List Entry), (l.map (·.ctx)).Nodup → ∀ a ∈ l, ∀ b ∈ l, a.ctx = b.ctx → a = b := by
                intro l
                induction l with
                | nil => intro _ a ha; cases ha
                | cons h t iht =>
                  intro nd a ha b hb hab
                  simp only [List.map_cons, List.nodup_cons] at nd
                  rcases List.mem_cons.mp ha with ha | ha <;> rcases List.mem_cons.mp hb with hb | hb
                  · rw [ha, hb]
                  · exfalso; apply nd.1; rw [← ha, hab]; exact List.mem_map.mpr ⟨b, hb, rfl⟩
                  · exfalso; apply nd.1; rw [← hb, ← hab]; exact List.mem_map.mpr ⟨a, ha, rfl⟩
                  · exact iht nd.2 a ha b hb hab
              have := key st.entries hi.ctxNodup e0 he0 en hmem h1
              rw [this]; exact ⟨rfl, rfl⟩
            refine ⟨x, hx, by rw [hxc, hid], ?_, ⟨n, e1, ?_⟩, ?_, ?_⟩
            · rw [r.2.2.1, r.1, hsame.1, hsame.2]; exact hi.mats en hmem
            · rw [r.1, hsame.1, hkey]; exact hh1
            · intro hc; rw [← hcr] at hc; cases hc
            · intro _; exact ⟨en, hmem, hid, by rw [r.1, hsame.1]⟩
        | none =>
          simp only
          rw [he1]
          cases hl : loadCfg w (tickN (tickN e n) cfg.length) cfg with
          | mk ms1 e2 =>
            cases ms1 with
            | none => exact ⟨hi, fun id cr h => by simp at h⟩
            | some ms =>
              have he2 := loadCfg_env w cfg _ ms e2 hl
              simp only
              rw [he2]
              cases hh2 : hashCfg w (tickN (tickN (tickN e n) cfg.length) cfg.length) cfg with
              | mk k2o e3 =>
                cases k2o with
                | none => exact ⟨hi, fun id cr h => by simp at h⟩
                | some k2 =>
                  have he3 := (hashCfg_env w cfg _ k2 e3 hh2).1
                  simp only
                  by_cases hk : k2 = k
                  · rw [if_pos hk]
                    subst hk
                    by_cases hok : ok ms = true
                    · rw [if_pos hok]
                      simp only [tickN_add] at hl hh2
                      have hms := passes w cfg e hm n (n + cfg.length) (n + cfg.length + cfg.length) k2 ms e1 e2 e3
                        (by omega) (by omega) hh1 hl hh2
                      have hfresh := findKey_none hf
                      refine ⟨?_, ?_⟩
                      · constructor
                        · intro x hx
                          rcases List.mem_cons.mp hx with hx | hx
                          · rw [hx]; exact hms
                          · exact hi.mats x hx
                        · simp only [List.map_cons, List.nodup_cons]; exact ⟨hfresh, hi.keysNodup⟩
                        · simp only [List.map_cons, List.nodup_cons]
                          refine ⟨?_, hi.ctxNodup⟩
                          intro hc
                          obtain ⟨x, hx, hxc⟩ := List.mem_map.mp hc
                          have := hi.ctxLt x hx
                          omega
                        · intro x hx
                          rcases List.mem_cons.mp hx with hx | hx
                          · rw [hx]; exact Nat.lt_succ_self _
                          · exact Nat.lt_succ_of_lt (hi.ctxLt x hx)
                        · intro x hx
                          rcases List.mem_cons.mp hx with hx | hx
                          · rw [hx]; exact Nat.one_pos
                          · exact hi.cntPos x hx
                        · intro c hc; exact Nat.lt_succ_of_lt (hi.freedLt c hc)
                        · intro c hc x hx
                          rcases List.mem_cons.mp hx with hx | hx
                          · rw [hx]; have := hi.freedLt c hc; simp only; omega
                          · exact hi.freedDead c hc x hx
                        · exact hi.noAbort
                      · intro id cr h
                        simp only [Res.ctx.injEq] at h
                        obtain ⟨hid, hcr⟩ := h
                        refine ⟨_, List.mem_cons_self, hid, hms, ⟨n, e1, hh1⟩, ?_, ?_⟩
                        · intro _
                          refine ⟨hok, hid.symm, ?_⟩
                          intro x hx hxc
                          have := hi.ctxLt x hx
                          omega
                        · intro hc; rw [← hcr] at hc; cases hc
                    · rw [if_neg hok]; exact ⟨hi, fun id cr h => by simp at h⟩
                  · rw [if_neg hk, he3]
                    simp only [tickN_add]
                    have := ih st e (n + cfg.length + cfg.length + cfg.length) hi hm
                    exact this

theorem findCtx_some {c : Nat} {es : List Entry} {e : Entry} (h : findCtx c es = some e) : e ∈ es ∧ e.ctx = c := by
  induction es with
  | nil => simp [findCtx] at h
  | cons a t ih =>
    simp only [findCtx] at h
    split at h
    · rename_i hk; cases h; exact ⟨List.mem_cons_self, hk⟩
    · have := ih h; exact ⟨List.mem_cons_of_mem _ this.1, this.2⟩

theorem findCtx_none {c : Nat} {es : List Entry} (h : findCtx c es = none) : ∀ e ∈ es, e.ctx ≠ c := by
  induction es with
  | nil => intro e he; cases he
  | cons a t ih =>
    simp only [findCtx] at h
    split at h
    · cases h
    · rename_i hk
      intro e he
      rcases List.mem_cons.mp he with he | he
      · rw [he]; exact hk
      · exact ih h e he

theorem dropRef_mem {c : Nat} {es : List Entry} {x : Entry} (h : x ∈ dropRef c es) :
    ∃ e ∈ es, x.key = e.key ∧ x.ctx = e.ctx ∧ x.mats = e.mats ∧ (x.cnt = e.cnt ∨ (e.ctx = c ∧ 1 < e.cnt ∧ x.cnt = e.cnt - 1)) := by
  induction es with
  | nil => simp [dropRef] at h
  | cons a t ih =>
    simp only [dropRef] at h
    split at h
    · rename_i hc
      split at h
      · exact ⟨x, List.mem_cons_of_mem _ h, rfl, rfl, rfl, Or.inl rfl⟩
      · rename_i hcnt
        rcases List.mem_cons.mp h with h | h
        · exact ⟨a, List.mem_cons_self, by simp [h], by simp [h], by simp [h], Or.inr ⟨hc, by omega, by simp [h]⟩⟩
        · exact ⟨x, List.mem_cons_of_mem _ h, rfl, rfl, rfl, Or.inl rfl⟩
    · rcases List.mem_cons.mp h with h | h
      · exact ⟨a, List.mem_cons_self, by simp [h], by simp [h], by simp [h], Or.inl (by simp [h])⟩
      · obtain ⟨e, he, r⟩ := ih h
        exact ⟨e, List.mem_cons_of_mem _ he, r⟩

theorem dropRef_keys_sub (c : Nat) (es : List Entry) : ((dropRef c es).map (·.key)).Sublist (es.map (·.key)) := by
  induction es with
  | nil => exact List.Sublist.refl _
  | cons a t ih =>
    simp only [dropRef]
    split
    · split
      · exact List.Sublist.cons _ (List.Sublist.refl _)
      · exact List.Sublist.refl _
    · exact List.Sublist.cons₂ _ ih

theorem dropRef_ctxs_sub (c : Nat) (es : List Entry) : ((dropRef c es).map (·.ctx)).Sublist (es.map (·.ctx)) := by
  induction es with
  | nil => exact List.Sublist.refl _
  | cons a t ih =>
    simp only [dropRef]
    split
    · split
      · exact List.Sublist.cons _ (List.Sublist.refl _)
      · exact List.Sublist.refl _
    · exact List.Sublist.cons₂ _ ih

/-- after the last reference is dropped no entry with that context remains -/
theorem dropRef_removed {c : Nat} {es : List Entry} (nd : (es.map (·.ctx)).Nodup) {e : Entry} (he : findCtx c es = some e)
    (h1 : e.cnt ≤ 1) : ∀ x ∈ dropRef c es, x.ctx ≠ c := by
  induction es with
  | nil => simp [findCtx] at he
  | cons a t ih =>
    simp only [findCtx] at he
    simp only [List.map_cons, List.nodup_cons] at nd
    simp only [dropRef]
    split at he
    · rename_i hc
      cases he
      rw [if_pos hc, if_pos h1]
      intro x hx hxc
      apply nd.1; rw [hc, ← hxc]; exact List.mem_map.mpr ⟨x, hx, rfl⟩
    · rename_i hc
      rw [if_neg hc]
      intro x hx
      rcases List.mem_cons.mp hx with hx | hx
      · rw [hx]; exact hc
      · exact ih nd.2 he x hx

theorem dropRef_dec {c : Nat} {es : List Entry} {e : Entry} (he : findCtx c es = some e) (h1' : ¬ e.cnt ≤ 1) :
    ∃ x ∈ dropRef c es, x.ctx = c ∧ x.cnt = e.cnt - 1 := by
  induction es with
  | nil => simp [findCtx] at he
  | cons a t ih =>
    simp only [findCtx] at he
    simp only [dropRef]
    split at he
    · rename_i hc
      cases he
      rw [if_pos hc, if_neg h1']
      exact ⟨_, List.mem_cons_self, hc, rfl⟩
    · rename_i hc
      rw [if_neg hc]
      obtain ⟨x, hx, r⟩ := ih he
      exact ⟨x, List.mem_cons_of_mem _ hx, r⟩

/-- `ctx_store_put` of a held context keeps the cache consistent; the context is released exactly when the last
reference goes -/
theorem put_spec (w : World) (st : Store) (c : Nat) (hi : Inv w st) (e : Entry) (he : findCtx c st.entries = some e) :
    Inv w (put st c) ∧
    (e.cnt ≤ 1 → (put st c).freed = c :: st.freed ∧ ∀ x ∈ (put st c).entries, x.ctx ≠ c) ∧
    (1 < e.cnt → (put st c).freed = st.freed ∧ ∃ x ∈ (put st c).entries, x.ctx = c ∧ x.cnt = e.cnt - 1) := by
  have ⟨hmem, hctx⟩ := findCtx_some he
  unfold put
  simp only [he]
  refine ⟨?_, ?_, ?_⟩
  · constructor
    · intro x hx
      obtain ⟨e0, he0, r⟩ := dropRef_mem hx
      rw [r.2.2.1, r.1]; exact hi.mats e0 he0
    · exact hi.keysNodup.sublist (dropRef_keys_sub c st.entries)
    · exact hi.ctxNodup.sublist (dropRef_ctxs_sub c st.entries)
    · intro x hx
      obtain ⟨e0, he0, r⟩ := dropRef_mem hx
      rw [r.2.1]; exact hi.ctxLt e0 he0
    · intro x hx
      obtain ⟨e0, he0, r⟩ := dropRef_mem hx
      rcases r.2.2.2 with r | r
      · rw [r]; exact hi.cntPos e0 he0
      · omega
    · intro c' hc'
      simp only at hc'
      split at hc'
      · rcases List.mem_cons.mp hc' with h | h
        · rw [h, ← hctx]; exact hi.ctxLt e hmem
        · exact hi.freedLt c' h
      · exact hi.freedLt c' hc'
    · intro c' hc' x hx
      simp only at hc' hx
      obtain ⟨e0, he0, r⟩ := dropRef_mem hx
      split at hc'
      · rename_i h1
        rcases List.mem_cons.mp hc' with h | h
        · rw [h]; exact dropRef_removed hi.ctxNodup he h1 x hx
        · rw [r.2.1]; exact hi.freedDead c' h e0 he0
      · rw [r.2.1]; exact hi.freedDead c' hc' e0 he0
    · exact hi.noAbort
  · intro h1
    exact ⟨by simp only [if_pos h1], dropRef_removed hi.ctxNodup he h1⟩
  · intro h1
    have h1' : ¬ e.cnt ≤ 1 := by omega
    refine ⟨by simp only [if_neg h1'], ?_⟩
    exact dropRef_dec he h1'

/-! ### reference counts vs. the sockets holding contexts -/

def cntOf (es : List Entry) (c : Nat) : Nat := match findCtx c es with | some e => e.cnt | none => 0

theorem cntOf_cons (a : Entry) (t : List Entry) (c : Nat) :
    cntOf (a :: t) c = if a.ctx = c then a.cnt else cntOf t c := by
  simp only [cntOf, findCtx]
  by_cases h : a.ctx = c <;> simp [h]

theorem bump_cnt {k : List AView} {es : List Entry} {en : Entry} (ndc : (es.map (·.ctx)).Nodup)
    (hf : findKey k es = some en) (c : Nat) :
    cntOf (bump k es) c = cntOf es c + (if c = en.ctx then 1 else 0) := by
  induction es with
  | nil => simp [findKey] at hf
  | cons a t ih =>
    simp only [List.map_cons, List.nodup_cons] at ndc
    simp only [findKey] at hf
    simp only [bump]
    by_cases hk : a.key = k
    · rw [if_pos hk] at hf ⊢
      simp only [Option.some.injEq] at hf
      rw [cntOf_cons, cntOf_cons, ← hf]
      by_cases hc : a.ctx = c
      · simp [hc]
      · have : ¬ c = a.ctx := fun h => hc h.symm
        simp [hc, this]
    · rw [if_neg hk] at hf ⊢
      rw [cntOf_cons, cntOf_cons]
      by_cases hc : a.ctx = c
      · have hne : ¬ c = en.ctx := by
          intro h
          apply ndc.1
          rw [hc, h]; exact List.mem_map.mpr ⟨en, (findKey_some hf).1, rfl⟩
        simp [hc, hne]
      · simp only [hc, if_false]; exact ih ndc.2 hf

theorem dropRef_cnt {c : Nat} {es : List Entry} (ndc : (es.map (·.ctx)).Nodup) (pos : ∀ e ∈ es, 0 < e.cnt) (c' : Nat) :
    cntOf (dropRef c es) c' = cntOf es c' - (if c' = c then 1 else 0) := by
  induction es with
  | nil => simp [dropRef, cntOf, findCtx]
  | cons a t ih =>
    simp only [List.map_cons, List.nodup_cons] at ndc
    have post : ∀ e ∈ t, 0 < e.cnt := fun e he => pos e (List.mem_cons_of_mem _ he)
    have ha := pos a List.mem_cons_self
    simp only [dropRef]
    by_cases hc : a.ctx = c
    · rw [if_pos hc]
      -- no other entry has ctx c
      have hnone : ∀ x ∈ t, x.ctx ≠ c := fun x hx h => ndc.1 (by rw [hc, ← h]; exact List.mem_map.mpr ⟨x, hx, rfl⟩)
      have hct : cntOf t c = 0 := by
        simp only [cntOf]
        cases hf : findCtx c t with
        | none => rfl
        | some e => exact absurd (findCtx_some hf).2 (hnone e (findCtx_some hf).1)
      by_cases h1 : a.cnt ≤ 1
      · rw [if_pos h1, cntOf_cons]
        by_cases hcc : c' = c
        · subst hcc; simp only [hc, if_true]; rw [hct]; omega
        · have : ¬ a.ctx = c' := fun h => hcc (by rw [← h, hc])
          simp [this, hcc]
      · rw [if_neg h1, cntOf_cons, cntOf_cons]
        by_cases hcc : c' = c
        · subst hcc; simp [hc]
        · have : ¬ a.ctx = c' := fun h => hcc (by rw [← h, hc])
          simp [this, hcc]
    · rw [if_neg hc, cntOf_cons, cntOf_cons]
      by_cases hac : a.ctx = c'
      · have : ¬ c' = c := fun h => hc (by rw [hac, h])
        simp [hac, this]
      · simp only [hac, if_false]; exact ih ndc.2 post

def resId : Res → Option Nat
  | .ctx id _ => some id
  | _ => none

/-- 1 if the result is context `c`, else 0 -/
def inc (r : Res) (c : Nat) : Nat :=
  match r with
  | .ctx id _ => if id = c then 1 else 0
  | _ => 0

theorem cntOf_fresh {w : World} {st : Store} (hi : Inv w st) : cntOf st.entries st.next = 0 := by
  simp only [cntOf]
  cases hf : findCtx st.next st.entries with
  | none => rfl
  | some e =>
    have := hi.ctxLt e (findCtx_some hf).1
    have := (findCtx_some hf).2
    omega

/-- a get adds exactly one reference, to the context it returns, and touches no other count -/
theorem get_cnt (w : World) (ok : List (Option Mat) → Bool) (cfg : List Item) :
    ∀ (fuel : Nat) (st : Store) (e : Env), Inv w st →
      ∀ c, let r := get w ok fuel st cfg e
        cntOf r.1.entries c = cntOf st.entries c + inc r.2.1 c := by
  intro fuel
  induction fuel with
  | zero => intro st e _ c; simp [get, inc]
  | succ f ih =>
    intro st e hi c
    simp only [get]
    cases hh1 : hashCfg w e cfg with
    | mk k1 e1 =>
      cases k1 with
      | none => simp [inc]
      | some k =>
        simp only
        cases hf : findKey k st.entries with
        | some en =>
          simp only [inc]
          rw [bump_cnt hi.ctxNodup hf c]
          by_cases h : c = en.ctx
          · simp [h]
          · have : ¬ en.ctx = c := fun x => h x.symm
            simp [h, this]
        | none =>
          simp only
          cases hl : loadCfg w e1 cfg with
          | mk ms1 e2 =>
            cases ms1 with
            | none => simp [inc]
            | some ms =>
              simp only
              cases hh2 : hashCfg w e2 cfg with
              | mk k2o e3 =>
                cases k2o with
                | none => simp [inc]
                | some k2 =>
                  simp only
                  by_cases hk : k2 = k
                  · rw [if_pos hk]
                    by_cases hok : ok ms = true
                    · rw [if_pos hok]
                      simp only [inc, cntOf_cons]
                      by_cases h : st.next = c
                      · subst h; simp [cntOf_fresh hi]
                      · simp [h]
                    · rw [if_neg hok]; simp [inc]
                  · rw [if_neg hk]; exact ih st e3 hi c

end XcmModel.CtxStore
