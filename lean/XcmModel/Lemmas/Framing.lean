import XcmModel.Framing
import XcmModel.Lemmas.Wire
/-! Invariants of the framing layer: wire conservation on the send side, stream
conservation and frame completeness on the receive side. -/
namespace XcmModel.Framing
open XcmModel XcmModel.Wire

/-- send-buffer well-formedness: empty with `sent = 0`, or something is still unsent -/
def SWf (s : St) : Prop := (s.sbuf = [] ∧ s.sent = 0) ∨ s.sent < s.sbuf.length

/-- all bytes handed to the lower layer so far, followed by what is still buffered -/
def wirePending (s : St) (env : Env) : Bytes := env.tx ++ s.sbuf.drop s.sent

structure TfsSpec (s : St) (env : Env) (r : St × Env × Option Nat × List SAns) : Prop where
  wf : SWf r.1
  wire : wirePending r.1 r.2.1 = wirePending s env
  rbuf : r.1.rbuf = s.rbuf
  bad : r.1.bad = s.bad
  rx : r.2.1.rx = env.rx
  rxEnd : r.2.1.rxEnd = env.rxEnd
  done : r.2.2.1 = none → r.1.sbuf = [] ∧ r.1.sent = 0
  fail : ∀ e, r.2.2.1 = some e → r.1.sbuf = s.sbuf ∧ s.sbuf ≠ [] ∧ (e ≠ EAGAIN → r.2.1.txErr = some e)
  sticky : ∀ e0, env.txErr = some e0 → r.2.1 = env ∧ r.1 = s ∧ (s.sbuf ≠ [] → r.2.2.1 = some e0)
  txErrMono : ∀ e0, env.txErr = some e0 → r.2.1.txErr = some e0
  cntSame : (s.sbuf = [] ∨ r.2.2.1 ≠ none) → r.1.cnt = s.cnt
  cntDone : s.sbuf ≠ [] → r.2.2.1 = none →
      r.1.cnt = { s.cnt with toLowerB := s.cnt.toLowerB + rd32 s.sbuf, toLowerM := s.cnt.toLowerM + 1 }
  txGrow : ∃ d, r.2.1.tx = env.tx ++ d

theorem isEmpty_false_iff {l : Bytes} : l.isEmpty = false ↔ l ≠ [] := by
  cases l <;> simp

theorem tfs_spec (ans : List SAns) (s : St) (env : Env) (hw : SWf s) :
    TfsSpec s env (tryFinishSendAux ans s env) := by
  induction ans generalizing s env with
  | nil =>
    by_cases he : s.sbuf.isEmpty = true
    · have hval : tryFinishSendAux [] s env = (s, env, none, []) := by simp [tryFinishSendAux, he]
      rw [hval]
      have h0 : s.sbuf = [] := by simpa using he
      have h1 : s.sent = 0 := by
        rcases hw with ⟨_, h⟩ | h
        · exact h
        · rw [h0] at h; simp at h
      constructor <;> simp_all [wirePending, SWf]
    · have hne : s.sbuf ≠ [] := by intro e; simp [e] at he
      cases hte : env.txErr with
      | none =>
        have hval : tryFinishSendAux [] s env = (s, env, some EAGAIN, []) := by
          simp [tryFinishSendAux, he, hte]
        rw [hval]
        constructor <;> simp_all [wirePending]
      | some e0 =>
        have hval : tryFinishSendAux [] s env = (s, env, some e0, []) := by
          simp [tryFinishSendAux, he, hte]
        rw [hval]
        constructor <;> simp_all [wirePending]
  | cons a t ih =>
    by_cases he : s.sbuf.isEmpty = true
    · have hval : tryFinishSendAux (a :: t) s env = (s, env, none, a :: t) := by
        simp [tryFinishSendAux, he]
      rw [hval]
      have h0 : s.sbuf = [] := by simpa using he
      have h1 : s.sent = 0 := by
        rcases hw with ⟨_, h⟩ | h
        · exact h
        · rw [h0] at h; simp at h
      constructor <;> simp_all [wirePending, SWf]
    · have hne : s.sbuf ≠ [] := by intro e; simp [e] at he
      have hlt : s.sent < s.sbuf.length := by
        rcases hw with ⟨h, _⟩ | h
        · exact absurd h hne
        · exact h
      cases hte : env.txErr with
      | some e0 =>
        have hval : tryFinishSendAux (a :: t) s env = (s, env, some e0, a :: t) := by
          simp [tryFinishSendAux, he, hte]
        rw [hval]
        constructor <;> simp_all [wirePending]
      | none =>
        cases a with
        | err e =>
          have hval : tryFinishSendAux (.err e :: t) s env =
              (s, if e = EAGAIN then env else { env with txErr := some e }, some e, t) := by
            simp [tryFinishSendAux, he, hte]
          rw [hval]
          by_cases hea : e = EAGAIN
          · constructor <;> simp_all [wirePending]
          · constructor <;> simp_all [wirePending]
        | ok k =>
          have hk1 : 1 ≤ max 1 (min k (s.sbuf.length - s.sent)) := Nat.le_max_left _ _
          have hk2 : max 1 (min k (s.sbuf.length - s.sent)) ≤ s.sbuf.length - s.sent := by
            have := Nat.min_le_right k (s.sbuf.length - s.sent); omega
          generalize hkk : max 1 (min k (s.sbuf.length - s.sent)) = k' at hk1 hk2
          by_cases hfin : s.sent + k' = s.sbuf.length
          · have hval : tryFinishSendAux (.ok k :: t) s env =
                ({ s with sbuf := [], sent := 0,
                          cnt := { s.cnt with toLowerB := s.cnt.toLowerB + rd32 s.sbuf,
                                              toLowerM := s.cnt.toLowerM + 1 } },
                 { env with tx := env.tx ++ (s.sbuf.drop s.sent).take k' }, none, t) := by
              simp [tryFinishSendAux, he, hte, hkk, hfin]
            rw [hval]
            have htk : (s.sbuf.drop s.sent).take k' = s.sbuf.drop s.sent := by
              apply List.take_of_length_le; simp; omega
            constructor <;> simp_all [wirePending, SWf]
          · have hval : tryFinishSendAux (.ok k :: t) s env =
                tryFinishSendAux t { s with sent := s.sent + k' }
                  { env with tx := env.tx ++ (s.sbuf.drop s.sent).take k' } := by
              simp [tryFinishSendAux, he, hte, hkk, hfin]
            rw [hval]
            have hw' : SWf { s with sent := s.sent + k' } := Or.inr (by simp; omega)
            obtain ⟨i1, i2, i3, i4, i5, i6, i7, i8, i9, i10, i11, i11b, i12⟩ :=
              ih { s with sent := s.sent + k' }
                { env with tx := env.tx ++ (s.sbuf.drop s.sent).take k' } hw'
            refine ⟨i1, ?_, i3, i4, i5, i6, i7, ?_, ?_, ?_, i11, i11b, ?_⟩
            · rw [i2]
              simp only [wirePending, List.append_assoc]
              congr 1
              rw [← List.drop_drop]
              exact List.take_append_drop k' (s.sbuf.drop s.sent)
            · intro e h
              obtain ⟨j1, j2, j3⟩ := i8 e h
              exact ⟨j1, hne, j3⟩
            · intro e0 h; rw [hte] at h; cases h
            · intro e0 h; rw [hte] at h; cases h
            · obtain ⟨d, hd⟩ := i12
              exact ⟨(s.sbuf.drop s.sent).take k' ++ d, by rw [hd]; simp⟩

/-! ### receive side -/

theorem lowerReceive_ok {env env' : Env} {len : Nat} {got : Bytes}
    (h : lowerReceive env len = (env', .ok got)) (hseg : ∀ g ∈ env.rx, g ≠ []) (hl : 0 < len) :
    got ++ env'.rx.flatten = env.rx.flatten ∧ got.length ≤ len ∧ got ≠ [] ∧
      env'.tx = env.tx ∧ env'.txErr = env.txErr ∧ env'.rxEnd = env.rxEnd ∧ (∀ g ∈ env'.rx, g ≠ []) := by
  simp only [lowerReceive] at h
  cases hrx : env.rx with
  | nil =>
    simp only [hrx] at h
    cases hre : env.rxEnd with
    | none => simp [hre] at h
    | some x => cases x <;> simp [hre] at h
  | cons seg rest =>
    simp only [hrx, Prod.mk.injEq, Except.ok.injEq] at h
    obtain ⟨rfl, rfl⟩ := h
    have hsne : seg ≠ [] := hseg seg (by rw [hrx]; simp)
    have hrest : ∀ g ∈ rest, g ≠ [] := fun g hg => hseg g (by rw [hrx]; exact List.mem_cons_of_mem _ hg)
    refine ⟨?_, by simp; omega, ?_, rfl, rfl, rfl, ?_⟩
    · by_cases hd : (seg.drop len).isEmpty = true
      · simp only [hd, if_true, List.flatten_cons]
        have : seg.drop len = [] := by simpa using hd
        have h2 : seg.take len = seg := by
          have := List.take_append_drop len seg; rw [‹seg.drop len = []›] at this; simpa using this
        rw [h2]
      · have hd' : (seg.drop len).isEmpty = false := by simpa using hd
        simp only [hd', Bool.false_eq_true, if_false, List.flatten_cons, ← List.append_assoc,
          List.take_append_drop]
    · intro e
      have : seg.take len = [] := e
      cases seg with
      | nil => exact hsne rfl
      | cons x t =>
        cases len with
        | zero => omega
        | succ n => simp at this
    · intro g hg
      by_cases hd : (seg.drop len).isEmpty = true
      · simp only [hd, if_true] at hg; exact hrest g hg
      · have hd' : (seg.drop len).isEmpty = false := by simpa using hd
        simp only [hd', Bool.false_eq_true, if_false, List.mem_cons] at hg
        rcases hg with hg | hg
        · rw [hg]; intro e; rw [e] at hd'; simp at hd'
        · exact hrest g hg

theorem lowerReceive_err {env env' : Env} {len : Nat} {x : Option Nat}
    (h : lowerReceive env len = (env', .error x)) : env' = env := by
  simp only [lowerReceive] at h
  cases hrx : env.rx with
  | nil =>
    simp only [hrx] at h
    cases hre : env.rxEnd with
    | none => simp only [hre, Prod.mk.injEq] at h; exact h.1.symm
    | some y => cases y <;> (simp only [hre, Prod.mk.injEq] at h; exact h.1.symm)
  | cons seg rest => simp [hrx] at h

/-- what `buffer_receive` guarantees -/
structure BrSpec (s : St) (env : Env) (len : Nat) (r : St × Env × BufRes) : Prop where
  stream : r.1.rbuf ++ r.2.1.rx.flatten = s.rbuf ++ env.rx.flatten
  full : r.2.2 = .full → r.1.rbuf.length = s.rbuf.length + len
  notFull : r.2.2 ≠ .full → r.1.rbuf.length < s.rbuf.length + len
  grow : ∃ d, r.1.rbuf = s.rbuf ++ d
  noAbort : r.2.2 ≠ .abort
  same : r.1.sbuf = s.sbuf ∧ r.1.sent = s.sent ∧ r.1.cnt = s.cnt ∧ r.1.bad = s.bad
  envSame : r.2.1.tx = env.tx ∧ r.2.1.txErr = env.txErr ∧ r.2.1.rxEnd = env.rxEnd
  segs : ∀ g ∈ r.2.1.rx, g ≠ []

theorem bufferReceive_spec (s : St) (env : Env) (len : Nat) (hl : 0 < len)
    (hcap : s.rbuf.length + len ≤ Generated.MBUF_WIRE_MAX) (hseg : ∀ g ∈ env.rx, g ≠ []) :
    BrSpec s env len (bufferReceive s env len) := by
  have hc : ¬ s.rbuf.length + len > Generated.MBUF_WIRE_MAX := by omega
  cases hlr : lowerReceive env len with
  | mk env' res =>
    cases res with
    | error x =>
      have henv := lowerReceive_err hlr
      rw [henv] at hlr
      clear henv env'
      cases x with
      | none =>
        have hval : bufferReceive s env len = (s, env, .closed) := by simp [bufferReceive, hc, hlr]
        rw [hval]
        constructor <;> simp_all <;> (first | omega | exact ⟨[], by simp⟩)
      | some e =>
        have hval : bufferReceive s env len = (s, env, .err e) := by simp [bufferReceive, hc, hlr]
        rw [hval]
        constructor <;> simp_all <;> (first | omega | exact ⟨[], by simp⟩)
    | ok got =>
      obtain ⟨h1, h2, h3, h4, h5, h6, h7⟩ := lowerReceive_ok hlr hseg hl
      have hge : got.isEmpty = false := by cases got <;> simp_all
      by_cases hlt : got.length < len
      · have hval : bufferReceive s env len = ({ s with rbuf := s.rbuf ++ got }, env', .err EAGAIN) := by
          simp [bufferReceive, hc, hlr, hge, hlt]
        rw [hval]
        constructor <;> simp_all <;> (first | omega | (rw [← h1]))
      · have hval : bufferReceive s env len = ({ s with rbuf := s.rbuf ++ got }, env', .full) := by
          simp [bufferReceive, hc, hlr, hge, hlt]
        rw [hval]
        constructor <;> simp_all <;> (first | omega | (rw [← h1]))

/-- a flush never touches the receive side (unconditionally) -/
theorem tfs_recvside (ans : List SAns) (s : St) (env : Env) :
    (tryFinishSendAux ans s env).1.rbuf = s.rbuf ∧ (tryFinishSendAux ans s env).1.bad = s.bad ∧
    (tryFinishSendAux ans s env).2.1.rx = env.rx ∧ (tryFinishSendAux ans s env).2.1.rxEnd = env.rxEnd := by
  induction ans generalizing s env with
  | nil =>
    simp only [tryFinishSendAux]
    split
    · exact ⟨rfl, rfl, rfl, rfl⟩
    · split <;> exact ⟨rfl, rfl, rfl, rfl⟩
  | cons a t ih =>
    simp only [tryFinishSendAux]
    split
    · exact ⟨rfl, rfl, rfl, rfl⟩
    · split
      · exact ⟨rfl, rfl, rfl, rfl⟩
      · cases a with
        | err e =>
          by_cases hea : e = EAGAIN <;> simp [hea]
        | ok k =>
          simp only
          split
          · exact ⟨rfl, rfl, rfl, rfl⟩
          · exact ih _ _

/-- the four receive-side counters of `s'` are those of `s` -/
def RCntSame (s' s : St) : Prop :=
  s'.cnt.toAppM = s.cnt.toAppM ∧ s'.cnt.toAppB = s.cnt.toAppB ∧
  s'.cnt.fromLowerM = s.cnt.fromLowerM ∧ s'.cnt.fromLowerB = s.cnt.fromLowerB

theorem RCntSame.refl (s : St) : RCntSame s s := ⟨rfl, rfl, rfl, rfl⟩

theorem RCntSame.trans {a b c : St} (h1 : RCntSame a b) (h2 : RCntSame b c) : RCntSame a c :=
  ⟨h1.1.trans h2.1, h1.2.1.trans h2.2.1, h1.2.2.1.trans h2.2.2.1, h1.2.2.2.trans h2.2.2.2⟩

/-- a flush never touches the receive-side counters, and never decreases a counter -/
theorem tfs_cnt_recv (ans : List SAns) (s : St) (env : Env) :
    RCntSame (tryFinishSendAux ans s env).1 s ∧
    (tryFinishSendAux ans s env).1.cnt.fromAppM = s.cnt.fromAppM ∧
    (tryFinishSendAux ans s env).1.cnt.fromAppB = s.cnt.fromAppB ∧
    s.cnt.toLowerM ≤ (tryFinishSendAux ans s env).1.cnt.toLowerM ∧
    s.cnt.toLowerB ≤ (tryFinishSendAux ans s env).1.cnt.toLowerB := by
  induction ans generalizing s env with
  | nil =>
    simp only [tryFinishSendAux]
    split
    · exact ⟨RCntSame.refl _, rfl, rfl, Nat.le_refl _, Nat.le_refl _⟩
    · split <;> exact ⟨RCntSame.refl _, rfl, rfl, Nat.le_refl _, Nat.le_refl _⟩
  | cons a t ih =>
    simp only [tryFinishSendAux]
    split
    · exact ⟨RCntSame.refl _, rfl, rfl, Nat.le_refl _, Nat.le_refl _⟩
    · split
      · exact ⟨RCntSame.refl _, rfl, rfl, Nat.le_refl _, Nat.le_refl _⟩
      · cases a with
        | err e => exact ⟨RCntSame.refl _, rfl, rfl, Nat.le_refl _, Nat.le_refl _⟩
        | ok k =>
          simp only
          split
          · exact ⟨⟨rfl, rfl, rfl, rfl⟩, rfl, rfl, Nat.le_succ _, Nat.le_add_right _ _⟩
          · exact ih _ _

/-! the receive path never touches the send side (unconditionally) -/

def SendSide (s : St) (env : Env) (s' : St) (env' : Env) : Prop :=
  s'.sbuf = s.sbuf ∧ s'.sent = s.sent ∧ env'.tx = env.tx ∧ env'.txErr = env.txErr ∧
  s'.cnt.fromAppM = s.cnt.fromAppM ∧ s'.cnt.fromAppB = s.cnt.fromAppB ∧
  s'.cnt.toLowerM = s.cnt.toLowerM ∧ s'.cnt.toLowerB = s.cnt.toLowerB

theorem SendSide.refl (s : St) (env : Env) : SendSide s env s env := ⟨rfl, rfl, rfl, rfl, rfl, rfl, rfl, rfl⟩

theorem SendSide.trans {s env s1 env1 s2 env2} (a : SendSide s env s1 env1) (b : SendSide s1 env1 s2 env2) :
    SendSide s env s2 env2 :=
  ⟨b.1.trans a.1, b.2.1.trans a.2.1, b.2.2.1.trans a.2.2.1, b.2.2.2.1.trans a.2.2.2.1,
   b.2.2.2.2.1.trans a.2.2.2.2.1, b.2.2.2.2.2.1.trans a.2.2.2.2.2.1,
   b.2.2.2.2.2.2.1.trans a.2.2.2.2.2.2.1, b.2.2.2.2.2.2.2.trans a.2.2.2.2.2.2.2⟩

theorem lowerReceive_sendside (env : Env) (len : Nat) :
    (lowerReceive env len).1.tx = env.tx ∧ (lowerReceive env len).1.txErr = env.txErr := by
  simp only [lowerReceive]
  split
  · simp
  · split <;> simp

theorem bufferReceive_sendside (s : St) (env : Env) (len : Nat) :
    SendSide s env (bufferReceive s env len).1 (bufferReceive s env len).2.1 := by
  have h := lowerReceive_sendside env len
  simp only [bufferReceive]
  split
  · exact SendSide.refl _ _
  · generalize lowerReceive env len = lr at h
    obtain ⟨env', res⟩ := lr
    cases res with
    | error x => cases x <;> exact ⟨rfl, rfl, h.1, h.2, rfl, rfl, rfl, rfl⟩
    | ok got =>
      simp only
      split
      · exact ⟨rfl, rfl, h.1, h.2, rfl, rfl, rfl, rfl⟩
      · split <;> exact ⟨rfl, rfl, h.1, h.2, rfl, rfl, rfl, rfl⟩

theorem bufferPayload_sendside (s : St) (env : Env) :
    SendSide s env (bufferPayload s env).1 (bufferPayload s env).2.1 := by
  simp only [bufferPayload]
  split
  · exact SendSide.refl _ _
  · have h := bufferReceive_sendside s env (rd32 s.rbuf - (s.rbuf.length - Generated.MBUF_HDR_LEN))
    generalize bufferReceive s env (rd32 s.rbuf - (s.rbuf.length - Generated.MBUF_HDR_LEN)) = q at h
    split
    · exact ⟨h.1, h.2.1, h.2.2.1, h.2.2.2.1, h.2.2.2.2.1, h.2.2.2.2.2.1, h.2.2.2.2.2.2.1, h.2.2.2.2.2.2.2⟩
    · exact h

theorem bufferMsg_sendside (s : St) (env : Env) :
    SendSide s env (bufferMsg s env).1 (bufferMsg s env).2.1 := by
  simp only [bufferMsg]
  have hh : SendSide s env (bufferHdr s env).1 (bufferHdr s env).2.1 := by
    simp only [bufferHdr]
    split
    · exact SendSide.refl _ _
    · exact bufferReceive_sendside _ _ _
  generalize bufferHdr s env = p at hh
  split
  · exact hh.trans (bufferPayload_sendside _ _)
  · exact hh

/-- receive buffer between calls: short header, or valid header with incomplete payload, or
(after EPROTO) a complete invalid header -/
def RbufOk (bad : Option Nat) (r : Bytes) : Prop :=
  r.length < 4 ∨ (4 ≤ r.length ∧ hdrValid (rd32 r) = true ∧ r.length < 4 + rd32 r) ∨
  (r.length = 4 ∧ hdrValid (rd32 r) = false ∧ bad ≠ none)

theorem hdrValid_bounds {n : Nat} (h : hdrValid n = true) : 1 ≤ n ∧ n ≤ Generated.MBUF_MSG_MAX := by
  simp only [hdrValid, Bool.and_eq_true, decide_eq_true_eq] at h; omega

structure BmSpec (s : St) (env : Env) (r : St × Env × BufRes) : Prop where
  stream : r.1.rbuf ++ r.2.1.rx.flatten = s.rbuf ++ env.rx.flatten
  full : r.2.2 = .full → 4 ≤ r.1.rbuf.length ∧ hdrValid (rd32 r.1.rbuf) = true ∧
    r.1.rbuf.length = 4 + rd32 r.1.rbuf ∧ r.1.bad = s.bad ∧
    r.1.cnt = { s.cnt with fromLowerB := s.cnt.fromLowerB + rd32 r.1.rbuf,
                           fromLowerM := s.cnt.fromLowerM + 1 }
  notFull : r.2.2 ≠ .full → RbufOk r.1.bad r.1.rbuf ∧ r.1.cnt = s.cnt ∧
    (r.1.bad = s.bad ∨ (r.1.bad = some EPROTO ∧ r.2.2 = .err EPROTO))
  noAbort : r.2.2 ≠ .abort
  same : r.1.sbuf = s.sbuf ∧ r.1.sent = s.sent
  envSame : r.2.1.tx = env.tx ∧ r.2.1.txErr = env.txErr ∧ r.2.1.rxEnd = env.rxEnd
  segs : ∀ g ∈ r.2.1.rx, g ≠ []
  bound : r.1.rbuf.length ≤ Generated.MBUF_WIRE_MAX

/-- `buffer_payload` entered with exactly a header or a valid header and part of the payload -/
theorem bufferPayload_spec (s : St) (env : Env) (h4 : 4 ≤ s.rbuf.length)
    (hinc : hdrValid (rd32 s.rbuf) = true → s.rbuf.length < 4 + rd32 s.rbuf)
    (hinv : hdrValid (rd32 s.rbuf) = false → s.rbuf.length = 4)
    (hseg : ∀ g ∈ env.rx, g ≠ []) : BmSpec s env (bufferPayload s env) := by
  by_cases hv : hdrValid (rd32 s.rbuf) = true
  · have hb := hdrValid_bounds hv
    have hlt := hinc hv
    have hleft : 0 < rd32 s.rbuf - (s.rbuf.length - Generated.MBUF_HDR_LEN) := by
      simp only [Generated.MBUF_HDR_LEN]; omega
    have hcap : s.rbuf.length + (rd32 s.rbuf - (s.rbuf.length - Generated.MBUF_HDR_LEN))
        ≤ Generated.MBUF_WIRE_MAX := by
      simp only [Generated.MBUF_HDR_LEN, Generated.MBUF_WIRE_MAX, Generated.MBUF_MSG_MAX] at *; omega
    have br := bufferReceive_spec s env _ hleft hcap hseg
    generalize hq : bufferReceive s env (rd32 s.rbuf - (s.rbuf.length - Generated.MBUF_HDR_LEN)) = q at br
    obtain ⟨d, hd⟩ := br.grow
    have hrd : rd32 q.1.rbuf = rd32 s.rbuf := by rw [hd]; exact rd32_append_of_length h4 d
    cases hr : q.2.2 with
    | full =>
      have hval : bufferPayload s env =
          ({ q.1 with cnt := { q.1.cnt with fromLowerB := q.1.cnt.fromLowerB + rd32 s.rbuf,
                                            fromLowerM := q.1.cnt.fromLowerM + 1 } }, q.2.1, .full) := by
        simp [bufferPayload, hv, hq, hr]
      rw [hval]
      have hfl := br.full hr
      have hs := br.same
      refine ⟨br.stream, fun _ => ⟨?_, ?_, ?_, hs.2.2.2, ?_⟩, fun h => absurd rfl h, (by simp), ⟨hs.1, hs.2.1⟩,
        br.envSame, br.segs, ?_⟩
      · dsimp only; simp only [Generated.MBUF_HDR_LEN] at hfl; omega
      · dsimp only; rw [hrd]; exact hv
      · dsimp only; simp only [Generated.MBUF_HDR_LEN] at hfl; rw [hrd]; omega
      · dsimp only; rw [hrd, hs.2.2.1]
      · dsimp only; simp only [Generated.MBUF_HDR_LEN, Generated.MBUF_WIRE_MAX, Generated.MBUF_MSG_MAX] at *; omega
    | closed =>
      have hval : bufferPayload s env = (q.1, q.2.1, .closed) := by simp [bufferPayload, hv, hq, hr]
      rw [hval]
      have hnf := br.notFull (by rw [hr]; simp)
      have hs := br.same
      have hge : s.rbuf.length ≤ q.1.rbuf.length := by rw [hd]; simp
      refine ⟨br.stream, (fun h => by cases h), fun _ => ⟨Or.inr (Or.inl ⟨?_, (by rw [hrd]; exact hv), ?_⟩),
        hs.2.2.1, Or.inl hs.2.2.2⟩, (by simp), ⟨hs.1, hs.2.1⟩, br.envSame, br.segs, ?_⟩
      · dsimp only; omega
      · dsimp only; simp only [Generated.MBUF_HDR_LEN] at hnf; rw [hrd]; omega
      · dsimp only; simp only [Generated.MBUF_HDR_LEN, Generated.MBUF_WIRE_MAX, Generated.MBUF_MSG_MAX] at *; omega
    | err e =>
      have hval : bufferPayload s env = (q.1, q.2.1, .err e) := by simp [bufferPayload, hv, hq, hr]
      rw [hval]
      have hnf := br.notFull (by rw [hr]; simp)
      have hs := br.same
      have hge : s.rbuf.length ≤ q.1.rbuf.length := by rw [hd]; simp
      refine ⟨br.stream, (fun h => by cases h), fun _ => ⟨Or.inr (Or.inl ⟨?_, (by rw [hrd]; exact hv), ?_⟩),
        hs.2.2.1, Or.inl hs.2.2.2⟩, (by simp), ⟨hs.1, hs.2.1⟩, br.envSame, br.segs, ?_⟩
      · dsimp only; omega
      · dsimp only; simp only [Generated.MBUF_HDR_LEN] at hnf; rw [hrd]; omega
      · dsimp only; simp only [Generated.MBUF_HDR_LEN, Generated.MBUF_WIRE_MAX, Generated.MBUF_MSG_MAX] at *; omega
    | abort => exact absurd hr br.noAbort
  · have hv' : hdrValid (rd32 s.rbuf) = false := by simpa using hv
    have hval : bufferPayload s env = ({ s with bad := some EPROTO }, env, .err EPROTO) := by
      simp [bufferPayload, hv']
    rw [hval]
    have h4' := hinv hv'
    refine ⟨rfl, (fun h => by cases h), fun _ => ⟨Or.inr (Or.inr ⟨h4', hv', (by simp)⟩), rfl, Or.inr ⟨rfl, rfl⟩⟩,
      (by simp), ⟨rfl, rfl⟩, ⟨rfl, rfl, rfl⟩, hseg, ?_⟩
    dsimp only; simp only [Generated.MBUF_WIRE_MAX]; omega

theorem bufferMsg_spec (s : St) (env : Env) (hbad : s.bad = none) (hok : RbufOk s.bad s.rbuf)
    (hseg : ∀ g ∈ env.rx, g ≠ []) : BmSpec s env (bufferMsg s env) := by
  rcases hok with hshort | ⟨h4, hv, hlt⟩ | ⟨_, _, hb⟩
  · -- header incomplete: buffer_hdr reads
    have hleft : 0 < Generated.MBUF_HDR_LEN - min Generated.MBUF_HDR_LEN s.rbuf.length := by
      simp only [Generated.MBUF_HDR_LEN]; omega
    have hne : ¬ (Generated.MBUF_HDR_LEN - min Generated.MBUF_HDR_LEN s.rbuf.length = 0) := by omega
    have hcap : s.rbuf.length + (Generated.MBUF_HDR_LEN - min Generated.MBUF_HDR_LEN s.rbuf.length)
        ≤ Generated.MBUF_WIRE_MAX := by
      simp only [Generated.MBUF_HDR_LEN, Generated.MBUF_WIRE_MAX]; omega
    have br := bufferReceive_spec s env _ hleft hcap hseg
    have hh : bufferHdr s env =
        bufferReceive s env (Generated.MBUF_HDR_LEN - min Generated.MBUF_HDR_LEN s.rbuf.length) := by
      simp [bufferHdr, hne]
    generalize hq : bufferReceive s env (Generated.MBUF_HDR_LEN - min Generated.MBUF_HDR_LEN s.rbuf.length)
      = q at br hh
    have hs := br.same
    cases hr : q.2.2 with
    | full =>
      have hfl := br.full hr
      have hl4 : q.1.rbuf.length = 4 := by simp only [Generated.MBUF_HDR_LEN] at hfl; omega
      have hval : bufferMsg s env = bufferPayload q.1 q.2.1 := by simp [bufferMsg, hh, hr]
      rw [hval]
      have bp := bufferPayload_spec q.1 q.2.1 (by omega) (fun hv => by
        have := hdrValid_bounds hv; omega) (fun _ => hl4) br.segs
      refine ⟨(by rw [bp.stream, br.stream]), ?_, ?_, bp.noAbort, ⟨bp.same.1.trans hs.1, bp.same.2.trans hs.2.1⟩,
        ⟨bp.envSame.1.trans br.envSame.1, bp.envSame.2.1.trans br.envSame.2.1,
          bp.envSame.2.2.trans br.envSame.2.2⟩, bp.segs, bp.bound⟩
      · intro hf
        obtain ⟨a1, a2, a3, a4, a5⟩ := bp.full hf
        exact ⟨a1, a2, a3, a4.trans hs.2.2.2, (by rw [a5, hs.2.2.1])⟩
      · intro hnf
        obtain ⟨a1, a2, a3⟩ := bp.notFull hnf
        refine ⟨a1, a2.trans hs.2.2.1, ?_⟩
        rcases a3 with a3 | a3
        · exact Or.inl (a3.trans hs.2.2.2)
        · exact Or.inr a3
    | closed =>
      have hval : bufferMsg s env = (q.1, q.2.1, .closed) := by simp [bufferMsg, hh, hr]
      rw [hval]
      have hnf := br.notFull (by rw [hr]; simp)
      refine ⟨br.stream, (fun h => by cases h), fun _ => ⟨Or.inl ?_, hs.2.2.1, Or.inl hs.2.2.2⟩, (by simp),
        ⟨hs.1, hs.2.1⟩, br.envSame, br.segs, ?_⟩
      · dsimp only; simp only [Generated.MBUF_HDR_LEN] at hnf; omega
      · dsimp only; simp only [Generated.MBUF_HDR_LEN, Generated.MBUF_WIRE_MAX] at *; omega
    | err e =>
      have hval : bufferMsg s env = (q.1, q.2.1, .err e) := by simp [bufferMsg, hh, hr]
      rw [hval]
      have hnf := br.notFull (by rw [hr]; simp)
      refine ⟨br.stream, (fun h => by cases h), fun _ => ⟨Or.inl ?_, hs.2.2.1, Or.inl hs.2.2.2⟩, (by simp),
        ⟨hs.1, hs.2.1⟩, br.envSame, br.segs, ?_⟩
      · dsimp only; simp only [Generated.MBUF_HDR_LEN] at hnf; omega
      · dsimp only; simp only [Generated.MBUF_HDR_LEN, Generated.MBUF_WIRE_MAX] at *; omega
    | abort => exact absurd hr br.noAbort
  · -- header complete and valid, payload incomplete
    have hz : Generated.MBUF_HDR_LEN - min Generated.MBUF_HDR_LEN s.rbuf.length = 0 := by
      simp only [Generated.MBUF_HDR_LEN]; omega
    have hh : bufferHdr s env = (s, env, .full) := by simp [bufferHdr, hz]
    have hval : bufferMsg s env = bufferPayload s env := by simp [bufferMsg, hh]
    rw [hval]
    exact bufferPayload_spec s env h4 (fun _ => hlt) (fun hv' => by rw [hv] at hv'; cases hv') hseg
  · exact absurd hbad hb

end XcmModel.Framing
